(* Builder/Mirror.v - C03_mirror: whenever the line machine accepts, the model it returns is the declaratively defined
   content of the text (Builder/Spec.v). *)
From Coq Require Import ZArith List Bool Lia.
From PV Require Import Builder.Lines Builder.Basics Builder.Spec.
Import ListNotations.
Open Scope Z_scope.

Section Mirror.
Variables T V D W : Type.
Variable read_dep : D -> W -> W * option eloc.
Variable emit : Z -> text -> W -> W.

Notation st := (st T V W).
Notation line := (line T V D).
Notation schema := (schema T V).
Notation flush := (flush T V W).
Notation step_pre := (step_pre T V D W read_dep).
Notation run_pre := (run_pre T V D W read_dep).
Notation do_dir := (do_dir T V W emit).
Notation do_act := (do_act T V W emit).
Notation do_stmt := (do_stmt T V D W read_dep emit).
Notation step_line := (step_line T V D W read_dep emit).
Notation run_from := (run_from T V D W read_dep emit).
Notation run_upto := (run_upto T V D W read_dep emit).
Notation next_line := (next_line T V D W).
Notation good := (good T V W).
Notation header := (header T V W).
Notation pending := (pending T V W).
Notation comment := (comment T V W).
Notation cur := (cur T V W).
Notation closed := (closed T V W).
Notation deprecated := (deprecated T V W).
Notation set_buf := (set_buf T V W).
Notation add_attr := (add_attr T V).
Notation own := (own T V D).
Notation lead := (lead T V D).
Notation attrs_of := (attrs_of T V D).
Notation quietb := (quietb T V D).

(* the current schema as it will be once the buffered comment has been flushed *)
Definition flushed (s : st) : schema :=
  if header s then set_doc T V (comment s) (cur s)
  else match pending s with
       | Some (a, _, _) => add_attr a (comment s) (cur s)
       | None => cur s
       end.

(* fields, constants and doc agree (flags and the offset mark are tracked separately) *)
Definition ceq (c1 c2 : schema) : Prop :=
  c_fields T V c1 = c_fields T V c2 /\ c_consts T V c1 = c_consts T V c2 /\ c_doc T V c1 = c_doc T V c2.

Lemma ceq_refl : forall c, ceq c c.
Proof. intros c. repeat split. Qed.
Lemma ceq_sym : forall a b, ceq a b -> ceq b a.
Proof. intros a b (H1 & H2 & H3). repeat split; congruence. Qed.
Lemma ceq_trans : forall a b c, ceq a b -> ceq b c -> ceq a c.
Proof. intros a b c (H1 & H2 & H3) (K1 & K2 & K3). repeat split; congruence. Qed.

Lemma ceq_add_attr : forall a d c1 c2, ceq c1 c2 -> ceq (add_attr a d c1) (add_attr a d c2).
Proof.
  intros a d c1 c2 (H1 & H2 & H3). unfold Lines.add_attr. destruct (fieldlike T V a); repeat split; cbn; congruence.
Qed.

(* what flush does *)
Lemma flush_spec : forall s f : st, flush s = Ok f ->
  cur f = flushed s /\ header f = false /\ comment f = [] /\ closed f = closed s /\ deprecated f = deprecated s
  /\ pending f = (if header s then pending s else None).
Proof.
  intros [c h p cl cu d ln w] f. unfold Lines.flush, flushed. cbn.
  destruct h.
  - intros E; inversion E; cbn. auto 10.
  - destruct p as [[[a cf] k]|]; [destruct (commit_fails T V a cf cu)|]; intros E; inversion E; cbn; auto 10.
Qed.

Lemma flushed_after_flush : forall s f : st, good s -> flush s = Ok f -> flushed f = flushed s /\ pending f = None.
Proof.
  intros s f G E. destruct (flush_spec _ _ E) as (H1 & H2 & H3 & H4 & H5 & H6).
  assert (P : pending f = None).
  { rewrite H6. destruct (header s) eqn:Eh; [apply G; exact Eh|reflexivity]. }
  split; [|exact P]. unfold flushed at 1. rewrite H2, P. exact H1.
Qed.

(* flags of the current schema *)
Definition flags (c : schema) : option mode * bool := (c_mode T V c, c_union T V c).

Lemma flags_flushed : forall s : st, flags (flushed s) = flags (cur s).
Proof.
  intros [c h p cl cu d ln w]. unfold flushed, flags. cbn.
  destruct h; [reflexivity|]. destruct p as [[[a cf] k]|]; [|reflexivity].
  unfold Lines.add_attr. destruct (fieldlike T V a); reflexivity.
Qed.

(* the events before the statement handler change neither the content nor the flags *)
Lemma step_pre_inv : forall p (s s2 : st), good s -> step_pre p s = Ok s2 ->
  ceq (flushed s2) (flushed s) /\ flags (cur s2) = flags (cur s) /\ closed s2 = closed s /\ deprecated s2 = deprecated s.
Proof.
  intros p s s2 G. destruct p; cbn.
  - intros E. destruct (flushed_after_flush _ _ G E) as [H1 _]. destruct (flush_spec _ _ E) as (K1 & _ & _ & K4 & K5 & _).
    rewrite H1. split; [apply ceq_refl|]. split; [rewrite K1; apply flags_flushed|auto].
  - intros E; inversion E; subst. destruct s as [c h p cl cu d ln w]. unfold flushed, flags, ceq. cbn.
    split; [|auto]. destruct h; [cbn; auto|]. destruct p as [[[a cf] k]|]; [|cbn; auto].
    unfold Lines.add_attr. destruct (fieldlike T V a); cbn; auto.
  - discriminate.
  - destruct (read_dep d (world T V W s)) as [w1 [e|]]; [discriminate|]. intros E; inversion E; subst.
    destruct s as [c h p cl cu dd ln w]. unfold flushed, flags, ceq. cbn. auto 10.
Qed.

Lemma run_pre_inv : forall ps (s s2 : st), good s -> run_pre ps s = Ok s2 ->
  good s2 /\ ceq (flushed s2) (flushed s) /\ flags (cur s2) = flags (cur s) /\ closed s2 = closed s /\ deprecated s2 = deprecated s.
Proof.
  induction ps as [|p ps IH]; intros s s2 G; cbn.
  - intros E; inversion E; subst. split; [exact G|]. split; [apply ceq_refl|auto].
  - destruct (step_pre p s) as [s1|] eqn:E1; [|discriminate]. cbn. intros E.
    pose proof (step_pre_good T V D W read_dep _ _ _ G E1) as G1.
    destruct (step_pre_inv _ _ _ G E1) as (A1 & A2 & A3 & A4).
    destruct (IH _ _ G1 E) as (B0 & B1 & B2 & B3 & B4).
    split; [exact B0|]. split; [eapply ceq_trans; eauto|]. repeat split; congruence.
Qed.

(* ---- one line ---- *)

Notation mkdoc_from := Spec.mkdoc_from.
Notation mkdoc := Spec.mkdoc.
Notation attr_of := (attr_of T V D).
Notation is_marker := (is_marker T V D).
Notation dir_of := (dir_of T V D).

(* the comment buffer continued with the given comments *)
Definition with_doc (s : st) (cs : list text) : st := set_buf (mkdoc_from (comment s) cs) s.
(* the current schema as it will be once the quiet lines at the beginning of r have been absorbed and flushed *)
Definition carry (s : st) (r : list line) : schema := flushed (with_doc s (lead r)).
Definition ext1 (c : schema) (l : line) (r : list line) : schema :=
  match attr_of l with Some a => add_attr a (mkdoc (own l ++ lead r)) c | None => c end.

Lemma mkdoc_from_app : forall b xs ys, mkdoc_from b (xs ++ ys) = mkdoc_from (mkdoc_from b xs) ys.
Proof. intros. unfold Spec.mkdoc_from. apply fold_left_app. Qed.

Lemma flushed_quiet : forall (s : st), header s = false -> pending s = None -> forall b, flushed (set_buf b s) = cur s.
Proof. intros [c h p cl cu d ln w] H P b. cbn in H, P. subst. reflexivity. Qed.

Lemma flushed_next_line : forall l (s : st), flushed (next_line l s) = flushed s.
Proof. intros l [c h p cl cu d ln w]. reflexivity. Qed.

Lemma carry_next_line : forall l (s : st) r, carry (next_line l s) r = carry s r.
Proof. intros l [c h p cl cu d ln w] r. reflexivity. Qed.

Lemma do_dir_content : forall k g sh (f s3 : st), do_dir k g sh f = Ok s3 -> ceq (cur s3) (cur f).
Proof.
  intros k g sh f s3. unfold Lines.do_dir, raise_here, raise_at.
  destruct k.
  - intros E; inversion E. apply ceq_refl.
  - destruct g as [|[|]| |]; intros E; inversion E; apply ceq_refl.
  - destruct (c_mode T V (cur f)); [discriminate|]. destruct g; intros E; inversion E; destruct f; repeat split.
  - destruct (c_mode T V (cur f)); [discriminate|]. destruct g; intros E; inversion E; destruct f; repeat split.
  - destruct g; try discriminate. destruct (_ || _); intros E; inversion E; destruct f; repeat split.
  - destruct g; try discriminate. destruct (_ || _); intros E; inversion E; destruct f; repeat split.
  - discriminate.
Qed.

Lemma line_content : forall l r (s s1 : st), good s -> is_marker l = false -> step_line l s = Ok s1 ->
  ceq (carry (next_line l s1) r) (ext1 (carry s (l :: r)) l r).
Proof.
  intros l r s s1 G M. rewrite carry_next_line. unfold Lines.step_line, carry, ext1, with_doc, Spec.attr_of, Spec.is_marker in *.
  cbn [Spec.lead]. unfold Spec.quietb, is_empty_text, Spec.own.
  destruct (l_stmt T V D l) as [[pre act]|] eqn:Es.
  - (* a statement line *)
    unfold Lines.do_stmt. cbn [s_pre s_act].
    destruct (run_pre pre s) as [s2|] eqn:E2; [|discriminate]. cbn [Lines.bind].
    destruct (run_pre_inv _ _ _ G E2) as (G2 & C2 & _).
    unfold Lines.do_act. destruct (flush s2) as [f|] eqn:Ef; [|discriminate]. cbn [Lines.bind].
    destruct (flush_spec _ _ Ef) as (K1 & K2 & K3 & _).
    destruct (flushed_after_flush _ _ G2 Ef) as [_ Pf].
    assert (B : flushed (set_buf (mkdoc_from (comment s) []) s) = flushed s) by (destruct s; reflexivity).
    rewrite B.
    destruct act as [a cf|k g sh|]; [| |discriminate].
    + destruct (c_mode T V (cur f)) as [[|z]|]; unfold raise_here, raise_at; intros E; inversion E; subst; clear E;
        (eapply ceq_trans; [|apply ceq_add_attr; exact C2]); rewrite <- K1;
        destruct f as [c h p cl cu d ln w]; cbn in K2, K3, Pf; subst;
        unfold add_comment; destruct (l_comment T V D l); cbn; unfold flushed; cbn;
        rewrite ?mkdoc_from_app; apply ceq_refl.
    + destruct (do_dir k g sh f) as [s3|] eqn:E3; [|discriminate]. cbn [Lines.bind]. intros E; inversion E; subst; clear E.
      destruct (do_dir_frame T V W emit _ _ _ _ _ E3) as (H1 & H2 & _).
      pose proof (do_dir_content _ _ _ _ _ E3) as C3.
      assert (Q : forall b, flushed (set_buf b (add_comment T V D W l s3)) = cur s3).
      { intros b. unfold add_comment. destruct (l_comment T V D l); destruct s3 as [c h p cl cu d ln w]; cbn in *;
          rewrite K2 in H1; rewrite Pf in H2; subst; reflexivity. }
      rewrite Q. eapply ceq_trans; [exact C3|]. rewrite K1. exact C2.
  - (* no statement *)
    cbn [Lines.bind]. destruct (l_comment T V D l) as [c|] eqn:Ec.
    + intros E; inversion E; subst; clear E. cbn [negb]. rewrite mkdoc_from_app.
      destruct s as [c0 h p cl cu d ln w]. unfold add_comment. rewrite Ec. cbn. apply ceq_refl.
    + destruct (negb (l_blanks T V D l)) eqn:Eb; cbn [negb].
      * intros E. unfold add_comment in E. rewrite Ec in E.
        destruct (flush_spec _ _ E) as (K1 & K2 & K3 & _). destruct (flushed_after_flush _ _ G E) as [_ Pf].
        rewrite (flushed_quiet _ K2 Pf). rewrite K1.
        assert (B : flushed (set_buf (mkdoc_from (comment s) []) s) = flushed s) by (destruct s; reflexivity).
        rewrite B. apply ceq_refl.
      * intros E; inversion E; subst; clear E. unfold add_comment. rewrite Ec. cbn [app]. apply ceq_refl.
Qed.

(* ---- a run of lines without marker ---- *)

Definition ext (c : schema) (ads : list (attr T V * text)) : schema :=
  fold_left (fun c ad => add_attr (fst ad) (snd ad) c) ads c.

Lemma ext_ceq : forall ads c1 c2, ceq c1 c2 -> ceq (ext c1 ads) (ext c2 ads).
Proof.
  induction ads as [|ad ads IH]; intros c1 c2 H; [exact H|].
  change (ceq (ext (add_attr (fst ad) (snd ad) c1) ads) (ext (add_attr (fst ad) (snd ad) c2) ads)).
  apply IH. apply ceq_add_attr. exact H.
Qed.

Lemma ext_content : forall ads c,
  c_fields T V (ext c ads) = c_fields T V c ++ filter (is_field T V) ads
  /\ c_consts T V (ext c ads) = c_consts T V c ++ filter (is_const T V) ads
  /\ c_doc T V (ext c ads) = c_doc T V c.
Proof.
  induction ads as [|[a d] ads IH]; intros c.
  - cbn. rewrite !app_nil_r. auto.
  - change (ext c ((a, d) :: ads)) with (ext (add_attr a d c) ads).
    destruct (IH (add_attr a d c)) as (H1 & H2 & H3). rewrite H1, H2, H3.
    cbn [filter]. unfold Lines.add_attr, Spec.is_field, Spec.is_const. cbn [fst].
    destruct (fieldlike T V a); cbn; rewrite <- ?app_assoc; auto.
Qed.

Definition no_marker (ls : list line) : Prop := Forall (fun l => is_marker l = false) ls.

Lemma step_line_closed : forall l (s s1 : st), good s -> is_marker l = false -> step_line l s = Ok s1 ->
  closed s1 = closed s.
Proof.
  intros l s s1 G M. unfold Lines.step_line, Spec.is_marker in *.
  assert (A : forall s0 : st, closed (add_comment T V D W l s0) = closed s0).
  { intros s0. unfold add_comment. destruct (l_comment T V D l); reflexivity. }
  destruct (l_stmt T V D l) as [[pre act]|] eqn:Es.
  - unfold Lines.do_stmt. cbn [s_pre s_act].
    destruct (run_pre pre s) as [s2|] eqn:E2; [|discriminate]. cbn [Lines.bind].
    destruct (run_pre_inv _ _ _ G E2) as (_ & _ & _ & C2 & _).
    unfold Lines.do_act. destruct (flush s2) as [f|] eqn:Ef; [|discriminate]. cbn [Lines.bind].
    destruct (flush_spec _ _ Ef) as (_ & _ & _ & K4 & _).
    unfold is_empty_text. rewrite Es.
    destruct act as [a cf|k g sh|]; [| |discriminate].
    + destruct (c_mode T V (cur f)) as [[|z]|]; unfold raise_here, raise_at; intros E; inversion E; rewrite A; cbn; congruence.
    + destruct (do_dir k g sh f) as [s3|] eqn:E3; [|discriminate]. cbn [Lines.bind]. intros E; inversion E; subst.
      destruct (do_dir_frame T V W emit _ _ _ _ _ E3) as (_ & _ & _ & _ & H5). rewrite A. congruence.
  - cbn [Lines.bind]. destruct (is_empty_text T V D l).
    + intros E. destruct (flush_spec _ _ E) as (_ & _ & _ & K4 & _). rewrite K4. apply A.
    + intros E; inversion E. apply A.
Qed.

Theorem section_content : forall ls (s s' : st), good s -> no_marker ls -> run_upto ls s = Ok s' ->
  good s' /\ closed s' = closed s /\ ceq (flushed s') (ext (carry s ls) (attrs_of ls)).
Proof.
  induction ls as [|l r IH]; intros s s' G M; cbn [Basics.run_upto].
  - intros E; inversion E; subst. split; [exact G|]. split; [reflexivity|]. cbn.
    unfold carry, with_doc. cbn. destruct s'; apply ceq_refl.
  - inversion M as [|? ? M1 M2]; subst.
    destruct (step_line l s) as [s1|] eqn:E1; [|discriminate]. cbn [Lines.bind]. intros E.
    pose proof (step_line_good T V D W read_dep emit _ _ _ G E1) as G1.
    assert (G1' : good (next_line l s1)) by exact G1.
    destruct (IH _ _ G1' M2 E) as (Gs & Cl & Ce).
    split; [exact Gs|]. split.
    + rewrite Cl. change (closed (next_line l s1)) with (closed s1). eapply step_line_closed; eauto.
    + pose proof (line_content l r s s1 G M1 E1) as LC.
      eapply ceq_trans; [exact Ce|]. eapply ceq_trans; [apply ext_ceq; exact LC|].
      unfold ext1. cbn [Spec.attrs_of]. destruct (attr_of l); apply ceq_refl.
Qed.

(* ---- flags ---- *)

Definition opt_list {A : Type} (o : option A) : list A := match o with Some x => [x] | None => [] end.
Definition line_modes (l : line) : list mode := match dir_of l with Some kg => mode_of_dir kg | None => [] end.
Definition line_is (k : dkind) (l : line) : bool := has_dir T V D k [l].

Lemma do_dir_flags : forall k g sh (f s3 : st), do_dir k g sh f = Ok s3 ->
  c_union T V (cur s3) = c_union T V (cur f) || (match k with KUnion => true | _ => false end)
  /\ opt_list (c_mode T V (cur s3)) = opt_list (c_mode T V (cur f)) ++ mode_of_dir (k, g)
  /\ deprecated s3 = deprecated f || (match k with KDeprecated => true | _ => false end).
Proof.
  intros k g sh f s3. unfold Lines.do_dir, raise_here, raise_at.
  destruct k.
  - intros E; inversion E; cbn. rewrite !orb_false_r, app_nil_r. auto.
  - destruct g as [|[|]| |]; intros E; inversion E; cbn; rewrite !orb_false_r, app_nil_r; auto.
  - destruct (c_mode T V (cur f)) eqn:Em; [discriminate|]. destruct g; intros E; inversion E; destruct f; cbn in *;
      rewrite ?Em, !orb_false_r; auto.
  - destruct (c_mode T V (cur f)) eqn:Em; [discriminate|]. destruct g; intros E; inversion E; destruct f; cbn in *;
      rewrite ?Em, !orb_false_r; auto.
  - destruct g; try discriminate. destruct (_ || _); intros E; inversion E; destruct f; cbn in *;
      rewrite !orb_false_r, app_nil_r, orb_true_r; auto.
  - destruct g; try discriminate. destruct (_ || _); intros E; inversion E; destruct f; cbn in *;
      rewrite !orb_false_r, app_nil_r, orb_true_r; auto.
  - discriminate.
Qed.

Lemma step_line_flags : forall l (s s1 : st), good s -> is_marker l = false -> step_line l s = Ok s1 ->
  c_union T V (cur s1) = c_union T V (cur s) || line_is KUnion l
  /\ opt_list (c_mode T V (cur s1)) = opt_list (c_mode T V (cur s)) ++ line_modes l
  /\ deprecated s1 = deprecated s || line_is KDeprecated l.
Proof.
  intros l s s1 G M. unfold Lines.step_line, Spec.is_marker, line_modes, line_is, Spec.has_dir, Spec.dir_of in *. cbn [existsb].
  assert (A : forall s0 : st, cur (add_comment T V D W l s0) = cur s0 /\ deprecated (add_comment T V D W l s0) = deprecated s0).
  { intros s0. unfold add_comment. destruct (l_comment T V D l); auto. }
  assert (FF : forall s0 f : st, flush s0 = Ok f -> flags (cur f) = flags (cur s0) /\ deprecated f = deprecated s0).
  { intros s0 f E. destruct (flush_spec _ _ E) as (K1 & _ & _ & _ & K5 & _). rewrite K1. split; [apply flags_flushed|exact K5]. }
  destruct (l_stmt T V D l) as [[pre act]|] eqn:Es.
  - unfold Lines.do_stmt. cbn [s_pre s_act].
    destruct (run_pre pre s) as [s2|] eqn:E2; [|discriminate]. cbn [Lines.bind].
    destruct (run_pre_inv _ _ _ G E2) as (_ & _ & F2 & _ & D2).
    unfold Lines.do_act. destruct (flush s2) as [f|] eqn:Ef; [|discriminate]. cbn [Lines.bind].
    destruct (FF _ _ Ef) as (Ff & Df). unfold flags in *.
    assert (Hu : c_union T V (cur f) = c_union T V (cur s)) by congruence.
    assert (Hm : c_mode T V (cur f) = c_mode T V (cur s)) by congruence.
    assert (Hd : deprecated f = deprecated s) by congruence.
    unfold is_empty_text. rewrite Es.
    destruct act as [a cf|k g sh|]; [| |discriminate].
    + destruct (c_mode T V (cur f)) as [[|z]|] eqn:Em; unfold raise_here, raise_at; intros E; inversion E;
        destruct (A (set_pending T V W (Some (a, cf, line_no T V W f)) f)) as [A1 A2]; rewrite A1, A2; cbn;
        rewrite !orb_false_r, app_nil_r; rewrite <- Hm, <- Hu, <- Hd; rewrite ?Em; auto.
    + destruct (do_dir k g sh f) as [s3|] eqn:E3; [|discriminate]. cbn [Lines.bind]. intros E; inversion E; subst.
      destruct (A s3) as [A1 A2]. rewrite A1, A2.
      destruct (do_dir_flags _ _ _ _ _ E3) as (H1 & H2 & H3). rewrite H1, H2, H3, Hu, Hm, Hd.
      rewrite !orb_false_r. destruct k; auto.
  - cbn [Lines.bind]. rewrite !orb_false_r, app_nil_r. destruct (is_empty_text T V D l).
    + intros E. destruct (FF _ _ E) as (Ff & Df). destruct (A s) as [A1 A2]. unfold flags in Ff.
      rewrite A1 in Ff. rewrite A2 in Df. inversion Ff. auto.
    + intros E; inversion E. destruct (A s) as [A1 A2]. rewrite A1, A2. auto.
Qed.

Theorem section_flags : forall ls (s s' : st), good s -> no_marker ls -> run_upto ls s = Ok s' ->
  c_union T V (cur s') = c_union T V (cur s) || has_dir T V D KUnion ls
  /\ opt_list (c_mode T V (cur s')) = opt_list (c_mode T V (cur s)) ++ mode_dirs T V D ls
  /\ deprecated s' = deprecated s || has_dir T V D KDeprecated ls.
Proof.
  induction ls as [|l r IH]; intros s s' G M; cbn [Basics.run_upto].
  - intros E; inversion E; subst. cbn. rewrite !orb_false_r, app_nil_r. auto.
  - inversion M as [|? ? M1 M2]; subst.
    destruct (step_line l s) as [s1|] eqn:E1; [|discriminate]. cbn [Lines.bind]. intros E.
    pose proof (step_line_good T V D W read_dep emit _ _ _ G E1) as G1.
    assert (G1' : good (next_line l s1)) by exact G1.
    destruct (IH _ _ G1' M2 E) as (H1 & H2 & H3).
    destruct (step_line_flags _ _ _ G M1 E1) as (K1 & K2 & K3).
    change (cur (next_line l s1)) with (cur s1) in *. change (deprecated (next_line l s1)) with (deprecated s1) in *.
    rewrite H1, H2, H3, K1, K2, K3. unfold line_is, line_modes, Spec.has_dir. cbn [existsb Spec.mode_dirs].
    rewrite !orb_false_r, <- !orb_assoc, <- app_assoc. auto.
Qed.

(* ---- the marker line, the end of the text, the whole definition ---- *)

Lemma marker_line : forall l (s s1 : st), good s -> is_marker l = true -> step_line l s = Ok s1 ->
  closed s = None /\ good s1 /\ exists c, closed s1 = Some c /\ ceq c (flushed s) /\ flags c = flags (cur s)
  /\ cur s1 = schema0 T V /\ header s1 = true /\ pending s1 = None /\ comment s1 = mkdoc (own l) /\ deprecated s1 = deprecated s.
Proof.
  intros l s s1 G M. pose proof (step_line_good T V D W read_dep emit l s s1 G) as GG.
  unfold Lines.step_line, Spec.is_marker, is_empty_text, Spec.own in *.
  destruct (l_stmt T V D l) as [[pre act]|] eqn:Es; [|discriminate]. destruct act; try discriminate.
  unfold Lines.do_stmt in *. cbn [s_pre s_act] in *.
  destruct (run_pre pre s) as [s2|] eqn:E2; [|discriminate]. cbn [Lines.bind] in *.
  destruct (run_pre_inv _ _ _ G E2) as (G2 & C2 & F2 & Cl2 & D2).
  unfold Lines.do_act in *. destruct (flush s2) as [f|] eqn:Ef; [|discriminate]. cbn [Lines.bind] in *.
  destruct (flush_spec _ _ Ef) as (K1 & K2 & K3 & K4 & K5 & _).
  destruct (flushed_after_flush _ _ G2 Ef) as [_ Pf].
  cbn in *. destruct (closed f) eqn:Ecl; unfold raise_here, raise_at in *; [discriminate|].
  intros E. split; [congruence|]. split; [exact (GG E)|]. inversion E; subst; clear E.
  exists (cur f). unfold add_comment. destruct f as [c h p cl cu d ln w]; cbn in *. subst.
  destruct (l_comment T V D l); cbn; (split; [reflexivity|]); (split; [exact C2|]);
    (split; [rewrite flags_flushed; exact F2|]); auto 10.
Qed.

Lemma closed_no_marker : forall ls (s s' : st) c, good s -> closed s = Some c -> run_upto ls s = Ok s' -> no_marker ls.
Proof.
  induction ls as [|l r IH]; intros s s' c G Hc; cbn [Basics.run_upto].
  - intros _. constructor.
  - destruct (step_line l s) as [s1|] eqn:E1; [|discriminate]. cbn [Lines.bind]. intros E.
    destruct (is_marker l) eqn:M.
    + destruct (marker_line _ _ _ G M E1) as (H & _). congruence.
    + constructor; [exact M|].
      pose proof (step_line_good T V D W read_dep emit _ _ _ G E1) as G1.
      eapply (IH (next_line l s1) s' c); [exact G1| |exact E].
      change (closed (next_line l s1)) with (closed s1). rewrite (step_line_closed _ _ _ G M E1). exact Hc.
Qed.

Lemma split_marker_spec : forall ls rq rest, split_marker T V D ls = (rq, rest) ->
  no_marker rq /\ match rest with
                  | None => ls = rq
                  | Some (ml, rs) => ls = rq ++ ml :: rs /\ is_marker ml = true
                  end.
Proof.
  induction ls as [|l r IH]; intros rq rest; cbn.
  - intros E; inversion E; subst. split; [constructor|reflexivity].
  - destruct (is_marker l) eqn:M.
    + intros E; inversion E; subst. split; [constructor|]. split; [reflexivity|exact M].
    + destruct (split_marker T V D r) as [a b] eqn:Er. intros E; inversion E; subst.
      destruct (IH _ _ eq_refl) as [H1 H2]. split; [constructor; assumption|].
      destruct rest as [[ml rs]|]; [destruct H2 as [H2 H3]; subst; auto|subst; reflexivity].
Qed.

Lemma run_from_upto : forall ls (s sN : st), run_from ls s = Ok sN -> exists n, run_upto ls s = Ok (set_line T V W n sN).
Proof.
  induction ls as [|l r IH]; intros s sN; cbn [Lines.run_from Basics.run_upto].
  - intros E; inversion E; subst. exists (line_no T V W sN). destruct sN; reflexivity.
  - destruct (step_line l s) as [s1|] eqn:E1; [|discriminate]. cbn [Lines.bind].
    destruct r as [|l2 r2].
    + intros E; inversion E; subst. cbn. eexists. reflexivity.
    + apply IH.
Qed.

Lemma close_spec : forall c k, close T V c = Some k ->
  k_fields T V k = c_fields T V c /\ k_consts T V k = c_consts T V c /\ k_doc T V k = c_doc T V c /\ k_union T V k = c_union T V c
  /\ exists mo, c_mode T V c = Some mo /\ k_extent T V k = match mo with MSealed => None | MDelimited z => Some z end.
Proof.
  intros c k. unfold close. destruct (c_mode T V c) as [mo|]; [|discriminate].
  destruct (c_union T V c && _); [discriminate|]. intros E; inversion E; cbn. repeat split. exists mo. auto.
Qed.

(* a section: the schema reached from a section start mirrors the lines of the section *)
Lemma section_mirrors : forall ls (s s' : st) hdr k, good s -> no_marker ls -> run_upto ls s = Ok s' ->
  header s = true -> cur s = schema0 T V -> comment s = mkdoc hdr ->
  forall c, ceq c (flushed s') -> flags c = flags (cur s') -> close T V c = Some k ->
  mirrors T V D (hdr ++ lead ls) ls k.
Proof.
  intros ls s s' hdr k G M E Hh Hc Hb c Ce Fl Ek.
  destruct (section_content _ _ _ G M E) as (_ & _ & C).
  destruct (section_flags _ _ _ G M E) as (F1 & F2 & _).
  destruct (close_spec _ _ Ek) as (K1 & K2 & K3 & K4 & mo & K5 & K6).
  destruct (ext_content (attrs_of ls) (carry s ls)) as (X1 & X2 & X3).
  destruct Ce as (Ce1 & Ce2 & Ce3). destruct C as (C1 & C2 & C3).
  assert (Hcarry : carry s ls = set_doc T V (mkdoc (hdr ++ lead ls)) (schema0 T V)).
  { unfold carry, with_doc. destruct s as [b h p cl cu d ln w]. cbn in Hh, Hc, Hb. subst. unfold flushed. cbn.
    unfold Spec.mkdoc at 2. rewrite mkdoc_from_app. reflexivity. }
  rewrite Hcarry in X1, X2, X3. cbn in X1, X2, X3.
  unfold flags in Fl. inversion Fl as [[Fm Fu]].
  rewrite Hc in F1, F2. cbn in F1, F2.
  unfold mirrors. repeat split.
  - congruence.
  - congruence.
  - congruence.
  - congruence.
  - exists mo. split; [|exact K6]. rewrite <- F2, <- Fm, K5. reflexivity.
Qed.

Lemma has_dir_app : forall k a b, has_dir T V D k (a ++ b) = has_dir T V D k a || has_dir T V D k b.
Proof. intros. unfold Spec.has_dir. apply existsb_app. Qed.

(* C03_mirror *)
Theorem mirror : forall ls w m w', Lines.run T V D W read_dep emit ls w = Ok (m, w') ->
  m_deprecated T V m = has_dir T V D KDeprecated ls
  /\ match split_marker T V D ls with
     | (rq, None) => mirrors T V D (lead rq) rq (m_req T V m) /\ m_resp T V m = None
     | (rq, Some (ml, rs)) => mirrors T V D (lead rq) rq (m_req T V m)
                              /\ exists k, m_resp T V m = Some k /\ mirrors T V D (own ml ++ lead rs) rs k /\ no_marker rs
     end.
Proof.
  intros ls w m w'. unfold Lines.run.
  destruct (run_from ls (init T V W w)) as [sN|] eqn:E1; [|discriminate]. cbn [Lines.bind].
  destruct (run_from_upto _ _ _ E1) as (n & EU).
  unfold Lines.finish. destruct (flush sN) as [f|] eqn:Ef; [|discriminate]. cbn [Lines.bind].
  destruct (flush_spec _ _ Ef) as (K1 & K2 & K3 & K4 & K5 & _).
  set (sN' := set_line T V W n sN) in *.
  assert (FN : flushed sN' = flushed sN) by (destruct sN; reflexivity).
  assert (CN : cur sN' = cur sN) by (destruct sN; reflexivity).
  assert (DN : deprecated sN' = deprecated sN) by (destruct sN; reflexivity).
  assert (LN : closed sN' = closed sN) by (destruct sN; reflexivity).
  pose proof (good_init T V W w) as G0.
  assert (I1 : header (init T V W w) = true) by reflexivity.
  assert (I2 : cur (init T V W w) = schema0 T V) by reflexivity.
  assert (I3 : comment (init T V W w) = mkdoc []) by reflexivity.
  destruct (split_marker T V D ls) as [rq rest] eqn:Esp.
  destruct (split_marker_spec _ _ _ Esp) as (Mrq & Hrest).
  destruct rest as [[ml rs]|].
  - (* service *)
    destruct Hrest as (-> & Mml).
    rewrite (run_upto_app T V D W read_dep emit) in EU.
    destruct (run_upto rq (init T V W w)) as [sa|] eqn:Ea; [|discriminate]. cbn [Lines.bind Basics.run_upto] in EU.
    destruct (step_line ml sa) as [sb|] eqn:Eb; [|discriminate]. cbn [Lines.bind] in EU.
    destruct (section_content _ _ _ G0 Mrq Ea) as (Ga & Cla & _).
    destruct (section_flags _ _ _ G0 Mrq Ea) as (_ & _ & Da).
    destruct (marker_line _ _ _ Ga Mml Eb) as (_ & Gb & c & Hc1 & Hc2 & Hc3 & Hb1 & Hb2 & Hb3 & Hb4 & Hb5).
    assert (Gb' : good (next_line ml sb)) by exact Gb.
    assert (Mrs : no_marker rs).
    { eapply (closed_no_marker rs (next_line ml sb) sN' c); [exact Gb'| |exact EU]. exact Hc1. }
    destruct (section_content _ _ _ Gb' Mrs EU) as (_ & Clb & _).
    destruct (section_flags _ _ _ Gb' Mrs EU) as (_ & _ & Db).
    change (closed (next_line ml sb)) with (closed sb) in Clb. change (deprecated (next_line ml sb)) with (deprecated sb) in Db.
    unfold Lines.finalize. rewrite K4, <- LN, Clb, Hc1.
    destruct (close T V c) as [kq|] eqn:Ekq; [|discriminate].
    destruct (close T V (cur f)) as [ks|] eqn:Eks; [|discriminate].
    intros E; inversion E; subst; clear E. cbn.
    split.
    + rewrite K5, <- DN, Db, Hb5, Da. cbn. rewrite has_dir_app. cbn.
      unfold Spec.has_dir at 3. cbn [existsb]. unfold Spec.dir_of.
      unfold Spec.is_marker in Mml. destruct (l_stmt T V D ml) as [[? [| |]]|]; try discriminate. cbn. reflexivity.
    + split.
      * pose proof (section_mirrors rq _ _ [] kq G0 Mrq Ea I1 I2 I3 c Hc2 Hc3 Ekq) as H. exact H.
      * exists ks. split; [reflexivity|]. split; [|exact Mrs].
        apply (section_mirrors rs (next_line ml sb) sN' (own ml) ks Gb' Mrs EU Hb2 Hb1 Hb4 (cur f)); [| |exact Eks].
        -- rewrite K1, <- FN. apply ceq_refl.
        -- rewrite K1, <- FN, flags_flushed. reflexivity.
  - (* message *)
    subst rq.
    destruct (section_content _ _ _ G0 Mrq EU) as (_ & Cl & _).
    destruct (section_flags _ _ _ G0 Mrq EU) as (_ & _ & Dd).
    unfold Lines.finalize. rewrite K4, <- LN, Cl. cbn [Lines.closed init].
    destruct (close T V (cur f)) as [kq|] eqn:Ekq; [|discriminate].
    intros E; inversion E; subst; clear E. cbn.
    split; [rewrite K5, <- DN, Dd; reflexivity|]. split; [|reflexivity].
    eapply (section_mirrors ls _ sN' [] kq G0 Mrq EU I1 I2 I3 (cur f)); [| |exact Ekq].
    + rewrite K1, <- FN. apply ceq_refl.
    + rewrite K1, <- FN, flags_flushed. reflexivity.
Qed.

(* each attribute statement exactly once, in source order *)
Lemma attrs_of_once : forall ls, map fst (attrs_of ls) = stmt_attrs T V D ls.
Proof. induction ls as [|l r IH]; cbn; [reflexivity|]. destruct (attr_of l); cbn; congruence. Qed.

Lemma filter_map_fst : forall (f : attr T V -> bool) (ads : list (attr T V * text)),
  map fst (filter (fun ad => f (fst ad)) ads) = filter f (map fst ads).
Proof. induction ads as [|ad ads IH]; cbn; [reflexivity|]. destruct (f (fst ad)); cbn; congruence. Qed.

Theorem mirrors_once : forall hdr ls k, mirrors T V D hdr ls k ->
  map fst (k_fields T V k) = filter (fieldlike T V) (stmt_attrs T V D ls)
  /\ map fst (k_consts T V k) = filter (fun a => negb (fieldlike T V a)) (stmt_attrs T V D ls).
Proof.
  intros hdr ls k (H1 & H2 & _). rewrite H1, H2. unfold Spec.is_field, Spec.is_const.
  rewrite (filter_map_fst (fieldlike T V)), (filter_map_fst (fun a => negb (fieldlike T V a))), attrs_of_once. auto.
Qed.

End Mirror.
