(* Builder/Basics.v - elementary facts about the line machine: flush is idempotent and does not look at the line counter,
   a run splits at any line, a final empty line changes nothing. *)
From Coq Require Import ZArith List Bool Lia.
From PV Require Import Builder.Lines.
Import ListNotations.
Open Scope Z_scope.

Section Basics.
Variables T V D W : Type.
Variable read_dep : D -> W -> W * option eloc.
Variable emit : Z -> text -> W -> W.

Notation st := (st T V W).
Notation line := (line T V D).
Notation flush := (flush T V W).
Notation step_line := (step_line T V D W read_dep emit).
Notation run_from := (run_from T V D W read_dep emit).
Notation next_line := (next_line T V D W).
Notation finish := (finish T V W).
Notation finalize := (finalize T V W).
Notation run := (run T V D W read_dep emit).
Notation res := (res W).
Notation bind := (bind W).

(* the state in front of the line that follows ls (the line counter has been advanced past every line of ls) *)
Fixpoint run_upto (ls : list line) (s : st) : res st :=
  match ls with
  | [] => Ok s
  | l :: r => bind (step_line l s) (fun s1 => run_upto r (next_line l s1))
  end.

Lemma bind_assoc : forall (A B C : Type) (r : res A) (f : A -> res B) (g : B -> res C),
  bind (bind r f) g = bind r (fun a => bind (f a) g).
Proof. intros. destruct r; reflexivity. Qed.

Lemma bind_ok : forall (A : Type) (r : res A), bind r (fun a => Ok a) = r.
Proof. intros. destruct r; reflexivity. Qed.

Lemma bind_ext : forall (A B : Type) (r : res A) (f g : A -> res B), (forall a, f a = g a) -> bind r f = bind r g.
Proof. intros. destruct r; simpl; auto. Qed.

Lemma run_from_split : forall p l r s, run_from (p ++ l :: r) s = bind (run_upto p s) (run_from (l :: r)).
Proof.
  induction p as [|x p IH]; intros l r s.
  - reflexivity.
  - change ((x :: p) ++ l :: r) with (x :: (p ++ l :: r)).
    cbn [Lines.run_from run_upto]. rewrite bind_assoc. apply bind_ext. intros s1.
    destruct (p ++ l :: r) eqn:E.
    + destruct p; discriminate.
    + rewrite <- E. apply IH.
Qed.

Lemma run_upto_app : forall p q s, run_upto (p ++ q) s = bind (run_upto p s) (run_upto q).
Proof.
  induction p as [|x p IH]; intros q s.
  - reflexivity.
  - cbn [app run_upto]. rewrite bind_assoc. apply bind_ext. intros. apply IH.
Qed.

Lemma run_from_last : forall p l s, run_from (p ++ [l]) s = bind (run_upto p s) (step_line l).
Proof.
  intros. rewrite run_from_split. apply bind_ext. intros a. cbn [Lines.run_from]. apply bind_ok.
Qed.

(* flush does not read the line counter, and a second flush finds nothing to do *)
Lemma flush_set_line : forall n (s : st),
  flush (set_line T V W n s) = match flush s with Ok s1 => Ok (set_line T V W n s1) | Err e w => Err e w end.
Proof.
  intros n [c h p cl cu d ln w]. unfold Lines.flush. cbn.
  destruct h.
  - reflexivity.
  - destruct p as [[[a cf] k]|]; [|reflexivity].
    destruct (commit_fails T V a cf _); reflexivity.
Qed.

(* reachable states never hold a queued attribute while the header flag is up *)
Definition good (s : st) : Prop := header T V W s = true -> pending T V W s = None.

Lemma good_init : forall w, good (init T V W w).
Proof. intros w _. reflexivity. Qed.

Lemma flush_good : forall (s s1 : st), flush s = Ok s1 -> header T V W s1 = false.
Proof.
  intros [c h p cl cu d ln w] s1. unfold Lines.flush. cbn.
  destruct h.
  - intros E; inversion E; reflexivity.
  - destruct p as [[[a cf] k]|].
    + destruct (commit_fails T V a cf _); intros E; inversion E; reflexivity.
    + intros E; inversion E; reflexivity.
Qed.

Lemma flush_idem : forall (s s1 : st), good s -> flush s = Ok s1 -> flush s1 = Ok s1.
Proof.
  intros [c h p cl cu d ln w] s1 G. unfold good in G. cbn in G. unfold Lines.flush. cbn.
  destruct h.
  - rewrite (G eq_refl). intros E; inversion E; reflexivity.
  - destruct p as [[[a cf] k]|].
    + destruct (commit_fails T V a cf _); intros E; inversion E; reflexivity.
    + intros E; inversion E; reflexivity.
Qed.

Lemma good_header_false : forall s : st, header T V W s = false -> good s.
Proof. intros s H G. rewrite H in G. discriminate. Qed.

Notation step_pre := (step_pre T V D W read_dep).
Notation run_pre := (run_pre T V D W read_dep).
Notation do_dir := (do_dir T V W emit).
Notation do_act := (do_act T V W emit).
Notation do_stmt := (do_stmt T V D W read_dep emit).

Lemma step_pre_good : forall p (s s1 : st), good s -> step_pre p s = Ok s1 -> good s1.
Proof.
  intros p s s1 G. destruct p; cbn.
  - intros E. apply good_header_false. eapply flush_good; eauto.
  - intros E. inversion E. exact G.
  - discriminate.
  - destruct (read_dep d (world T V W s)) as [w [e|]]; [discriminate|]. intros E. inversion E. exact G.
Qed.

Lemma run_pre_good : forall ps (s s1 : st), good s -> run_pre ps s = Ok s1 -> good s1.
Proof.
  induction ps as [|p ps IH]; intros s s1 G; cbn.
  - intros E. inversion E. subst. exact G.
  - destruct (step_pre p s) eqn:E1; [|discriminate]. cbn. apply IH. eapply step_pre_good; eauto.
Qed.

(* do_dir leaves the comment buffer, the header flag and the queued attribute alone *)
Lemma do_dir_frame : forall k g sh (s s1 : st), do_dir k g sh s = Ok s1 ->
  header T V W s1 = header T V W s /\ pending T V W s1 = pending T V W s /\ comment T V W s1 = comment T V W s
  /\ line_no T V W s1 = line_no T V W s /\ closed T V W s1 = closed T V W s.
Proof.
  intros k g sh s s1. unfold Lines.do_dir, raise_here, raise_at.
  destruct k.
  - intros E. inversion E. cbn. auto.
  - destruct g as [|[|]| |]; intros E; inversion E; auto.
  - destruct (c_mode T V (cur T V W s)); [discriminate|]. destruct g; intros E; inversion E; cbn; auto.
  - destruct (c_mode T V (cur T V W s)); [discriminate|]. destruct g; intros E; inversion E; cbn; auto.
  - destruct g; try discriminate. destruct (_ || _); intros E; inversion E; cbn; auto.
  - destruct g; try discriminate. destruct (_ || _); intros E; inversion E; cbn; auto.
  - discriminate.
Qed.

Lemma do_act_good : forall x (s s1 : st), good s -> do_act x s = Ok s1 -> good s1.
Proof.
  intros x s s1 G. unfold Lines.do_act. destruct (flush s) as [f|] eqn:Ef; [|discriminate]. cbn.
  pose proof (flush_good _ _ Ef) as Hf.
  assert (Pf : pending T V W f = None).
  { revert Ef. destruct s as [c h p cl cu d ln w]. unfold good in G. cbn in G. unfold Lines.flush. cbn.
    destruct h.
    - rewrite (G eq_refl). intros E; inversion E; reflexivity.
    - destruct p as [[[a cf] k]|]; [destruct (commit_fails T V a cf cu)|]; intros E; inversion E; reflexivity. }
  destruct x.
  - destruct (c_mode T V (cur T V W f)) as [[|e]|]; unfold raise_here, raise_at; intros E; inversion E;
      apply good_header_false; cbn; exact Hf.
  - intros E. apply do_dir_frame in E. destruct E as (H1 & _). apply good_header_false. congruence.
  - cbn. destruct (closed T V W f); unfold raise_here, raise_at; intros E; inversion E. intros _. cbn. exact Pf.
Qed.

Lemma step_line_good : forall l (s s1 : st), good s -> step_line l s = Ok s1 -> good s1.
Proof.
  intros l s s1 G. unfold Lines.step_line.
  destruct (l_stmt T V D l) as [x|].
  - unfold Lines.do_stmt. destruct (run_pre (s_pre T V D x) s) as [s2|] eqn:E2; [|discriminate]. cbn.
    destruct (do_act (s_act T V D x) s2) as [s3|] eqn:E3; [|discriminate]. cbn.
    assert (G3 : good s3) by (eapply do_act_good; [eapply run_pre_good; eauto|eauto]).
    assert (G4 : good (add_comment T V D W l s3)).
    { unfold add_comment. destruct (l_comment T V D l); [|exact G3]. exact G3. }
    destruct (is_empty_text T V D l).
    + intros E. apply good_header_false. eapply flush_good; eauto.
    + intros E. inversion E. subst. exact G4.
  - cbn. assert (G4 : good (add_comment T V D W l s)).
    { unfold add_comment. destruct (l_comment T V D l); exact G. }
    destruct (is_empty_text T V D l).
    + intros E. apply good_header_false. eapply flush_good; eauto.
    + intros E. inversion E. subst. exact G4.
Qed.

Lemma run_upto_good : forall ls (s s1 : st), good s -> run_upto ls s = Ok s1 -> good s1.
Proof.
  induction ls as [|l r IH]; intros s s1 G; cbn.
  - intros E. inversion E. subst. exact G.
  - destruct (step_line l s) as [s2|] eqn:E2; [|discriminate]. cbn. apply IH.
    pose proof (step_line_good _ _ _ G E2) as G2. exact G2.
Qed.

Lemma finalize_set_line : forall n (s : st), finalize (set_line T V W n s) = finalize s.
Proof. intros n [c h p cl cu d ln w]. reflexivity. Qed.

Lemma finish_set_line : forall n (s : st), finish (set_line T V W n s) = finish s.
Proof.
  intros. unfold Lines.finish. rewrite flush_set_line. destruct (flush s); cbn; [apply finalize_set_line|reflexivity].
Qed.

Lemma flush_finish : forall s : st, good s -> bind (flush s) finish = finish s.
Proof.
  intros s G. unfold Lines.finish. destruct (flush s) as [s1|] eqn:E; cbn; [|reflexivity].
  rewrite (flush_idem _ _ G E). reflexivity.
Qed.

Lemma step_empty_line : forall s : st, step_line (empty_line) s = flush s.
Proof. intros [c h p cl cu d ln w]. reflexivity. Qed.

(* every way the text can end: with or without a final line feed *)
Theorem final_newline : forall ls w, ls <> [] -> run (ls ++ [empty_line]) w = run ls w.
Proof.
  intros ls w NE. destruct (exists_last NE) as (p & l & ->).
  unfold Lines.run. rewrite <- app_assoc. cbn [app].
  rewrite run_from_split, run_from_last. rewrite !bind_assoc.
  destruct (run_upto p (init T V W w)) as [s'|] eqn:Ep; cbn; [|reflexivity].
  pose proof (run_upto_good _ _ _ (good_init w) Ep) as G'.
  destruct (step_line l s') as [s1|] eqn:E1; cbn; [|reflexivity].
  pose proof (step_line_good _ _ _ G' E1) as G1.
  rewrite bind_ok. unfold Lines.next_line. rewrite flush_set_line.
  destruct (flush s1) as [s2|] eqn:E2.
  - cbn. rewrite finish_set_line. unfold Lines.finish. rewrite E2. cbn.
    rewrite (flush_idem _ _ G1 E2). reflexivity.
  - cbn. unfold Lines.finish. rewrite E2. reflexivity.
Qed.

End Basics.
