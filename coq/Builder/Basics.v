(* Builder/Basics.v - elementary facts about the line machine: flush is idempotent and does not look at the line counter,
   a run splits at any line, a final empty line changes nothing. *)
From Coq Require Import ZArith List Bool Lia.
From PV Require Import Builder.Lines.
Import ListNotations.
Open Scope Z_scope.

Section Basics.
Variables T V D W : Type.
Variable read_dep : D -> W -> W * option eloc.
Variable emit : Z -> text -> W -> W.

Notation st := (st T V W).
Notation line := (line T V D).
Notation flush := (flush T V W).
Notation step_line := (step_line T V D W read_dep emit).
Notation run_from := (run_from T V D W read_dep emit).
Notation next_line := (next_line T V D W).
Notation finish := (finish T V W).
Notation finalize := (finalize T V W).
Notation run := (run T V D W read_dep emit).
Notation res := (res W).
Notation bind := (bind W).

(* the state in front of the line that follows ls (the line counter has been advanced past every line of ls) *)
Fixpoint run_upto (ls : list line) (s : st) : res st :=
  match ls with
  | [] => Ok s
  | l :: r => bind (step_line l s) (fun s1 => run_upto r (next_line l s1))
  end.

Lemma bind_assoc : forall (A B C : Type) (r : res A) (f : A -> res B) (g : B -> res C),
  bind (bind r f) g = bind r (fun a => bind (f a) g).
Proof. intros. destruct r; reflexivity. Qed.

Lemma bind_ok : forall (A : Type) (r : res A), bind r (fun a => Ok a) = r.
Proof. intros. destruct r; reflexivity. Qed.

Lemma bind_ext : forall (A B : Type) (r : res A) (f g : A -> res B), (forall a, f a = g a) -> bind r f = bind r g.
Proof. intros. destruct r; simpl; auto. Qed.

Lemma run_from_split : forall p l r s, run_from (p ++ l :: r) s = bind (run_upto p s) (run_from (l :: r)).
Proof.
  induction p as [|x p IH]; intros l r s.
  - reflexivity.
  - change ((x :: p) ++ l :: r) with (x :: (p ++ l :: r)).
    cbn [Lines.run_from run_upto]. rewrite bind_assoc. apply bind_ext. intros s1.
    destruct (p ++ l :: r) eqn:E.
    + destruct p; discriminate.
    + rewrite <- E. apply IH.
Qed.

Lemma run_upto_app : forall p q s, run_upto (p ++ q) s = bind (run_upto p s) (run_upto q).
Proof.
  induction p as [|x p IH]; intros q s.
  - reflexivity.
  - cbn [app run_upto]. rewrite bind_assoc. apply bind_ext. intros. apply IH.
Qed.

Lemma run_from_last : forall p l s, run_from (p ++ [l]) s = bind (run_upto p s) (step_line l).
Proof.
  intros. rewrite run_from_split. apply bind_ext. intros a. cbn [Lines.run_from]. apply bind_ok.
Qed.

(* flush does not read the line counter, and a second flush finds nothing to do *)
Lemma flush_set_line : forall n (s : st),
  flush (set_line T V W n s) = match flush s with Ok s1 => Ok (set_line T V W n s1) | Err e w => Err e w end.
Proof.
  intros n [c h p cl cu d ln w]. unfold Lines.flush. cbn.
  destruct h.
  - reflexivity.
  - destruct p as [[[a cf] k]|]; [|reflexivity].
    destruct (commit_fails T V a cf _); reflexivity.
Qed.

(* reachable states never hold a queued attribute while the header flag is up *)
Definition good (s : st) : Prop := header T V W s = true -> pending T V W s = None.

Lemma good_init : forall w, good (init T V W w).
Proof. intros w _. reflexivity. Qed.

Lemma flush_good : forall (s s1 : st), flush s = Ok s1 -> header T V W s1 = false.
Proof.
  intros [c h p cl cu d ln w] s1. unfold Lines.flush. cbn.
  destruct h.
  - intros E; inversion E; reflexivity.
  - destruct p as [[[a cf] k]|].
    + destruct (commit_fails T V a cf _); intros E; inversion E; reflexivity.
    + intros E; inversion E; reflexivity.
Qed.

Lemma flush_idem : forall (s s1 : st), good s -> flush s = Ok s1 -> flush s1 = Ok s1.
Proof.
  intros [c h p cl cu d ln w] s1 G. unfold good in G. cbn in G. unfold Lines.flush. cbn.
  destruct h.
  - rewrite (G eq_refl). intros E; inversion E; reflexivity.
  - destruct p as [[[a cf] k]|].
    + destruct (commit_fails T V a cf _); intros E; inversion E; reflexivity.
    + intros E; inversion E; reflexivity.
Qed.

End Basics.
