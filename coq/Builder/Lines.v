(* Builder/Lines.v - the statement stream machine of pydsdl: _parser._ParseTreeProcessor (visitor order, comment buffer,
   header flag, line counter) + _data_type_builder.DataTypeBuilder (queued attribute, schema builders, directives,
   finalize).  DEFINITIONS ONLY (no proofs).  Shared by C03, C17 (and reusable by C05/C08).

   Derived from traces of the real parser with a logging StatementStreamProcessor (see harness/props/c03.py, TRACE):
     a definition is   line (end_of_line line)*        - a text with k line feeds has k+1 lines, the last may be empty
     a line is         statement? blanks? comment?     - no blanks BEFORE a statement (syntax error)
   Visiting order of one line (post-order walk of the parse tree):
     1. the sub-tree of the statement, left to right: every identifier node calls _flush_comment() *before* it is resolved;
        type constructors / operators / resolve_* may raise; a versioned type reference reads the dependency;
     2. the statement visitor: _flush_comment(), then the on_* handler of the builder (queue / directive / marker);
     3. the comment node: appended to the comment buffer;
     4. visit_line: when the text of the line is the empty string: _flush_comment();
     5. visit_end_of_line (only between lines): current line += 1 + line feeds inside string literals of the line.
   At the end of the text parse() calls flush() once more (fix 754220d) and read() calls finalize().
   Errors: a raise while a statement is visited gets the current line; a raise while the queued attribute is constructed
   gets the line remembered with it (fix beef4c7); an error that comes out of a nested read() already has a path and keeps
   its line or absence of line (fix e846190); finalize() errors have no line.
   Proofs about this machine: Basics.v, LineProofs.v, Mirror.v, Blank.v, Extra.v, Accept.v, RenderProofs.v, ReaderProofs.v,
   PrintProofs.v; declarative spec: Spec.v; canonical text: Render.v; namespace reader: Reader.v.

   Payloads are abstract:  T - a type as written (already resolved), V - an evaluated constant value,
   D - a reference to a dependency, W - the world threaded through dependency reads and @print deliveries. *)
From Coq Require Import ZArith List Bool.
Import ListNotations.
Open Scope Z_scope.

Definition text := list Z.            (* strings are lists of Unicode code points *)

Fixpoint text_eqb (a b : text) : bool :=
  match a, b with
  | [], [] => true
  | x :: a', y :: b' => (x =? y) && text_eqb a' b'
  | _, _ => false
  end.

Definition is_nil {A : Type} (l : list A) : bool := match l with [] => true | _ => false end.

(* Error location as carried by pydsdl.Error: both parts optional, filled in innermost first
   (Error.set_error_location_if_unknown). *)
Record eloc := ELoc { e_path : option text; e_line : option Z }.

Definition fill_line (e : eloc) (n : Z) : eloc :=
  match e_line e with Some _ => e | None => ELoc (e_path e) (Some n) end.
Definition fill_path (e : eloc) (p : text) : eloc :=
  match e_path e with Some _ => e | None => ELoc (Some p) (e_line e) end.
(* _parser.parse(), except clause (fix e846190): the local line is injected only when the error has no path yet; an error
   that comes out of a nested read() already carries the other file's path, its line (possibly None) refers to that file *)
Definition inject_line (e : eloc) (n : Z) : eloc :=
  match e_path e with Some _ => e | None => fill_line e n end.

(* visit_comment: the text after '#', one leading blank removed, joined with a line feed unless the buffer is "" *)
Definition strip_comment (c : text) : text := match c with 32 :: r => r | _ => c end.
Definition cappend (buf c : text) : text :=
  if is_nil buf then strip_comment c else buf ++ 10 :: strip_comment c.

Inductive dkind := KPrint | KAssert | KExtent | KSealed | KUnion | KDeprecated | KUnknown.
(* value of the directive's expression as far as the handlers look at it *)
Inductive darg := GNone | GBool (b : bool) | GInt (z : Z) | GOther.
Inductive mode := MSealed | MDelimited (extent : Z).

Section Machine.
Variables T V D W : Type.

(* result of a run: the world is returned in both cases (prints delivered before an error stay delivered) *)
Inductive res (A : Type) := Ok (a : A) | Err (e : eloc) (w : W).
Arguments Ok {A}. Arguments Err {A}.
Definition bind {A B : Type} (r : res A) (f : A -> res B) : res B :=
  match r with Ok a => f a | Err e w => Err e w end.

(* reading a dependency: new world, and the error of the inner read() if it raised *)
Variable read_dep : D -> W -> W * option eloc.
(* the print handler: line number, str(value) *)
Variable emit : Z -> text -> W -> W.

(* what happens while the sub-tree of a statement is visited, before the statement visitor itself *)
Inductive pre :=
| PIdent               (* an identifier node: _flush_comment() *)
| POffset              (* the identifier just visited resolves to _offset_: DataSchemaBuilder.offset marks "computed" *)
| PRaise               (* an InvalidDefinitionError is raised here (type constructor, operator, undefined identifier/type, literal) *)
| PRead (d : D).       (* resolve_versioned_data_type found the definition and reads it *)

Inductive attr :=
| AField (t : T) (n : text)
| APad (t : T)
| AConst (t : T) (n : text) (v : V).
Definition fieldlike (a : attr) : bool := match a with AConst _ _ _ => false | _ => true end.

Inductive action :=
| XAttr (a : attr) (cfault : bool)      (* cfault: constructing Field/PaddingField/Constant raises (name, value) *)
| XDir (k : dkind) (g : darg) (shown : text)   (* shown = str(value) or "" *)
| XMarker.

Record stmt := Stmt { s_pre : list pre; s_act : action }.

Record line := Line {
  l_stmt : option stmt;
  l_blanks : bool;            (* the line contains blanks (only relevant when there is neither statement nor comment) *)
  l_comment : option text;    (* text after '#' *)
  l_extra : Z                 (* raw line feeds inside string literals of the statement: physical lines - 1 *)
}.
Definition empty_line : line := Line None false None 0.
Definition is_empty_text (l : line) : bool :=
  match l_stmt l, l_comment l with None, None => negb (l_blanks l) | _, _ => false end.

(* DataSchemaBuilder *)
Record schema := Schema {
  c_fields : list (attr * text);   (* committed, in order, with their docs *)
  c_consts : list (attr * text);
  c_doc : text;
  c_mode : option mode;
  c_union : bool;
  c_offset : bool                  (* _bit_length_computed_at_least_once *)
}.
Definition schema0 : schema := Schema [] [] [] None false false.
Definition has_attrs (c : schema) : bool := negb (is_nil (c_fields c) && is_nil (c_consts c)).
Definition set_doc (d : text) (c : schema) := Schema (c_fields c) (c_consts c) d (c_mode c) (c_union c) (c_offset c).
Definition set_mode (m : mode) (c : schema) := Schema (c_fields c) (c_consts c) (c_doc c) (Some m) (c_union c) (c_offset c).
Definition set_union (c : schema) := Schema (c_fields c) (c_consts c) (c_doc c) (c_mode c) true (c_offset c).
Definition set_offset (c : schema) := Schema (c_fields c) (c_consts c) (c_doc c) (c_mode c) (c_union c) true.
Definition add_attr (a : attr) (doc : text) (c : schema) :=
  if fieldlike a then Schema (c_fields c ++ [(a, doc)]) (c_consts c) (c_doc c) (c_mode c) (c_union c) (c_offset c)
  else Schema (c_fields c) (c_consts c ++ [(a, doc)]) (c_doc c) (c_mode c) (c_union c) (c_offset c).

(* the mutable state of _ParseTreeProcessor + DataTypeBuilder; _structs = closed ++ [cur] *)
Record st := St {
  comment : text;                          (* _comment *)
  header : bool;                           (* _comment_is_header *)
  pending : option (attr * bool * Z);      (* _element_callback (+ whether it will raise) and _pending_attribute_line_number *)
  closed : option schema;                  (* the request schema once the service marker has been seen *)
  cur : schema;                            (* _structs[-1] *)
  deprecated : bool;                       (* _is_deprecated *)
  line_no : Z;                             (* _current_line_number *)
  world : W
}.
Definition init (w : W) : st := St [] true None None schema0 false 1 w.
Definition with_cur (f : schema -> schema) (s : st) : st :=
  St (comment s) (header s) (pending s) (closed s) (f (cur s)) (deprecated s) (line_no s) (world s).
Definition set_buf (b : text) (s : st) := St b (header s) (pending s) (closed s) (cur s) (deprecated s) (line_no s) (world s).
Definition set_header (h : bool) (s : st) := St (comment s) h (pending s) (closed s) (cur s) (deprecated s) (line_no s) (world s).
Definition set_pending (p : option (attr * bool * Z)) (s : st) := St (comment s) (header s) p (closed s) (cur s) (deprecated s) (line_no s) (world s).
Definition open_response (s : st) := St (comment s) (header s) (pending s) (Some (cur s)) schema0 (deprecated s) (line_no s) (world s).
Definition set_deprecated (s : st) := St (comment s) (header s) (pending s) (closed s) (cur s) true (line_no s) (world s).
Definition set_line (n : Z) (s : st) := St (comment s) (header s) (pending s) (closed s) (cur s) (deprecated s) n (world s).
Definition set_world (w : W) (s : st) := St (comment s) (header s) (pending s) (closed s) (cur s) (deprecated s) (line_no s) w.

Definition raise_at (n : Z) (s : st) : res st := Err (ELoc None (Some n)) (world s).
Definition raise_here (s : st) : res st := raise_at (line_no s) s.

(* constructing the queued attribute and adding it to the schema raises when the constructor does, or when a field is
   added to a union whose offset has been computed (DataSchemaBuilder.add_field) *)
Definition commit_fails (a : attr) (cfault : bool) (c : schema) : bool :=
  cfault || (fieldlike a && c_union c && c_offset c).

(* _ParseTreeProcessor._flush_comment *)
Definition flush (s : st) : res st :=
  if header s then Ok (set_buf [] (set_header false (with_cur (set_doc (comment s)) s)))
  else match pending s with
       | None => Ok (set_buf [] s)
       | Some (a, cf, n) =>
           if commit_fails a cf (cur s) then raise_at n s     (* line of the attribute statement (fix beef4c7) *)
           else Ok (set_buf [] (set_pending None (with_cur (add_attr a (comment s)) s)))
       end.

Definition step_pre (p : pre) (s : st) : res st :=
  match p with
  | PIdent => flush s
  | POffset => Ok (with_cur set_offset s)
  | PRaise => raise_here s
  | PRead d =>
      let (w, r) := read_dep d (world s) in
      match r with
      | None => Ok (set_world w s)
      | Some e => Err (inject_line e (line_no s)) w    (* parse(): line=current only if the error has no path *)
      end
  end.

Fixpoint run_pre (ps : list pre) (s : st) : res st :=
  match ps with
  | [] => Ok s
  | p :: r => bind (step_pre p s) (run_pre r)
  end.

(* DataTypeBuilder.on_directive and its handlers *)
Definition do_dir (k : dkind) (g : darg) (shown : text) (s : st) : res st :=
  match k with
  | KPrint => Ok (set_world (emit (line_no s) shown (world s)) s)
  | KAssert => match g with GBool true => Ok s | _ => raise_here s end
  | KExtent =>
      match c_mode (cur s), g with
      | None, GInt z => Ok (with_cur (set_mode (MDelimited z)) s)
      | _, _ => raise_here s
      end
  | KSealed =>
      match c_mode (cur s), g with
      | None, GNone => Ok (with_cur (set_mode MSealed) s)
      | _, _ => raise_here s
      end
  | KUnion =>
      match g with
      | GNone => if c_union (cur s) || has_attrs (cur s) then raise_here s else Ok (with_cur set_union s)
      | _ => raise_here s
      end
  | KDeprecated =>
      match g with
      | GNone => if deprecated s || (match closed s with Some _ => true | None => false end) || has_attrs (cur s)
                 then raise_here s else Ok (set_deprecated s)
      | _ => raise_here s
      end
  | KUnknown => raise_here s
  end.

(* the statement visitor: _flush_comment(), then the handler *)
Definition do_act (x : action) (s : st) : res st :=
  bind (flush s) (fun s1 =>
    match x with
    | XAttr a cf =>
        match c_mode (cur s1) with
        | Some (MDelimited _) => raise_here s1          (* _on_attribute: nothing may follow @extent *)
        | _ => Ok (set_pending (Some (a, cf, line_no s1)) s1)
        end
    | XDir k g shown => do_dir k g shown s1
    | XMarker =>
        let s2 := set_header true s1 in
        match closed s2 with
        | Some _ => raise_here s2
        | None => Ok (open_response s2)
        end
    end).

Definition do_stmt (x : stmt) (s : st) : res st := bind (run_pre (s_pre x) s) (do_act (s_act x)).

Definition add_comment (l : line) (s : st) : st :=
  match l_comment l with None => s | Some c => set_buf (cappend (comment s) c) s end.

Definition step_line (l : line) (s : st) : res st :=
  bind (match l_stmt l with None => Ok s | Some x => do_stmt x s end) (fun s1 =>
    let s2 := add_comment l s1 in
    if is_empty_text l then flush s2 else Ok s2).

(* visit_end_of_line *)
Definition next_line (l : line) (s : st) : st := set_line (line_no s + 1 + l_extra l) s.

Fixpoint run_from (ls : list line) (s : st) : res st :=
  match ls with
  | [] => Ok s
  | l :: r => bind (step_line l s) (fun s1 => match r with [] => Ok s1 | _ :: _ => run_from r (next_line l s1) end)
  end.

(* the composite returned by finalize() as far as C03 observes it *)
Record sect := Sect {
  k_union : bool;
  k_extent : option Z;                 (* Some e: DelimitedType with the declared extent; None: sealed *)
  k_doc : text;
  k_fields : list (attr * text);       (* fields and paddings in order, with docs *)
  k_consts : list (attr * text)
}.
Record model := Model { m_deprecated : bool; m_req : sect; m_resp : option sect }.

(* _make_composite: MissingSerializationModeError, MalformedUnionError (< 2 variants); the other checks of the
   composite constructors (name collisions, aggregation, extent size, port-ID) belong to C05 and are not modelled *)
Definition close (c : schema) : option sect :=
  match c_mode c with
  | None => None
  | Some m =>
      if c_union c && (Nat.ltb (length (c_fields c)) 2) then None
      else Some (Sect (c_union c) (match m with MSealed => None | MDelimited e => Some e end) (c_doc c) (c_fields c) (c_consts c))
  end.

Definition no_loc : eloc := ELoc None None.

Definition finalize (s : st) : res (model * W) :=
  match closed s with
  | None =>
      match close (cur s) with
      | None => Err no_loc (world s)
      | Some rq => Ok (Model (deprecated s) rq None, world s)
      end
  | Some c =>
      match close c, close (cur s) with
      | Some rq, Some rs => Ok (Model (deprecated s) rq (Some rs), world s)
      | _, _ => Err no_loc (world s)
      end
  end.

(* parse(): visit everything, flush(); then read(): finalize().  Errors leave without a path: read() adds it. *)
Definition finish (s : st) : res (model * W) := bind (flush s) finalize.
Definition run (ls : list line) (w : W) : res (model * W) := bind (run_from ls (init w)) finish.

(* DSDLDefinition.read: set_error_location_if_unknown(path=self.file_path) *)
Definition with_path {A : Type} (p : text) (r : res A) : res A :=
  match r with Ok a => Ok a | Err e w => Err (fill_path e p) w end.

End Machine.

Arguments Ok {W A}. Arguments Err {W A}.
Arguments PIdent {D}. Arguments POffset {D}. Arguments PRaise {D}. Arguments PRead {D}.
Arguments AField {T V}. Arguments APad {T V}. Arguments AConst {T V}.
Arguments XAttr {T V}. Arguments XDir {T V}. Arguments XMarker {T V}.
Arguments Stmt {T V D}. Arguments Line {T V D}. Arguments empty_line {T V D}.
