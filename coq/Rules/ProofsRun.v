(* The statement handlers of DataTypeBuilder, run in statement order, succeed exactly when the positional rules hold. *)
From Coq Require Import ZArith List Bool Lia.
From PV Require Import Util.ListSet Util.Sumset BLS.Model Layout.Types
  Rules.Names Rules.NamesSpec Rules.NamesProofs Rules.Defn Rules.Accept Rules.Spec Rules.ProofsLocal.
Import ListNotations.
Open Scope Z_scope.

(* ---- classification: bool <-> Prop ----------------------------------------------------------------------------- *)
Lemma dname_eqb_spec a b : dname_eqb a b = true <-> a = b.
Proof. destruct a, b; cbn; split; congruence. Qed.

Lemma is_dirb_spec d s : is_dirb d s = true <-> IsDir d s.
Proof.
  unfold IsDir. destruct s; cbn [is_dirb]; try (split; [discriminate|intros [v' H']; discriminate]).
  rewrite dname_eqb_spec. split; [intros ->; eauto|intros [v' H']; inversion H'; reflexivity].
Qed.

Lemma is_dirb_false d s : is_dirb d s = false <-> ~ IsDir d s.
Proof. rewrite <- is_dirb_spec. destruct (is_dirb d s); split; congruence. Qed.

Lemma is_modeb_spec s : is_modeb s = true <-> IsMode s.
Proof. unfold is_modeb, IsMode. rewrite orb_true_iff, !is_dirb_spec. tauto. Qed.

Lemma is_modeb_false s : is_modeb s = false <-> ~ IsMode s.
Proof. rewrite <- is_modeb_spec. destruct (is_modeb s); split; congruence. Qed.

Lemma attr_of_nil s : attr_of s = [] <-> ~ IsAttr s.
Proof. destruct s; cbn; split; try discriminate; try tauto. Qed.

(* ---- one step ----------------------------------------------------------------------------------------------------- *)
(* what a successful handler does to the state *)
Definition keep_mode (m new : smode) : smode := match m with MNone => new | _ => m end.
Definition upd (b : bstate) (s : stmt) : bstate :=
  mkB (b_deprecated b || is_dirb DDeprecated s)
      (keep_mode (b_mode b) (if is_modeb s then mode_of_stmt s else MNone))
      (b_union b || is_dirb DUnion s)
      (b_attrs b ++ attr_of s).

(* what a handler requires of the state *)
Definition Cond (first : bool) (b : bstate) (s : stmt) : Prop :=
  (IsAttr s -> is_delim (b_mode b) = false)
  /\ (IsMode s -> b_mode b = MNone)
  /\ (IsDir DUnion s -> b_union b = false /\ b_attrs b = [])
  /\ (IsDir DDeprecated s -> first = true /\ b_deprecated b = false /\ b_attrs b = []).

Lemma mode_keep m : keep_mode m MNone = m.
Proof. destruct m; reflexivity. Qed.

Lemma no_attrs_spec b : no_attrs b = true <-> b_attrs b = [].
Proof. unfold no_attrs. destruct (b_attrs b); split; congruence. Qed.

Ltac absurd_dir :=
  match goal with
  | H : IsDir _ _ |- _ => let v := fresh in let E := fresh in destruct H as [v E]; discriminate
  | H : IsMode _ |- _ => let v := fresh in let E := fresh in destruct H as [[v E]|[v E]]; discriminate
  | H : IsAttr _ |- _ => destruct H
  end.
Ltac cond4 := refine (conj _ (conj _ (conj _ _))); let Hc := fresh "Hc" in intros Hc; try absurd_dir; auto.

Lemma step_spec e i first b s b1 :
  step e i first b s = Some b1 <-> StmtOK e i s /\ Cond first b s /\ b1 = upd b s.
Proof.
  destruct b as [dp md un at_]. unfold Cond, upd. cbn [b_deprecated b_mode b_union b_attrs].
  destruct s as [t n|w|t n v|d v]; cbn [step StmtOK attr_of is_dirb is_modeb orb b_mode b_union b_deprecated b_attrs].
  - (* field *)
    rewrite !orb_false_r, mode_keep.
    destruct (type_ok e i t && negb (is_delim md) && attr_name_ok t n) eqn:E.
    + apply andb_true_iff in E. destruct E as [E E3]. apply andb_true_iff in E. destruct E as [E1 E2].
      apply type_ok_spec in E1. apply negb_true_false in E2. apply attr_name_ok_spec in E3.
      unfold add_attr. cbn. split.
      * intros H. inversion H. split; [split; assumption|]. split; [cond4|reflexivity].
      * intros [_ [_ ->]]. reflexivity.
    + split; [discriminate|]. intros [[H1 H3] [[H2 _] _]].
      apply type_ok_spec in H1. apply attr_name_ok_spec in H3. rewrite H1, H3, (H2 I) in E. discriminate.
  - (* padding *)
    rewrite !orb_false_r, mode_keep.
    destruct (width_ok w && negb (is_delim md)) eqn:E.
    + apply andb_true_iff in E. destruct E as [E1 E2]. apply width_ok_spec in E1. apply negb_true_false in E2.
      unfold add_attr. cbn. split.
      * intros H. inversion H. split; [assumption|]. split; [cond4|reflexivity].
      * intros [_ [_ ->]]. reflexivity.
    + split; [discriminate|]. intros [H1 [[H2 _] _]].
      apply width_ok_spec in H1. rewrite H1, (H2 I) in E. discriminate.
  - (* constant *)
    rewrite !orb_false_r, mode_keep.
    destruct (type_ok e i t && xv_ok v && negb (is_delim md) && attr_name_ok t n && const_ok t v) eqn:E.
    + apply andb_true_iff in E. destruct E as [E E5]. apply andb_true_iff in E. destruct E as [E E4].
      apply andb_true_iff in E. destruct E as [E E3]. apply andb_true_iff in E. destruct E as [E1 E2].
      apply type_ok_spec in E1. apply xv_ok_spec in E2. apply negb_true_false in E3.
      apply attr_name_ok_spec in E4. apply const_ok_spec in E5.
      unfold add_attr. cbn. split.
      * intros H. inversion H. split; [exact (conj E1 (conj E2 (conj E4 E5)))|]. split; [cond4|reflexivity].
      * intros [_ [_ ->]]. reflexivity.
    + split; [discriminate|]. intros [[H1 [H4 [H3 H5]]] [[H2 _] _]].
      apply type_ok_spec in H1. apply attr_name_ok_spec in H3. apply xv_ok_spec in H4. apply const_ok_spec in H5.
      rewrite H1, H3, H4, H5, (H2 I) in E. discriminate.
  - (* directive *)
    rewrite app_nil_r.
    destruct (oxv_ok v) eqn:Ev.
    2:{ split; [discriminate|]. intros [[H _] _]. apply oxv_ok_spec in H. congruence. }
    apply oxv_ok_spec in Ev.
    destruct d; cbn [dname_eqb orb DirOK mode_of_stmt].
    + (* union *)
      rewrite orb_false_r, mode_keep.
      destruct v as [x|].
      { split; [discriminate|]. intros [[_ H] _]. discriminate. }
      destruct (negb un && no_attrs (mkB dp md un at_)) eqn:E.
      * apply andb_true_iff in E. destruct E as [E1 E2]. apply negb_true_false in E1. apply no_attrs_spec in E2.
        cbn in E2. subst un at_. split.
        -- intros H. inversion H. split; [split; [assumption|reflexivity]|]. split; [cond4|reflexivity].
        -- intros [_ [_ ->]]. reflexivity.
      * split; [discriminate|]. intros [_ [[_ [_ [H _]]] _]].
        destruct (H (ex_intro _ None eq_refl)) as [H1 H2]. subst. discriminate.
    + (* deprecated *)
      rewrite orb_false_r, mode_keep.
      destruct v as [x|].
      { split; [discriminate|]. intros [[_ H] _]. discriminate. }
      destruct (negb dp && first && no_attrs (mkB dp md un at_)) eqn:E.
      * apply andb_true_iff in E. destruct E as [E E3]. apply andb_true_iff in E. destruct E as [E1 E2].
        apply negb_true_false in E1. apply no_attrs_spec in E3. cbn in E3. subst dp first at_. split.
        -- intros H. inversion H. split; [split; [assumption|reflexivity]|]. split; [cond4|reflexivity].
        -- intros [_ [_ ->]]. reflexivity.
      * split; [discriminate|]. intros [_ [[_ [_ [_ H]]] _]].
        destruct (H (ex_intro _ None eq_refl)) as [H1 [H2 H3]]. subst. discriminate.
    + (* sealed *)
      rewrite !orb_false_r.
      destruct md; destruct v as [x|]; try (split; [discriminate|]);
        try (intros [[_ H] _]; discriminate);
        try (intros [_ [[_ [H _]] _]]; specialize (H (or_introl (ex_intro _ _ eq_refl))); discriminate).
      split.
      * intros H. inversion H. split; [split; [assumption|reflexivity]|]. split; [cond4|reflexivity].
      * intros [_ [_ ->]]. reflexivity.
    + (* extent *)
      rewrite !orb_false_r.
      destruct md.
      2,3: split; [destruct v; discriminate|];
        intros [_ [[_ [H _]] _]]; specialize (H (or_intror (ex_intro _ _ eq_refl))); discriminate.
      destruct v as [x|].
      2:{ split; [discriminate|]. intros [[_ [x [z [H _]]]] _]. discriminate. }
      destruct (rat_int x) as [z|] eqn:Ez.
      * split.
        -- intros H. inversion H. split; [split; [assumption|eauto]|]. split; [cond4|reflexivity].
        -- intros [_ [_ ->]]. reflexivity.
      * split; [discriminate|]. intros [[_ [x' [z [H Hz]]]] _]. inversion H; subst. congruence.
    + (* assert *)
      rewrite !orb_false_r, mode_keep.
      destruct v as [[[|]|? ?|?|]|]; try (split; [discriminate|intros [[_ H] _]; discriminate]).
      split.
      * intros H. inversion H. split; [split; [assumption|reflexivity]|]. split; [cond4|reflexivity].
      * intros [_ [_ ->]]. reflexivity.
    + (* print *)
      rewrite !orb_false_r, mode_keep. split.
      * intros H. inversion H. split; [split; [assumption|exact I]|]. split; [cond4|reflexivity].
      * intros [_ [_ ->]]. reflexivity.
    + (* unknown *)
      split; [discriminate|]. intros [[_ []] _].
Qed.

(* ---- the whole section: positional characterisation -------------------------------------------------------- *)
Definition G (e : env) (i : ident) (first : bool) (b : bstate) (l : list stmt) : Prop :=
  Forall (StmtOK e i) l
  /\ (forall l1 m l2, l = l1 ++ m :: l2 -> IsMode m -> b_mode b = MNone /\ Forall (fun s => ~ IsMode s) l1)
  /\ (forall l1 a l2, l = l1 ++ a :: l2 -> IsAttr a ->
        is_delim (b_mode b) = false /\ Forall (fun s => ~ IsDir DExtent s) l1)
  /\ (forall l1 v l2, l = l1 ++ SDir DUnion v :: l2 ->
        (b_union b = false /\ b_attrs b = []) /\ Forall (fun s => ~ IsAttr s /\ ~ IsDir DUnion s) l1)
  /\ (forall l1 v l2, l = l1 ++ SDir DDeprecated v :: l2 ->
        (first = true /\ b_deprecated b = false /\ b_attrs b = [])
        /\ Forall (fun s => ~ IsAttr s /\ ~ IsDir DDeprecated s) l1).

(* how the relevant parts of the state change over a successful step *)
Lemma mode_of_stmt_mode e i s : StmtOK e i s -> IsMode s -> mode_of_stmt s <> MNone.
Proof.
  intros Hs [[v ->]|[v ->]]; cbn in *.
  - discriminate.
  - destruct Hs as [_ [x [z [-> Hz]]]]. rewrite Hz. discriminate.
Qed.

Lemma upd_mode_none e i first b s :
  StmtOK e i s -> Cond first b s -> (b_mode (upd b s) = MNone <-> b_mode b = MNone /\ ~ IsMode s).
Proof.
  intros Hs Hc. unfold upd. cbn [b_mode]. destruct (is_modeb s) eqn:E.
  - apply is_modeb_spec in E. pose proof (mode_of_stmt_mode e i s Hs E).
    destruct (b_mode b); cbn; split; try tauto; try (intros [H1 _]; discriminate); try discriminate.
  - apply is_modeb_false in E. rewrite mode_keep. tauto.
Qed.

Lemma upd_not_delim e i first b s :
  StmtOK e i s -> Cond first b s ->
  (is_delim (b_mode (upd b s)) = false <-> is_delim (b_mode b) = false /\ ~ IsDir DExtent s).
Proof.
  intros Hs [_ [Hm _]]. unfold upd. cbn [b_mode]. destruct (is_modeb s) eqn:E.
  - apply is_modeb_spec in E. rewrite (Hm E). cbn [keep_mode is_delim].
    destruct E as [[v ->]|[v ->]]; cbn.
    + split; [intros _; split; [reflexivity|intros [v' H]; discriminate]|reflexivity].
    + destruct Hs as [_ [x [z [-> Hz]]]]. rewrite Hz. cbn. split; [discriminate|].
      intros [_ H]. exfalso. apply H. eexists. reflexivity.
  - rewrite mode_keep. apply is_modeb_false in E. split; [|tauto].
    intros H. split; [exact H|]. intros Hd. apply E. right. exact Hd.
Qed.

Lemma orb_false_split a b : a || b = false <-> a = false /\ b = false.
Proof. apply orb_false_iff. Qed.

Lemma app_nil_split {A} (x y : list A) : x ++ y = [] <-> x = [] /\ y = [].
Proof. split; [apply app_eq_nil|intros [-> ->]; reflexivity]. Qed.

Lemma G_cons e i first b s r :
  G e i first b (s :: r) <-> StmtOK e i s /\ Cond first b s /\ G e i first (upd b s) r.
Proof.
  unfold G. split.
  - intros [HF [Hm [Ha [Hu Hd]]]].
    inversion HF as [|? ? Hs HFr]; subst.
    assert (Cond first b s) as Hc.
    { unfold Cond. refine (conj _ (conj _ (conj _ _))).
      - intros H. apply (Ha [] s r eq_refl H).
      - intros H. apply (Hm [] s r eq_refl H).
      - intros [v ->]. apply (Hu [] v r eq_refl).
      - intros [v ->]. apply (Hd [] v r eq_refl). }
    split; [exact Hs|]. split; [exact Hc|]. split; [exact HFr|].
    refine (conj _ (conj _ (conj _ _))).
    + intros l1 m l2 -> Him. destruct (Hm (s :: l1) m l2 eq_refl Him) as [H1 H2].
      inversion H2; subst. split; [|assumption]. apply (upd_mode_none e i first b s Hs Hc). auto.
    + intros l1 a l2 -> Hia. destruct (Ha (s :: l1) a l2 eq_refl Hia) as [H1 H2].
      inversion H2; subst. split; [|assumption]. apply (upd_not_delim e i first b s Hs Hc). auto.
    + intros l1 v l2 ->. destruct (Hu (s :: l1) v l2 eq_refl) as [[H1 H1'] H2].
      inversion H2 as [|? ? [Hx Hy] Hz]; subst. split; [|assumption]. unfold upd. cbn.
      rewrite orb_false_split, app_nil_split, is_dirb_false, attr_of_nil. auto.
    + intros l1 v l2 ->. destruct (Hd (s :: l1) v l2 eq_refl) as [[H0 [H1 H1']] H2].
      inversion H2 as [|? ? [Hx Hy] Hz]; subst. split; [|assumption]. unfold upd. cbn.
      rewrite orb_false_split, app_nil_split, is_dirb_false, attr_of_nil. auto.
  - intros [Hs [Hc [HF [Hm [Ha [Hu Hd]]]]]].
    destruct Hc as [Hc1 [Hc2 [Hc3 Hc4]]].
    assert (Cond first b s) as Hc by (unfold Cond; auto).
    split; [constructor; assumption|].
    refine (conj _ (conj _ (conj _ _))).
    + intros [|x l1] m l2 E Him; inversion E; subst.
      * split; [apply Hc2; exact Him|constructor].
      * destruct (Hm l1 m l2 eq_refl Him) as [H1 H2].
        apply (upd_mode_none e i first b x Hs Hc) in H1. destruct H1. split; [assumption|constructor; assumption].
    + intros [|x l1] a l2 E Hia; inversion E; subst.
      * split; [apply Hc1; exact Hia|constructor].
      * destruct (Ha l1 a l2 eq_refl Hia) as [H1 H2].
        apply (upd_not_delim e i first b x Hs Hc) in H1. destruct H1. split; [assumption|constructor; assumption].
    + intros [|x l1] v l2 E; inversion E; subst.
      * split; [apply Hc3; eexists; reflexivity|constructor].
      * destruct (Hu l1 v l2 eq_refl) as [[H1 H1'] H2]. unfold upd in H1, H1'. cbn in H1, H1'.
        rewrite orb_false_split, is_dirb_false in H1. rewrite app_nil_split, attr_of_nil in H1'.
        split; [tauto|constructor; [tauto|assumption]].
    + intros [|x l1] v l2 E; inversion E; subst.
      * split; [apply Hc4; eexists; reflexivity|constructor].
      * destruct (Hd l1 v l2 eq_refl) as [[H0 [H1 H1']] H2]. unfold upd in H1, H1'. cbn in H1, H1'.
        rewrite orb_false_split, is_dirb_false in H1. rewrite app_nil_split, attr_of_nil in H1'.
        split; [tauto|constructor; [tauto|assumption]].
Qed.

Lemma G_nil e i first b : G e i first b [].
Proof.
  unfold G. split; [constructor|].
  refine (conj _ (conj _ (conj _ _))); intros l1 ? l2 E; destruct l1; discriminate.
Qed.

Theorem run_G e i first l : forall b, (exists b', run e i first b l = Some b') <-> G e i first b l.
Proof.
  induction l as [|s r IH]; intros b.
  - cbn. split; [intros _; apply G_nil|intros _; eauto].
  - rewrite G_cons. cbn [run]. split.
    + intros [b' H]. destruct (step e i first b s) as [b1|] eqn:E; [|discriminate].
      apply step_spec in E. destruct E as [Hs [Hc ->]]. split; [exact Hs|]. split; [exact Hc|].
      apply IH. eauto.
    + intros [Hs [Hc HG]]. apply IH in HG. destruct HG as [b' Hb'].
      assert (step e i first b s = Some (upd b s)) as E by (apply step_spec; auto).
      rewrite E. eauto.
Qed.

(* ---- the final state ---------------------------------------------------------------------------------------- *)
Definition final (b : bstate) (l : list stmt) : bstate :=
  mkB (b_deprecated b || has_dir DDeprecated l) (keep_mode (b_mode b) (mode_of l)) (b_union b || has_dir DUnion l)
      (b_attrs b ++ attrs_of l).

Lemma run_final e i first l : forall b b', run e i first b l = Some b' -> b' = final b l.
Proof.
  induction l as [|s r IH]; intros b b'; cbn [run].
  - intros H. inversion H. unfold final. cbn. rewrite !orb_false_r, app_nil_r.
    destruct b' as [? m ? ?]. cbn. destruct m; reflexivity.
  - destruct (step e i first b s) as [b1|] eqn:E; [|discriminate].
    apply step_spec in E. destruct E as [Hs [Hc ->]]. intros H. apply IH in H. subst b'.
    unfold final, upd. cbn [b_deprecated b_mode b_union b_attrs has_dir existsb attrs_of flat_map].
    rewrite !orb_assoc, app_assoc. f_equal.
    unfold mode_of. cbn [find]. destruct (is_modeb s) eqn:Em.
    + apply is_modeb_spec in Em. pose proof (mode_of_stmt_mode e i s Hs Em).
      destruct (b_mode b); cbn; try reflexivity. destruct (mode_of_stmt s); try congruence; reflexivity.
    + rewrite mode_keep. reflexivity.
Qed.

Lemma final_init depr0 l : final (init_state depr0) l = summary depr0 l.
Proof. reflexivity. Qed.
