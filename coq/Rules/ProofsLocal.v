(* Reflection of the per-statement checks of Rules/Accept.v against the declarative rules of Rules/Spec.v. *)
From Coq Require Import ZArith List Bool Lia.
From PV Require Import Util.ListSet Util.Sumset BLS.Model Layout.Types
  Rules.Names Rules.NamesSpec Rules.NamesProofs Rules.Defn Rules.Accept Rules.Spec.
Import ListNotations.
Open Scope Z_scope.

Lemma width_ok_spec w : width_ok w = true <-> 1 <= w <= 64.
Proof. unfold width_ok. rewrite andb_true_iff, !Z.leb_le. tauto. Qed.

Lemma is_sat_spec c : is_sat c = true <-> c = Sat.
Proof. destruct c; cbn; split; congruence. Qed.

Lemma scalar_ok_spec e i s : scalar_ok e i s = true <-> ScalarOK e i s.
Proof.
  destruct s; cbn; try tauto.
  - apply width_ok_spec.
  - rewrite !andb_true_iff, width_ok_spec, Z.leb_le, is_sat_spec. intuition lia.
  - rewrite andb_true_iff, width_ok_spec, !orb_true_iff, !Z.eqb_eq. lia.
  - apply width_ok_spec.
  - destruct (resolve e i comps major minor) as [p|]; split; try discriminate; eauto.
    intros [p H]. discriminate.
Qed.

Lemma prefix_ok_spec n : 1 <= n -> (prefix_ok n = true <-> n < 2 ^ 64).
Proof.
  intros Hn. unfold prefix_ok, pow2_ceil8, bitlen.
  destruct (n <=? 0) eqn:E; [apply Z.leb_le in E; lia|].
  rewrite Z.leb_le.
  set (m := Z.max 8 (Z.log2 n + 1)).
  assert (0 < m) by (unfold m; lia).
  change 64 with (2 ^ 6) at 1.
  rewrite <- Z.pow_le_mono_r_iff by (try lia; apply Z.log2_up_nonneg).
  rewrite <- Z.log2_up_le_pow2 by lia.
  rewrite (Z.log2_lt_pow2 n 64) by lia.
  unfold m. change (2 ^ 6) with 64. lia.
Qed.

Lemma negb_true_false b : negb b = true <-> b = false.
Proof. destruct b; cbn; split; congruence. Qed.

Lemma type_ok_spec e i t : type_ok e i t = true <-> TypeOK e i t.
Proof.
  destruct t; cbn.
  - apply scalar_ok_spec.
  - rewrite !andb_true_iff, scalar_ok_spec, negb_true_false, Z.leb_le. tauto.
  - rewrite !andb_true_iff, scalar_ok_spec, negb_true_false, Z.leb_le.
    split.
    + intros [[[H1 H2] H3] H4]. apply prefix_ok_spec in H4; auto.
    + intros [H1 [H2 [H3 H4]]]. repeat split; auto. apply prefix_ok_spec; auto.
  - rewrite !andb_true_iff, scalar_ok_spec, negb_true_false, Z.leb_le.
    split.
    + intros [[[H1 H2] H3] H4]. apply prefix_ok_spec in H4; auto.
    + intros [H1 [H2 [H3 H4]]]. repeat split; auto. apply prefix_ok_spec; auto.
Qed.

Lemma name_ok_NameOK n : name_ok n = true <-> NameOK n.
Proof. apply name_ok_spec. Qed.

Lemma attr_name_ok_spec t n : attr_name_ok t n = true <-> AttrNameOK t n.
Proof.
  unfold attr_name_ok, AttrNameOK.
  destruct t as [s| | |]; try (rewrite name_ok_NameOK; split; [intros H; split; [intros w; discriminate|exact H]|tauto]).
  destruct s; try (rewrite name_ok_NameOK; split; [intros H; split; [intros w'; discriminate|exact H]|tauto]).
  split; [discriminate|]. intros [H _]. exfalso. exact (H w eq_refl).
Qed.

Lemma xv_ok_spec v : xv_ok v = true <-> ExprOK (Some v).
Proof.
  unfold ExprOK. destruct v; cbn; try (split; [intros _ n' d' H; discriminate|reflexivity]).
  rewrite Z.ltb_lt. split; [intros H n' d' E; inversion E; subst; exact H|intros H; exact (H n d eq_refl)].
Qed.

Lemma oxv_ok_spec v : oxv_ok v = true <-> ExprOK v.
Proof.
  destruct v as [x|]; [apply xv_ok_spec|]. cbn. split; [intros _ n d H; discriminate|reflexivity].
Qed.

(* exact division: n mod d = 0 with the quotient in range *)
Lemma exact_div n d lo hi : 0 < d ->
  ((n mod d =? 0) && (lo <=? n / d) && (n / d <=? hi) = true <-> exists z, n = z * d /\ lo <= z <= hi).
Proof.
  intros Hd. rewrite !andb_true_iff, Z.eqb_eq, !Z.leb_le. split.
  - intros [[Hm H1] H2]. exists (n / d). split; [|lia].
    pose proof (Z.div_mod n d ltac:(lia)). lia.
  - intros [z [-> Hz]]. rewrite Z.mod_mul, Z.div_mul by lia. lia.
Qed.

Lemma int_const_ok_spec lo hi u8 v : int_const_ok lo hi u8 v = true <-> IntConst lo hi u8 v.
Proof.
  unfold int_const_ok, IntConst. destruct v as [b|n d|cps|].
  - split; [discriminate|]. intros [[n [d [z [H _]]]]|[c [H _]]]; discriminate.
  - destruct (0 <? d) eqn:E.
    + apply Z.ltb_lt in E. cbn [andb]. rewrite exact_div by exact E. split.
      * intros [z [H1 H2]]. left. exists n, d, z. auto.
      * intros [[n' [d' [z [H [H0 [H1 H2]]]]]]|[c [H _]]]; [|discriminate]. inversion H; subst. eauto.
    + cbn [andb]. split; [discriminate|]. apply Z.ltb_ge in E.
      intros [[n' [d' [z [H [H0 _]]]]]|[c [H _]]]; [|discriminate]. inversion H; subst. lia.
  - destruct cps as [|c [|c' r]].
    + split; [discriminate|]. intros [[n [d [z [H _]]]]|[c [H _]]]; discriminate.
    + rewrite !andb_true_iff, Z.leb_le, Z.ltb_lt. split.
      * intros [[H1 H2] H3]. right. exists c. auto.
      * intros [[n [d [z [H _]]]]|[c0 [H [H1 H2]]]]; [discriminate|]. inversion H; subst. auto.
    + split; [discriminate|]. intros [[n [d [z [H _]]]]|[c0 [H _]]]; discriminate.
  - split; [discriminate|]. intros [[n [d [z [H _]]]]|[c [H _]]]; discriminate.
Qed.

Lemma const_ok_spec t v : const_ok t v = true <-> ConstOK t v.
Proof.
  destruct t as [s| | |]; cbn; try (split; [discriminate|tauto]).
  destruct s; cbn; try apply int_const_ok_spec; try (split; [discriminate|tauto]).
  - destruct v; split; try discriminate; eauto; intros [b' H]; discriminate.
  - destruct v as [b|n d| |]; try (split; [discriminate|intros [n' [d' [H _]]]; discriminate]).
    rewrite !andb_true_iff, Z.ltb_lt, !Z.leb_le. split.
    + intros [[H1 H2] H3]. exists n, d. auto.
    + intros [n' [d' [H [H1 H2]]]]. inversion H; subst. lia.
Qed.

(* ---- aggregation ------------------------------------------------------------------------------------------- *)
Lemma depr_clause a b : negb (a && negb b) = true <-> (a = true -> b = true).
Proof. destruct a, b; cbn; split; auto; intros H; try discriminate; symmetry; apply H; reflexivity. Qed.

Ltac slv := unfold IsVoid; split; intros H;
  repeat match goal with
  | |- _ /\ _ => split
  | H : _ /\ _ |- _ => destruct H
  | |- _ <> _ => discriminate
  | |- ~ (exists _, _) => let w := fresh in let E := fresh in intros [w E]; discriminate
  | |- (exists _, _) -> _ => let w := fresh in let E := fresh in intros [w E]; try discriminate
  | |- true = true => reflexivity
  | H : false = true |- _ => discriminate
  | H : ?x <> ?x |- _ => exfalso; apply H; reflexivity
  | H : ~ (exists w, ?c ?a = ?c w) |- _ => exfalso; apply H; exists a; reflexivity
  | H : (exists w, ?c ?a = ?c w) -> _ |- _ => apply H; exists a; reflexivity
  | |- _ => assumption
  end.
Lemma place_scalar_spec s st :
  (match s with XByte | XUtf8 => false | XVoid _ => st | _ => true end) = true
  <-> s <> XByte /\ s <> XUtf8 /\ (IsVoid s -> st = true).
Proof. destruct s; slv. Qed.
Lemma place_fix_spec s :
  (match s with XUtf8 | XVoid _ => false | _ => true end) = true <-> s <> XUtf8 /\ ~ IsVoid s.
Proof. destruct s; slv. Qed.
Lemma place_var_spec s :
  (match s with XVoid _ => false | _ => true end) = true <-> ~ IsVoid s.
Proof. destruct s; slv. Qed.

Lemma agg_ok_spec e i depr st t : agg_ok e i depr st t = true <-> PlacementOK e i depr st t.
Proof.
  unfold agg_ok, PlacementOK. destruct t as [s|s n|s n|s n].
  - rewrite !andb_true_iff, negb_true_false, depr_clause, place_scalar_spec. tauto.
  - rewrite !andb_true_iff, depr_clause, place_fix_spec. tauto.
  - rewrite !andb_true_iff, depr_clause, place_var_spec. tauto.
  - rewrite !andb_true_iff, depr_clause, place_var_spec. tauto.
Qed.

Lemma attr_agg_ok_spec e i depr st a : attr_agg_ok e i depr st a = true <-> AttrPlacementOK e i depr st a.
Proof. destruct a; cbn; try apply agg_ok_spec. tauto. Qed.
