(* Declarative side of check_name: identifier syntax and the reserved set, given extensionally.  Definitions only. *)
From Coq Require Import ZArith List Bool.
From PV Require Import Layout.Types Rules.Names.
Import ListNotations.
Open Scope Z_scope.

(* ---- the declarative side ------------------------------------------------------------------------------------ *)
Definition IsUpper (c : Z) : Prop := 65 <= c <= 90.
Definition IsLower (c : Z) : Prop := 97 <= c <= 122.
Definition IsDigit (c : Z) : Prop := 48 <= c <= 57.
Definition IsFirst (c : Z) : Prop := IsLower c \/ IsUpper c \/ c = us.        (* [a-zA-Z_] *)
Definition IsCont (c : Z) : Prop := IsFirst c \/ IsDigit c.                   (* [a-zA-Z0-9_] *)
Definition Digits (s : str) : Prop := Forall IsDigit s.

(* [a-zA-Z_][a-zA-Z0-9_]* *)
Definition IdentSyntax (s : str) : Prop := exists c r, s = c :: r /\ IsFirst c /\ Forall IsCont r.

(* the reserved names (in lower case): the words, void\d*, u?int\d*, u?q\d+_\d+, float\d*, com\d, lpt\d, _.*_ *)
Inductive Reserved : str -> Prop :=
| R_word : forall w, In w reserved_words -> Reserved w
| R_void : forall ds, Digits ds -> Reserved (w_void ++ ds)
| R_int : forall ds, Digits ds -> Reserved (w_int ++ ds)
| R_uint : forall ds, Digits ds -> Reserved (w_uint ++ ds)
| R_q : forall a b, Digits a -> a <> [] -> Digits b -> b <> [] -> Reserved (c_q :: a ++ us :: b)
| R_uq : forall a b, Digits a -> a <> [] -> Digits b -> b <> [] -> Reserved (c_u :: c_q :: a ++ us :: b)
| R_float : forall ds, Digits ds -> Reserved (w_float ++ ds)
| R_com : forall d, IsDigit d -> Reserved (w_com ++ [d])
| R_lpt : forall d, IsDigit d -> Reserved (w_lpt ++ [d])
| R_underscores : forall m, Reserved (us :: m ++ [us]).
