(* The static rules of DSDL as C05 lists them, stated declaratively (per statement, positionally over the statement
   list of a section, and per definition).  `Valid env d` is their conjunction.  Definitions only. *)
From Coq Require Import ZArith List Bool.
From PV Require Import Util.ListSet Util.Sumset BLS.Model Layout.Types Rules.Names Rules.NamesSpec Rules.Defn Rules.Accept.
Import ListNotations.
Open Scope Z_scope.

(* ---- classification of statements ------------------------------------------------------------------------- *)
Definition IsAttr (s : stmt) : Prop := match s with SDir _ _ => False | _ => True end.
Definition IsDir (d : dname) (s : stmt) : Prop := exists v, s = SDir d v.
Definition IsMode (s : stmt) : Prop := IsDir DSealed s \/ IsDir DExtent s.

(* ---- what a section declares (plain list functions) ------------------------------------------------------- *)
Definition attr_of (s : stmt) : list attr :=
  match s with
  | SField t n => [AField n t]
  | SPad w => [APad w]
  | SConst t n _ => [AConst n t]
  | SDir _ _ => []
  end.
Definition attrs_of (l : list stmt) : list attr := flat_map attr_of l.

Definition dname_eqb (a b : dname) : bool :=
  match a, b with
  | DUnion, DUnion | DDeprecated, DDeprecated | DSealed, DSealed | DExtent, DExtent
  | DAssert, DAssert | DPrint, DPrint | DUnknown, DUnknown => true
  | _, _ => false
  end.
Definition is_dirb (d : dname) (s : stmt) : bool :=
  match s with SDir d' _ => dname_eqb d d' | _ => false end.
Definition has_dir (d : dname) (l : list stmt) : bool := existsb (is_dirb d) l.

(* the serialization mode that the first @sealed / @extent of the section selects *)
Definition mode_of_stmt (s : stmt) : smode :=
  match s with
  | SDir DSealed _ => MSealed
  | SDir DExtent (Some x) => match rat_int x with Some z => MDelim z | None => MNone end
  | _ => MNone
  end.
Definition is_modeb (s : stmt) : bool := is_dirb DSealed s || is_dirb DExtent s.
Definition mode_of (l : list stmt) : smode :=
  match find is_modeb l with Some s => mode_of_stmt s | None => MNone end.

(* the state the builder has at the end of a section *)
Definition summary (depr0 : bool) (l : list stmt) : bstate :=
  mkB (depr0 || has_dir DDeprecated l) (mode_of l) (has_dir DUnion l) (attrs_of l).

(* ---- rules about one statement ------------------------------------------------------------------------------ *)
Definition ScalarOK (e : env) (i : ident) (s : sx) : Prop :=
  match s with
  | XBool | XByte | XUtf8 => True
  | XUInt w _ => 1 <= w <= 64                                   (* legal bit widths *)
  | XSInt w c => 2 <= w <= 64 /\ c = Sat                        (* signed >= 2, no truncated signed integers *)
  | XFloat w _ => w = 16 \/ w = 32 \/ w = 64
  | XVoid w => 1 <= w <= 64
  | XRef c M m => exists p, resolve e i c M m = Some p          (* the referenced definition exists, spelled exactly *)
  end.

Definition TypeOK (e : env) (i : ident) (t : tx) : Prop :=
  match t with
  | TxS s => ScalarOK e i s
  | TxFix s n => ScalarOK e i s /\ is_service_ref e i s = false /\ 1 <= n                (* capacity >= 1 *)
  | TxVarI s n => ScalarOK e i s /\ is_service_ref e i s = false /\ 1 <= n < 2 ^ 64      (* ... and a 64-bit prefix *)
  | TxVarE s n => ScalarOK e i s /\ is_service_ref e i s = false /\ 1 <= n - 1 < 2 ^ 64
  end.

(* name syntax and reserved words; a void-typed attribute cannot be named *)
Definition NameOK (s : str) : Prop := IdentSyntax s /\ ~ Reserved (lower s).
Definition AttrNameOK (t : tx) (n : str) : Prop := (forall w, t <> TxS (XVoid w)) /\ NameOK n.

(* constants: the value class fits the type and the value is in range *)
Definition IntConst (lo hi : Z) (u8 : bool) (v : xv) : Prop :=
  (exists n d z, v = VRat n d /\ 0 < d /\ n = z * d /\ lo <= z <= hi)
  \/ (exists c, v = VStr [c] /\ 0 <= c < 128 /\ u8 = true).

Definition ConstOK (t : tx) (v : xv) : Prop :=
  match t with
  | TxS XBool => exists b, v = VBool b
  | TxS (XUInt w _) => IntConst 0 (2 ^ w - 1) (w =? 8) v
  | TxS XByte | TxS XUtf8 => IntConst 0 255 true v
  | TxS (XSInt w _) => IntConst (- 2 ^ (w - 1)) (2 ^ (w - 1) - 1) false v
  | TxS (XFloat w _) => exists n d, v = VRat n d /\ 0 < d /\ - float_max w * d <= n <= float_max w * d
  | _ => False
  end.

Definition ExprOK (v : option xv) : Prop := forall n d, v = Some (VRat n d) -> 0 < d.

(* directive expressions: presence and kind *)
Definition DirOK (d : dname) (v : option xv) : Prop :=
  match d with
  | DPrint => True
  | DAssert => v = Some (VBool true)
  | DExtent => exists x z, v = Some x /\ rat_int x = Some z
  | DSealed | DUnion | DDeprecated => v = None
  | DUnknown => False
  end.

Definition StmtOK (e : env) (i : ident) (s : stmt) : Prop :=
  match s with
  | SField t n => TypeOK e i t /\ AttrNameOK t n
  | SPad w => 1 <= w <= 64
  | SConst t n v => TypeOK e i t /\ ExprOK (Some v) /\ AttrNameOK t n /\ ConstOK t v
  | SDir d v => ExprOK v /\ DirOK d v
  end.

(* ---- rules about the use of a type by an attribute of a composite --------------------------------------------- *)
Definition IsVoid (s : sx) : Prop := exists w, s = XVoid w.

Definition PlacementOK (e : env) (i : ident) (deprecated is_struct : bool) (t : tx) : Prop :=
  match t with
  | TxS s =>
      s <> XByte /\ s <> XUtf8                                   (* byte / utf8 only as array elements *)
      /\ (IsVoid s -> is_struct = true)                          (* void only as structure padding *)
      /\ is_service_ref e i s = false
      /\ (ref_deprecated e i s = true -> deprecated = true)      (* no deprecated dependency in a non-deprecated type *)
  | TxFix s _ =>
      s <> XUtf8 /\ ~ IsVoid s /\ (ref_deprecated e i s = true -> deprecated = true)
  | TxVarI s _ | TxVarE s _ =>
      ~ IsVoid s /\ (ref_deprecated e i s = true -> deprecated = true)
  end.

Definition AttrPlacementOK (e : env) (i : ident) (deprecated is_struct : bool) (a : attr) : Prop :=
  match a with
  | AField _ t | AConst _ t => PlacementOK e i deprecated is_struct t
  | APad _ => is_struct = true                                   (* no padding in unions *)
  end.

(* ---- rules about one section (schema) ------------------------------------------------------------------------- *)
Record SectionRules (e : env) (i : ident) (first deprecated : bool) (k : ckind) (sec : list stmt) : Prop := {
  sr_statements : Forall (StmtOK e i) sec;
  (* exactly one of @sealed / @extent: there is one, and none is preceded by another *)
  sr_mode_exists : exists m, In m sec /\ IsMode m;
  sr_mode_once : forall l1 m l2, sec = l1 ++ m :: l2 -> IsMode m -> Forall (fun s => ~ IsMode s) l1;
  (* @extent after the last attribute *)
  sr_extent_last : forall l1 a l2, sec = l1 ++ a :: l2 -> IsAttr a -> Forall (fun s => ~ IsDir DExtent s) l1;
  (* @union: before the first attribute, not duplicated *)
  sr_union_first : forall l1 v l2, sec = l1 ++ SDir DUnion v :: l2 ->
                   Forall (fun s => ~ IsAttr s /\ ~ IsDir DUnion s) l1;
  (* @deprecated: only in the first section, before the first attribute, not duplicated *)
  sr_deprecated_first : forall l1 v l2, sec = l1 ++ SDir DDeprecated v :: l2 ->
                        first = true /\ Forall (fun s => ~ IsAttr s /\ ~ IsDir DDeprecated s) l1;
  sr_unique_names : NoDup (attr_names (attrs_of sec));
  sr_union_arity : has_dir DUnion sec = true -> 2 <= Z.of_nat (length (layout_fields e i (attrs_of sec)));
  sr_placement : Forall (AttrPlacementOK e i deprecated (negb (has_dir DUnion sec))) (attrs_of sec);
  (* a byte-multiple extent not smaller than the longest representation *)
  sr_extent_value : forall z, mode_of sec = MDelim z ->
                    z mod 8 = 0 /\ extent (inner_ty e i (summary false sec)) <= z;
  (* type name: length and components *)
  sr_name_length : joined_length (composite_name i k) <= 255;
  sr_name_components : Forall NameOK (composite_name i k)
}.

Definition VersionOK (i : ident) : Prop :=
  0 <= i_major i <= 255 /\ 0 <= i_minor i <= 255 /\ ~ (i_major i = 0 /\ i_minor i = 0).

Definition PortIn (lo hi : Z) (p : option Z) : Prop := forall x, p = Some x -> lo <= x <= hi.

Definition RegulatedOK (e : env) (i : ident) (service : bool) : Prop :=
  e_allow_unregulated e = false ->
  let std := is_standard_root (i_root i) in
  if service then (if std then PortIn 384 511 (i_port i) else PortIn 256 383 (i_port i))
  else (if std then PortIn 7168 8191 (i_port i) else PortIn 6144 7167 (i_port i)).

Definition Valid (e : env) (d : defn) : Prop :=
  let i := d_id d in
  let depr := has_dir DDeprecated (d_first d) in
  VersionOK i /\
  match d_more d with
  | [] => SectionRules e i true depr KMessage (d_first d) /\ PortIn 0 8191 (i_port i) /\ RegulatedOK e i false
  | [sec2] =>
      SectionRules e i true depr KRequest (d_first d) /\ SectionRules e i false depr KResponse sec2
      /\ PortIn 0 511 (i_port i) /\ RegulatedOK e i true
  | _ => False                                                    (* at most one response marker *)
  end.
