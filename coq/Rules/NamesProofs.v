(* name_ok is exactly "identifier syntax and not reserved", with the reserved set given extensionally. *)
From Coq Require Import ZArith List Bool Lia.
From PV Require Import Layout.Types Rules.Names Rules.NamesSpec.
Import ListNotations.
Open Scope Z_scope.

(* ---- reflection of the character classes ----------------------------------------------------------------- *)
Lemma is_upper_spec c : is_upper c = true <-> IsUpper c.
Proof. unfold is_upper, IsUpper. rewrite andb_true_iff, !Z.leb_le. tauto. Qed.
Lemma is_lower_spec c : is_lower c = true <-> IsLower c.
Proof. unfold is_lower, IsLower. rewrite andb_true_iff, !Z.leb_le. tauto. Qed.
Lemma is_digit_spec c : is_digit c = true <-> IsDigit c.
Proof. unfold is_digit, IsDigit. rewrite andb_true_iff, !Z.leb_le. tauto. Qed.
Lemma first_ok_spec c : first_ok c = true <-> IsFirst c.
Proof.
  unfold first_ok, IsFirst. rewrite !orb_true_iff, is_lower_spec, is_upper_spec, Z.eqb_eq. tauto.
Qed.
Lemma cont_ok_spec c : cont_ok c = true <-> IsCont c.
Proof. unfold cont_ok, IsCont. rewrite orb_true_iff, first_ok_spec, is_digit_spec. tauto. Qed.

Lemma all_digits_spec s : all_digits s = true <-> Digits s.
Proof.
  unfold all_digits, Digits. rewrite forallb_forall, Forall_forall.
  split; intros H x Hx; apply is_digit_spec; auto.
Qed.

Lemma forallb_cont_spec s : forallb cont_ok s = true <-> Forall IsCont s.
Proof.
  rewrite forallb_forall, Forall_forall. split; intros H x Hx; apply cont_ok_spec; auto.
Qed.

(* ---- string helpers -------------------------------------------------------------------------------------- *)
Lemma str_eqb_spec a : forall b, str_eqb a b = true <-> a = b.
Proof.
  induction a as [|x a IH]; intros [|y b]; cbn; try (split; [discriminate|discriminate]); try tauto.
  rewrite andb_true_iff, Z.eqb_eq, IH. split; [intros [-> ->]; reflexivity|intros H; inversion H; auto].
Qed.

Lemma strip_prefix_spec p : forall s r, strip_prefix p s = Some r <-> s = p ++ r.
Proof.
  induction p as [|x p IH]; intros s r; cbn.
  - split; [intros H; inversion H; reflexivity|intros ->; reflexivity].
  - destruct s as [|y s]; [split; discriminate|].
    destruct (x =? y) eqn:E.
    + apply Z.eqb_eq in E; subst y. rewrite IH. split; [intros ->; reflexivity|intros H; inversion H; reflexivity].
    + apply Z.eqb_neq in E. split; [discriminate|intros H; inversion H; congruence].
Qed.

Lemma strip_prefix_none p s : strip_prefix p s = None -> forall r, s <> p ++ r.
Proof.
  intros H r Hs. apply strip_prefix_spec in Hs. congruence.
Qed.

Lemma span_digits_app a : forall c t, Digits a -> is_digit c = false -> span_digits (a ++ c :: t) = (a, c :: t).
Proof.
  induction a as [|x a IH]; intros c t Ha Hc; cbn.
  - rewrite Hc. reflexivity.
  - inversion Ha; subst. apply is_digit_spec in H1. rewrite H1. rewrite IH; auto.
Qed.

Lemma span_digits_spec s : forall d t, span_digits s = (d, t) -> s = d ++ t /\ Digits d.
Proof.
  induction s as [|c s IH]; intros d t; cbn.
  - intros H; inversion H; subst. split; [reflexivity|constructor].
  - destruct (is_digit c) eqn:E.
    + destruct (span_digits s) as [d' t'] eqn:Es. intros H; inversion H; subst.
      destruct (IH d' t eq_refl) as [-> Hd]. split; [reflexivity|].
      constructor; [apply is_digit_spec; exact E|exact Hd].
    + intros H; inversion H; subst. split; [reflexivity|constructor].
Qed.

Lemma us_not_digit : is_digit us = false.
Proof. reflexivity. Qed.

(* ---- the patterns ---------------------------------------------------------------------------------------- *)
Lemma pat_prefix_digits_spec p s : pat_prefix_digits p s = true <-> exists ds, Digits ds /\ s = p ++ ds.
Proof.
  unfold pat_prefix_digits. destruct (strip_prefix p s) as [r|] eqn:E.
  - apply strip_prefix_spec in E. rewrite all_digits_spec. split.
    + intros H. exists r. auto.
    + intros [ds [Hd Hs]]. subst s. apply app_inv_head in Hs. subst. exact Hd.
  - split; [discriminate|]. intros [ds [_ Hs]]. exfalso. exact (strip_prefix_none _ _ E _ Hs).
Qed.

Lemma pat_prefix_digit_spec p s : pat_prefix_digit p s = true <-> exists d, IsDigit d /\ s = p ++ [d].
Proof.
  unfold pat_prefix_digit. destruct (strip_prefix p s) as [r|] eqn:E.
  - apply strip_prefix_spec in E. subst s. split.
    + destruct r as [|d [|? ?]]; try discriminate. intros H. exists d. split; [apply is_digit_spec; exact H|reflexivity].
    + intros [d [Hd Hs]]. apply app_inv_head in Hs. subst r. apply is_digit_spec. exact Hd.
  - split; [discriminate|]. intros [d [_ Hs]]. exfalso. exact (strip_prefix_none _ _ E _ Hs).
Qed.

Lemma pat_q_spec s :
  pat_q s = true <-> exists a b, Digits a /\ a <> [] /\ Digits b /\ b <> [] /\ s = c_q :: a ++ us :: b.
Proof.
  unfold pat_q. destruct s as [|c r].
  - split; [discriminate|]. intros [a [b [_ [_ [_ [_ H]]]]]]. discriminate.
  - split.
    + rewrite andb_true_iff, Z.eqb_eq. intros [-> H].
      destruct (span_digits r) as [d1 t] eqn:Es. apply span_digits_spec in Es. destruct Es as [-> Hd1].
      destruct d1 as [|x d1]; [discriminate|]. destruct t as [|u d2]; [discriminate|].
      apply andb_true_iff in H. destruct H as [Hu H]. apply Z.eqb_eq in Hu. subst u.
      destruct d2 as [|y d2]; [discriminate|]. apply all_digits_spec in H.
      exists (x :: d1), (y :: d2). repeat split; auto; discriminate.
    + intros [a [b [Ha [Hna [Hb [Hnb H]]]]]]. inversion H; subst.
      rewrite Z.eqb_refl. cbn [andb]. rewrite span_digits_app by (auto using us_not_digit).
      destruct a as [|x a]; [congruence|]. rewrite Z.eqb_refl. cbn [andb].
      destruct b as [|y b]; [congruence|]. apply all_digits_spec. exact Hb.
Qed.

Lemma pat_uq_spec s :
  pat_uq s = true <->
  exists a b, Digits a /\ a <> [] /\ Digits b /\ b <> [] /\ (s = c_q :: a ++ us :: b \/ s = c_u :: c_q :: a ++ us :: b).
Proof.
  unfold pat_uq. rewrite orb_true_iff, pat_q_spec. split.
  - intros [[a [b [Ha [Hna [Hb [Hnb H]]]]]]|H].
    + exists a, b. auto 10.
    + destruct s as [|c r]; [discriminate|]. apply andb_true_iff in H. destruct H as [Hc H].
      apply Z.eqb_eq in Hc. subst c. apply pat_q_spec in H. destruct H as [a [b [Ha [Hna [Hb [Hnb ->]]]]]].
      exists a, b. auto 10.
  - intros [a [b [Ha [Hna [Hb [Hnb [H|H]]]]]]].
    + left. exists a, b. auto.
    + right. subst s. rewrite Z.eqb_refl. cbn [andb]. apply pat_q_spec. exists a, b. auto.
Qed.

Lemma last_app_single (m : str) x d : last (m ++ [x]) d = x.
Proof. apply last_last. Qed.

Lemma pat_underscores_spec s : pat_underscores s = true <-> exists m, s = us :: m ++ [us].
Proof.
  unfold pat_underscores. destruct s as [|c [|d r]].
  - split; [discriminate|]. intros [m H]. discriminate.
  - split; [discriminate|]. intros [m H]. inversion H. destruct m; discriminate.
  - rewrite andb_true_iff, !Z.eqb_eq. split.
    + intros [-> Hl]. exists (removelast (d :: r)).
      assert (d :: r <> []) as Hne by discriminate.
      rewrite (app_removelast_last 0 Hne) at 1. rewrite Hl. reflexivity.
    + intros [m H]. inversion H; subst. split; [reflexivity|]. rewrite H2. apply last_app_single.
Qed.

Lemma existsb_words_spec s : existsb (str_eqb s) reserved_words = true <-> In s reserved_words.
Proof.
  rewrite existsb_exists. split.
  - intros [w [Hw He]]. apply str_eqb_spec in He. subst. exact Hw.
  - intros H. exists s. split; [exact H|apply str_eqb_spec; reflexivity].
Qed.

Lemma is_reserved_spec s : is_reserved s = true <-> Reserved s.
Proof.
  unfold is_reserved.
  rewrite !orb_true_iff, existsb_words_spec, !pat_prefix_digits_spec, pat_uq_spec, !pat_prefix_digit_spec,
    pat_underscores_spec.
  split.
  - intros [[[[[[[[H|H]|H]|H]|H]|H]|H]|H]|H].
    + apply R_word; exact H.
    + destruct H as [ds [Hd ->]]. apply R_void; exact Hd.
    + destruct H as [ds [Hd ->]]. apply R_int; exact Hd.
    + destruct H as [ds [Hd ->]]. apply R_uint; exact Hd.
    + destruct H as [a [b [Ha [Hna [Hb [Hnb [->| ->]]]]]]]; [apply R_q|apply R_uq]; auto.
    + destruct H as [ds [Hd ->]]. apply R_float; exact Hd.
    + destruct H as [d [Hd ->]]. apply R_com; exact Hd.
    + destruct H as [d [Hd ->]]. apply R_lpt; exact Hd.
    + destruct H as [m ->]. apply R_underscores.
  - intros H. destruct H.
    + do 8 left. assumption.
    + do 7 left. right. eauto.
    + do 6 left. right. eauto.
    + do 5 left. right. eauto.
    + do 4 left. right. exists a, b. auto 10.
    + do 4 left. right. exists a, b. auto 10.
    + do 3 left. right. eauto.
    + do 2 left. right. eauto.
    + left. right. eauto.
    + right. eauto.
Qed.

(* ---- check_name ------------------------------------------------------------------------------------------ *)
Theorem name_ok_spec s : name_ok s = true <-> IdentSyntax s /\ ~ Reserved (lower s).
Proof.
  unfold name_ok, IdentSyntax. destruct s as [|c r].
  - split; [discriminate|]. intros [[c [r [H _]]] _]. discriminate.
  - rewrite !andb_true_iff, negb_true_iff, first_ok_spec, forallb_cont_spec.
    rewrite <- not_true_iff_false, is_reserved_spec. split.
    + intros [[Hf Hc] Hr]. split; [|exact Hr]. exists c, r. inversion Hc; subst. auto.
    + intros [[c' [r' [He [Hf Hc]]]] Hr]. inversion He; subst c' r'. split; [split|]; auto.
      constructor; [left; exact Hf|exact Hc].
Qed.

(* lowering only touches upper-case letters; identifiers stay identifiers *)
Lemma lower_length s : length (lower s) = length s.
Proof. apply map_length. Qed.

(* case-insensitivity: names that differ only in the case of ASCII letters get the same verdict *)
Lemma lowc_idem c : lowc (lowc c) = lowc c.
Proof.
  unfold lowc. destruct (is_upper c) eqn:E; [|rewrite E; reflexivity].
  apply is_upper_spec in E. unfold IsUpper in E.
  destruct (is_upper (c + 32)) eqn:E2; [|reflexivity].
  apply is_upper_spec in E2. unfold IsUpper in E2. lia.
Qed.

Lemma lower_idem s : lower (lower s) = lower s.
Proof. unfold lower. rewrite map_map. apply map_ext. exact lowc_idem. Qed.

Lemma first_ok_lowc c : first_ok (lowc c) = first_ok c.
Proof.
  unfold lowc. destruct (is_upper c) eqn:E; [|reflexivity].
  unfold first_ok. rewrite E. pose proof E as E'. apply is_upper_spec in E'. unfold IsUpper in E'.
  replace (is_lower (c + 32)) with true; [rewrite orb_true_r; reflexivity|].
  symmetry. apply is_lower_spec. unfold IsLower. lia.
Qed.

Lemma cont_ok_lowc c : cont_ok (lowc c) = cont_ok c.
Proof.
  unfold cont_ok. rewrite first_ok_lowc. unfold lowc. destruct (is_upper c) eqn:E; [|reflexivity].
  apply is_upper_spec in E. unfold IsUpper in E.
  replace (is_digit (c + 32)) with false; [replace (is_digit c) with false; [reflexivity|]|];
    symmetry; apply not_true_iff_false; rewrite is_digit_spec; unfold IsDigit; lia.
Qed.

Theorem name_ok_case_insensitive s t : lower s = lower t -> name_ok s = name_ok t.
Proof.
  intros H. unfold name_ok. destruct s as [|c r], t as [|c' r']; try discriminate; [reflexivity|].
  rewrite H. f_equal. f_equal.
  - cbn in H. inversion H. rewrite <- (first_ok_lowc c), <- (first_ok_lowc c'). congruence.
  - assert (forall l, forallb cont_ok l = forallb cont_ok (lower l)) as E.
    { induction l as [|x l IH]; [reflexivity|]. cbn. rewrite cont_ok_lowc, IH. reflexivity. }
    rewrite (E (c :: r)), (E (c' :: r')), H. reflexivity.
Qed.
