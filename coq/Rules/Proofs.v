(* C05_iff: the replay of the code's checks accepts a definition iff the declarative rules hold. *)
From Coq Require Import ZArith List Bool Lia.
From PV Require Import Util.ListSet Util.Sumset BLS.Model Layout.Types
  Rules.Names Rules.NamesSpec Rules.NamesProofs Rules.Defn Rules.Accept Rules.Spec Rules.ProofsLocal Rules.ProofsRun.
Import ListNotations.
Open Scope Z_scope.

(* ---- the handlers from the initial state --------------------------------------------------------------------- *)
Definition Positional (e : env) (i : ident) (first : bool) (sec : list stmt) : Prop :=
  Forall (StmtOK e i) sec
  /\ (forall l1 m l2, sec = l1 ++ m :: l2 -> IsMode m -> Forall (fun s => ~ IsMode s) l1)
  /\ (forall l1 a l2, sec = l1 ++ a :: l2 -> IsAttr a -> Forall (fun s => ~ IsDir DExtent s) l1)
  /\ (forall l1 v l2, sec = l1 ++ SDir DUnion v :: l2 -> Forall (fun s => ~ IsAttr s /\ ~ IsDir DUnion s) l1)
  /\ (forall l1 v l2, sec = l1 ++ SDir DDeprecated v :: l2 ->
        first = true /\ Forall (fun s => ~ IsAttr s /\ ~ IsDir DDeprecated s) l1).

Lemma has_dir_split d l : has_dir d l = true <-> exists l1 v l2, l = l1 ++ SDir d v :: l2.
Proof.
  unfold has_dir. rewrite existsb_exists. split.
  - intros [s [Hin Hs]]. apply is_dirb_spec in Hs. destruct Hs as [v ->].
    apply in_split in Hin. destruct Hin as [l1 [l2 ->]]. eauto.
  - intros [l1 [v [l2 ->]]]. exists (SDir d v). split; [apply in_elt|]. apply is_dirb_spec. eexists. reflexivity.
Qed.

(* when depr0 is the deprecation flag after the previous sections: a first section starts with false; a later
   section never accepts @deprecated, whatever the flag *)
Lemma G_init e i first depr0 sec :
  (first = true -> depr0 = false) ->
  (G e i first (init_state depr0) sec <-> Positional e i first sec).
Proof.
  intros Hd. unfold G, Positional, init_state. cbn [b_mode b_union b_attrs b_deprecated is_delim].
  split.
  - intros [H1 [H2 [H3 [H4 H5]]]]. split; [exact H1|]. refine (conj _ (conj _ (conj _ _))).
    + intros l1 m l2 E Hm. apply (H2 l1 m l2 E Hm).
    + intros l1 a l2 E Ha. apply (H3 l1 a l2 E Ha).
    + intros l1 v l2 E. apply (H4 l1 v l2 E).
    + intros l1 v l2 E. destruct (H5 l1 v l2 E) as [[Ha _] Hb]. auto.
  - intros [H1 [H2 [H3 [H4 H5]]]]. split; [exact H1|]. refine (conj _ (conj _ (conj _ _))).
    + intros l1 m l2 E Hm. split; [reflexivity|]. apply (H2 l1 m l2 E Hm).
    + intros l1 a l2 E Ha. split; [reflexivity|]. apply (H3 l1 a l2 E Ha).
    + intros l1 v l2 E. split; [auto|]. apply (H4 l1 v l2 E).
    + intros l1 v l2 E. destruct (H5 l1 v l2 E) as [Ha Hb]. auto.
Qed.

Lemma run_init e i first depr0 sec b :
  (first = true -> depr0 = false) ->
  (run e i first (init_state depr0) sec = Some b <-> Positional e i first sec /\ b = summary depr0 sec).
Proof.
  intros Hd. rewrite <- (G_init e i first depr0 sec Hd), <- run_G. split.
  - intros H. split; [eauto|]. apply run_final in H. rewrite final_init in H. exact H.
  - intros [[b' H] ->]. pose proof (run_final _ _ _ _ _ _ H) as E. rewrite final_init in E. subst. exact H.
Qed.

(* ---- the composite constructors -------------------------------------------------------------------------------- *)
Lemma nodupb_spec l : nodupb l = true <-> NoDup l.
Proof.
  induction l as [|x r IH]; cbn.
  - split; [constructor|reflexivity].
  - rewrite andb_true_iff, negb_true_false, IH. split.
    + intros [H1 H2]. constructor; [|exact H2]. intros Hin.
      assert (existsb (str_eqb x) r = true) as E; [|congruence].
      apply existsb_exists. exists x. split; [exact Hin|apply str_eqb_spec; reflexivity].
    + intros H. inversion H; subst. split; [|assumption].
      apply not_true_iff_false. intros E. apply existsb_exists in E. destruct E as [y [Hy E]].
      apply str_eqb_spec in E. subst. contradiction.
Qed.

Lemma version_ok_spec i : version_ok i = true <-> VersionOK i.
Proof.
  unfold version_ok, VersionOK. rewrite !andb_true_iff, !Z.leb_le, Z.ltb_lt. lia.
Qed.

Lemma forallb_Forall {A} (f : A -> bool) (P : A -> Prop) l :
  (forall x, f x = true <-> P x) -> (forallb f l = true <-> Forall P l).
Proof.
  intros H. rewrite forallb_forall, Forall_forall. split; intros H1 x Hx; apply H; auto.
Qed.

Lemma port_ok_spec lo hi p :
  match p with None => true | Some x => (lo <=? x) && (x <=? hi) end = true <-> PortIn lo hi p.
Proof.
  unfold PortIn. destruct p as [x|].
  - rewrite andb_true_iff, !Z.leb_le. split; [intros H y E; inversion E; subst; exact H|intros H; apply H; reflexivity].
  - split; [intros _ y E; discriminate|reflexivity].
Qed.

Lemma mode_exists e i sec : Forall (StmtOK e i) sec -> (mode_of sec <> MNone <-> exists m, In m sec /\ IsMode m).
Proof.
  intros HF. unfold mode_of. destruct (find is_modeb sec) as [s|] eqn:E.
  - apply find_some in E. destruct E as [Hin Hm]. apply is_modeb_spec in Hm.
    rewrite Forall_forall in HF. split; [eauto|]. intros _. apply (mode_of_stmt_mode e i s); auto.
  - split; [congruence|]. intros [m [Hin Hm]]. apply is_modeb_spec in Hm.
    pose proof (find_none _ _ E m Hin). congruence.
Qed.

Lemma mode_ok_spec e i depr0 sec :
  Forall (StmtOK e i) sec ->
  (mode_ok e i (summary depr0 sec) = true <->
   (exists m, In m sec /\ IsMode m)
   /\ (forall z, mode_of sec = MDelim z -> z mod 8 = 0 /\ extent (inner_ty e i (summary false sec)) <= z)).
Proof.
  intros HF. rewrite <- (mode_exists e i sec HF). unfold mode_ok. cbn [b_mode summary].
  change (inner_ty e i (summary depr0 sec)) with (inner_ty e i (summary false sec)).
  destruct (mode_of sec) as [| |z].
  - split; [discriminate|]. intros [H _]. congruence.
  - split; [|reflexivity]. intros _. split; [discriminate|]. intros z E. discriminate.
  - rewrite andb_true_iff, Z.eqb_eq, Z.leb_le. split.
    + intros H. split; [discriminate|]. intros z' E. inversion E; subst. exact H.
    + intros [_ H]. apply H. reflexivity.
Qed.

Lemma composite_ok_spec e i depr0 depr k sec :
  Forall (StmtOK e i) sec ->
  (composite_ok e i depr k (summary depr0 sec) = true <->
   joined_length (composite_name i k) <= 255
   /\ Forall NameOK (composite_name i k)
   /\ VersionOK i
   /\ NoDup (attr_names (attrs_of sec))
   /\ (k = KMessage -> PortIn 0 8191 (i_port i))
   /\ Forall (AttrPlacementOK e i depr (negb (has_dir DUnion sec))) (attrs_of sec)
   /\ (has_dir DUnion sec = true -> 2 <= Z.of_nat (length (layout_fields e i (attrs_of sec))))
   /\ (exists m, In m sec /\ IsMode m)
   /\ (forall z, mode_of sec = MDelim z -> z mod 8 = 0 /\ extent (inner_ty e i (summary false sec)) <= z)).
Proof.
  intros HF. unfold composite_ok. cbn [b_attrs b_union summary].
  rewrite !andb_true_iff, Z.leb_le, (forallb_Forall _ _ _ name_ok_NameOK), version_ok_spec, nodupb_spec,
    (forallb_Forall _ _ _ (attr_agg_ok_spec e i depr (negb (has_dir DUnion sec)))), (mode_ok_spec e i depr0 sec HF).
  assert ((match k with KMessage => subject_port_ok (i_port i) | _ => true end) = true
          <-> (k = KMessage -> PortIn 0 8191 (i_port i))) as Hp.
  { destruct k; [|split; [intros _ E; discriminate|reflexivity]|split; [intros _ E; discriminate|reflexivity]].
    unfold subject_port_ok. rewrite port_ok_spec. tauto. }
  rewrite Hp.
  assert ((if has_dir DUnion sec then 2 <=? Z.of_nat (length (layout_fields e i (attrs_of sec))) else true) = true
          <-> (has_dir DUnion sec = true -> 2 <= Z.of_nat (length (layout_fields e i (attrs_of sec))))) as Hu.
  { destruct (has_dir DUnion sec); [rewrite Z.leb_le; tauto|split; [intros _ E; discriminate|reflexivity]]. }
  rewrite Hu. tauto.
Qed.

Lemma regulated_ok_spec e i svc : regulated_ok e i svc = true <-> RegulatedOK e i svc.
Proof.
  unfold regulated_ok, RegulatedOK. destruct (e_allow_unregulated e); cbn [orb].
  - split; [intros _ E; discriminate|reflexivity].
  - destruct svc, (is_standard_root (i_root i)); cbv zeta; rewrite port_ok_spec; tauto.
Qed.

(* ---- sections ---------------------------------------------------------------------------------------------------- *)
Lemma section_iff e i first depr0 depr k sec :
  (Positional e i first sec /\ composite_ok e i depr k (summary depr0 sec) = true
   /\ (k = KMessage -> True))
  <-> (SectionRules e i first depr k sec /\ VersionOK i /\ (k = KMessage -> PortIn 0 8191 (i_port i))).
Proof.
  split.
  - intros [[HF [P1 [P2 [P3 P4]]]] [Hc _]]. apply (composite_ok_spec e i depr0 depr k sec HF) in Hc.
    destruct Hc as [C1 [C2 [C3 [C4 [C5 [C6 [C7 [C8 C9]]]]]]]].
    split; [|split; assumption]. constructor; assumption.
  - intros [[S1 S2 S3 S4 S5 S6 S7 S8 S9 S10 S11 S12] [Hv Hp]].
    split; [unfold Positional; auto 10|]. split; [|trivial].
    apply (composite_ok_spec e i depr0 depr k sec S1). auto 12.
Qed.

Lemma no_deprecated_later e i sec : Positional e i false sec -> has_dir DDeprecated sec = false.
Proof.
  intros [_ [_ [_ [_ H]]]]. apply not_true_iff_false. intros E. apply has_dir_split in E.
  destruct E as [l1 [v [l2 E]]]. destruct (H l1 v l2 E) as [H1 _]. discriminate.
Qed.

Theorem accept_iff_valid e d : accept e d = true <-> Valid e d.
Proof.
  unfold accept, Valid. set (i := d_id d). set (depr := has_dir DDeprecated (d_first d)).
  destruct (run e i true (init_state false) (d_first d)) as [b1|] eqn:E1.
  - apply run_init in E1; [|reflexivity]. destruct E1 as [P1 ->].
    assert (b_deprecated (summary false (d_first d)) = depr) as Hd by reflexivity.
    destruct (d_more d) as [|sec2 [|sec3 more]].
    + (* message *)
      rewrite Hd, andb_true_iff, regulated_ok_spec.
      pose proof (section_iff e i true false depr KMessage (d_first d)) as S. split.
      * intros [Hc Hr]. destruct S as [S _]. destruct (S (conj P1 (conj Hc (fun _ => I)))) as [S1 [S2 S3]]. auto.
      * intros [Hv [S1 [Hp Hr]]]. split; [|exact Hr]. destruct S as [_ S].
        destruct (S (conj S1 (conj Hv (fun _ => Hp)))) as [_ [Hc _]]. exact Hc.
    + (* service *)
      destruct (run e i false (init_state (b_deprecated (summary false (d_first d)))) sec2) as [b2|] eqn:E2.
      * apply run_init in E2; [|discriminate]. destruct E2 as [P2 ->].
        assert (b_deprecated (summary (b_deprecated (summary false (d_first d))) sec2) = depr) as Hd2.
        { cbn [b_deprecated summary]. rewrite (no_deprecated_later e i sec2 P2), orb_false_r. reflexivity. }
        rewrite Hd2, !andb_true_iff, regulated_ok_spec. unfold service_port_ok. rewrite port_ok_spec.
        pose proof (section_iff e i true false depr KRequest (d_first d)) as S1.
        pose proof (section_iff e i false depr depr KResponse sec2) as S2.
        change (b_deprecated (summary false (d_first d))) with depr.
        split.
        -- intros [[[Hc1 Hc2] Hp] Hr]. destruct S1 as [S1 _]. destruct S2 as [S2 _].
           destruct (S1 (conj P1 (conj Hc1 (fun _ => I)))) as [R1 [Hv _]].
           destruct (S2 (conj P2 (conj Hc2 (fun _ => I)))) as [R2 _]. auto.
        -- intros [Hv [R1 [R2 [Hp Hr]]]]. destruct S1 as [_ S1]. destruct S2 as [_ S2].
           assert (KRequest = KMessage -> PortIn 0 8191 (i_port i)) as K1 by (intros E; discriminate).
           assert (KResponse = KMessage -> PortIn 0 8191 (i_port i)) as K2 by (intros E; discriminate).
           destruct (S1 (conj R1 (conj Hv K1))) as [_ [Hc1 _]].
           destruct (S2 (conj R2 (conj Hv K2))) as [_ [Hc2 _]]. auto.
      * split; [discriminate|]. intros [Hv [R1 [R2 _]]].
        assert (Positional e i false sec2) as P2 by (destruct R2; unfold Positional; auto 10).
        assert (run e i false (init_state (b_deprecated (summary false (d_first d)))) sec2
                = Some (summary (b_deprecated (summary false (d_first d))) sec2)) as E
          by (apply run_init; [discriminate|auto]).
        congruence.
    + split; [discriminate|tauto].
  - split; [discriminate|]. intros [Hv H].
    assert (Positional e i true (d_first d)) as P1.
    { destruct (d_more d) as [|sec2 [|sec3 more]]; [destruct H as [R _]|destruct H as [R _]|contradiction];
        destruct R; unfold Positional; auto 10. }
    assert (run e i true (init_state false) (d_first d) = Some (summary false (d_first d))) as E
      by (apply run_init; [reflexivity|auto]).
    congruence.
Qed.
