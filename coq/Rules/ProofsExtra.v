(* Readable consequences of the rules: "exactly one" serialization mode, and what a resolved reference is. *)
From Coq Require Import ZArith List Bool Lia.
From PV Require Import Util.ListSet Util.Sumset BLS.Model Layout.Types
  Rules.Names Rules.NamesSpec Rules.NamesProofs Rules.Defn Rules.Accept Rules.Spec Rules.ProofsLocal Rules.ProofsRun Rules.Proofs.
Import ListNotations.
Open Scope Z_scope.

(* ---- exactly one of @sealed / @extent -------------------------------------------------------------------------- *)
Definition ExactlyOneMode (sec : list stmt) : Prop :=
  exists l1 m l2, sec = l1 ++ m :: l2 /\ IsMode m
                  /\ Forall (fun s => ~ IsMode s) l1 /\ Forall (fun s => ~ IsMode s) l2.

Lemma exactly_one_mode sec :
  ((exists m, In m sec /\ IsMode m)
   /\ (forall l1 m l2, sec = l1 ++ m :: l2 -> IsMode m -> Forall (fun s => ~ IsMode s) l1))
  <-> ExactlyOneMode sec.
Proof.
  unfold ExactlyOneMode. split.
  - intros [[m [Hin Hm]] Honce]. apply in_split in Hin. destruct Hin as [l1 [l2 ->]].
    exists l1, m, l2. split; [reflexivity|]. split; [exact Hm|]. split; [apply (Honce l1 m l2 eq_refl Hm)|].
    rewrite Forall_forall. intros x Hx Hxm. apply in_split in Hx. destruct Hx as [l3 [l4 ->]].
    specialize (Honce (l1 ++ m :: l3) x l4).
    rewrite <- app_assoc in Honce. cbn in Honce. specialize (Honce eq_refl Hxm).
    rewrite Forall_forall in Honce. apply (Honce m); [apply in_elt|exact Hm].
  - intros [l1 [m [l2 [-> [Hm [H1 H2]]]]]]. split.
    + exists m. split; [apply in_elt|exact Hm].
    + intros k1 x k2 E Hx.
      (* x is a mode statement of l1 ++ m :: l2, hence x is m at the same position *)
      revert k1 E. induction l1 as [|a l1 IH]; intros k1 E.
      * destruct k1 as [|b k1]; [constructor|]. cbn in E. injection E as E1 E2.
        exfalso. rewrite Forall_forall in H2. apply (H2 x); [rewrite E2; apply in_elt|exact Hx].
      * destruct k1 as [|b k1]; [constructor|]. cbn in E. injection E as E1 E2. subst b.
        inversion H1; subst. constructor; [assumption|]. apply IH; assumption.
Qed.

Theorem valid_exactly_one_mode e i first depr k sec :
  SectionRules e i first depr k sec -> ExactlyOneMode sec.
Proof.
  intros [_ S2 S3 _ _ _ _ _ _ _ _ _]. apply exactly_one_mode. split; assumption.
Qed.

(* the mode selected is the one of that statement *)
Lemma mode_of_unique l1 m l2 :
  IsMode m -> Forall (fun s => ~ IsMode s) l1 -> mode_of (l1 ++ m :: l2) = mode_of_stmt m.
Proof.
  intros Hm H1. unfold mode_of. induction l1 as [|a l1 IH]; cbn [app find].
  - apply is_modeb_spec in Hm. rewrite Hm. reflexivity.
  - inversion H1; subst. apply is_modeb_false in H2. rewrite H2. apply IH. assumption.
Qed.

(* ---- resolution of a reference ------------------------------------------------------------------------------------ *)
Lemma names_eqb_spec a : forall b, names_eqb a b = true <-> a = b.
Proof.
  induction a as [|x a IH]; intros [|y b]; cbn; try (split; discriminate); try tauto.
  rewrite andb_true_iff, str_eqb_spec, IH. split; [intros [-> ->]; reflexivity|intros H; inversion H; auto].
Qed.

(* a reference resolves to p iff p is a dependency with exactly that name and version and no other dependency has
   the same version and a name equal up to letter case *)
Theorem resolve_spec e i c M m p :
  resolve e i c M m = Some p ->
  In p (e_deps e) /\ p_name p = resolve_name i c /\ p_major p = M /\ p_minor p = m
  /\ (forall q, In q (e_deps e) -> map lower (p_name q) = map lower (resolve_name i c) ->
                p_major q = M -> p_minor q = m -> q = p).
Proof.
  unfold resolve. set (nm := resolve_name i c).
  destruct (filter (dep_matches nm M m) (e_deps e)) as [|p' [|p'' r]] eqn:E; try discriminate.
  destruct (names_eqb (p_name p') nm) eqn:En; [|discriminate]. intros H. inversion H; subst p'.
  apply names_eqb_spec in En.
  assert (In p (filter (dep_matches nm M m) (e_deps e))) as Hin by (rewrite E; left; reflexivity).
  apply filter_In in Hin. destruct Hin as [Hin Hm]. unfold dep_matches in Hm.
  apply andb_true_iff in Hm. destruct Hm as [Hm Hm3]. apply andb_true_iff in Hm. destruct Hm as [Hm1 Hm2].
  apply Z.eqb_eq in Hm2, Hm3. repeat split; auto.
  intros q Hq Hn HM Hmm.
  assert (In q (filter (dep_matches nm M m) (e_deps e))) as Hq'.
  { apply filter_In. split; [exact Hq|]. unfold dep_matches.
    rewrite !andb_true_iff, !Z.eqb_eq. repeat split; auto. apply names_eqb_spec. exact Hn. }
  rewrite E in Hq'. destruct Hq' as [->|[]]. reflexivity.
Qed.

(* relative references are completed with the namespace of the referring definition *)
Lemma resolve_name_relative i c : resolve_name i [c] = full_ns i ++ [c].
Proof. reflexivity. Qed.
Lemma resolve_name_absolute i a b r : resolve_name i (a :: b :: r) = a :: b :: r.
Proof. reflexivity. Qed.

(* ---- deprecation is transitive, also through arrays ---------------------------------------------------------- *)
Definition elem_of (t : tx) : sx := match t with TxS s | TxFix s _ | TxVarI s _ | TxVarE s _ => s end.

Lemma placement_deprecated e i depr st t :
  PlacementOK e i depr st t -> ref_deprecated e i (elem_of t) = true -> depr = true.
Proof. destruct t; cbn; tauto. Qed.

Lemma in_attrs_of_field sec t n : In (SField t n) sec -> In (AField n t) (attrs_of sec).
Proof. intros H. unfold attrs_of. apply in_flat_map. exists (SField t n). split; [exact H|left; reflexivity]. Qed.

Theorem valid_deprecation_transitive e d sec t n :
  Valid e d -> (sec = d_first d \/ In sec (d_more d)) -> In (SField t n) sec ->
  ref_deprecated e (d_id d) (elem_of t) = true -> has_dir DDeprecated (d_first d) = true.
Proof.
  unfold Valid. intros [_ H] Hsec Hin Hd.
  assert (forall first k, SectionRules e (d_id d) first (has_dir DDeprecated (d_first d)) k sec ->
          has_dir DDeprecated (d_first d) = true) as K.
  { intros first k R. destruct R as [_ _ _ _ _ _ _ _ S9 _ _ _].
    rewrite Forall_forall in S9. specialize (S9 _ (in_attrs_of_field sec t n Hin)). cbn in S9.
    eapply placement_deprecated; eauto. }
  destruct (d_more d) as [|sec2 [|sec3 more]].
  - destruct Hsec as [->|[]]. destruct H as [R _]. eapply K; eauto.
  - destruct H as [R1 [R2 _]]. destruct Hsec as [->|[->|[]]]; eapply K; eauto.
  - contradiction.
Qed.

(* ---- unions: at least two variants, no padding ----------------------------------------------------------------- *)
Lemma in_attrs_of_pad sec w : In (SPad w) sec -> In (APad w) (attrs_of sec).
Proof. intros H. unfold attrs_of. apply in_flat_map. exists (SPad w). split; [exact H|left; reflexivity]. Qed.

Definition is_fieldb (s : stmt) : bool := match s with SField _ _ => true | _ => false end.

Lemma layout_fields_count e i sec :
  (forall w, ~ In (SPad w) sec) ->
  length (layout_fields e i (attrs_of sec)) = length (filter is_fieldb sec).
Proof.
  induction sec as [|s r IH]; intros Hp; [reflexivity|].
  assert (forall w, ~ In (SPad w) r) as Hr by (intros w Hw; apply (Hp w); right; exact Hw).
  unfold attrs_of, layout_fields in *. cbn [flat_map filter]. rewrite flat_map_app, app_length, (IH Hr).
  destruct s as [t n|w|t n v|d v]; cbn; try reflexivity.
  exfalso. apply (Hp w). left. reflexivity.
Qed.

Theorem valid_union_shape e i first depr k sec :
  SectionRules e i first depr k sec -> has_dir DUnion sec = true ->
  (forall w, ~ In (SPad w) sec) /\ (2 <= length (filter is_fieldb sec))%nat.
Proof.
  intros [_ _ _ _ _ _ _ S8 S9 _ _ _] Hu.
  assert (forall w, ~ In (SPad w) sec) as Hp.
  { intros w Hw. rewrite Forall_forall in S9. specialize (S9 _ (in_attrs_of_pad sec w Hw)).
    cbn in S9. rewrite Hu in S9. discriminate. }
  split; [exact Hp|]. specialize (S8 Hu). rewrite (layout_fields_count e i sec Hp) in S8. lia.
Qed.
