(* Abstract syntax of one DSDL definition as C05 sees it: the identity that the file name yields, the ordered
   statements of each section, and an environment of dependencies.  Definitions only.

   The concrete text is produced from this form by harness/props/c05.py (one statement per line); expression values
   are abstracted to their value class because C05 only depends on the class (and on the integer for @extent, array
   capacities and constant ranges). *)
From Coq Require Import ZArith List Bool.
From PV Require Import Util.ListSet Util.Sumset BLS.Model Layout.Types.
Import ListNotations.
Open Scope Z_scope.

(* scalar type expressions (the grammar's type_scalar) *)
Inductive sx :=
| XBool | XByte | XUtf8
| XUInt (w : Z) (c : cast)          (* [saturated|truncated] uintW; the default cast mode is saturated *)
| XSInt (w : Z) (c : cast)
| XFloat (w : Z) (c : cast)
| XVoid (w : Z)
| XRef (comps : list str) (major minor : Z).   (* a.b.Name.M.m ; a single component is relative to the namespace *)

(* type expressions: scalar, T[n], T[<=n], T[<n] *)
Inductive tx :=
| TxS (s : sx)
| TxFix (s : sx) (n : Z)
| TxVarI (s : sx) (n : Z)
| TxVarE (s : sx) (n : Z).

(* value class of an evaluated expression *)
Inductive xv :=
| VBool (b : bool)
| VRat (n d : Z)            (* the rational n/d as written "n/d"; d = 0 is a division by zero; d = 1 is written "n" *)
| VStr (cps : list Z)       (* string literal, by code points *)
| VSet.                     (* any non-primitive value: a set *)

Inductive dname := DUnion | DDeprecated | DSealed | DExtent | DAssert | DPrint | DUnknown.

Inductive stmt :=
| SField (t : tx) (name : str)
| SPad (w : Z)                          (* voidW on a line of its own *)
| SConst (t : tx) (name : str) (v : xv)
| SDir (d : dname) (e : option xv).     (* @name [expression] *)

(* identity derived from the path of the file *)
Record ident := mkId {
  i_root : str;               (* root namespace *)
  i_ns : list str;            (* nested namespace components below the root *)
  i_short : str;
  i_major : Z;
  i_minor : Z;
  i_port : option Z           (* fixed port-ID prefix of the file name *)
}.

Definition full_ns (i : ident) : list str := i_root i :: i_ns i.
Definition full_name (i : ident) : list str := full_ns i ++ [i_short i].

(* a definition: request (or message) section followed by the sections behind each "---" marker *)
Record defn := mkDefn {
  d_id : ident;
  d_first : list stmt;
  d_more : list (list stmt)
}.

(* a dependency that can be referred to: what the referrer can observe of it *)
Record dep := mkDep {
  p_name : list str;          (* full name, by components *)
  p_major : Z;
  p_minor : Z;
  p_deprecated : bool;
  p_service : bool;
  p_ty : ty                   (* layout (sealed structure/union or delimited wrapper); irrelevant for services *)
}.

Record env := mkEnv {
  e_deps : list dep;
  e_allow_unregulated : bool  (* allow_unregulated_fixed_port_id *)
}.
