(* Executable model of the static checks that decide whether pydsdl accepts a definition: every check is made where
   the code makes it (type constructors while the statement is parsed, Attribute/Constant constructors, directive
   handlers of DataTypeBuilder in statement order, CompositeType/UnionType/DelimitedType constructors and
   DataTypeBuilder.finalize at the end).  The result is "no InvalidDefinitionError is raised".  Definitions only. *)
From Coq Require Import ZArith List Bool.
From PV Require Import Util.ListSet Util.Sumset BLS.Model Layout.Types Rules.Names Rules.Defn.
Import ListNotations.
Open Scope Z_scope.

(* ---- resolve_versioned_data_type ----------------------------------------------------------------------------- *)
Fixpoint names_eqb (a b : list str) : bool :=
  match a, b with
  | [], [] => true
  | x :: a', y :: b' => str_eqb x y && names_eqb a' b'
  | _, _ => false
  end.

(* a name without a separator is relative to the namespace of the referring definition *)
Definition resolve_name (i : ident) (comps : list str) : list str :=
  match comps with
  | [c] => full_ns i ++ [c]
  | _ => comps
  end.

Definition dep_matches (nm : list str) (M m : Z) (p : dep) : bool :=
  names_eqb (map lower (p_name p)) (map lower nm) && (p_major p =? M) && (p_minor p =? m).

(* exactly one candidate equal up to letter case and with the same version, and it is spelled the same way *)
Definition resolve (e : env) (i : ident) (comps : list str) (M m : Z) : option dep :=
  let nm := resolve_name i comps in
  match filter (dep_matches nm M m) (e_deps e) with
  | [p] => if names_eqb (p_name p) nm then Some p else None
  | _ => None
  end.

Definition scalar_dep (e : env) (i : ident) (s : sx) : option dep :=
  match s with XRef c M m => resolve e i c M m | _ => None end.
Definition is_service_ref (e : env) (i : ident) (s : sx) : bool :=
  match scalar_dep e i s with Some p => p_service p | None => false end.
Definition ref_deprecated (e : env) (i : ident) (s : sx) : bool :=
  match scalar_dep e i s with Some p => p_deprecated p | None => false end.

(* ---- type constructors (PrimitiveType, VoidType, ArrayType) -------------------------------------------------- *)
Definition width_ok (w : Z) : bool := (1 <=? w) && (w <=? 64).
Definition is_sat (c : cast) : bool := match c with Sat => true | Trunc => false end.

Definition scalar_ok (e : env) (i : ident) (s : sx) : bool :=
  match s with
  | XBool | XByte | XUtf8 => true
  | XUInt w _ => width_ok w
  | XSInt w c => width_ok w && (2 <=? w) && is_sat c
  | XFloat w _ => width_ok w && ((w =? 16) || (w =? 32) || (w =? 64))
  | XVoid w => width_ok w
  | XRef c M m => match resolve e i c M m with Some _ => true | None => false end
  end.

(* the implicit length prefix is UnsignedIntegerType(2 ** ceil(log2(max(8, capacity.bit_length())))) *)
Definition prefix_ok (n : Z) : bool := pow2_ceil8 (bitlen n) <=? 64.

Definition type_ok (e : env) (i : ident) (t : tx) : bool :=
  match t with
  | TxS s => scalar_ok e i s
  | TxFix s n => scalar_ok e i s && negb (is_service_ref e i s) && (1 <=? n)
  | TxVarI s n => scalar_ok e i s && negb (is_service_ref e i s) && (1 <=? n) && prefix_ok n
  | TxVarE s n => scalar_ok e i s && negb (is_service_ref e i s) && (1 <=? n - 1) && prefix_ok (n - 1)
  end.

(* the layout of a type expression (only used for the extent rule) *)
Definition sty (e : env) (i : ident) (s : sx) : ty :=
  match s with
  | XBool => TPrim PBool
  | XByte => TPrim PByte
  | XUtf8 => TPrim PUtf8
  | XUInt w c => TPrim (PUInt w c)
  | XSInt w _ => TPrim (PSInt w)
  | XFloat w c => TPrim (PFloat w c)
  | XVoid w => TVoid w
  | XRef c M m => match resolve e i c M m with Some p => p_ty p | None => TVoid 0 end
  end.

Definition tty (e : env) (i : ident) (t : tx) : ty :=
  match t with
  | TxS s => sty e i s
  | TxFix s n => TFix (sty e i s) n
  | TxVarI s n => TVar (sty e i s) n
  | TxVarE s n => TVar (sty e i s) (n - 1)
  end.

(* ---- expressions ---------------------------------------------------------------------------------------------- *)
(* the evaluation of the expression does not fail (division by zero) *)
Definition xv_ok (v : xv) : bool := match v with VRat _ d => 0 <? d | _ => true end.
Definition oxv_ok (v : option xv) : bool := match v with Some x => xv_ok x | None => true end.

(* Rational.as_native_integer *)
Definition rat_int (v : xv) : option Z :=
  match v with
  | VRat n d => if (0 <? d) && (n mod d =? 0) then Some (n / d) else None
  | _ => None
  end.

(* ---- Attribute / Constant constructors ------------------------------------------------------------------------ *)
Definition attr_name_ok (t : tx) (name : str) : bool :=
  match t with
  | TxS (XVoid _) => false          (* "Void-typed fields can be used only for padding and cannot be named" *)
  | _ => name_ok name
  end.

Definition float_max (w : Z) : Z :=
  if w =? 16 then 65504 else if w =? 32 then 2 ^ 128 - 2 ^ 104 else 2 ^ 1024 - 2 ^ 971.

Definition int_const_ok (lo hi : Z) (is_u8 : bool) (v : xv) : bool :=
  match v with
  | VRat n d => (0 <? d) && (n mod d =? 0) && (lo <=? n / d) && (n / d <=? hi)
  | VStr [c] => (0 <=? c) && (c <? 128) && is_u8     (* exactly one byte in UTF-8, only for unsigned 8-bit types *)
  | _ => false
  end.

Definition const_ok (t : tx) (v : xv) : bool :=
  match t with
  | TxS XBool => match v with VBool _ => true | _ => false end
  | TxS (XUInt w _) => int_const_ok 0 (2 ^ w - 1) (w =? 8) v
  | TxS XByte | TxS XUtf8 => int_const_ok 0 255 true v
  | TxS (XSInt w _) => int_const_ok (- 2 ^ (w - 1)) (2 ^ (w - 1) - 1) false v
  | TxS (XFloat w _) =>
      match v with
      | VRat n d => (0 <? d) && (- float_max w * d <=? n) && (n <=? float_max w * d)
      | _ => false
      end
  | _ => false                      (* arrays, composites (and void, which the name check rejects first) *)
  end.

(* ---- _check_aggregation ---------------------------------------------------------------------------------------- *)
Definition agg_ok (e : env) (i : ident) (self_deprecated is_struct : bool) (t : tx) : bool :=
  match t with
  | TxS s =>
      (match s with XByte | XUtf8 => false | XVoid _ => is_struct | _ => true end)
      && negb (is_service_ref e i s)
      && negb (ref_deprecated e i s && negb self_deprecated)
  | TxFix s _ =>
      (match s with XUtf8 | XVoid _ => false | _ => true end)
      && negb (ref_deprecated e i s && negb self_deprecated)
  | TxVarI s _ | TxVarE s _ =>
      (match s with XVoid _ => false | _ => true end)
      && negb (ref_deprecated e i s && negb self_deprecated)
  end.

(* ---- DataTypeBuilder: the statement handlers ------------------------------------------------------------------- *)
Inductive attr :=
| AField (name : str) (t : tx)
| APad (w : Z)
| AConst (name : str) (t : tx).

Inductive smode := MNone | MSealed | MDelim (ext : Z).

Record bstate := mkB {
  b_deprecated : bool;        (* DataTypeBuilder._is_deprecated (shared by the sections) *)
  b_mode : smode;             (* DataSchemaBuilder.serialization_mode *)
  b_union : bool;
  b_attrs : list attr         (* in statement order *)
}.

Definition is_delim (m : smode) : bool := match m with MDelim _ => true | _ => false end.
Definition no_attrs (b : bstate) : bool := match b_attrs b with [] => true | _ => false end.
Definition add_attr (b : bstate) (a : attr) : bstate :=
  mkB (b_deprecated b) (b_mode b) (b_union b) (b_attrs b ++ [a]).
Definition set_mode (b : bstate) (m : smode) : bstate := mkB (b_deprecated b) m (b_union b) (b_attrs b).

Definition step (e : env) (i : ident) (first : bool) (b : bstate) (s : stmt) : option bstate :=
  match s with
  | SField t name =>
      if type_ok e i t && negb (is_delim (b_mode b)) && attr_name_ok t name
      then Some (add_attr b (AField name t)) else None
  | SPad w =>
      if width_ok w && negb (is_delim (b_mode b)) then Some (add_attr b (APad w)) else None
  | SConst t name v =>
      if type_ok e i t && xv_ok v && negb (is_delim (b_mode b)) && attr_name_ok t name && const_ok t v
      then Some (add_attr b (AConst name t)) else None
  | SDir d v =>
      if oxv_ok v then
        match d with
        | DPrint => Some b
        | DAssert => match v with Some (VBool true) => Some b | _ => None end
        | DExtent =>
            match b_mode b, v with
            | MNone, Some x => match rat_int x with Some z => Some (set_mode b (MDelim z)) | None => None end
            | _, _ => None
            end
        | DSealed => match b_mode b, v with MNone, None => Some (set_mode b MSealed) | _, _ => None end
        | DUnion =>
            match v with
            | None => if negb (b_union b) && no_attrs b
                      then Some (mkB (b_deprecated b) (b_mode b) true (b_attrs b)) else None
            | Some _ => None
            end
        | DDeprecated =>
            match v with
            | None => if negb (b_deprecated b) && first && no_attrs b
                      then Some (mkB true (b_mode b) (b_union b) (b_attrs b)) else None
            | Some _ => None
            end
        | DUnknown => None
        end
      else None
  end.

Fixpoint run (e : env) (i : ident) (first : bool) (b : bstate) (l : list stmt) : option bstate :=
  match l with
  | [] => Some b
  | s :: r => match step e i first b s with Some b' => run e i first b' r | None => None end
  end.

(* ---- CompositeType / UnionType / DelimitedType constructors ------------------------------------------------- *)
Inductive ckind := KMessage | KRequest | KResponse.

Definition w_request : str := [82;101;113;117;101;115;116].
Definition w_response : str := [82;101;115;112;111;110;115;101].

Definition composite_name (i : ident) (k : ckind) : list str :=
  match k with
  | KMessage => full_name i
  | KRequest => full_name i ++ [w_request]
  | KResponse => full_name i ++ [w_response]
  end.

(* length of the components joined with "." *)
Definition joined_length (l : list str) : Z :=
  fold_right (fun c acc => Z.of_nat (length c) + acc) 0 l + Z.of_nat (length l) - 1.

Definition version_ok (i : ident) : bool :=
  (0 <=? i_major i) && (i_major i <=? 255) && (0 <=? i_minor i) && (i_minor i <=? 255)
  && (0 <? i_major i + i_minor i).

Definition attr_names (l : list attr) : list str :=
  flat_map (fun a => match a with AField n _ => [n] | AConst n _ => [n] | APad _ => [] end) l.

Fixpoint nodupb (l : list str) : bool :=
  match l with
  | [] => true
  | x :: r => negb (existsb (str_eqb x) r) && nodupb r
  end.

Definition attr_agg_ok (e : env) (i : ident) (depr is_struct : bool) (a : attr) : bool :=
  match a with
  | AField _ t => agg_ok e i depr is_struct t
  | AConst _ t => agg_ok e i depr is_struct t
  | APad w => is_struct
  end.

Definition layout_fields (e : env) (i : ident) (l : list attr) : list (option str * ty) :=
  flat_map (fun a => match a with
                     | AField n t => [(Some n, tty e i t)]
                     | APad w => [(None, TVoid w)]
                     | AConst _ _ => []
                     end) l.

Definition inner_ty (e : env) (i : ident) (b : bstate) : ty :=
  if b_union b then TUnion [] (layout_fields e i (b_attrs b)) else TStruct [] (layout_fields e i (b_attrs b)).

Definition subject_port_ok (p : option Z) : bool :=
  match p with None => true | Some x => (0 <=? x) && (x <=? 8191) end.
Definition service_port_ok (p : option Z) : bool :=
  match p with None => true | Some x => (0 <=? x) && (x <=? 511) end.

Definition mode_ok (e : env) (i : ident) (b : bstate) : bool :=
  match b_mode b with
  | MNone => false                                         (* MissingSerializationModeError *)
  | MSealed => true
  | MDelim z => (z mod 8 =? 0) && (extent (inner_ty e i b) <=? z)
  end.

Definition composite_ok (e : env) (i : ident) (depr : bool) (k : ckind) (b : bstate) : bool :=
  (joined_length (composite_name i k) <=? 255)
  && forallb name_ok (composite_name i k)
  && version_ok i
  && nodupb (attr_names (b_attrs b))
  && (match k with KMessage => subject_port_ok (i_port i) | _ => true end)
  && forallb (attr_agg_ok e i depr (negb (b_union b))) (b_attrs b)
  && (if b_union b then 2 <=? Z.of_nat (length (layout_fields e i (b_attrs b))) else true)
  && mode_ok e i b.

(* ---- finalize: regulated port-ID ranges ----------------------------------------------------------------------- *)
Definition w_uavcan : str := [117;97;118;99;97;110].
Definition w_cyphal : str := [99;121;112;104;97;108].
Definition is_standard_root (r : str) : bool := str_eqb r w_uavcan || str_eqb r w_cyphal.

Definition regulated_ok (e : env) (i : ident) (service : bool) : bool :=
  e_allow_unregulated e ||
  match i_port i with
  | None => true
  | Some p =>
      let std := is_standard_root (i_root i) in
      if service then (if std then (384 <=? p) && (p <=? 511) else (256 <=? p) && (p <=? 383))
      else (if std then (7168 <=? p) && (p <=? 8191) else (6144 <=? p) && (p <=? 7167))
  end.

Definition init_state (depr : bool) : bstate := mkB depr MNone false [].

(* the whole pipeline: parse (handlers) then finalize *)
Definition accept (e : env) (d : defn) : bool :=
  let i := d_id d in
  match run e i true (init_state false) (d_first d) with
  | None => false
  | Some b1 =>
      match d_more d with
      | [] => composite_ok e i (b_deprecated b1) KMessage b1 && regulated_ok e i false
      | [sec2] =>
          match run e i false (init_state (b_deprecated b1)) sec2 with
          | None => false
          | Some b2 =>
              composite_ok e i (b_deprecated b2) KRequest b1
              && composite_ok e i (b_deprecated b2) KResponse b2
              && service_port_ok (i_port i)
              && regulated_ok e i true
          end
      | _ => false                                         (* "Duplicated service response marker" *)
      end
  end.
