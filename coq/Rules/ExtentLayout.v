(* The extent rule in terms of the set of serialized lengths: for a section that obeys the other rules (and with
   well-formed dependencies) the inner type is a well-formed layout type, its extent is the greatest possible length
   and a multiple of 8.  Uses the layout theorems of Layout/ProofsSpec.v (C02). *)
From Coq Require Import ZArith List Bool Lia.
From PV Require Import Util.ListSet Util.Sumset BLS.Model BLS.Den BLS.Proofs Layout.Types Layout.Proofs Layout.ProofsSpec
  Rules.Names Rules.NamesSpec Rules.NamesProofs Rules.Defn Rules.Accept Rules.Spec Rules.ProofsLocal Rules.ProofsRun
  Rules.Proofs Rules.ProofsExtra.
Import ListNotations.
Open Scope Z_scope.

(* every dependency that can be nested has a well-formed layout *)
Definition env_wf (e : env) : Prop :=
  Forall (fun p => p_service p = false -> wft (p_ty p) = true) (e_deps e).

Lemma sty_wft e i s :
  env_wf e -> ScalarOK e i s -> is_service_ref e i s = false -> wft (sty e i s) = true.
Proof.
  intros He Hs Hsvc. destruct s; cbn in *; try reflexivity.
  - apply andb_true_iff. rewrite !Z.leb_le. lia.
  - destruct Hs as [Hw _]. apply andb_true_iff. rewrite !Z.leb_le. lia.
  - rewrite !orb_true_iff, !Z.eqb_eq. tauto.
  - apply andb_true_iff. rewrite !Z.leb_le. lia.
  - destruct Hs as [p Hp]. unfold is_service_ref, scalar_dep in Hsvc. rewrite Hp in *.
    apply resolve_spec in Hp. destruct Hp as [Hin _]. unfold env_wf in He. rewrite Forall_forall in He. auto.
Qed.

Lemma bitlen_le64 n : 1 <= n < 2 ^ 64 -> bitlen n <= 64.
Proof.
  intros H. destruct (bitlen_spec n ltac:(lia)) as [[A _] B].
  destruct (Z_le_gt_dec (bitlen n) 64) as [|G]; [assumption|exfalso].
  assert (2 ^ 64 <= 2 ^ (bitlen n - 1)) by (apply Z.pow_le_mono_r; lia). lia.
Qed.

Lemma tty_wft e i depr st t :
  env_wf e -> TypeOK e i t -> PlacementOK e i depr st t -> wft (tty e i t) = true.
Proof.
  intros He Ht Hp. destruct t as [s|s n|s n|s n]; cbn in *.
  - apply sty_wft; tauto.
  - destruct Ht as [H1 [H2 H3]]. rewrite (sty_wft e i s He H1 H2). apply Z.leb_le. exact H3.
  - destruct Ht as [H1 [H2 H3]]. rewrite (sty_wft e i s He H1 H2). cbn.
    apply andb_true_iff. rewrite !Z.leb_le. split; [lia|apply bitlen_le64; lia].
  - destruct Ht as [H1 [H2 H3]]. rewrite (sty_wft e i s He H1 H2). cbn.
    apply andb_true_iff. rewrite !Z.leb_le. split; [lia|apply bitlen_le64; lia].
Qed.

Lemma fields_wft e i depr st sec :
  env_wf e -> Forall (StmtOK e i) sec -> Forall (AttrPlacementOK e i depr st) (attrs_of sec) ->
  all_fields_ok wft (layout_fields e i (attrs_of sec)) = true.
Proof.
  intros He. unfold all_fields_ok. induction sec as [|s r IH]; intros HS HP; [reflexivity|].
  inversion HS as [|? ? Hs HSr]; subst. unfold attrs_of in *. cbn [flat_map] in *.
  apply Forall_app in HP. destruct HP as [HPs HPr].
  unfold layout_fields in *. rewrite flat_map_app, forallb_app. rewrite (IH HSr HPr), andb_true_r.
  destruct s as [t n|w|t n v|d v]; cbn in *; try reflexivity.
  - rewrite andb_true_r. inversion HPs; subst. destruct Hs as [Ht _]. eapply tty_wft; eauto.
  - rewrite andb_true_r. apply andb_true_iff. rewrite !Z.leb_le. lia.
Qed.

Theorem inner_wft e i depr sec :
  env_wf e -> Forall (StmtOK e i) sec ->
  Forall (AttrPlacementOK e i depr (negb (has_dir DUnion sec))) (attrs_of sec) ->
  (has_dir DUnion sec = true -> 2 <= Z.of_nat (length (layout_fields e i (attrs_of sec)))) ->
  Z.of_nat (length (layout_fields e i (attrs_of sec))) <= 2 ^ 64 ->     (* no text has that many variants *)
  wft (inner_ty e i (summary false sec)) = true.
Proof.
  intros He HS HP HU HB. unfold inner_ty. cbn [b_union b_attrs summary].
  pose proof (fields_wft e i depr _ sec He HS HP) as HF.
  destruct (has_dir DUnion sec); cbn [wft]; [|exact HF].
  rewrite HF. specialize (HU eq_refl). cbn [andb]. apply andb_true_iff. rewrite !Z.leb_le.
  split; [exact HU|apply bitlen_le64; lia].
Qed.

(* the extent rule, restated over the set of lengths *)
Theorem extent_rule_lengths e i depr sec z :
  env_wf e -> Forall (StmtOK e i) sec ->
  Forall (AttrPlacementOK e i depr (negb (has_dir DUnion sec))) (attrs_of sec) ->
  (has_dir DUnion sec = true -> 2 <= Z.of_nat (length (layout_fields e i (attrs_of sec)))) ->
  Z.of_nat (length (layout_fields e i (attrs_of sec))) <= 2 ^ 64 ->
  let t := inner_ty e i (summary false sec) in
  ((z mod 8 = 0 /\ extent t <= z) <-> ((8 | z) /\ forall x, Den (bls t) x -> x <= z))
  /\ Den (bls t) (extent t) /\ (8 | extent t).
Proof.
  intros He HS HP HU HB t.
  assert (wft t = true) as W by (eapply inner_wft; eauto).
  assert (match t with TDelim _ _ => False | _ => True end) as Hnd
    by (unfold t, inner_ty; destruct (b_union (summary false sec)); exact I).
  destruct (sealed_extent t W Hnd) as [E [Hin Hmax]].
  assert (align t = 8) as A8 by (unfold t, inner_ty; destruct (b_union (summary false sec)); apply max_align_fields).
  split; [|split; [exact Hin|]].
  - rewrite <- Z.mod_divide by lia. split.
    + intros [H1 H2]. split; [exact H1|]. intros x Hx. specialize (Hmax x Hx). lia.
    + intros [H1 H2]. split; [exact H1|]. apply H2. exact Hin.
  - rewrite <- A8. apply align_divides; assumption.
Qed.

(* in a Valid definition every delimited section has an extent that is a multiple of 8 and bounds every length *)
Theorem valid_extent_bounds e i first depr k sec z :
  env_wf e -> SectionRules e i first depr k sec -> mode_of sec = MDelim z ->
  Z.of_nat (length (layout_fields e i (attrs_of sec))) <= 2 ^ 64 ->
  (8 | z) /\ forall x, Den (bls (inner_ty e i (summary false sec))) x -> x <= z.
Proof.
  intros He [S1 _ _ _ _ _ _ S8 S9 S10 _ _] Hm HB.
  destruct (extent_rule_lengths e i depr sec z He S1 S9 S8 HB) as [H _]. apply H. apply S10. exact Hm.
Qed.
