(* Executable model of pydsdl/_serializable/_name.py: check_name on lists of Unicode code points.
   Definitions only.  Used by C05 (attribute names, short names, namespace components). *)
From Coq Require Import ZArith List Bool.
From PV Require Import Layout.Types.
Import ListNotations.
Open Scope Z_scope.

(* ---- characters ------------------------------------------------------------------------------------------ *)
Definition is_upper (c : Z) : bool := (65 <=? c) && (c <=? 90).
Definition is_lower (c : Z) : bool := (97 <=? c) && (c <=? 122).
Definition is_digit (c : Z) : bool := (48 <=? c) && (c <=? 57).
Definition us : Z := 95.   (* "_" *)

(* str.lower() restricted to what matters for check_name: the name consists of ASCII letters, digits and underscores
   when it is lowered (the characters are checked first). *)
Definition lowc (c : Z) : Z := if is_upper c then c + 32 else c.
Definition lower (s : str) : str := map lowc s.

(* _VALID_FIRST_CHARACTERS_OF_NAME / _VALID_CONTINUATION_CHARACTERS_OF_NAME *)
Definition first_ok (c : Z) : bool := is_lower c || is_upper c || (c =? us).
Definition cont_ok (c : Z) : bool := first_ok c || is_digit c.

(* ---- string helpers -------------------------------------------------------------------------------------- *)
Fixpoint str_eqb (a b : str) : bool :=
  match a, b with
  | [], [] => true
  | x :: a', y :: b' => (x =? y) && str_eqb a' b'
  | _, _ => false
  end.

(* strip_prefix p s = Some r  iff  s = p ++ r *)
Fixpoint strip_prefix (p s : str) : option str :=
  match p, s with
  | [], _ => Some s
  | x :: p', y :: s' => if x =? y then strip_prefix p' s' else None
  | _ :: _, [] => None
  end.

Definition all_digits (s : str) : bool := forallb is_digit s.

(* the longest prefix of digits and the rest *)
Fixpoint span_digits (s : str) : str * str :=
  match s with
  | c :: r => if is_digit c then let (d, t) := span_digits r in (c :: d, t) else ([], s)
  | [] => ([], [])
  end.

(* ---- the disallowed strings and patterns (the name has been lowered) ---------------------------------------- *)
(* "truncated" "saturated" "true" "false" "bool" "optional" "aligned" "const" "struct" "super" "template" "enum"
   "self" "and" "or" "not" "auto" "type" "con" "prn" "aux" "nul" *)
Definition reserved_words : list str := [
  [116;114;117;110;99;97;116;101;100];
  [115;97;116;117;114;97;116;101;100];
  [116;114;117;101];
  [102;97;108;115;101];
  [98;111;111;108];
  [111;112;116;105;111;110;97;108];
  [97;108;105;103;110;101;100];
  [99;111;110;115;116];
  [115;116;114;117;99;116];
  [115;117;112;101;114];
  [116;101;109;112;108;97;116;101];
  [101;110;117;109];
  [115;101;108;102];
  [97;110;100];
  [111;114];
  [110;111;116];
  [97;117;116;111];
  [116;121;112;101];
  [99;111;110];
  [112;114;110];
  [97;117;120];
  [110;117;108]
].

Definition w_void : str := [118;111;105;100].
Definition w_int : str := [105;110;116].
Definition w_uint : str := [117;105;110;116].
Definition w_float : str := [102;108;111;97;116].
Definition w_com : str := [99;111;109].
Definition w_lpt : str := [108;112;116].
Definition c_q : Z := 113.
Definition c_u : Z := 117.

(* prefix\d*$ *)
Definition pat_prefix_digits (p s : str) : bool :=
  match strip_prefix p s with Some r => all_digits r | None => false end.

(* prefix\d$ *)
Definition pat_prefix_digit (p s : str) : bool :=
  match strip_prefix p s with Some [d] => is_digit d | _ => false end.

(* q\d+_\d+$ *)
Definition pat_q (s : str) : bool :=
  match s with
  | c :: r =>
      (c =? c_q) &&
      (let (d1, t) := span_digits r in
       match d1, t with
       | _ :: _, u :: d2 => (u =? us) && (match d2 with [] => false | _ => all_digits d2 end)
       | _, _ => false
       end)
  | [] => false
  end.

(* u?q\d+_\d+$ *)
Definition pat_uq (s : str) : bool :=
  pat_q s || (match s with c :: r => (c =? c_u) && pat_q r | [] => false end).

(* _.*_$ : at least two characters, the first and the last are underscores *)
Definition pat_underscores (s : str) : bool :=
  match s with
  | c :: d :: r => (c =? us) && (last (d :: r) 0 =? us)
  | _ => false
  end.

Definition is_reserved (s : str) : bool :=
  existsb (str_eqb s) reserved_words
  || pat_prefix_digits w_void s
  || pat_prefix_digits w_int s || pat_prefix_digits w_uint s
  || pat_uq s
  || pat_prefix_digits w_float s
  || pat_prefix_digit w_com s
  || pat_prefix_digit w_lpt s
  || pat_underscores s.

(* check_name: true = no exception.  The characters are tested on the original spelling, the disallowed strings and
   patterns on the lowered name. *)
Definition name_ok (s : str) : bool :=
  match s with
  | [] => false
  | c :: r => first_ok c && forallb cont_ok (c :: r) && negb (is_reserved (lower (c :: r)))
  end.
