(* Corollaries of the rules at every numeric boundary, and the extent rule in terms of the set of lengths. *)
From Coq Require Import ZArith List Bool Lia.
From PV Require Import Util.ListSet Util.Sumset BLS.Model BLS.Den BLS.Proofs Layout.Types
  Rules.Names Rules.NamesSpec Rules.NamesProofs Rules.Defn Rules.Accept Rules.Spec Rules.ProofsLocal Rules.ProofsRun Rules.Proofs.
Import ListNotations.
Open Scope Z_scope.

(* ---- type parameters ------------------------------------------------------------------------------------------- *)
Lemma b_uint e i w c : scalar_ok e i (XUInt w c) = true <-> 1 <= w <= 64.
Proof. apply scalar_ok_spec. Qed.
Lemma b_sint e i w c : scalar_ok e i (XSInt w c) = true <-> 2 <= w <= 64 /\ c = Sat.
Proof. apply scalar_ok_spec. Qed.
Lemma b_float e i w c : scalar_ok e i (XFloat w c) = true <-> w = 16 \/ w = 32 \/ w = 64.
Proof. apply scalar_ok_spec. Qed.
Lemma b_void e i w : scalar_ok e i (XVoid w) = true <-> 1 <= w <= 64.
Proof. apply scalar_ok_spec. Qed.

Lemma b_fix e i s n : scalar_ok e i s = true -> is_service_ref e i s = false -> (type_ok e i (TxFix s n) = true <-> 1 <= n).
Proof. intros H1 H2. rewrite type_ok_spec. cbn. rewrite <- scalar_ok_spec. tauto. Qed.
Lemma b_var_incl e i s n :
  scalar_ok e i s = true -> is_service_ref e i s = false -> (type_ok e i (TxVarI s n) = true <-> 1 <= n < 2 ^ 64).
Proof. intros H1 H2. rewrite type_ok_spec. cbn. rewrite <- scalar_ok_spec. tauto. Qed.
Lemma b_var_excl e i s n :
  scalar_ok e i s = true -> is_service_ref e i s = false -> (type_ok e i (TxVarE s n) = true <-> 2 <= n <= 2 ^ 64).
Proof. intros H1 H2. rewrite type_ok_spec. cbn. rewrite <- scalar_ok_spec. intuition lia. Qed.

Theorem type_boundaries e i :
  (forall c, scalar_ok e i (XUInt 0 c) = false /\ scalar_ok e i (XUInt 1 c) = true
             /\ scalar_ok e i (XUInt 64 c) = true /\ scalar_ok e i (XUInt 65 c) = false)
  /\ (scalar_ok e i (XSInt 1 Sat) = false /\ scalar_ok e i (XSInt 2 Sat) = true
      /\ scalar_ok e i (XSInt 64 Sat) = true /\ scalar_ok e i (XSInt 65 Sat) = false
      /\ forall w, scalar_ok e i (XSInt w Trunc) = false)
  /\ (forall w c, scalar_ok e i (XFloat w c) = true <-> w = 16 \/ w = 32 \/ w = 64)
  /\ (scalar_ok e i (XVoid 0) = false /\ scalar_ok e i (XVoid 1) = true
      /\ scalar_ok e i (XVoid 64) = true /\ scalar_ok e i (XVoid 65) = false)
  /\ (forall s, scalar_ok e i s = true -> is_service_ref e i s = false ->
        type_ok e i (TxFix s 0) = false /\ type_ok e i (TxFix s 1) = true
        /\ type_ok e i (TxVarI s 0) = false /\ type_ok e i (TxVarI s 1) = true
        /\ type_ok e i (TxVarE s 1) = false /\ type_ok e i (TxVarE s 2) = true
        /\ type_ok e i (TxVarI s (2 ^ 64 - 1)) = true /\ type_ok e i (TxVarI s (2 ^ 64)) = false).
Proof.
  split; [intros c; repeat split; reflexivity|].
  split; [repeat split; try reflexivity; intros w; cbn; destruct (width_ok w && (2 <=? w)); reflexivity|].
  split; [intros w c; apply b_float|].
  split; [repeat split; reflexivity|].
  intros s H H0.
  assert (forall n, type_ok e i (TxFix s n) = (1 <=? n)) as E1 by (intros n; cbn; rewrite H, H0; reflexivity).
  split; [rewrite E1; reflexivity|]. split; [rewrite E1; reflexivity|].
  split; [apply not_true_iff_false; rewrite b_var_incl by auto; lia|].
  split; [apply b_var_incl; auto; lia|].
  split; [apply not_true_iff_false; rewrite b_var_excl by auto; lia|].
  split; [apply b_var_excl; auto; lia|].
  split; [apply b_var_incl; auto; lia|].
  apply not_true_iff_false. rewrite b_var_incl by auto. lia.
Qed.

(* ---- identity: version and port-ID ------------------------------------------------------------------------- *)
Theorem version_boundaries r ns s p :
  version_ok (mkId r ns s 0 0 p) = false /\ version_ok (mkId r ns s 0 1 p) = true
  /\ version_ok (mkId r ns s 1 0 p) = true /\ version_ok (mkId r ns s 255 255 p) = true
  /\ version_ok (mkId r ns s 256 0 p) = false /\ version_ok (mkId r ns s 0 256 p) = false
  /\ version_ok (mkId r ns s (-1) 1 p) = false.
Proof. repeat split; reflexivity. Qed.

Theorem port_boundaries :
  subject_port_ok (Some 0) = true /\ subject_port_ok (Some 8191) = true /\ subject_port_ok (Some 8192) = false
  /\ subject_port_ok (Some (-1)) = false
  /\ service_port_ok (Some 0) = true /\ service_port_ok (Some 511) = true /\ service_port_ok (Some 512) = false
  /\ subject_port_ok None = true /\ service_port_ok None = true.
Proof. repeat split; reflexivity. Qed.

Definition reg (allow : bool) (root : str) (p : Z) (service : bool) : bool :=
  regulated_ok (mkEnv [] allow) (mkId root [] [84] 1 0 (Some p)) service.

Theorem regulated_boundaries :
  (* vendor subjects 6144..7167 *)
  reg false [110;115] 6143 false = false /\ reg false [110;115] 6144 false = true
  /\ reg false [110;115] 7167 false = true /\ reg false [110;115] 7168 false = false
  (* standard subjects 7168..8191 *)
  /\ reg false w_uavcan 7167 false = false /\ reg false w_uavcan 7168 false = true
  /\ reg false w_cyphal 8191 false = true /\ reg false w_cyphal 8192 false = false
  (* vendor services 256..383 *)
  /\ reg false [110;115] 255 true = false /\ reg false [110;115] 256 true = true
  /\ reg false [110;115] 383 true = true /\ reg false [110;115] 384 true = false
  (* standard services 384..511 *)
  /\ reg false w_uavcan 383 true = false /\ reg false w_uavcan 384 true = true
  /\ reg false w_cyphal 511 true = true /\ reg false w_cyphal 512 true = false
  (* everything goes when unregulated identifiers are allowed *)
  /\ (forall root p service, reg true root p service = true).
Proof. repeat split; reflexivity. Qed.

(* ---- the extent ---------------------------------------------------------------------------------------------------- *)
(* "not smaller than the longest representation": extent(inner) is the maximum of the set of lengths *)
Lemma inner_extent e i b : extent (inner_ty e i b) = omax (bls (inner_ty e i b)).
Proof. unfold inner_ty. destruct (b_union b); reflexivity. Qed.

Theorem extent_longest e i b z :
  wf (bls (inner_ty e i b)) ->
  (extent (inner_ty e i b) <= z <-> forall x, Den (bls (inner_ty e i b)) x -> x <= z).
Proof.
  intros Hwf. rewrite inner_extent. destruct (omax_ok _ Hwf) as [Hin Hmax]. split.
  - intros H x Hx. specialize (Hmax x Hx). lia.
  - intros H. apply H. exact Hin.
Qed.

Theorem extent_boundaries e i dp un at_ z :
  let M := extent (inner_ty e i (mkB dp MNone un at_)) in
  M mod 8 = 0 ->
  (mode_ok e i (mkB dp (MDelim z) un at_) = true <-> z mod 8 = 0 /\ M <= z)
  /\ (z = M -> mode_ok e i (mkB dp (MDelim z) un at_) = true)
  /\ (z = M + 8 -> mode_ok e i (mkB dp (MDelim z) un at_) = true)
  /\ (z = M - 8 -> mode_ok e i (mkB dp (MDelim z) un at_) = false)
  /\ (M < z < M + 8 -> mode_ok e i (mkB dp (MDelim z) un at_) = false).
Proof.
  intros M HM.
  assert (mode_ok e i (mkB dp (MDelim z) un at_) = true <-> z mod 8 = 0 /\ M <= z) as H.
  { unfold mode_ok. cbn [b_mode]. rewrite andb_true_iff, Z.eqb_eq, Z.leb_le. reflexivity. }
  clearbody M.
  split; [exact H|]. repeat split.
  - intros ->. apply H. split; [exact HM|lia].
  - intros ->. apply H. split; [|lia]. rewrite <- Z.add_mod_idemp_l, HM by lia. reflexivity.
  - intros ->. apply not_true_iff_false. rewrite H. lia.
  - intros Hz. apply not_true_iff_false. rewrite H. intros [Hz8 _].
    assert ((z - M) mod 8 = 0) as E.
    { rewrite Zminus_mod, Hz8, HM. reflexivity. }
    rewrite Z.mod_small in E by lia. lia.
Qed.

(* name length: 255 is accepted, 256 is not; the names of the two sections of a service are 8 / 9 characters longer *)
Lemma joined_length_app l c :
  l <> [] -> joined_length (l ++ [c]) = joined_length l + 1 + Z.of_nat (length c).
Proof.
  intros Hl. unfold joined_length. rewrite app_length, Nat2Z.inj_add. cbn [length].
  assert (forall l0 : list str, fold_right (fun c0 acc => Z.of_nat (length c0) + acc) 0 (l0 ++ [c])
          = fold_right (fun c0 acc => Z.of_nat (length c0) + acc) 0 l0 + Z.of_nat (length c)) as E.
  { induction l0 as [|x l0 IH]; cbn [fold_right app]; [lia|rewrite IH; lia]. }
  rewrite E. lia.
Qed.

Theorem name_length_service i :
  joined_length (composite_name i KRequest) = joined_length (full_name i) + 8
  /\ joined_length (composite_name i KResponse) = joined_length (full_name i) + 9.
Proof.
  unfold composite_name. rewrite !joined_length_app by (unfold full_name; destruct (full_ns i); discriminate).
  cbn. lia.
Qed.
