(* C12 - proofs about Const/Model.v against Const/Spec.v *)
From Coq Require Import ZArith QArith Qreduction List Bool Lia.
From PV Require Import Expr.Values Const.Model Const.Spec.
Import ListNotations.

(* ---------------------------------------------------------------- integers among the rationals *)
Lemma Qred_inject_Z : forall z, Qred (inject_Z z) = inject_Z z.
Proof.
  intros z. unfold Qred, inject_Z. cbn [Qnum Qden].
  pose proof (Z.ggcd_correct_divisors z 1) as H. pose proof (Z.ggcd_gcd z 1) as G.
  destruct (Z.ggcd z 1) as [g [aa bb]]. cbn [fst snd] in *.
  rewrite Z.gcd_1_r in G. subst g. destruct H as [H1 H2].
  assert (aa = z) as -> by lia. assert (bb = 1%Z) as -> by lia. reflexivity.
Qed.

Lemma is_int_iff : forall q, is_int q = true <-> exists z, q == inject_Z z.
Proof.
  intros q. unfold is_int. split.
  - intros H. apply Z.eqb_eq in H. exists (Qnum (Qred q)).
    rewrite <- (Qred_correct q) at 1. destruct (Qred q) as [n d]. cbn [Qnum Qden] in *.
    unfold Qeq, inject_Z. cbn [Qnum Qden]. rewrite H. lia.
  - intros [z Hz]. apply Qred_complete in Hz. rewrite Hz, Qred_inject_Z. reflexivity.
Qed.

Lemma inject_Z_eq : forall a b, inject_Z a == inject_Z b -> a = b.
Proof. intros a b H. unfold Qeq, inject_Z in H. cbn in H. lia. Qed.

Lemma inject_Z_le : forall a b, inject_Z a <= inject_Z b <-> (a <= b)%Z.
Proof. intros. rewrite Zle_Qle. reflexivity. Qed.

(* ---------------------------------------------------------------- ranges *)
Lemma pow2_split : forall w, (1 <= w)%Z -> (2 ^ w = 2 * 2 ^ (w - 1))%Z.
Proof. intros w H. replace w with (Z.succ (w - 1)) at 1 by lia. rewrite Z.pow_succ_r by lia. reflexivity. Qed.

Lemma uint_max_eq : forall w, uint_max w = (2 ^ w - 1)%Z.
Proof. intros. unfold uint_max. rewrite Z.shiftl_1_l. reflexivity. Qed.

Lemma sint_half_eq : forall w, (1 <= w)%Z -> sint_half w = (2 ^ (w - 1) - 1)%Z.
Proof.
  intros w H. unfold sint_half. rewrite Z.shiftl_1_l, (pow2_split w H).
  assert (0 < 2 ^ (w - 1))%Z by (apply Z.pow_pos_nonneg; lia).
  symmetry. apply (Z.div_unique _ 2 _ 1); lia.
Qed.

Lemma int_ranges_u : forall w tr, value_range (TUInt w tr) = Some (inject_Z 0, inject_Z (2 ^ w - 1)).
Proof. intros. cbn [value_range]. rewrite uint_max_eq. reflexivity. Qed.

Lemma int_ranges_s : forall w tr, (1 <= w)%Z ->
  value_range (TSInt w tr) = Some (inject_Z (- 2 ^ (w - 1)), inject_Z (2 ^ (w - 1) - 1)).
Proof.
  intros. cbn [value_range]. rewrite sint_half_eq by assumption.
  replace (- (2 ^ (w - 1) - 1) - 1)%Z with (- 2 ^ (w - 1))%Z by lia. reflexivity.
Qed.

(* the code's value range of every integer type is the textbook range *)
Lemma value_range_int : forall t lo hi, ctype_ok t = true -> int_bounds t = Some (lo, hi) ->
  value_range t = Some (inject_Z lo, inject_Z hi).
Proof.
  intros t lo hi Hok Hb. destruct t; cbn [int_bounds] in Hb; try discriminate; inversion Hb; subst; clear Hb.
  - apply int_ranges_u.
  - cbn [ctype_ok] in Hok. apply int_ranges_s. lia.
  - reflexivity.
  - reflexivity.
Qed.

Lemma int_bounds_some : forall t, is_integer_type t = true -> exists lo hi, int_bounds t = Some (lo, hi).
Proof. intros t H. destruct t; try discriminate; cbn [int_bounds]; eauto. Qed.

Lemma int_bounds_integer : forall t lo hi, int_bounds t = Some (lo, hi) -> is_integer_type t = true.
Proof. intros t lo hi H. destruct t; try discriminate; reflexivity. Qed.

(* float limits: computed once, they are the exact integers (2^(p+1)-1) * 2^(emax-p) *)
Lemma float_mag_eq : forall w, float_mag w = match float_max w with Some m => Some (inject_Z m) | None => None end.
Proof.
  intros w. unfold float_mag, float_max, float_params.
  destruct (w =? 16)%Z; [vm_compute; reflexivity|].
  destruct (w =? 32)%Z; [vm_compute; reflexivity|].
  destruct (w =? 64)%Z; [vm_compute; reflexivity|reflexivity].
Qed.

Lemma float_mag_formula : forall emax p, float_mag_q emax p == inject_Z (2 ^ emax) * (2 - Qpower 2 (- p)).
Proof. intros. unfold float_mag_q. apply Qred_correct. Qed.

Lemma float_ranges : forall w m, float_mag w = Some m ->
  exists emax p, float_params w = Some (emax, p)
    /\ m == inject_Z (2 ^ emax) * (2 - Qpower 2 (- p))
    /\ m = inject_Z ((2 ^ (p + 1) - 1) * 2 ^ (emax - p)).
Proof.
  intros w m H. pose proof (float_mag_eq w) as E. unfold float_max in E.
  unfold float_mag, float_params in *.
  destruct (w =? 16)%Z.
  { exists 15%Z, 10%Z. inversion H; subst. split; [reflexivity|]. split; [apply float_mag_formula|]. vm_compute; reflexivity. }
  destruct (w =? 32)%Z.
  { exists 127%Z, 23%Z. inversion H; subst. split; [reflexivity|]. split; [apply float_mag_formula|]. vm_compute; reflexivity. }
  destruct (w =? 64)%Z.
  { exists 1023%Z, 52%Z. inversion H; subst. split; [reflexivity|]. split; [apply float_mag_formula|]. vm_compute; reflexivity. }
  discriminate.
Qed.

Lemma value_range_float : forall w tr m, float_max w = Some m ->
  value_range (TFloat w tr) = Some (- inject_Z m, inject_Z m).
Proof. intros w tr m H. cbn [value_range]. rewrite float_mag_eq, H. reflexivity. Qed.

Lemma float_max_ok : forall w tr, ctype_ok (TFloat w tr) = true -> exists m, float_max w = Some m.
Proof.
  intros w tr H. cbn [ctype_ok] in H. unfold float_max, float_params.
  destruct (w =? 16)%Z; [eauto|]. destruct (w =? 32)%Z; [eauto|]. destruct (w =? 64)%Z; [eauto|discriminate].
Qed.

(* ---------------------------------------------------------------- range_check *)
Lemma range_check_ok : forall t q lo hi v, value_range t = Some (lo, hi) ->
  (range_check t q = COk v <-> v = VRat q /\ lo <= q <= hi).
Proof.
  intros t q lo hi v H. unfold range_check. rewrite H.
  destruct (Qle_bool lo q) eqn:E1; destruct (Qle_bool q hi) eqn:E2; cbn [andb]; split.
  all: try (intros X; inversion X; subst; split; [reflexivity|split; apply Qle_bool_iff; assumption]).
  all: try (intros [-> _]; reflexivity).
  all: try discriminate.
  all: intros [_ [A B]]; apply Qle_bool_iff in A; apply Qle_bool_iff in B; congruence.
Qed.

Lemma range_check_cases : forall t q, range_check t q = COk (VRat q) \/ range_check t q = CRej.
Proof.
  intros. unfold range_check. destruct (value_range t) as [[lo hi]|]; [|right; reflexivity].
  destruct (Qle_bool lo q && Qle_bool q hi); [left|right]; reflexivity.
Qed.

(* ---------------------------------------------------------------- UTF-8 length *)
Lemma utf8_clen_pos : forall c, (1 <= utf8_clen c)%Z.
Proof.
  intros c. unfold utf8_clen. destruct ((0 <=? c)%Z && (c <? 128)%Z); [lia|].
  destruct (c <? 2048)%Z; [lia|]. destruct (c <? 65536)%Z; lia.
Qed.

Lemma utf8_len_nonneg : forall s, (0 <= utf8_len s)%Z.
Proof. induction s; cbn; [lia|]. pose proof (utf8_clen_pos a). unfold utf8_len in IHs. lia. Qed.

Lemma utf8_clen_1 : forall c, utf8_clen c = 1%Z <-> (0 <= c < 128)%Z.
Proof.
  intros c. unfold utf8_clen. destruct (0 <=? c)%Z eqn:A; destruct (c <? 128)%Z eqn:B; cbn [andb].
  all: try apply Z.leb_le in A; try apply Z.leb_gt in A; try apply Z.ltb_lt in B; try apply Z.ltb_ge in B.
  - split; [lia|reflexivity].
  - split; [|lia]. destruct (c <? 2048)%Z; [lia|]. destruct (c <? 65536)%Z; lia.
  - split; [|lia]. destruct (c <? 2048)%Z; [lia|]. destruct (c <? 65536)%Z; lia.
  - split; [|lia]. destruct (c <? 2048)%Z; [lia|]. destruct (c <? 65536)%Z; lia.
Qed.

Lemma utf8_len_1 : forall s, utf8_len s = 1%Z <-> exists c, s = [c] /\ (0 <= c < 128)%Z.
Proof.
  intros s. split.
  - destruct s as [|c r]; cbn; [lia|]. intros H. pose proof (utf8_clen_pos c). pose proof (utf8_len_nonneg r) as N. unfold utf8_len in N.
    destruct r as [|c2 r2].
    + cbn in H. exists c. split; [reflexivity|]. apply utf8_clen_1. lia.
    + cbn in H, N. pose proof (utf8_clen_pos c2). pose proof (utf8_len_nonneg r2) as N2. unfold utf8_len in N2. lia.
  - intros [c [-> Hc]]. cbn. apply utf8_clen_1 in Hc. lia.
Qed.

Lemma encodable_false : forall s, encodable s = false <-> lone_surrogate s.
Proof.
  intros s. unfold encodable, lone_surrogate. induction s as [|c r IH]; cbn.
  - split; [discriminate|]. intros [c [[] _]].
  - unfold is_surrogate at 1. destruct (55296 <=? c)%Z eqn:A; destruct (c <=? 57343)%Z eqn:B; cbn [andb negb].
    all: try apply Z.leb_le in A; try apply Z.leb_gt in A; try apply Z.leb_le in B; try apply Z.leb_gt in B.
    + split; [|reflexivity]. intros _. exists c. split; [left; reflexivity|lia].
    + rewrite IH. split; [intros [x [I R]]; exists x; split; [right; assumption|assumption]|].
      intros [x [[->|I] R]]; [lia|exists x; split; assumption].
    + rewrite IH. split; [intros [x [I R]]; exists x; split; [right; assumption|assumption]|].
      intros [x [[->|I] R]]; [lia|exists x; split; assumption].
    + rewrite IH. split; [intros [x [I R]]; exists x; split; [right; assumption|assumption]|].
      intros [x [[->|I] R]]; [lia|exists x; split; assumption].
Qed.

Lemma ascii_encodable : forall c, (0 <= c < 128)%Z -> encodable [c] = true.
Proof.
  intros c H. unfold encodable. cbn. unfold is_surrogate.
  destruct (55296 <=? c)%Z eqn:A; [apply Z.leb_le in A; lia|reflexivity].
Qed.

(* ---------------------------------------------------------------- the main equivalence *)
Lemma is_uint8_bounds : forall t, ctype_ok t = true -> is_uint8 t = true -> int_bounds t = Some (0, 255)%Z.
Proof.
  intros t _ H. destruct t; try discriminate; cbn in *; try reflexivity.
  apply Z.eqb_eq in H. subst. reflexivity.
Qed.

Lemma is_uint8_integer : forall t, is_uint8 t = true -> is_integer_type t = true.
Proof. intros t H. destruct t; try discriminate; reflexivity. Qed.

Lemma const_check_sound : forall t v v', ctype_ok t = true -> const_check t v = COk v' -> ConstSpec t v v'.
Proof.
  intros t v v' Hok H.
  destruct v as [q|b|s|els].
  4: { cbn in H. discriminate. }
  - (* rational *)
    destruct (is_integer_type t) eqn:It.
    + assert (const_check t (VRat q) = if is_int q then range_check t q else CRej) as E
        by (destruct t; try discriminate; reflexivity).
      rewrite E in H. destruct (is_int q) eqn:Iq; [|discriminate].
      apply is_int_iff in Iq. destruct Iq as [z Hz].
      destruct (int_bounds_some t It) as [lo [hi Hb]].
      pose proof (value_range_int t lo hi Hok Hb) as R.
      apply (range_check_ok t q _ _ v' R) in H. destruct H as [-> [A B]].
      apply (CS_int t q z lo hi Hb Hz). rewrite Hz in A, B. split; [apply (proj1 (inject_Z_le lo z) A)|apply (proj1 (inject_Z_le z hi) B)].
    + destruct t; try discriminate; cbn in H; try discriminate.
      destruct (float_max_ok w trunc Hok) as [m Hm].
      pose proof (value_range_float w trunc m Hm) as R.
      apply (range_check_ok _ q _ _ v' R) in H. destruct H as [-> AB].
      apply (CS_float w trunc q m Hm AB).
  - (* boolean *)
    destruct t; cbn in H; try discriminate. inversion H; subst. constructor.
  - (* string *)
    destruct (is_integer_type t) eqn:It.
    + assert (const_check t (VStr s) =
              if negb (encodable s) then CRej else if negb (utf8_len s =? 1)%Z then CRej
              else if negb (is_uint8 t) then CRej else range_check t (inject_Z (hd 0%Z s))) as E
        by (destruct t; try discriminate; reflexivity).
      rewrite E in H. clear E.
      destruct (encodable s); cbn [negb] in H; [|discriminate].
      destruct (utf8_len s =? 1)%Z eqn:L; cbn [negb] in H; [|discriminate].
      destruct (is_uint8 t) eqn:U; cbn [negb] in H; [|discriminate].
      apply Z.eqb_eq in L. apply utf8_len_1 in L. destruct L as [c [-> Hc]]. cbn [hd] in H.
      pose proof (is_uint8_bounds t Hok U) as Hb.
      pose proof (value_range_int t _ _ Hok Hb) as R.
      apply (range_check_ok _ _ _ _ v' R) in H. destruct H as [-> _].
      apply CS_char; assumption.
    + destruct t; try discriminate; cbn in H; discriminate.
Qed.

Lemma const_check_complete : forall t v v', ctype_ok t = true -> ConstSpec t v v' -> const_check t v = COk v'.
Proof.
  intros t v v' Hok H. destruct H as [b|t q z lo hi Hb Hz Hr|t c U Hc|w tr q m Hm Hr].
  - reflexivity.
  - pose proof (int_bounds_integer _ _ _ Hb) as It.
    assert (const_check t (VRat q) = if is_int q then range_check t q else CRej) as E
      by (destruct t; try discriminate; reflexivity).
    rewrite E. assert (is_int q = true) as -> by (apply is_int_iff; eauto).
    apply (range_check_ok t q _ _ _ (value_range_int t lo hi Hok Hb)). split; [reflexivity|].
    rewrite Hz. split; apply inject_Z_le; lia.
  - pose proof (is_uint8_integer _ U) as It.
    assert (const_check t (VStr [c]) =
            if negb (encodable [c]) then CRej else if negb (utf8_len [c] =? 1)%Z then CRej
            else if negb (is_uint8 t) then CRej else range_check t (inject_Z (hd 0%Z [c]))) as E
      by (destruct t; try discriminate; reflexivity).
    rewrite E, (ascii_encodable c Hc), U. cbn [negb].
    assert (utf8_len [c] = 1%Z) as -> by (apply utf8_len_1; eauto). cbn [Z.eqb Pos.eqb negb hd].
    apply (range_check_ok t _ _ _ _ (value_range_int t _ _ Hok (is_uint8_bounds t Hok U))). split; [reflexivity|].
    split; apply inject_Z_le; lia.
  - cbn. apply (range_check_ok _ q _ _ _ (value_range_float w tr m Hm)). split; [reflexivity|assumption].
Qed.

Theorem accept_iff : forall t v v', ctype_ok t = true -> (const_check t v = COk v' <-> ConstSpec t v v').
Proof. intros. split; [apply const_check_sound|apply const_check_complete]; assumption. Qed.

Lemma spec_compliant : forall t v v', ConstSpec t v v' -> Compliant t v'.
Proof.
  intros t v v' H. destruct H as [b|t q z lo hi Hb Hz Hr|t c U Hc|w tr q m Hm Hr].
  - cbn. eauto.
  - destruct t; try discriminate; cbn [Compliant]; exists q, z, lo, hi; auto.
  - pose proof (is_uint8_integer _ U) as It.
    assert (exists lo hi, int_bounds t = Some (lo, hi) /\ (lo <= c <= hi)%Z) as [lo [hi [Hb Hr]]].
    { destruct t; try discriminate; cbn in *.
      - apply Z.eqb_eq in U. subst. exists 0%Z, 255%Z. split; [reflexivity|lia].
      - exists 0%Z, 255%Z. split; [reflexivity|lia].
      - exists 0%Z, 255%Z. split; [reflexivity|lia]. }
    destruct t; try discriminate; cbn [Compliant]; exists (inject_Z c), c, lo, hi; repeat split; try assumption; try reflexivity; lia.
  - cbn. exists q, m. auto.
Qed.

Theorem compliant : forall t v v', ctype_ok t = true -> const_check t v = COk v' -> Compliant t v'.
Proof. intros t v v' Hok H. eapply spec_compliant. apply const_check_sound; eassumption. Qed.

Lemma const_check_rat : forall t q, const_check t (VRat q) =
  match t with
  | TBool | TNonPrim => CRej
  | TFloat _ _ => range_check t q
  | _ => if is_int q then range_check t q else CRej
  end.
Proof. intros. destruct t; reflexivity. Qed.

Lemma const_check_str : forall t s, const_check t (VStr s) =
  match t with
  | TBool | TNonPrim | TFloat _ _ => CRej
  | _ => if negb (encodable s) then CRej else if negb (utf8_len s =? 1)%Z then CRej
         else if negb (is_uint8 t) then CRej else range_check t (inject_Z (hd 0%Z s))
  end.
Proof. intros. destruct t; reflexivity. Qed.

(* never rounded, never converted: a rational initialiser is stored as it is *)
Theorem exact : forall t q v', const_check t (VRat q) = COk v' -> v' = VRat q.
Proof.
  intros t q v' H. rewrite const_check_rat in H.
  destruct (range_check_cases t q) as [R|R].
  - destruct t; try discriminate; try destruct (is_int q); try discriminate; rewrite R in H; inversion H; reflexivity.
  - destruct t; try discriminate; try destruct (is_int q); try discriminate; rewrite R in H; discriminate.
Qed.

Theorem exact_bool : forall t b v', const_check t (VBool b) = COk v' -> v' = VBool b /\ t = TBool.
Proof. intros t b v' H. destruct t; cbn in H; try discriminate. inversion H. auto. Qed.

Theorem only_prims : forall t v v', const_check t v = COk v' ->
  t <> TNonPrim /\ (exists q, v' = VRat q) \/ (t = TBool /\ exists b, v' = VBool b).
Proof.
  intros t v v' H. destruct v as [q|b|s|els].
  - left. pose proof (exact _ _ _ H). split; [|eauto]. intros ->. discriminate.
  - right. apply exact_bool in H. destruct H; eauto.
  - left. split; [intros ->; discriminate|]. rewrite const_check_str in H.
    destruct t; try discriminate.
    all: destruct (encodable s); cbn [negb] in H; try discriminate.
    all: destruct (utf8_len s =? 1)%Z; cbn [negb] in H; try discriminate.
    all: match type of H with context [is_uint8 ?t] => destruct (is_uint8 t); cbn [negb] in H; try discriminate end.
    all: match type of H with range_check ?t ?q = _ => destruct (range_check_cases t q) as [R|R]; rewrite R in H; inversion H; eauto end.
  - cbn in H. discriminate.
Qed.

(* only sets (non-primitive values) and non-primitive types are rejected regardless of the other component *)
Theorem nonprim_rejected : forall v, const_check TNonPrim v = CRej.
Proof. intros v. destruct v; reflexivity. Qed.

(* a string containing a lone surrogate is never accepted (str.encode fails, handled as "not one character") *)
Theorem surrogate_rejected : forall t s, lone_surrogate s -> const_check t (VStr s) = CRej.
Proof.
  intros t s Hs. apply encodable_false in Hs.
  destruct t; cbn; try rewrite Hs; reflexivity.
Qed.

(* the definition-text channel accepts exactly what the constructor accepts, for constructible types that may be
   attributes of a composite (byte and utf8 are array element types only) *)
Theorem text_channel : forall t v v', const_text t v = COk v' <->
  ctype_ok t = true /\ t <> TByte /\ t <> TUtf8 /\ const_check t v = COk v'.
Proof.
  intros t v v'. unfold const_text. destruct (ctype_ok t); cbn [negb].
  - destruct (const_check t v) as [w|] eqn:E.
    + destruct t; split; intros H; try discriminate; try (inversion H; subst; repeat split; try discriminate; reflexivity);
        try (destruct H as [_ [A [B C]]]; try congruence).
    + split; [discriminate|]. intros [_ [_ [_ H]]]. discriminate.
  - split; [discriminate|]. intros [H _]. discriminate.
Qed.
