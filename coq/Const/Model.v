(* C12 - model of pydsdl/_serializable/_attribute.py Constant.__init__ and of
   _primitive.py {Unsigned,Signed}IntegerType/FloatType.inclusive_value_range.  Definitions only. *)
From Coq Require Import ZArith QArith List Bool.
From PV Require Import Expr.Values.
Import ListNotations.

(* the declared type of the constant, as far as Constant.__init__ looks at it *)
Inductive ctype :=
| TBool
| TUInt (w : Z) (trunc : bool)
| TSInt (w : Z) (trunc : bool)
| TFloat (w : Z) (trunc : bool)
| TByte                              (* ByteType: an UnsignedIntegerType of 8 bits *)
| TUtf8                              (* UTF8Type: an UnsignedIntegerType of 8 bits *)
| TNonPrim.                          (* void, arrays, composites: anything that is not a PrimitiveType *)

(* outcome: accepted with the stored value / InvalidDefinitionError *)
Inductive cres := COk (v : value) | CRej.

(* ---- construction of the type object (PrimitiveType.__init__ and subclasses) ---- *)
Definition ctype_ok (t : ctype) : bool :=
  match t with
  | TBool | TByte | TUtf8 => true
  | TUInt w _ => (1 <=? w)%Z && (w <=? 64)%Z
  | TSInt w tr => (2 <=? w)%Z && (w <=? 64)%Z && negb tr
  | TFloat w _ => (w =? 16)%Z || (w =? 32)%Z || (w =? 64)%Z
  | TNonPrim => true
  end.

(* ---- inclusive_value_range ---- *)
Definition uint_max (w : Z) : Z := (Z.shiftl 1 w - 1)%Z.                  (* (1 << w) - 1 *)
Definition sint_half (w : Z) : Z := ((Z.shiftl 1 w - 1) / 2)%Z.           (* ((1 << w) - 1) // 2 *)

(* (2**emax) * (2 - Fraction(2) ** Fraction(-p)) *)
Definition float_mag_q (emax p : Z) : Q := Qred (inject_Z (2 ^ emax) * (2 - Qpower 2 (- p))).

Definition float_mag (w : Z) : option Q :=
  if (w =? 16)%Z then Some (float_mag_q 15 10)
  else if (w =? 32)%Z then Some (float_mag_q 127 23)
  else if (w =? 64)%Z then Some (float_mag_q 1023 52)
  else None.

Definition value_range (t : ctype) : option (Q * Q) :=
  match t with
  | TUInt w _ => Some (inject_Z 0, inject_Z (uint_max w))
  | TByte | TUtf8 => Some (inject_Z 0, inject_Z (uint_max 8))
  | TSInt w _ => Some (inject_Z (- sint_half w - 1), inject_Z (sint_half w))
  | TFloat w _ => match float_mag w with Some m => Some (Qopp m, m) | None => None end
  | _ => None
  end.

Definition is_integer_type (t : ctype) : bool :=
  match t with TUInt _ _ | TSInt _ _ | TByte | TUtf8 => true | _ => false end.
Definition is_float_type (t : ctype) : bool := match t with TFloat _ _ => true | _ => false end.
(* isinstance(data_type, UnsignedIntegerType) and data_type.bit_length == 8 *)
Definition is_uint8 (t : ctype) : bool :=
  match t with TUInt w _ => (w =? 8)%Z | TByte | TUtf8 => true | _ => false end.

(* ---- str.encode("utf8") ---- *)
Definition is_surrogate (c : Z) : bool := (55296 <=? c)%Z && (c <=? 57343)%Z.
Definition utf8_clen (c : Z) : Z :=
  if (0 <=? c)%Z && (c <? 128)%Z then 1%Z else if (c <? 2048)%Z then 2%Z else if (c <? 65536)%Z then 3%Z else 4%Z.
Definition utf8_len (s : list Z) : Z := fold_right (fun c a => (utf8_clen c + a)%Z) 0%Z s.
Definition encodable (s : list Z) : bool := forallb (fun c => negb (is_surrogate c)) s.

Definition range_check (t : ctype) (q : Q) : cres :=
  match value_range t with
  | Some (lo, hi) => if Qle_bool lo q && Qle_bool q hi then COk (VRat q) else CRej
  | None => CRej
  end.

(* Constant.__init__, in the order of the code *)
Definition const_check (t : ctype) (v : value) : cres :=
  match v with
  | VSet _ => CRej                                              (* not a Primitive *)
  | _ =>
    match t with
    | TBool => match v with VBool _ => COk v | _ => CRej end
    | TNonPrim => CRej                                          (* InvalidTypeError *)
    | _ =>
      if is_integer_type t then
        match v with
        | VRat q => if is_int q then range_check t q else CRej
        | VStr s =>
            if negb (encodable s) then CRej                     (* UnicodeEncodeError caught: as_bytes = b"" *)
            else if negb (utf8_len s =? 1)%Z then CRej
            else if negb (is_uint8 t) then CRej
            else range_check t (inject_Z (hd 0%Z s))             (* ord(as_bytes) *)
        | _ => CRej
        end
      else (* FloatType *)
        match v with VRat q => range_check t q | _ => CRej end
    end
  end.

(* through definition text: the type expression is constructed first, then the Constant, then the attribute is added to
   the schema, where byte and utf8 fail the aggregation check (they are array element types only) *)
Definition const_text (t : ctype) (v : value) : cres :=
  if negb (ctype_ok t) then CRej
  else match const_check t v with
       | COk v' => match t with TByte | TUtf8 => CRej | _ => COk v' end
       | r => r
       end.
