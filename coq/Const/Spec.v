(* C12 - the declarative rule set a constant must satisfy (what the Specification says), independent of the code's
   way of computing ranges. *)
From Coq Require Import ZArith QArith List Bool.
From PV Require Import Expr.Values Const.Model.
Import ListNotations.

(* inclusive integer ranges, the textbook form *)
Definition int_bounds (t : ctype) : option (Z * Z) :=
  match t with
  | TUInt w _ => Some (0, 2 ^ w - 1)%Z
  | TByte | TUtf8 => Some (0, 255)%Z
  | TSInt w _ => Some (- 2 ^ (w - 1), 2 ^ (w - 1) - 1)%Z
  | _ => None
  end.

(* IEEE 754 binary16/32/64: precision p (stored fraction bits), largest exponent emax;
   largest finite value = (2^(p+1) - 1) * 2^(emax - p) *)
Definition float_params (w : Z) : option (Z * Z) :=
  if (w =? 16)%Z then Some (15, 10)%Z else if (w =? 32)%Z then Some (127, 23)%Z
  else if (w =? 64)%Z then Some (1023, 52)%Z else None.

Definition float_max (w : Z) : option Z :=
  match float_params w with
  | Some (emax, p) => Some ((2 ^ (p + 1) - 1) * 2 ^ (emax - p))%Z
  | None => None
  end.

(* initialiser v is accepted for type t and stored as v' *)
Inductive ConstSpec : ctype -> value -> value -> Prop :=
| CS_bool : forall b, ConstSpec TBool (VBool b) (VBool b)
| CS_int : forall t q z lo hi,
    int_bounds t = Some (lo, hi) -> q == inject_Z z -> (lo <= z <= hi)%Z -> ConstSpec t (VRat q) (VRat q)
| CS_char : forall t c,
    is_uint8 t = true -> (0 <= c < 128)%Z -> ConstSpec t (VStr [c]) (VRat (inject_Z c))
| CS_float : forall w tr q m,
    float_max w = Some m -> - inject_Z m <= q <= inject_Z m -> ConstSpec (TFloat w tr) (VRat q) (VRat q).

(* the stored value is compliant with the declared type *)
Definition Compliant (t : ctype) (v : value) : Prop :=
  match t with
  | TBool => exists b, v = VBool b
  | TNonPrim => False
  | TFloat w _ => exists q m, v = VRat q /\ float_max w = Some m /\ - inject_Z m <= q <= inject_Z m
  | _ => exists q z lo hi, v = VRat q /\ q == inject_Z z /\ int_bounds t = Some (lo, hi) /\ (lo <= z <= hi)%Z
  end.

(* a string that str.encode("utf8") refuses *)
Definition lone_surrogate (s : list Z) : Prop := exists c, In c s /\ (55296 <= c <= 57343)%Z.
