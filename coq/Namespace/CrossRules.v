(* C11 - cross-definition rules of _namespace.py: _ensure_no_fixed_port_id_collisions (over the directly read
   types) and _ensure_minor_version_compatibility (over transitive + direct).  Model and declarative
   specification; no proofs in this file. *)
From Coq Require Import ZArith List Bool.
From PV Require Import Util.ListSet.
Import ListNotations.
Open Scope Z_scope.

(* ---------------------------------------------------------------------------------------------------------- *)
(* what the two checks read off a successfully constructed CompositeType                                       *)

Record lay := mkLay { extent : Z; sealed : bool }.               (* .extent, not isinstance(_, DelimitedType) *)
Inductive kind := Msg (l : lay) | Svc (rq rs : lay).             (* ServiceType: request_type, response_type *)
Record summary := mkSum {
  name : list Z;              (* full_name as code points *)
  major : Z; minor : Z;       (* version *)
  knd : kind;
  port : option Z             (* fixed_port_id; has_fixed_port_id = it is not None *)
}.

Inductive outcome := Accept | Reject.     (* Reject = an InvalidDefinitionError subclass is raised *)

Definition is_svc (s : summary) : bool := match knd s with Svc _ _ => true | Msg _ => false end.
Definition name_eqb (a b : summary) : bool := list_eqb (name a) (name b).

(* ---------------------------------------------------------------------------------------------------------- *)
(* _ensure_no_fixed_port_id_collisions(types): for a in types: for b in types: ...                              *)

Definition fpid_must_be_different (a b : summary) : bool :=
  let different_names := negb (name_eqb a b) in
  let different_major_versions := negb (major a =? major b) in
  let same_kind := Bool.eqb (is_svc a) (is_svc b) in
  let both_released := (0 <? major a) && (0 <? major b) in
  same_kind && (different_names || (different_major_versions && both_released)).

Definition port_collision (a b : summary) : bool :=
  fpid_must_be_different a b &&
  match port a, port b with
  | Some p, Some q => p =? q
  | _, _ => false
  end.

Definition check_ports (types : list summary) : bool :=
  forallb (fun a => forallb (fun b => negb (port_collision a b)) types) types.

(* ---------------------------------------------------------------------------------------------------------- *)
(* _ensure_minor_version_compatibility_pairwise(a, b)                                                          *)

(* the tail of the function applied to two non-service types of major version mj: extent and sealing *)
Definition lay_ok (mj : Z) (x y : lay) : bool :=
  if 0 <? mj then (extent x =? extent y) && Bool.eqb (sealed x) (sealed y) else true.

Definition has_port (s : summary) : bool := match port s with Some _ => true | None => false end.
Definition opt_eqb (p q : option Z) : bool :=
  match p, q with Some x, Some y => x =? y | None, None => true | _, _ => false end.

Definition port_ok (a b : summary) : bool :=
  if Bool.eqb (has_port a) (has_port b) then opt_eqb (port a) (port b)
  else has_port (if minor b <? minor a then a else b).      (* must_have = a if a.minor > b.minor else b *)

(* The recursive calls on request_type / response_type: those are never services, never have a port-ID
   (None == None) and carry the version of the service, so only the extent/sealing tail remains. *)
Definition pair_ok (a b : summary) : bool :=
  match knd a, knd b with
  | Msg x, Msg y => port_ok a b && lay_ok (major a) x y
  | Svc q1 r1, Svc q2 r2 => port_ok a b && lay_ok (major a) q1 q2 && lay_ok (major a) r1 r2
  | _, _ => false                                             (* VersionsOfDifferentKindError *)
  end.

(* ---------------------------------------------------------------------------------------------------------- *)
(* _ensure_minor_version_compatibility(types)                                                                  *)

(* Python objects have identity ("if a is not b"): every element of the list is tagged with its position. *)
Fixpoint enum_from {A} (i : nat) (l : list A) : list (nat * A) :=
  match l with [] => [] | x :: r => (i, x) :: enum_from (S i) r end.
Definition enum {A} (l : list A) : list (nat * A) := enum_from 0 l.

(* keys of a defaultdict in insertion order: first occurrences *)
Section Keys.
Context {K : Type} (eqb : K -> K -> bool).
Fixpoint keys (l : list K) : list K :=
  match l with
  | [] => []
  | k :: r => k :: filter (fun k' => negb (eqb k k')) (keys r)
  end.
End Keys.

Definition tagged := (nat * summary)%type.

Definition group_ok (g : list tagged) : bool :=
  forallb (fun a => forallb (fun b =>
      Nat.eqb (fst a) (fst b)                                            (* a is b *)
      || (negb (minor (snd a) =? minor (snd b))                          (* DataTypeCollisionError (F5a) *)
          && pair_ok (snd a) (snd b))) g) g.

Definition check_minor (types : list summary) : bool :=
  let ts := enum types in
  forallb (fun n =>
      let definitions := filter (fun t => list_eqb (name (snd t)) n) ts in                 (* by_name[n] *)
      forallb (fun mj =>
          group_ok (filter (fun t => major (snd t) =? mj) definitions))                    (* by_major[mj] *)
        (keys Z.eqb (map (fun t => major (snd t)) definitions)))
    (keys list_eqb (map (fun t => name (snd t)) ts)).

(* _complete_read_function: collisions over `direct` only, compatibility over transitive + direct *)
Definition accept (direct transitive : list summary) : bool :=
  check_ports direct && check_minor (transitive ++ direct).

Definition run (direct transitive : list summary) : outcome :=
  if accept direct transitive then Accept else Reject.

(* ---------------------------------------------------------------------------------------------------------- *)
(* Declarative specification (the property text)                                                              *)

Definition same_kind (a b : summary) : Prop := is_svc a = is_svc b.

(* two definitions of the same kind never share a fixed port-ID unless they have the same full name and either
   the same major version or a major version of 0 on at least one side *)
Definition PortsConform (ds : list summary) : Prop :=
  forall a b, In a ds -> In b ds -> same_kind a b ->
  forall p, port a = Some p -> port b = Some p ->
  name a = name b /\ (major a = major b \/ major a = 0 \/ major b = 0).

(* the port-ID may be added in a newer minor version but never changed or removed *)
Definition port_rule (a b : summary) : Prop :=
  port a = port b \/ (port a = None /\ minor a < minor b) \/ (port b = None /\ minor b < minor a).

Definition same_lay (x y : lay) : Prop := extent x = extent y /\ sealed x = sealed y.

(* equal extent and equal sealing, separately for the request and the response of services *)
Definition lays_equal (a b : summary) : Prop :=
  match knd a, knd b with
  | Msg x, Msg y => same_lay x y
  | Svc q1 r1, Svc q2 r2 => same_lay q1 q2 /\ same_lay r1 r2
  | _, _ => True
  end.

Definition compatible (a b : summary) : Prop :=
  same_kind a b /\ port_rule a b /\ (1 <= major a -> lays_equal a b).

(* two distinct objects of the list: two different positions *)
Definition two_of (ds : list summary) (a b : summary) : Prop :=
  exists i j, i <> j /\ nth_error ds i = Some a /\ nth_error ds j = Some b.

Definition same_series (a b : summary) : Prop := name a = name b /\ major a = major b.

(* no two definitions with the same full name and version (fix F5a: they are rejected, not an assert) *)
Definition VersionsUnique (ds : list summary) : Prop :=
  forall a b, two_of ds a b -> same_series a b -> minor a <> minor b.

Definition MinorsConform (ds : list summary) : Prop :=
  forall a b, In a ds -> In b ds -> same_series a b -> minor a <> minor b -> compatible a b.

Definition Conforming (direct all : list summary) : Prop :=
  PortsConform direct /\ VersionsUnique all /\ MinorsConform all.

(* majors come from file names: decimal digits, hence non-negative *)
Definition wf (ds : list summary) : Prop := forall a, In a ds -> 0 <= major a.
