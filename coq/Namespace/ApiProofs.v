(* C10 - read_namespace / read_files on a directory tree: exactly one composite per definition file under the
   root directory (read_namespace), exactly the requested files (read_files). *)
From Coq Require Import ZArith List Bool Lia Permutation Sorted.
From PV Require Import Namespace.Reader Namespace.ReaderProofs Namespace.ReadPure Namespace.ReadCache Namespace.SortProofs
                       Namespace.LoopProofs Namespace.FilesProofs Namespace.Listing Namespace.ListingProofs.
Import ListNotations.
Open Scope Z_scope.

Lemma prefix_comparable : forall (a b l : list str), is_prefix a l = true -> is_prefix b l = true ->
  is_prefix a b = true \/ is_prefix b a = true.
Proof.
  induction a as [|x a IH]; intros b l Ha Hb; [left; reflexivity|].
  destruct b as [|y b]; [right; reflexivity|].
  destruct l as [|z l]; simpl in *; [discriminate|].
  apply andb_true_iff in Ha. apply andb_true_iff in Hb. destruct Ha as [E1 Ha], Hb as [E2 Hb].
  apply str_eqb_eq in E1, E2. subst. rewrite str_eqb_refl. simpl. eapply IH; eassumption.
Qed.

Lemma NoDup_map_filter : forall {A B} (f : A -> B) (p : A -> bool) l, NoDup (map f l) -> NoDup (map f (filter p l)).
Proof.
  induction l as [|x l IH]; intros N; simpl; [constructor|]. simpl in N. inversion N as [|? ? Hn N']; subst.
  destruct (p x); simpl; [|apply IH; assumption]. constructor; [|apply IH; assumption].
  intro H. apply Hn. apply in_map_iff in H. destruct H as [y [E Hy]]. apply filter_In in Hy. rewrite <- E. apply in_map. tauto.
Qed.

Lemma fid_inj : forall files f g, NoDup (map fid files) -> In f files -> In g files -> fid f = fid g -> f = g.
Proof.
  induction files as [|x l IH]; intros f g N Hf Hg E; [contradiction|].
  simpl in N. inversion N as [|? ? Hn N']; subst.
  destruct Hf as [Hf|Hf], Hg as [Hg|Hg].
  - congruence.
  - subst. exfalso. apply Hn. rewrite E. apply in_map. assumption.
  - subst. exfalso. apply Hn. rewrite <- E. apply in_map. assumption.
  - apply IH; assumption.
Qed.

(* an accepted set of directories lists every file at most once *)
Lemma pairs_fid_nodup : forall files dirs, NoDup (map fid files) -> NoDup dirs ->
  (forall a b, In a dirs -> In b dirs -> a <> b -> is_prefix b a = false) ->
  NoDup (map (fun rf => fid (snd rf)) (pairs_of dirs files)).
Proof.
  intros files dirs NF. induction dirs as [|r ds IH]; intros ND Hn; [constructor|].
  inversion ND as [|? ? Hr ND']; subst.
  unfold pairs_of. simpl. rewrite map_app. apply NoDup_app_iff. split; [|split].
  - rewrite map_map. simpl. apply NoDup_map_filter. assumption.
  - apply IH; [assumption|]. intros a b Ha Hb. apply Hn; right; assumption.
  - intros x Hx Hx'. rewrite map_map in Hx. simpl in Hx. apply in_map_iff in Hx. destruct Hx as [f [E Hf]].
    apply filter_In in Hf. destruct Hf as [Hf Hp]. apply andb_true_iff in Hp. destruct Hp as [_ Hp].
    apply in_map_iff in Hx'. destruct Hx' as [[r' g] [E' Hg]]. simpl in E'.
    apply (pairs_of_In ds files r' g) in Hg. destruct Hg as [Hr' [Hg [_ Hp']]].
    assert (f = g) by (apply (fid_inj files); congruence). subst g.
    assert (Hne : r <> r') by (intro; subst; contradiction).
    destruct (prefix_comparable r r' (fdir f) Hp Hp') as [C|C].
    + rewrite (Hn r' r (or_intror Hr') (or_introl eq_refl)) in C; [discriminate|congruence].
    + rewrite (Hn r r' (or_introl eq_refl) (or_intror Hr') Hne) in C. discriminate.
Qed.

Lemma not_rejected_no_nesting : forall allow dirs, dirs_rejected allow dirs = false ->
  forall a b, In a dirs -> In b dirs -> a <> b -> is_prefix b a = false.
Proof.
  intros allow dirs H a b Ha Hb Hne. destruct (is_prefix b a) eqn:E; [|reflexivity].
  assert (dirs_rejected allow dirs = true); [|congruence].
  apply dirs_rejected_spec. exists a, b. repeat split; auto. right. apply is_prefix_spec. assumption.
Qed.

Lemma listing_files_unique : forall allow dirs files L, NoDup (map fid files) -> NoDup dirs ->
  dirs_rejected allow dirs = false -> listing dirs files = Ok L -> files_unique L.
Proof.
  intros allow dirs files L NF ND NR H. unfold listing in H.
  destruct (existsb _ _); [discriminate|]. inversion H; subst L. unfold files_unique.
  rewrite sort_metas_is. eapply Permutation_NoDup; [apply Permutation_map, Permutation_sym, isort_perm|].
  rewrite map_map. simpl. apply pairs_fid_nodup; [assumption|assumption|]. eapply not_rejected_no_nesting. eassumption.
Qed.

Lemma listing_In : forall dirs files L d, listing dirs files = Ok L ->
  (In d L <-> exists r f, In (r, f) (pairs_of dirs files) /\ d = mk_meta r f).
Proof.
  intros dirs files L d H. unfold listing in H. destruct (existsb _ _); [discriminate|]. inversion H; subst L.
  rewrite sort_metas_is. split.
  - intro Hd. apply (Permutation_in _ (isort_perm _ _)) in Hd. apply in_map_iff in Hd. destruct Hd as [[r f] [E Hd]].
    exists r, f. auto.
  - intros [r [f [Hin E]]]. apply (Permutation_in _ (Permutation_sym (isort_perm _ _))). apply in_map_iff. exists (r, f). auto.
Qed.

Lemma NoDup_of_map : forall {A B} (f : A -> B) l, NoDup (map f l) -> NoDup l.
Proof.
  induction l as [|x l IH]; intros N; [constructor|]. simpl in N. inversion N as [|? ? Hn N']; subst.
  constructor; [intro H; apply Hn; apply in_map; assumption|apply IH; assumption].
Qed.

Section Api.
Variable txt : Z -> list item.
Variable files : list fent.
Hypothesis NF : NoDup (map fid files).

(* C10_complete: read_namespace returns exactly one composite per definition file (.dsdl / .uavcan) under the root
   directory - none missing, none duplicated, none from the lookup directories - each equal to what reading the
   definition on its own yields, sorted *)
Theorem run_namespace_complete : forall root lookups allow out,
  (forall L, listing (dedupe_dirs (lookups ++ [root])) files = Ok L -> strict_unique L) ->
  run_namespace txt files root lookups allow = Ok out ->
  Permutation (map tfile (odirect out)) (map fid (filter (fun f => globbed f && is_prefix root (fdir f)) files)) /\
  StronglySorted (fun a b => rank_lt (tkey a) (tkey b)) (odirect out) /\
  (forall L, listing (dedupe_dirs (lookups ++ [root])) files = Ok L -> forall t, In t (odirect out) -> genuine txt L t).
Proof.
  intros root lookups allow out HSU H. unfold run_namespace in H.
  destruct (dirs_rejected allow (dedupe_dirs (lookups ++ [root]))) eqn:NR; [discriminate|].
  destruct (listing [root] files) as [targets|e] eqn:LT; [|discriminate].
  assert (Hpairs : pairs_of [root] files = map (fun f => (root, f)) (filter (fun f => globbed f && is_prefix root (fdir f)) files)).
  { unfold pairs_of. simpl. apply app_nil_r. }
  assert (Htf : Permutation (map mfile targets) (map fid (filter (fun f => globbed f && is_prefix root (fdir f)) files))).
  { unfold listing in LT. destruct (existsb _ _); [discriminate|]. inversion LT; subst targets.
    rewrite sort_metas_is. eapply Permutation_trans; [apply Permutation_map, isort_perm|].
    rewrite app_nil_r, !map_map. simpl. apply Permutation_refl. }
  destruct targets as [|t0 ts].
  - inversion H; subst out. simpl. split; [|split; [constructor|intros L _ t []]].
    simpl in Htf. exact Htf.
  - destruct (listing (dedupe_dirs (lookups ++ [root])) files) as [L|e] eqn:LL; [|discriminate].
    pose proof (HSU L eq_refl) as SU.
    pose proof (listing_files_unique allow _ files L NF (dedupe_dirs_NoDup _) NR LL) as FU.
    assert (NT : NoDup (t0 :: ts)).
    { apply (NoDup_of_map mfile). eapply Permutation_NoDup; [apply Permutation_sym; exact Htf|].
      apply NoDup_map_filter. assumption. }
    assert (HL : forall d, In d (t0 :: ts) -> In d L).
    { intros d Hd. apply (listing_In _ _ _ d LT) in Hd. destruct Hd as [r [f [Hin E]]].
      apply (listing_In _ _ _ d LL). exists r, f. split; [|assumption].
      apply pairs_of_In in Hin. destruct Hin as [[Hr|[]] Hrest]. subst r.
      apply pairs_of_In. split; [|assumption]. apply dedupe_dirs_In. apply in_app_iff. right. left. reflexivity. }
    destruct (complete_read_spec txt L SU FU (t0 :: ts) out NT HL H) as [H1 [H2 [_ [_ [_ [H3 _]]]]]].
    split; [eapply Permutation_trans; eassumption|]. split; [assumption|].
    intros L' E t Ht. inversion E; subst L'. apply H1 in Ht. destruct Ht as [d [Hd Rd]]. exists d. split; [apply HL; assumption|assumption].
Qed.

Lemma targets_of_spec : forall roots ids ps, targets_of files roots ids = Ok ps ->
  map (fun rf => fid (snd rf)) ps = ids /\
  forall r f, In (r, f) ps -> In r roots /\ In f files /\ is_prefix r (fdir f) = true.
Proof.
  intros roots. induction ids as [|i ids IH]; intros ps H; simpl in H.
  - inversion H; subst. split; [reflexivity|intros r f []].
  - destruct (find (fun f => fid f =? i) files) as [f|] eqn:F; [|discriminate].
    destruct (infer_root roots f) as [root|] eqn:IR; [|discriminate].
    destruct (fbad f); [discriminate|].
    destruct (targets_of files roots ids) as [l|e]; [|discriminate]. inversion H; subst ps.
    destruct (IH l eq_refl) as [H1 H2]. apply find_some in F. destruct F as [Ff Fi]. apply Z.eqb_eq in Fi.
    unfold infer_root in IR. apply find_some in IR. destruct IR as [Ir Ip].
    split; [simpl; congruence|]. intros r g [Hg|Hg]; [inversion Hg; subst; auto|apply H2; assumption].
Qed.

Lemma dedupe_files_In : forall l x, In x (dedupe_files l) -> In x l.
Proof.
  induction l as [|y l IH]; simpl; intros x H; [contradiction|].
  destruct H as [H|H]; [auto|]. apply filter_In in H. right. apply IH. tauto.
Qed.

Lemma dedupe_files_fids : forall l i, In i (map (fun rf => fid (snd rf)) (dedupe_files l)) <-> In i (map (fun rf => fid (snd rf)) l).
Proof.
  induction l as [|y l IH]; intro i; simpl; [tauto|]. split.
  - intros [H|H]; [auto|]. right. apply IH. apply in_map_iff in H. destruct H as [x [E Hx]]. apply filter_In in Hx.
    apply in_map_iff. exists x. tauto.
  - intros [H|H]; [auto|]. destruct (i =? fid (snd y)) eqn:E; [apply Z.eqb_eq in E; auto|]. right.
    apply IH in H. apply in_map_iff in H. destruct H as [x [E2 Hx]]. apply in_map_iff. exists x. split; [assumption|].
    apply filter_In. split; [assumption|]. rewrite E2, E. reflexivity.
Qed.

Lemma dedupe_files_nodup : forall l, NoDup (map (fun rf => fid (snd rf)) (dedupe_files l)).
Proof.
  induction l as [|y l IH]; simpl; [constructor|]. constructor.
  - intro H. apply in_map_iff in H. destruct H as [x [E Hx]]. apply filter_In in Hx. destruct Hx as [_ Hx].
    rewrite E, Z.eqb_refl in Hx. discriminate.
  - apply NoDup_map_filter. assumption.
Qed.

(* C10_files on the directory tree: read_files returns the requested files as direct - each once, however often and
   in whatever order it was requested - and the rest of their closure as transitive; disjoint; sorted *)
Theorem run_files_spec : forall ids roots lookups out,
  (forall dirs L, listing (dedupe_dirs dirs) files = Ok L -> strict_unique L) ->
  (forall f, In f files -> In (fid f) ids -> globbed f = true) ->           (* the requested files are .dsdl / .uavcan files *)
  run_files txt files ids roots lookups = Ok out ->
  (forall i, In i (map tfile (odirect out)) <-> In i ids) /\
  NoDup (map tfile (odirect out)) /\
  (forall t, In t (otrans out) <-> ~ In t (odirect out) /\ exists t0, In t0 (odirect out) /\ sdesc t t0) /\
  (forall t, In t (odirect out) -> ~ In t (otrans out)) /\
  StronglySorted (fun a b => rank_lt (tkey a) (tkey b)) (odirect out) /\
  StronglySorted (fun a b => rank_lt (tkey a) (tkey b)) (otrans out).
Proof.
  intros ids roots lookups out HSU HG H. unfold run_files in H.
  destruct (targets_of files roots ids) as [ps|e] eqn:TO; [|discriminate].
  destruct (targets_of_spec roots ids ps TO) as [Hids Hps].
  destruct ps as [|p ps].
  - inversion H; subst out. simpl in *. subst ids. repeat split; try constructor; try tauto; try (intros; contradiction).
    intros [_ [t0 [[] _]]].
  - set (ps' := dedupe_files (p :: ps)) in *.
    destruct (dirs_rejected true (dedupe_dirs (lookups ++ map fst ps' ++ roots))) eqn:NR; [discriminate|].
    destruct (listing (dedupe_dirs (lookups ++ map fst ps' ++ roots)) files) as [L|e] eqn:LL; [|discriminate].
    pose proof (HSU _ L LL) as SU.
    pose proof (listing_files_unique true _ files L NF (dedupe_dirs_NoDup _) NR LL) as FU.
    set (targets := sort_metas (map (fun rf => mk_meta (fst rf) (snd rf)) ps')) in *.
    assert (Hperm : Permutation targets (map (fun rf => mk_meta (fst rf) (snd rf)) ps')).
    { unfold targets. rewrite sort_metas_is. apply isort_perm. }
    assert (Hmf : Permutation (map mfile targets) (map (fun rf => fid (snd rf)) ps')).
    { eapply Permutation_trans; [apply Permutation_map; exact Hperm|]. rewrite map_map. simpl. apply Permutation_refl. }
    assert (NT : NoDup targets).
    { apply (NoDup_of_map mfile). eapply Permutation_NoDup; [apply Permutation_sym; exact Hmf|]. apply dedupe_files_nodup. }
    assert (HL : forall d, In d targets -> In d L).
    { intros d Hd. apply (Permutation_in _ Hperm) in Hd. apply in_map_iff in Hd. destruct Hd as [[r f] [E Hd]]. simpl in E.
      apply (listing_In _ _ _ d LL). exists r, f. split; [|auto].
      pose proof (dedupe_files_In _ _ Hd) as Hd'. destruct (Hps r f Hd') as [Hr [Hf Hp]].
      apply pairs_of_In. split; [apply dedupe_dirs_In; apply in_app_iff; right; apply in_app_iff; right; assumption|].
      split; [assumption|]. split; [|assumption].
      apply HG; [assumption|]. rewrite <- Hids. apply in_map_iff. exists (r, f). auto. }
    destruct (complete_read_spec txt L SU FU targets out NT HL H) as [H1 [H2 [H3 [_ [H4 [H5 H6]]]]]].
    split; [|split; [|split; [|split; [|split]]]]; try assumption.
    + intro i. rewrite <- Hids.
      rewrite <- (dedupe_files_fids (p :: ps) i). fold ps'. split; intro Hi.
      * apply (Permutation_in _ Hmf). apply (Permutation_in _ H2). assumption.
      * apply (Permutation_in _ (Permutation_sym H2)). apply (Permutation_in _ (Permutation_sym Hmf)). assumption.
    + eapply Permutation_NoDup; [apply Permutation_sym; exact H2|].
      eapply Permutation_NoDup; [apply Permutation_sym; exact Hmf|]. apply dedupe_files_nodup.
Qed.


(* ------------------------------------------------------------------------------------------------------------ *)
(* order and duplication of the root directory arguments of read_files                                           *)

Lemma find_none_set : forall (p : list str -> bool) (r1 r2 : list (list str)), (forall x, In x r1 -> In x r2) -> find p r2 = None -> find p r1 = None.
Proof.
  intros p r1 r2 H F. destruct (find p r1) as [a|] eqn:E; [|reflexivity].
  apply find_some in E. destruct E as [Ha Hp]. pose proof (find_none _ _ F a (H a Ha)). congruence.
Qed.

Lemma infer_root_same : forall r1 r2 f, (forall x, In x r1 <-> In x r2) ->
  (forall a b, In a r1 -> In b r1 -> a <> b -> is_prefix b a = false) ->
  infer_root r1 f = infer_root r2 f.
Proof.
  intros r1 r2 f H NN. unfold infer_root.
  destruct (find (fun r => is_prefix r (fdir f)) r1) as [a|] eqn:E1.
  - destruct (find (fun r => is_prefix r (fdir f)) r2) as [b|] eqn:E2.
    + apply find_some in E1. apply find_some in E2. destruct E1 as [Ha Pa], E2 as [Hb Pb]. apply H in Hb.
      f_equal. destruct (dpath_eqb a b) eqn:E; [apply dpath_eqb_eq; assumption|]. apply dpath_eqb_false in E.
      destruct (prefix_comparable a b (fdir f) Pa Pb) as [C|C].
      * rewrite (NN b a Hb Ha) in C; [discriminate|congruence].
      * rewrite (NN a b Ha Hb E) in C. discriminate.
    + rewrite (find_none_set _ r1 r2 (fun x Hx => proj1 (H x) Hx) E2) in E1. discriminate.
  - symmetry. apply (find_none_set _ r2 r1 (fun x Hx => proj2 (H x) Hx) E1).
Qed.

Lemma infer_root_none_iff : forall r1 r2 f, (forall x, In x r1 <-> In x r2) -> (infer_root r1 f = None <-> infer_root r2 f = None).
Proof.
  intros r1 r2 f H. unfold infer_root. split; intro E.
  - apply (find_none_set _ r2 r1 (fun x Hx => proj2 (H x) Hx) E).
  - apply (find_none_set _ r1 r2 (fun x Hx => proj1 (H x) Hx) E).
Qed.

Lemma targets_of_roots : forall r1 r2 ids, (forall x, In x r1 <-> In x r2) ->
  match targets_of files r1 ids, targets_of files r2 ids with
  | Ok p1, Ok p2 => map snd p1 = map snd p2
  | Err e1, Err e2 => e1 = e2
  | _, _ => False
  end.
Proof.
  intros r1 r2 ids H. induction ids as [|i ids IH]; simpl; [reflexivity|].
  destruct (find (fun f => fid f =? i) files) as [f|]; [|reflexivity].
  pose proof (infer_root_none_iff r1 r2 f H) as HN.
  destruct (infer_root r1 f) as [a|] eqn:E1, (infer_root r2 f) as [b|] eqn:E2; try reflexivity.
  - destruct (fbad f); [reflexivity|].
    destruct (targets_of files r1 ids) as [p1|e1], (targets_of files r2 ids) as [p2|e2]; simpl; try assumption; try contradiction.
    f_equal. assumption.
  - destruct HN as [_ HN]. specialize (HN eq_refl). discriminate.
  - destruct HN as [HN _]. specialize (HN eq_refl). discriminate.
Qed.

Lemma targets_of_same : forall r1 r2 ids, (forall f, In f files -> infer_root r1 f = infer_root r2 f) ->
  targets_of files r1 ids = targets_of files r2 ids.
Proof.
  intros r1 r2 ids H. induction ids as [|i ids IH]; simpl; [reflexivity|].
  destruct (find (fun f => fid f =? i) files) as [f|] eqn:F; [|reflexivity].
  apply find_some in F. rewrite (H f (proj1 F)), IH. reflexivity.
Qed.

Lemma dedupe_files_snd : forall (p1 p2 : list (dpath * fent)), map snd p1 = map snd p2 -> map snd (dedupe_files p1) = map snd (dedupe_files p2).
Proof.
  assert (Hf : forall (x : dpath * fent) (p1 p2 : list (dpath * fent)), map snd p1 = map snd p2 ->
            map snd (filter (fun y => negb (fid (snd y) =? fid (snd x))) p1) = map snd (filter (fun y => negb (fid (snd y) =? fid (snd x))) p2)).
  { intros x. induction p1 as [|a p1 IH]; intros [|b p2] E; simpl in *; try discriminate; [reflexivity|].
    inversion E as [[E1 E2]]. rewrite E1. destruct (negb (fid (snd b) =? fid (snd x))); simpl; [f_equal; [exact E1|]|]; apply IH; assumption. }
  induction p1 as [|a p1 IH]; intros [|b p2] E; simpl in *; try discriminate; [reflexivity|].
  inversion E as [[E1 E2]]. rewrite E1. f_equal.
  apply (Hf b). apply IH. assumption.
Qed.

(* C10_dir_args for the roots of read_files *)
Theorem run_files_root_args : forall ids r1 r2 lookups,
  (forall x, In x r1 <-> In x r2) -> (forall dirs, ukeys (dedupe_dirs dirs) files) ->
  run_files txt files ids r1 lookups = run_files txt files ids r2 lookups.
Proof.
  intros ids r1 r2 lookups H U. unfold run_files.
  pose proof (targets_of_roots r1 r2 ids H) as HT.
  destruct (targets_of files r1 ids) as [p1|e1] eqn:T1, (targets_of files r2 ids) as [p2|e2] eqn:T2; try contradiction; [|congruence].
  destruct p1 as [|a p1], p2 as [|b p2]; simpl in HT; try discriminate; [reflexivity|].
  set (q1 := dedupe_files (a :: p1)). set (q2 := dedupe_files (b :: p2)).
  assert (Hin1 : forall r, In r (map fst q1) -> In r r1).
  { intros r Hr. apply in_map_iff in Hr. destruct Hr as [[r' f] [E Hr]]. simpl in E. subst r'.
    apply dedupe_files_In in Hr. destruct (targets_of_spec r1 ids _ T1) as [_ Hs]. apply (Hs r f Hr). }
  assert (Hin2 : forall r, In r (map fst q2) -> In r r2).
  { intros r Hr. apply in_map_iff in Hr. destruct Hr as [[r' f] [E Hr]]. simpl in E. subst r'.
    apply dedupe_files_In in Hr. destruct (targets_of_spec r2 ids _ T2) as [_ Hs]. apply (Hs r f Hr). }
  assert (Hs : forall x, In x (lookups ++ map fst q1 ++ r1) <-> In x (lookups ++ map fst q2 ++ r2)).
  { intro x. rewrite !in_app_iff. split; intros [Hx|[Hx|Hx]]; auto.
    - right. right. apply H. auto.
    - right. right. apply H. assumption.
    - right. right. apply H. auto.
    - right. right. apply H. assumption. }
  rewrite (dirs_rejected_ext true (dedupe_dirs (lookups ++ map fst q1 ++ r1)) (dedupe_dirs (lookups ++ map fst q2 ++ r2))).
  2:{ intro x. rewrite !dedupe_dirs_In. apply Hs. }
  destruct (dirs_rejected true (dedupe_dirs (lookups ++ map fst q2 ++ r2))) eqn:NR; [reflexivity|].
  (* accepted: no root lies inside another, so every file has the same root under both argument lists *)
  assert (NN : forall a0 b0, In a0 r1 -> In b0 r1 -> a0 <> b0 -> is_prefix b0 a0 = false).
  { intros a0 b0 Ha Hb. apply (not_rejected_no_nesting true _ NR); apply dedupe_dirs_In; apply in_app_iff; right;
      apply in_app_iff; right; apply H; assumption. }
  assert (Hsame : targets_of files r1 ids = targets_of files r2 ids).
  { apply targets_of_same. intros f _. apply infer_root_same; assumption. }
  rewrite T1, T2 in Hsame. inversion Hsame as [[Ea Ep]]. unfold q1, q2 in *. rewrite Ea, Ep in *.
  rewrite (listing_perm (dedupe_dirs (lookups ++ map fst (dedupe_files (b :: p2)) ++ r1)) files
                        (dedupe_dirs (lookups ++ map fst (dedupe_files (b :: p2)) ++ r2)) files); [reflexivity| |apply U].
  apply pairs_of_perm_roots. apply dedupe_dirs_perm. exact Hs.
Qed.

End Api.
