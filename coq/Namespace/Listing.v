(* C10 / C19 - model of the public entry points read_namespace / read_files on an abstract directory tree.
   Definitions only, no proofs.

   Anchors: _namespace.py read_namespace, read_files, _construct_lookup_directories_path_list,
            _construct_dsdl_definitions_from_namespaces, _construct_dsdl_definitions_from_files,
            _ensure_no_namespace_name_collisions_or_nested_root_namespaces; _dsdl.py file_sort.

   A directory is its canonical (resolved) path as a list of components; a file is the directory it lies in plus
   what its base name encodes (short name, version, port-ID, suffix).  Parsing of base names is C15's subject:
   here a file whose base name does not parse carries fbad = true.
   Not modelled (exercised on the implementation only): Path.resolve, symlinks, relative spellings, the order in
   which the operating system enumerates a directory and in which a Python set is iterated - the model takes the
   files in the order of the list `files`; Namespace/ListingProofs shows that this order is irrelevant. *)
From Coq Require Import ZArith List Bool.
From PV Require Import Namespace.Reader.
Import ListNotations.
Open Scope Z_scope.

Inductive ext := XDsdl | XUavcan | XOther.

Record fent := mkF {
  fdir : list str;          (* directory components *)
  fshort : str; fmaj : Z; fmin : Z; fport : option Z;
  fext : ext;
  fbad : bool;              (* base name is not [port.]Name.major.minor.suffix *)
  fid : Z
}.

Definition dpath := list str.

Fixpoint is_prefix (p q : list str) : bool :=
  match p, q with
  | [], _ => true
  | x :: p', y :: q' => str_eqb x y && is_prefix p' q'
  | _ :: _, [] => false
  end.
Definition dpath_eqb (p q : dpath) : bool := is_prefix p q && is_prefix q p.
Definition dname (p : dpath) : str := last p [].

Fixpoint join_dot (cs : list str) : str :=
  match cs with
  | [] => []
  | [c] => c
  | c :: r => c ++ 46 :: join_dot r
  end.

(* DSDLDefinition(file_path, root_namespace_path) *)
Definition mk_meta (root : dpath) (f : fent) : meta :=
  mkMeta (join_dot (dname root :: skipn (length root) (fdir f))) (fshort f) (fmaj f) (fmin f) (fport f) (fid f).

Definition globbed (f : fent) : bool := match fext f with XOther => false | _ => true end.

(* {x.resolve() for x in ...}: first occurrences (the order of the directories is irrelevant afterwards) *)
Fixpoint dedupe_dirs (l : list dpath) : list dpath :=
  match l with
  | [] => []
  | x :: r => x :: filter (fun y => negb (dpath_eqb y x)) (dedupe_dirs r)
  end.

(* _construct_dsdl_definitions_from_namespaces *)
Definition pairs_of (roots : list dpath) (files : list fent) : list (dpath * fent) :=
  flat_map (fun r => map (fun f => (r, f)) (filter (fun f => globbed f && is_prefix r (fdir f)) files)) roots.
Definition listing (roots : list dpath) (files : list fent) : res (list meta) :=
  let ps := pairs_of roots files in
  if existsb (fun rf => fbad (snd rf)) ps then Err EFileName
  else Ok (sort_metas (map (fun rf => mk_meta (fst rf) (snd rf)) ps)).

(* _ensure_no_namespace_name_collisions_or_nested_root_namespaces *)
Definition dir_conflict (allow : bool) (a b : dpath) : bool :=
  negb (dpath_eqb a b) && ((negb allow && str_eqb (lower (dname a)) (lower (dname b))) || is_prefix b a).
Definition dirs_rejected (allow : bool) (dirs : list dpath) : bool :=
  existsb (fun a => existsb (dir_conflict allow a) dirs) dirs.

Inductive query :=
| QNamespace (root : dpath) (lookups : list dpath) (allow : bool)
| QFiles (targets : list Z) (roots : list dpath) (lookups : list dpath).

Definition out0 : output := mkOut [] [] [] [].

Section Run.
Variable txt : Z -> list item.
Variable files : list fent.

Definition run_namespace (root : dpath) (lookups : list dpath) (allow : bool) : res output :=
  let dirs := dedupe_dirs (lookups ++ [root]) in
  if dirs_rejected allow dirs then Err ENested else
  match listing [root] files with
  | Err e => Err e
  | Ok [] => Ok out0                                     (* empty namespace: returned before the lookups are listed *)
  | Ok targets =>
      match listing dirs files with
      | Err e => Err e
      | Ok L => complete_read txt targets L
      end
  end.

(* DSDLDefinition.from_first_in for paths spelled like the roots: the first root the file lies under *)
Definition infer_root (roots : list dpath) (f : fent) : option dpath := find (fun r => is_prefix r (fdir f)) roots.

Fixpoint targets_of (roots : list dpath) (ids : list Z) : res (list (dpath * fent)) :=
  match ids with
  | [] => Ok []
  | i :: r =>
      match find (fun f => fid f =? i) files with
      | None => Err EPathInference
      | Some f =>
          match infer_root roots f with
          | None => Err EPathInference
          | Some root =>
              if fbad f then Err EFileName else
              match targets_of roots r with
              | Ok l => Ok ((root, f) :: l)
              | Err e => Err e
              end
          end
      end
  end.

(* dict keyed by file path: first occurrence fixes the position *)
Fixpoint dedupe_files (l : list (dpath * fent)) : list (dpath * fent) :=
  match l with
  | [] => []
  | x :: r => x :: filter (fun y => negb (fid (snd y) =? fid (snd x))) (dedupe_files r)
  end.

Definition run_files (ids : list Z) (roots lookups : list dpath) : res output :=
  match targets_of roots ids with
  | Err e => Err e
  | Ok [] => Ok out0
  | Ok ps =>
      let ps := dedupe_files ps in
      let targets := sort_metas (map (fun rf => mk_meta (fst rf) (snd rf)) ps) in
      let dirs := dedupe_dirs (lookups ++ map fst ps ++ roots) in
      if dirs_rejected true dirs then Err ENested else
      match listing dirs files with
      | Err e => Err e
      | Ok L => complete_read txt targets L
      end
  end.

Definition run_query (q : query) : res output :=
  match q with
  | QNamespace root lookups allow => run_namespace root lookups allow
  | QFiles ids roots lookups => run_files ids roots lookups
  end.

End Run.
