(* C10 - the loop of _read_definitions: direct = the requested definitions, transitive = the rest of their
   dependency closure, disjoint and duplicate free, every type equal to what reading the definition on its own
   yields.  Hypotheses: no two lookups are equal up to letter case with the same version (this excludes F7 and the
   duplicates of F5b) and every lookup has its own file. *)
From Coq Require Import ZArith List Bool Lia Permutation.
From PV Require Import Namespace.Reader Namespace.ReaderProofs Namespace.ReadPure Namespace.ReadCache Namespace.ReadEvents Namespace.SortProofs.
Import ListNotations.
Open Scope Z_scope.

Definition strict_unique (L : list meta) : Prop :=
  forall a b, In a L -> In b L -> lower (mname a) = lower (mname b) -> mmaj a = mmaj b -> mmin a = mmin b -> a = b.

Lemma NoDup_app_iff : forall {A} (a b : list A), NoDup (a ++ b) <-> NoDup a /\ NoDup b /\ (forall x, In x a -> ~ In x b).
Proof.
  induction a as [|x a IH]; intros b; simpl.
  - split; [intro H; split; [constructor|split; [assumption|intros x []]]|tauto].
  - split.
    + intro H. inversion H as [|? ? Hn Hnd]; subst. apply IH in Hnd. destruct Hnd as [H1 [H2 H3]].
      split; [constructor; [intro; apply Hn; apply in_app_iff; auto|assumption]|].
      split; [assumption|]. intros y [Hy|Hy]; [subst; intro; apply Hn; apply in_app_iff; auto|apply H3; assumption].
    + intros [H1 [H2 H3]]. inversion H1 as [|? ? Hn Hnd]; subst. constructor.
      * intro Hx. apply in_app_iff in Hx. destruct Hx as [Hx|Hx]; [contradiction|]. apply (H3 x); auto.
      * apply IH. split; [assumption|]. split; [assumption|]. intros y Hy. apply H3. auto.
Qed.

Lemma filter_all_true : forall {A} (p : A -> bool) l, (forall x, In x l -> p x = true) -> filter p l = l.
Proof.
  induction l as [|x l IH]; intros H; simpl; [reflexivity|].
  rewrite (H x (or_introl eq_refl)). f_equal. apply IH. intros. apply H. right. assumption.
Qed.

Lemma pool_get_cons_neq : forall f g o p, f <> g -> pool_get f ((g, o) :: p) = pool_get f p.
Proof. intros. simpl. destruct (f =? g) eqn:E; [apply Z.eqb_eq in E; contradiction|reflexivity]. Qed.

Lemma pool_get_cons_eq : forall f o p, pool_get f ((f, o) :: p) = Some o.
Proof. intros. simpl. rewrite Z.eqb_refl. reflexivity. Qed.

Section Loop.
Variable txt : Z -> list item.
Variable L : list meta.
Hypothesis SU : strict_unique L.
Hypothesis FU : files_unique L.

Lemma SU_CU : case_unique L.
Proof. intros a b Ha Hb H1 H2 H3. rewrite (SU a b Ha Hb H1 H2 H3). reflexivity. Qed.

Lemma key_inj : forall a b, In a L -> In b L -> mkey a = mkey b -> a = b.
Proof. intros a b Ha Hb H. inversion H. apply SU; try assumption. congruence. Qed.

(* a composite is genuine when it is what reading some lookup on its own yields *)
Definition genuine (t : ctree) : Prop := exists d, In d L /\ read_top txt d L = Ok t.

Lemma read_top_key : forall d t, read_top txt d L = Ok t -> tkey t = mkey d /\ tfile t = mfile d.
Proof. intros d t H. unfold read_top in H. apply read_ok_key in H. assumption. Qed.

Lemma gen_key_eq : forall t1 t2, genuine t1 -> genuine t2 -> tkey t1 = tkey t2 -> t1 = t2.
Proof.
  intros t1 t2 [d1 [H1 R1]] [d2 [H2 R2]] E.
  destruct (read_top_key _ _ R1) as [K1 _]. destruct (read_top_key _ _ R2) as [K2 _].
  assert (d1 = d2) by (apply key_inj; congruence). subst. congruence.
Qed.

Lemma gen_file_eq : forall t1 t2, genuine t1 -> genuine t2 -> tfile t1 = tfile t2 -> t1 = t2.
Proof.
  intros t1 t2 [d1 [H1 R1]] [d2 [H2 R2]] E.
  destruct (read_top_key _ _ R1) as [_ K1]. destruct (read_top_key _ _ R2) as [_ K2].
  assert (d1 = d2) by (apply (file_inj L); congruence). subst. congruence.
Qed.

Lemma gen_desc : forall t t', genuine t -> sdesc t' t -> genuine t'.
Proof.
  intros t t' [d [Hd R]] Hs. destruct (read_standalone txt L SU_CU d t R t' Hs) as [d' [H1 [_ [_ H2]]]]. exists d'. auto.
Qed.

Lemma cinv_genuine : forall c o t, cinv txt L c -> cache_get o c = Some t -> genuine t /\ tfile t = snd o.
Proof.
  intros c [tk f] t Hc H. destruct (Hc tk f t H) as [d [Hd [Hf R]]]. split; [exists d; auto|].
  simpl. rewrite <- Hf. apply (read_top_key _ _ R).
Qed.

Lemma ceq_refl : forall t, ceq t t = true.
Proof. intro t. unfold ceq. rewrite str_eqb_refl, !Z.eqb_refl. reflexivity. Qed.

Lemma ceq_key : forall a b, ceq a b = true -> tkey a = tkey b.
Proof.
  intros a b H. unfold ceq in H. rewrite !andb_true_iff, str_eqb_eq, !Z.eqb_eq in H. unfold tkey. destruct H as [[[H1 H2] H3] _]. congruence.
Qed.

Lemma cmem_gen : forall t s, genuine t -> (forall x, In x s -> genuine x) -> (cmem t s = true <-> In t s).
Proof.
  intros t s Ht Hs. unfold cmem. rewrite existsb_exists. split.
  - intros [x [Hx E]]. rewrite (gen_key_eq t x Ht (Hs x Hx) (ceq_key _ _ E)). assumption.
  - intro H. exists t. split; [assumption|apply ceq_refl].
Qed.

Lemma cmem_gen_false : forall t s, genuine t -> (forall x, In x s -> genuine x) -> ~ In t s -> cmem t s = false.
Proof.
  intros t s Ht Hs Hn. destruct (cmem t s) eqn:E; [|reflexivity]. apply (cmem_gen t s Ht Hs) in E. contradiction.
Qed.

Lemma cremove_gen : forall t s x, genuine t -> (forall y, In y s -> genuine y) -> (In x (cremove t s) <-> In x s /\ x <> t).
Proof.
  intros t s x Ht Hs. unfold cremove. rewrite filter_In. split.
  - intros [H1 H2]. split; [assumption|]. intro E. subst. rewrite ceq_refl in H2. discriminate.
  - intros [H1 H2]. split; [assumption|]. apply negb_true_iff. destruct (ceq t x) eqn:E; [|reflexivity].
    exfalso. apply H2. symmetry. apply gen_key_eq; auto. apply ceq_key. assumption.
Qed.

(* ------------------------------------------------------------------------------------------------------------ *)
(* the invariant; xs = the pending definitions that are still to be absorbed (empty between two targets)          *)

Definition sets (st : rstate) : list ctree := rdirect st ++ rtrans st.

Record jinv (P xs : list meta) (st : rstate) : Prop := {
  j_cinv : cinv txt L (rcache st);
  j_kids : kidsinv (rcache st);
  j_gen : forall t, In t (sets st) -> genuine t;
  j_nodup : NoDup (sets st);
  j_direct : forall t, In t (rdirect st) <-> exists d, In d P /\ read_top txt d L = Ok t;
  j_trans : forall t, In t (rtrans st) -> exists t0, In t0 (rdirect st) /\ sdesc t t0;
  j_pool : forall f o, pool_get f (rpool st) = Some o -> snd o = f /\ cached o (rcache st);
  j_pool_sets : forall f, pool_get f (rpool st) <> None -> exists t, In t (sets st) /\ tfile t = f;
  j_sets_pool : forall t, In t (sets st) -> pool_get (tfile t) (rpool st) <> None;
  j_tcache : forall f, cached (true, f) (rcache st) -> pool_get f (rpool st) <> None;
  j_lcache : forall f t, cache_get (false, f) (rcache st) = Some t -> In t (sets st) \/ exists x, In x xs /\ mfile x = f;
  j_fresh : forall x, In x xs -> pool_get (mfile x) (rpool st) = None;
  j_pnodup : NoDup (map mfile xs);
  j_pcached : forall x, In x xs -> In x L /\ cached (false, mfile x) (rcache st);
  j_pdesc : forall x, In x xs -> exists t0 tx, In t0 (rdirect st) /\ sdesc tx t0 /\ tfile tx = mfile x;
  j_PL : forall p, In p P -> In p L;
  j_Pok : forall p, In p P -> exists t, read_top txt p L = Ok t
}.

Definition inv (P : list meta) (st : rstate) : Prop := jinv P [] st.

Lemma inv0 : inv [] st0.
Proof.
  constructor; simpl.
  - apply cinv_nil.
  - apply kidsinv_nil.
  - intros t [].
  - constructor.
  - intro t. split; [intros []|intros [d [[] _]]].
  - intros t [].
  - intros f o H. discriminate.
  - intros f H. exfalso. apply H. reflexivity.
  - intros t [].
  - intros f H. exfalso. apply H. reflexivity.
  - intros f t H. discriminate.
  - intros x [].
  - constructor.
  - intros x [].
  - intros x [].
  - intros p [].
  - intros p [].
Qed.

(* one pending definition is absorbed *)
Lemma absorb_step : forall P x xs st st', jinv P (x :: xs) st -> absorb st x = Ok st' -> jinv P xs st'.
Proof.
  intros P x xs st st' J H. unfold absorb in H.
  pose proof (j_fresh _ _ _ J x (or_introl eq_refl)) as Hfresh.
  unfold pool_setdefault in H. rewrite Hfresh in H.
  destruct (j_pcached _ _ _ J x (or_introl eq_refl)) as [HxL Hxc].
  destruct (cache_get (false, mfile x) (rcache st)) as [tx|] eqn:G; [|exfalso; apply Hxc; exact G].
  destruct (cinv_genuine _ _ _ (j_cinv _ _ _ J) G) as [Hgx Hfx]. simpl in Hfx.
  pose proof (j_pnodup _ _ _ J) as Hnd. simpl in Hnd. inversion Hnd as [|? ? Hnx Hnd']; subst.
  assert (Hfresh' : forall y, In y xs -> pool_get (mfile y) ((mfile x, (false, mfile x)) :: rpool st) = None).
  { intros y Hy. rewrite pool_get_cons_neq; [apply (j_fresh _ _ _ J); right; assumption|].
    intro E. apply Hnx. rewrite <- E. apply in_map. assumption. }
  assert (Hpool : forall f o, pool_get f ((mfile x, (false, mfile x)) :: rpool st) = Some o -> snd o = f /\ cached o (rcache st)).
  { intros f o Ho. simpl in Ho. destruct (f =? mfile x) eqn:E.
    - apply Z.eqb_eq in E. inversion Ho; subst. simpl. split; [reflexivity|assumption].
    - apply (j_pool _ _ _ J). assumption. }
  assert (Htc : forall f, cached (true, f) (rcache st) -> pool_get f ((mfile x, (false, mfile x)) :: rpool st) <> None).
  { intros f Hf. simpl. destruct (f =? mfile x); [discriminate|]. apply (j_tcache _ _ _ J). assumption. }
  destruct (cmem tx (rdirect st) || cmem tx (rtrans st)) eqn:M; inversion H; subst st'; clear H.
  - (* already known: only the pool changes *)
    assert (Hin : In tx (sets st)).
    { apply orb_true_iff in M. unfold sets. apply in_app_iff. destruct M as [M|M]; [left|right];
        (eapply cmem_gen; [exact Hgx| |exact M]); intros y Hy; apply (j_gen _ _ _ J); unfold sets; apply in_app_iff; auto. }
    constructor; simpl; try apply J; try assumption.
    + intros f Hf. simpl in Hf. destruct (f =? mfile x) eqn:E.
      * apply Z.eqb_eq in E. subst f. exists tx. auto.
      * apply (j_pool_sets _ _ _ J). assumption.
    + intros t Ht. simpl. destruct (tfile t =? mfile x); [discriminate|]. apply (j_sets_pool _ _ _ J). assumption.
    + intros f t Ht. destruct (j_lcache _ _ _ J f t Ht) as [H1|[y [[Hy|Hy] Hf]]].
      * left. assumption.
      * subst y. left. rewrite <- Hf in Ht. rewrite G in Ht. inversion Ht; subst. assumption.
      * right. exists y. auto.
    + intros y Hy. split; apply (j_pcached _ _ _ J y (or_intror Hy)).
    + intros y Hy. apply (j_pdesc _ _ _ J y (or_intror Hy)).
  - (* a new transitive dependency *)
    apply orb_false_iff in M. destruct M as [M1 M2].
    assert (Hnin : ~ In tx (sets st)).
    { intro Hin. pose proof (j_sets_pool _ _ _ J tx Hin) as Hp. rewrite Hfx in Hp. contradiction. }
    assert (Hadd : cadd tx (rtrans st) = rtrans st ++ [tx]) by (unfold cadd; rewrite M2; reflexivity).
    assert (Hsets : forall t, In t (rdirect st ++ cadd tx (rtrans st)) <-> In t (sets st) \/ t = tx).
    { intro t. rewrite Hadd. unfold sets. rewrite !in_app_iff. simpl. intuition (subst; auto). }
    constructor; simpl; try apply J; try assumption.
    + intros t Ht. apply Hsets in Ht. destruct Ht as [Ht|Ht]; [apply (j_gen _ _ _ J); assumption|subst; assumption].
    + unfold sets. simpl. rewrite Hadd, app_assoc. apply NoDup_app_iff. split; [apply (j_nodup _ _ _ J)|].
      split; [constructor; [intros []|constructor]|]. intros y Hy [Hy'|[]]. subst. contradiction.
    + intros t Ht. rewrite Hadd in Ht. apply in_app_iff in Ht. destruct Ht as [Ht|[Ht|[]]].
      * apply (j_trans _ _ _ J). assumption.
      * subst t. destruct (j_pdesc _ _ _ J x (or_introl eq_refl)) as [t0 [tx' [H1 [H2 H3]]]].
        exists t0. split; [assumption|].
        assert (Hg0 : genuine t0) by (apply (j_gen _ _ _ J); unfold sets; apply in_app_iff; auto).
        rewrite (gen_file_eq tx tx' Hgx (gen_desc _ _ Hg0 H2)); [assumption|congruence].
    + intros f Hf. simpl in Hf. destruct (f =? mfile x) eqn:E.
      * apply Z.eqb_eq in E. subst f. exists tx. split; [apply Hsets; auto|assumption].
      * destruct (j_pool_sets _ _ _ J f Hf) as [t [H1 H2]]. exists t. split; [apply Hsets; auto|assumption].
    + intros t Ht. apply Hsets in Ht. simpl. destruct (tfile t =? mfile x) eqn:E; [discriminate|].
      destruct Ht as [Ht|Ht]; [apply (j_sets_pool _ _ _ J); assumption|]. subst. rewrite Hfx, Z.eqb_refl in E. discriminate.
    + intros f t Ht. destruct (j_lcache _ _ _ J f t Ht) as [H1|[y [[Hy|Hy] Hf]]].
      * left. apply Hsets. auto.
      * subst y. left. rewrite <- Hf in Ht. rewrite G in Ht. inversion Ht; subst. apply Hsets. auto.
      * right. exists y. auto.
    + intros y Hy. split; apply (j_pcached _ _ _ J y (or_intror Hy)).
    + intros y Hy. apply (j_pdesc _ _ _ J y (or_intror Hy)).
Qed.

Lemma absorb_all_inv : forall P xs st st', jinv P xs st -> absorb_all st xs = Ok st' -> inv P st'.
Proof.
  intros P. induction xs as [|x xs IH]; intros st st' J H; simpl in H.
  - inversion H; subst. exact J.
  - destruct (absorb st x) as [st1|e] eqn:A; [|discriminate]. eapply IH; [eapply absorb_step; eassumption|exact H].
Qed.

(* absorbing never hits the impossible branch *)
Lemma absorb_all_reachable : forall P xs st, jinv P xs st -> absorb_all st xs <> Err EUnreachable.
Proof.
  intros P. induction xs as [|x xs IH]; intros st J; simpl; [discriminate|].
  destruct (absorb st x) as [st1|e] eqn:A.
  - apply IH. eapply absorb_step; eassumption.
  - exfalso. unfold absorb in A. unfold pool_setdefault in A. rewrite (j_fresh _ _ _ J x (or_introl eq_refl)) in A.
    destruct (j_pcached _ _ _ J x (or_introl eq_refl)) as [_ Hc].
    destruct (cache_get (false, mfile x) (rcache st)) as [c|] eqn:G; [|apply Hc; exact G].
    destruct (cmem c (rdirect st) || cmem c (rtrans st)); discriminate.
Qed.

(* ------------------------------------------------------------------------------------------------------------ *)
(* the pending set                                                                                              *)

Lemma dedupe_key_In : forall l x, In x (dedupe_key l) -> In x l.
Proof.
  induction l as [|y l IH]; simpl; intros x H; [contradiction|].
  destruct H as [H|H]; [auto|]. apply filter_In in H. right. apply IH. tauto.
Qed.

Lemma dedupe_key_complete : forall l x, (forall y, In y l -> In y L) -> In x l -> In x (dedupe_key l).
Proof.
  induction l as [|y l IH]; simpl; intros x HL H; [contradiction|].
  destruct H as [H|H]; [auto|].
  destruct (key_eqb x y) eqn:E.
  - left. apply key_eqb_eq in E. symmetry. apply key_inj; auto.
  - right. apply filter_In. split; [apply IH; auto|]. rewrite E. reflexivity.
Qed.

Lemma dedupe_key_nodup : forall l, NoDup (dedupe_key l).
Proof.
  induction l as [|y l IH]; simpl; [constructor|]. constructor.
  - intro H. apply filter_In in H. destruct H as [_ H]. rewrite key_eqb_refl in H. discriminate.
  - apply NoDup_filter. assumption.
Qed.

Lemma nodup_files : forall xs, NoDup xs -> (forall x, In x xs -> In x L) -> NoDup (map mfile xs).
Proof.
  induction xs as [|x xs IH]; intros N H; simpl; [constructor|]. inversion N as [|? ? Hn N']; subst. constructor.
  - intro Hin. apply in_map_iff in Hin. destruct Hin as [y [E Hy]].
    assert (y = x).
    { apply (file_inj L); [exact FU|apply H; right; assumption|apply H; left; reflexivity|assumption]. }
    subst. contradiction.
  - apply IH; [assumption|]. intros. apply H. right. assumption.
Qed.

Lemma deps_of_In : forall ev x, In x (deps_of ev) <-> In (EvDep x) ev.
Proof.
  induction ev as [|e ev IH]; intro x; simpl; [tauto|].
  destruct e as [f|f l|y]; simpl; rewrite IH; split; intro H; try (right; assumption); try (destruct H as [H|H]; [discriminate|assumption]).
  - destruct H as [H|H]; [left; congruence|right; assumption].
  - destruct H as [H|H]; [left; congruence|right; assumption].
Qed.

Lemma sort_metas_In : forall l x, In x (sort_metas l) <-> In x l.
Proof.
  intros. rewrite SortProofs.sort_metas_is. split; intro H.
  - eapply Permutation_in; [apply SortProofs.isort_perm|exact H].
  - eapply Permutation_in; [apply Permutation_sym, SortProofs.isort_perm|exact H].
Qed.

(* ------------------------------------------------------------------------------------------------------------ *)
(* one target                                                                                                   *)

Lemma pool_get_cons_some : forall f g o p, pool_get f p <> None -> pool_get f ((g, o) :: p) <> None.
Proof. intros. simpl. destruct (f =? g); [discriminate|assumption]. Qed.

(* the target is read (its file was not known before): state before the pending definitions are absorbed *)
Lemma step0_read_jinv : forall P st d t c1 ev,
  inv P st -> In d L -> ~ In d P -> pool_get (mfile d) (rpool st) = None ->
  readS txt (S (length L)) true d L (rcache st) = Ok (t, c1, ev) ->
  cadd t (rdirect st) = rdirect st ++ [t] /\ cremove t (rtrans st) = rtrans st /\
  forall dl op,
  jinv (P ++ [d]) (sort_metas (pending_of ((mfile d, (true, mfile d)) :: rpool st) ev))
       (mkSt c1 ((mfile d, (true, mfile d)) :: rpool st) (rdirect st ++ [t]) (rtrans st) dl op).
Proof.
  intros P st d t c1 ev J Hd HnP PG R.
  rewrite <- (fk_all L) in R at 2.
  destruct (readS_sound txt L SU_CU FU _ _ _ _ _ _ _ _ Hd (j_cinv _ _ _ J) R) as [Hrt Hc1].
  pose proof (readS_facts txt L SU_CU FU _ _ _ _ _ _ _ _ Hd (j_cinv _ _ _ J) (j_kids _ _ _ J) R) as F.
  assert (Hgt : genuine t) by (exists d; auto).
  destruct (read_top_key _ _ Hrt) as [Hkt Hft].
  assert (Hgs : forall y, In y (sets st) -> genuine y) by (apply (j_gen _ _ _ J)).
  assert (Hnin : ~ In t (sets st)).
  { intro Hin. pose proof (j_sets_pool _ _ _ J t Hin) as Hp. rewrite Hft in Hp. contradiction. }
  assert (Hnd : ~ In t (rdirect st)) by (intro; apply Hnin; unfold sets; apply in_app_iff; auto).
  assert (Hnt : ~ In t (rtrans st)) by (intro; apply Hnin; unfold sets; apply in_app_iff; auto).
  assert (Hadd : cadd t (rdirect st) = rdirect st ++ [t]).
  { unfold cadd. rewrite cmem_gen_false; auto. intros y Hy. apply Hgs. unfold sets. apply in_app_iff. auto. }
  assert (Hrem : cremove t (rtrans st) = rtrans st).
  { unfold cremove. apply filter_all_true. intros y Hy. apply negb_true_iff. destruct (ceq t y) eqn:E; [|reflexivity].
    exfalso. apply Hnt. rewrite (gen_key_eq t y Hgt); [assumption| |apply ceq_key; assumption].
    apply Hgs. unfold sets. apply in_app_iff. auto. }
  split; [exact Hadd|]. split; [exact Hrem|]. intros dl op.
  set (p1 := (mfile d, (true, mfile d)) :: rpool st).
  assert (Hsets : forall y, In y ((rdirect st ++ [t]) ++ rtrans st) <-> In y (sets st) \/ y = t).
  { intro y. unfold sets. rewrite !in_app_iff. simpl. intuition (subst; auto). }
  assert (Hpool_sets : forall f, pool_get f p1 <> None -> exists t', In t' ((rdirect st ++ [t]) ++ rtrans st) /\ tfile t' = f).
  { intros f Hf. unfold p1 in Hf. simpl in Hf. destruct (f =? mfile d) eqn:E.
    - apply Z.eqb_eq in E. subst f. exists t. split; [apply Hsets; auto|assumption].
    - destruct (j_pool_sets _ _ _ J f Hf) as [t' [H1 H2]]. exists t'. split; [apply Hsets; auto|assumption]. }
  assert (Hdeps : forall x, In x (filter (fun d0 => match pool_get (mfile d0) p1 with None => true | Some _ => false end) (deps_of ev)) ->
                            In (EvDep x) ev /\ pool_get (mfile x) p1 = None).
  { intros x Hx. apply filter_In in Hx. destruct Hx as [H1 H2]. apply deps_of_In in H1. split; [assumption|].
    destruct (pool_get (mfile x) p1); [discriminate|reflexivity]. }
  assert (Hxs : forall x, In x (sort_metas (pending_of p1 ev)) -> In (EvDep x) ev /\ pool_get (mfile x) p1 = None).
  { intros x Hx. apply (proj1 (sort_metas_In _ _)) in Hx. unfold pending_of in Hx. apply dedupe_key_In in Hx. apply Hdeps. assumption. }
  constructor; simpl.
  - exact Hc1.
  - exact (f_kids _ _ _ _ _ _ _ F).
  - intros y Hy. apply Hsets in Hy. destruct Hy as [Hy|Hy]; [auto|subst; assumption].
  - unfold sets. simpl. apply NoDup_app_iff. pose proof (j_nodup _ _ _ J) as N. unfold sets in N. apply NoDup_app_iff in N.
    destruct N as [N1 [N2 N3]]. split.
    + apply NoDup_app_iff. split; [assumption|]. split; [constructor; [intros []|constructor]|].
      intros y Hy [Hy'|[]]. subst. contradiction.
    + split; [assumption|]. intros y Hy. apply in_app_iff in Hy. destruct Hy as [Hy|[Hy|[]]]; [apply N3; assumption|subst; assumption].
  - intro y. rewrite in_app_iff. split.
    + intros [Hy|[Hy|[]]].
      * apply (j_direct _ _ _ J) in Hy. destruct Hy as [d' [H1 H2]]. exists d'. split; [apply in_app_iff; auto|assumption].
      * subst y. exists d. split; [apply in_app_iff; right; left; reflexivity|assumption].
    + intros [d' [H1 H2]]. apply in_app_iff in H1. destruct H1 as [H1|[H1|[]]].
      * left. apply (j_direct _ _ _ J). exists d'. auto.
      * subst d'. right. left. congruence.
  - intros y Hy. destruct (j_trans _ _ _ J y Hy) as [t0 [H1 H2]]. exists t0. split; [apply in_app_iff; auto|assumption].
  - intros f o Ho. unfold p1 in Ho. simpl in Ho. destruct (f =? mfile d) eqn:E.
    + apply Z.eqb_eq in E. inversion Ho; subst. simpl. split; [reflexivity|exact (f_self _ _ _ _ _ _ _ F)].
    + destruct (j_pool _ _ _ J f o Ho) as [H1 H2]. split; [assumption|]. apply (f_mono _ _ _ _ _ _ _ F). assumption.
  - exact Hpool_sets.
  - intros y Hy. apply Hsets in Hy. destruct Hy as [Hy|Hy].
    + apply pool_get_cons_some. apply (j_sets_pool _ _ _ J). assumption.
    + subst y. rewrite Hft. unfold p1. rewrite Z.eqb_refl. discriminate.
  - intros f Hf. destruct (f_new _ _ _ _ _ _ _ F _ Hf) as [H1|[H1|[x [_ H1]]]].
    + apply pool_get_cons_some. apply (j_tcache _ _ _ J). assumption.
    + inversion H1; subst. unfold p1; simpl; rewrite Z.eqb_refl; discriminate.
    + discriminate.
  - intros f t0 Ht0.
    destruct (cinv_genuine _ _ _ Hc1 Ht0) as [Hg0 Hf0]. simpl in Hf0.
    assert (Hcd : cached (false, f) c1) by (unfold cached; rewrite Ht0; discriminate).
    destruct (f_new _ _ _ _ _ _ _ F _ Hcd) as [H1|[H1|[x [Hx H1]]]].
    + left. unfold cached in H1. destruct (cache_get (false, f) (rcache st)) as [told|] eqn:G; [|contradiction].
      destruct (cinv_genuine _ _ _ (j_cinv _ _ _ J) G) as [Hgo Hfo]. simpl in Hfo.
      destruct (j_lcache _ _ _ J f told G) as [H2|[y [[] _]]].
      apply Hsets. left. rewrite (gen_file_eq t0 told Hg0 Hgo); [assumption|congruence].
    + discriminate.
    + inversion H1; subst f.
      destruct (pool_get (mfile x) p1) as [o'|] eqn:PGx.
      * left. destruct (Hpool_sets (mfile x)) as [t' [H2 H3]]; [rewrite PGx; discriminate|].
        assert (Hg' : genuine t').
        { apply Hsets in H2. destruct H2 as [H2|H2]; [auto|subst; assumption]. }
        rewrite (gen_file_eq t0 t' Hg0 Hg'); [assumption|congruence].
      * right. exists x. split; [|reflexivity]. apply sort_metas_In. unfold pending_of. apply dedupe_key_complete.
        -- intros y Hy. apply Hdeps in Hy. destruct Hy as [Hy _]. apply (f_deps _ _ _ _ _ _ _ F). assumption.
        -- apply filter_In. split; [apply deps_of_In; assumption|]. rewrite PGx. reflexivity.
  - intros x Hx. apply Hxs in Hx. tauto.
  - apply nodup_files.
    + rewrite sort_metas_is. eapply Permutation_NoDup; [apply Permutation_sym, isort_perm|]. apply dedupe_key_nodup.
    + intros x Hx. apply Hxs in Hx. destruct Hx as [Hx _]. apply (f_deps _ _ _ _ _ _ _ F). assumption.
  - intros x Hx. apply Hxs in Hx. destruct Hx as [Hx _]. destruct (f_deps _ _ _ _ _ _ _ F x Hx) as [H1 [H2 _]]. auto.
  - intros x Hx. apply Hxs in Hx. destruct Hx as [Hx _]. destruct (f_deps _ _ _ _ _ _ _ F x Hx) as [_ [_ [tx [H1 H2]]]].
    exists t, tx. split; [apply in_app_iff; right; left; reflexivity|auto].
  - intros p Hp. apply in_app_iff in Hp. destruct Hp as [Hp|[Hp|[]]]; [apply (j_PL _ _ _ J); assumption|subst; assumption].
  - intros p Hp. apply in_app_iff in Hp. destruct Hp as [Hp|[Hp|[]]]; [apply (j_Pok _ _ _ J); assumption|subst; exists t; assumption].
Qed.

Lemma step0_inv : forall P st d st', inv P st -> In d L -> ~ In d P -> step0 txt L st d = Ok st' -> inv (P ++ [d]) st'.
Proof.
  intros P st d st' J Hd HnP H. unfold step0 in H. unfold pool_setdefault in H.
  destruct (pool_get (mfile d) (rpool st)) as [o|] eqn:PG.
  - (* the file is known already: it was pulled in as a dependency of an earlier target; promote *)
    destruct (j_pool _ _ _ J _ _ PG) as [Ho Hoc].
    destruct (cache_get o (rcache st)) as [t|] eqn:G; [|exfalso; apply Hoc; exact G].
    destruct (cinv_genuine _ _ _ (j_cinv _ _ _ J) G) as [Hgt0 Hft]. rewrite Ho in Hft.
    assert (Hrt : read_top txt d L = Ok t).
    { destruct Hgt0 as [d0 [Hd0 R0]]. destruct (read_top_key _ _ R0) as [_ F0].
      assert (d0 = d) by (apply (file_inj L); congruence). subst. assumption. }
    assert (Hgt : genuine t) by (exists d; auto).
    assert (Hgs : forall y, In y (sets st) -> genuine y) by (apply (j_gen _ _ _ J)).
    assert (Hin : In t (sets st)).
    { destruct (j_pool_sets _ _ _ J (mfile d)) as [t' [H1 H2]]; [rewrite PG; discriminate|].
      rewrite (gen_file_eq t t' Hgt (Hgs t' H1)); [assumption|congruence]. }
    assert (Hnd : ~ In t (rdirect st)).
    { intro Hdi. apply (j_direct _ _ _ J) in Hdi. destruct Hdi as [d' [Hd' R']].
      assert (d' = d).
      { apply key_inj; [apply (j_PL _ _ _ J); assumption|assumption|].
        destruct (read_top_key _ _ R') as [K1 _]. destruct (read_top_key _ _ Hrt) as [K2 _]. congruence. }
      subst. contradiction. }
    assert (Hit : In t (rtrans st)).
    { unfold sets in Hin. apply in_app_iff in Hin. destruct Hin; [contradiction|assumption]. }
    assert (Hgtr : forall y, In y (rtrans st) -> genuine y) by (intros; apply Hgs; unfold sets; apply in_app_iff; auto).
    assert (Hgdi : forall y, In y (rdirect st) -> genuine y) by (intros; apply Hgs; unfold sets; apply in_app_iff; auto).
    assert (M2 : cmem t (rtrans st) = true) by (apply cmem_gen; auto).
    rewrite M2, orb_true_r in H. rewrite M2 in H. inversion H; subst st'. clear H.
    assert (Hadd : cadd t (rdirect st) = rdirect st ++ [t]) by (unfold cadd; rewrite cmem_gen_false; auto).
    rewrite Hadd.
    assert (Hsets : forall y, In y ((rdirect st ++ [t]) ++ cremove t (rtrans st)) <-> In y (sets st)).
    { intro y. unfold sets. rewrite !in_app_iff. rewrite (cremove_gen t (rtrans st) y Hgt Hgtr). simpl. split.
      - intros [[H|[H|[]]]|[H _]]; auto. subst. auto.
      - intros [H|H]; [auto|]. destruct (ceq t y) eqn:E.
        + left. right. left. apply gen_key_eq; auto. apply ceq_key. assumption.
        + right. split; [assumption|]. intro; subst. rewrite ceq_refl in E. discriminate. }
    constructor; simpl; try apply J.
    + intros y Hy. apply Hgs. apply Hsets. assumption.
    + unfold sets. simpl. pose proof (j_nodup _ _ _ J) as N. unfold sets in N. apply NoDup_app_iff in N. destruct N as [N1 [N2 N3]].
      apply NoDup_app_iff. split.
      * apply NoDup_app_iff. split; [assumption|]. split; [constructor; [intros []|constructor]|].
        intros y Hy [Hy'|[]]. subst. contradiction.
      * split; [apply NoDup_filter; assumption|]. intros y Hy Hy2. apply (cremove_gen t _ y Hgt Hgtr) in Hy2. destruct Hy2 as [Hy2 Hne].
        apply in_app_iff in Hy. destruct Hy as [Hy|[Hy|[]]]; [apply (N3 y); assumption|subst; contradiction].
    + intro y. rewrite in_app_iff. split.
      * intros [Hy|[Hy|[]]].
        -- apply (j_direct _ _ _ J) in Hy. destruct Hy as [d' [H1 H2]]. exists d'. split; [apply in_app_iff; auto|assumption].
        -- subst y. exists d. split; [apply in_app_iff; right; left; reflexivity|assumption].
      * intros [d' [H1 H2]]. apply in_app_iff in H1. destruct H1 as [H1|[H1|[]]].
        -- left. apply (j_direct _ _ _ J). exists d'. auto.
        -- subst d'. right. left. congruence.
    + intros y Hy. apply (cremove_gen t _ y Hgt Hgtr) in Hy. destruct Hy as [Hy _].
      destruct (j_trans _ _ _ J y Hy) as [t0 [H1 H2]]. exists t0. split; [apply in_app_iff; auto|assumption].
    + intros f Hf. destruct (j_pool_sets _ _ _ J f Hf) as [t' [H1 H2]]. exists t'. split; [apply Hsets; assumption|assumption].
    + intros y Hy. apply (j_sets_pool _ _ _ J). apply Hsets. assumption.
    + intros f t0 Ht0. destruct (j_lcache _ _ _ J f t0 Ht0) as [H1|[y [[] _]]]. left. apply Hsets. assumption.
    + intros x [].
    + intros p Hp. apply in_app_iff in Hp. destruct Hp as [Hp|[Hp|[]]]; [apply (j_PL _ _ _ J); assumption|subst; assumption].
    + intros p Hp. apply in_app_iff in Hp. destruct Hp as [Hp|[Hp|[]]]; [apply (j_Pok _ _ _ J); assumption|subst; exists t; assumption].
  - (* the target is read *)
    assert (G : cache_get (true, mfile d) (rcache st) = None).
    { destruct (cache_get (true, mfile d) (rcache st)) eqn:G; [|reflexivity]. exfalso.
      apply (j_tcache _ _ _ J (mfile d)); [unfold cached; rewrite G; discriminate|assumption]. }
    rewrite G in H. simpl fst in H.
    destruct (readS txt (S (length L)) true d L (rcache st)) as [[[t c1] ev]|e] eqn:R; [|discriminate].
    destruct (step0_read_jinv P st d t c1 ev J Hd HnP PG R) as [Hadd [Hrem HJ]].
    rewrite Hadd, Hrem in H. eapply absorb_all_inv; [apply HJ|exact H].
Qed.

(* EUnreachable is never produced: whatever is pending at level 1 has been read a moment ago and is cached *)
Lemma step0_reachable : forall P st d, inv P st -> In d L -> ~ In d P -> step0 txt L st d <> Err EUnreachable.
Proof.
  intros P st d J Hd HnP. unfold step0. unfold pool_setdefault.
  destruct (pool_get (mfile d) (rpool st)) as [o|] eqn:PG.
  - destruct (match cache_get o (rcache st) with
              | Some t => if cmem t (rdirect st) || cmem t (rtrans st) then Some t else None
              | None => None end) as [t|] eqn:SK.
    + destruct (cmem t (rtrans st)); discriminate.
    + (* cannot happen (see step0_inv), but whatever the read returns it is not EUnreachable: use the invariant *)
      exfalso. destruct (j_pool _ _ _ J _ _ PG) as [Ho Hoc].
      destruct (cache_get o (rcache st)) as [t|] eqn:G; [|apply Hoc; exact G].
      destruct (cinv_genuine _ _ _ (j_cinv _ _ _ J) G) as [Hgt0 Hft].
      destruct (j_pool_sets _ _ _ J (mfile d)) as [t' [H1 H2]]; [rewrite PG; discriminate|].
      assert (t = t') by (apply gen_file_eq; [assumption|apply (j_gen _ _ _ J); assumption|congruence]). subst t'.
      assert (M : cmem t (rdirect st) || cmem t (rtrans st) = true).
      { unfold sets in H1. apply in_app_iff in H1. apply orb_true_iff. destruct H1 as [H1|H1]; [left|right];
          (apply cmem_gen; [assumption| |assumption]); intros y Hy; apply (j_gen _ _ _ J); unfold sets; apply in_app_iff; auto. }
      rewrite M in SK. discriminate.
  - assert (G : cache_get (true, mfile d) (rcache st) = None).
    { destruct (cache_get (true, mfile d) (rcache st)) eqn:G; [|reflexivity]. exfalso.
      apply (j_tcache _ _ _ J (mfile d)); [unfold cached; rewrite G; discriminate|assumption]. }
    rewrite G. simpl fst.
    destruct (readS txt (S (length L)) true d L (rcache st)) as [[[t c1] ev]|e] eqn:R.
    + destruct (step0_read_jinv P st d t c1 ev J Hd HnP PG R) as [Hadd [Hrem HJ]].
      rewrite Hadd, Hrem. eapply absorb_all_reachable. apply HJ.
    + intro E. inversion E; subst e. clear E.
      (* the reader itself never returns EUnreachable *)
      revert R. generalize (S (length L)) as f, true as tk, (rcache st) as c, L at 2 as M, d as d0.
      induction f as [|f IH]; intros tk c M d0 R; simpl in R; [discriminate|].
      destruct (cache_get (tk, mfile d0) c); [discriminate|].
      destruct (eval_itemsS (fun x c' => readS txt f false x (rm d0 M) c') d0 (rm d0 M) 1 (txt (mfile d0)) c) as [[[[s ks] c2] ev2]|e] eqn:E; [discriminate|].
      inversion R; subst e. clear R. revert E. generalize 1 as line, c as c0, (txt (mfile d0)) as its.
      intros line c0 its. revert line c0. induction its as [|it its IHi]; intros line c0 E; simpl in E; [discriminate|].
      destruct it as [n a b arr| | |w].
      * destruct (resolve d0 n a b (rm d0 M)) as [x| | |]; try discriminate.
        destruct (readS txt f false x (rm d0 M) c0) as [[[t1 c3] ev3]|e] eqn:Rx.
        -- destruct (eval_itemsS (fun x c' => readS txt f false x (rm d0 M) c') d0 (rm d0 M) (line + 1) its c3) as [[[[s' ts] c4] ev4]|e] eqn:E2; [discriminate|].
           inversion E; subst e. eapply IHi; eassumption.
        -- inversion E; subst e. eapply IH; eassumption.
      * destruct (eval_itemsS (fun x c' => readS txt f false x (rm d0 M) c') d0 (rm d0 M) (line + 1) its c0) as [[[[s' ts] c4] ev4]|e] eqn:E2; [discriminate|].
        inversion E; subst e. eapply IHi; eassumption.
      * discriminate.
      * destruct (eval_itemsS (fun x c' => readS txt f false x (rm d0 M) c') d0 (rm d0 M) (line + 1) its c0) as [[[[s' ts] c4] ev4]|e] eqn:E2; [discriminate|].
        inversion E; subst e. eapply IHi; eassumption.
Qed.

Lemma run_targets_inv : forall ts P st st', inv P st -> NoDup (P ++ ts) -> (forall d, In d ts -> In d L) ->
  run_targets txt L st ts = Ok st' -> inv (P ++ ts) st'.
Proof.
  induction ts as [|d ts IH]; intros P st st' J N HL H; simpl in H.
  - inversion H; subst. rewrite app_nil_r. assumption.
  - destruct (step0 txt L st d) as [st1|e] eqn:S0; [|discriminate].
    assert (HnP : ~ In d P).
    { apply NoDup_app_iff in N. destruct N as [_ [_ N3]]. intro Hp. apply (N3 d Hp). left. reflexivity. }
    pose proof (step0_inv P st d st1 J (HL d (or_introl eq_refl)) HnP S0) as J1.
    replace (P ++ d :: ts) with ((P ++ [d]) ++ ts) by (rewrite <- app_assoc; reflexivity).
    apply (IH (P ++ [d]) st1 st' J1); [rewrite <- app_assoc; exact N| |exact H].
    intros x Hx. apply HL. right. assumption.
Qed.

Lemma run_targets_reachable : forall ts P st, inv P st -> NoDup (P ++ ts) -> (forall d, In d ts -> In d L) ->
  run_targets txt L st ts <> Err EUnreachable.
Proof.
  induction ts as [|d ts IH]; intros P st J N HL; simpl; [discriminate|].
  assert (HnP : ~ In d P).
  { apply NoDup_app_iff in N. destruct N as [_ [_ N3]]. intro Hp. apply (N3 d Hp). left. reflexivity. }
  destruct (step0 txt L st d) as [st1|e] eqn:S0.
  - pose proof (step0_inv P st d st1 J (HL d (or_introl eq_refl)) HnP S0) as J1.
    apply (IH (P ++ [d]) st1 J1); [rewrite <- app_assoc; exact N|]. intros x Hx. apply HL. right. assumption.
  - intro E. inversion E; subst e. exact (step0_reachable P st d J (HL d (or_introl eq_refl)) HnP S0).
Qed.

(* progress: when every target can be read on its own, the loop does not fail *)
Lemma absorb_all_ok : forall P xs st, jinv P xs st -> exists st', absorb_all st xs = Ok st'.
Proof.
  intros P. induction xs as [|x xs IH]; intros st J; simpl; [eauto|].
  destruct (absorb st x) as [st1|e] eqn:A.
  - apply IH. eapply absorb_step; eassumption.
  - exfalso. unfold absorb in A. unfold pool_setdefault in A. rewrite (j_fresh _ _ _ J x (or_introl eq_refl)) in A.
    destruct (j_pcached _ _ _ J x (or_introl eq_refl)) as [_ Hc].
    destruct (cache_get (false, mfile x) (rcache st)) as [c|] eqn:G; [|apply Hc; exact G].
    destruct (cmem c (rdirect st) || cmem c (rtrans st)); discriminate.
Qed.

Lemma step0_progress : forall P st d t, inv P st -> In d L -> ~ In d P -> read_top txt d L = Ok t ->
  exists st', step0 txt L st d = Ok st'.
Proof.
  intros P st d t J Hd HnP Hrt. unfold step0. unfold pool_setdefault.
  destruct (pool_get (mfile d) (rpool st)) as [o|] eqn:PG.
  - destruct (match cache_get o (rcache st) with
              | Some t => if cmem t (rdirect st) || cmem t (rtrans st) then Some t else None
              | None => None end) as [t1|] eqn:SK.
    + destruct (cmem t1 (rtrans st)); eauto.
    + exfalso. destruct (j_pool _ _ _ J _ _ PG) as [Ho Hoc].
      destruct (cache_get o (rcache st)) as [t1|] eqn:G; [|apply Hoc; exact G].
      destruct (cinv_genuine _ _ _ (j_cinv _ _ _ J) G) as [Hgt0 Hft].
      destruct (j_pool_sets _ _ _ J (mfile d)) as [t' [H1 H2]]; [rewrite PG; discriminate|].
      assert (t1 = t') by (apply gen_file_eq; [assumption|apply (j_gen _ _ _ J); assumption|congruence]). subst t'.
      assert (M : cmem t1 (rdirect st) || cmem t1 (rtrans st) = true).
      { unfold sets in H1. apply in_app_iff in H1. apply orb_true_iff. destruct H1 as [H1|H1]; [left|right];
          (apply cmem_gen; [assumption| |assumption]); intros y Hy; apply (j_gen _ _ _ J); unfold sets; apply in_app_iff; auto. }
      rewrite M in SK. discriminate.
  - assert (G : cache_get (true, mfile d) (rcache st) = None).
    { destruct (cache_get (true, mfile d) (rcache st)) eqn:G; [|reflexivity]. exfalso.
      apply (j_tcache _ _ _ J (mfile d)); [unfold cached; rewrite G; discriminate|assumption]. }
    rewrite G. simpl fst.
    unfold read_top in Hrt. rewrite <- (fk_all L) in Hrt at 2.
    destruct (readS_complete txt L SU_CU FU _ true d kall (rcache st) t Hd (j_cinv _ _ _ J) Hrt) as [c1 [ev R]].
    rewrite fk_all in R. rewrite R.
    destruct (step0_read_jinv P st d t c1 ev J Hd HnP PG R) as [Hadd [Hrem HJ]].
    rewrite Hadd, Hrem. eapply absorb_all_ok. apply HJ.
Qed.

Lemma run_targets_progress : forall ts P st, inv P st -> NoDup (P ++ ts) -> (forall d, In d ts -> In d L) ->
  (forall d, In d ts -> exists t, read_top txt d L = Ok t) -> exists st', run_targets txt L st ts = Ok st'.
Proof.
  induction ts as [|d ts IH]; intros P st J N HL Hok; simpl; [eauto|].
  assert (HnP : ~ In d P).
  { apply NoDup_app_iff in N. destruct N as [_ [_ N3]]. intro Hp. apply (N3 d Hp). left. reflexivity. }
  destruct (Hok d (or_introl eq_refl)) as [t Ht].
  destruct (step0_progress P st d t J (HL d (or_introl eq_refl)) HnP Ht) as [st1 S0]. rewrite S0.
  pose proof (step0_inv P st d st1 J (HL d (or_introl eq_refl)) HnP S0) as J1.
  apply (IH (P ++ [d]) st1 J1); [rewrite <- app_assoc; exact N| |].
  - intros x Hx. apply HL. right. assumption.
  - intros x Hx. apply Hok. right. assumption.
Qed.

(* every composite in the two sets has all its nested composites in the two sets *)
Lemma inv_closed : forall P st, inv P st -> forall t t', In t (sets st) -> sdesc t' t -> In t' (sets st).
Proof.
  intros P st J.
  assert (Hk : forall t k, In t (sets st) -> In k (tkids t) -> In k (sets st)).
  { intros t k Ht Hk.
    pose proof (j_sets_pool _ _ _ J t Ht) as Hp.
    destruct (pool_get (tfile t) (rpool st)) as [o|] eqn:PG; [|contradiction].
    destruct (j_pool _ _ _ J _ _ PG) as [Ho Hoc].
    destruct (cache_get o (rcache st)) as [t1|] eqn:G; [|exfalso; apply Hoc; exact G].
    destruct (cinv_genuine _ _ _ (j_cinv _ _ _ J) G) as [Hg1 Hf1].
    assert (t1 = t) by (apply gen_file_eq; [assumption|apply (j_gen _ _ _ J); assumption|congruence]). subst t1.
    pose proof (j_kids _ _ _ J o t G k Hk) as Hck. unfold cached in Hck.
    destruct (cache_get (false, tfile k) (rcache st)) as [k'|] eqn:Gk; [|contradiction].
    destruct (cinv_genuine _ _ _ (j_cinv _ _ _ J) Gk) as [Hgk' Hfk']. simpl in Hfk'.
    assert (Hgk : genuine k) by (apply (gen_desc t); [apply (j_gen _ _ _ J); assumption|apply sd_kid; assumption]).
    assert (k' = k) by (apply gen_file_eq; assumption). subst k'.
    destruct (j_lcache _ _ _ J _ _ Gk) as [H1|[y [[] _]]]. assumption. }
  intros t t' Ht Hs. induction Hs as [t k Hkk|t k t' Hkk Hs IH].
  - eapply Hk; eassumption.
  - apply IH. eapply Hk; eassumption.
Qed.

End Loop.
