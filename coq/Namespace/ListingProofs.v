(* C10 - facts about directory sets, the listing and the sort. *)
From Coq Require Import ZArith List Bool Lia Sorted Permutation.
From PV Require Import Namespace.Reader Namespace.ReaderProofs Namespace.Listing.
Import ListNotations.
Open Scope Z_scope.

(* ------------------------------------------------------------------------------------------------------------ *)
(* directories                                                                                                  *)

Lemma is_prefix_spec : forall p q, is_prefix p q = true <-> exists r, q = p ++ r.
Proof.
  induction p as [|x p IH]; intros q; simpl.
  - split; [intros _; exists q; reflexivity|reflexivity].
  - destruct q as [|y q].
    + split; [discriminate|]. intros [r H]. discriminate.
    + rewrite andb_true_iff, str_eqb_eq, IH. split.
      * intros [E [r H]]. subst. exists r. reflexivity.
      * intros [r H]. inversion H; subst. split; [reflexivity|exists r; reflexivity].
Qed.

Lemma is_prefix_refl : forall p, is_prefix p p = true.
Proof. intro p. apply is_prefix_spec. exists []. symmetry. apply app_nil_r. Qed.

Lemma dpath_eqb_eq : forall p q, dpath_eqb p q = true <-> p = q.
Proof.
  intros p q. unfold dpath_eqb. rewrite andb_true_iff, !is_prefix_spec. split.
  - intros [[r1 H1] [r2 H2]]. subst q. rewrite <- app_assoc in H2.
    assert (H : length p = length (p ++ r1 ++ r2)) by (rewrite <- H2; reflexivity).
    rewrite !app_length in H. destruct r1; [symmetry; apply app_nil_r|simpl in H; lia].
  - intro; subst. split; exists []; symmetry; apply app_nil_r.
Qed.

Lemma dpath_eqb_refl : forall p, dpath_eqb p p = true.
Proof. intro. apply dpath_eqb_eq. reflexivity. Qed.

Lemma dpath_eqb_false : forall p q, dpath_eqb p q = false <-> p <> q.
Proof.
  intros. split; intro H.
  - intro E. apply dpath_eqb_eq in E. congruence.
  - destruct (dpath_eqb p q) eqn:E; [|reflexivity]. apply dpath_eqb_eq in E. contradiction.
Qed.

(* a lies inside b (or is b) *)
Definition inside (a b : dpath) : Prop := exists r, a = b ++ r.

(* C10_reject_dirs *)
Lemma dirs_rejected_spec : forall allow dirs,
  dirs_rejected allow dirs = true <->
  exists a b, In a dirs /\ In b dirs /\ a <> b /\
              ((allow = false /\ lower (dname a) = lower (dname b)) \/ inside a b).
Proof.
  intros allow dirs. unfold dirs_rejected. rewrite existsb_exists. split.
  - intros [a [Ha H]]. apply existsb_exists in H. destruct H as [b [Hb H]].
    unfold dir_conflict in H. apply andb_true_iff in H. destruct H as [H1 H2].
    apply negb_true_iff, dpath_eqb_false in H1.
    exists a, b. repeat split; auto.
    apply orb_true_iff in H2. destruct H2 as [H2|H2].
    + left. apply andb_true_iff in H2. destruct H2 as [H2 H3]. apply negb_true_iff in H2.
      apply str_eqb_eq in H3. auto.
    + right. apply is_prefix_spec in H2. exact H2.
  - intros [a [b [Ha [Hb [Hne H]]]]]. exists a. split; [assumption|].
    apply existsb_exists. exists b. split; [assumption|].
    unfold dir_conflict. apply andb_true_iff. split.
    + apply negb_true_iff, dpath_eqb_false. assumption.
    + apply orb_true_iff. destruct H as [[H1 H2]|H].
      * left. subst allow. simpl. apply str_eqb_eq. assumption.
      * right. apply is_prefix_spec. exact H.
Qed.

(* the verdict depends on the SET of directories only *)
Lemma dirs_rejected_ext : forall allow d1 d2,
  (forall x, In x d1 <-> In x d2) -> dirs_rejected allow d1 = dirs_rejected allow d2.
Proof.
  intros allow d1 d2 H.
  destruct (dirs_rejected allow d1) eqn:E1, (dirs_rejected allow d2) eqn:E2; try reflexivity.
  - apply dirs_rejected_spec in E1. destruct E1 as [a [b [Ha [Hb R]]]].
    assert (dirs_rejected allow d2 = true).
    { apply dirs_rejected_spec. exists a, b. rewrite <- !H. auto. }
    congruence.
  - apply dirs_rejected_spec in E2. destruct E2 as [a [b [Ha [Hb R]]]].
    assert (dirs_rejected allow d1 = true).
    { apply dirs_rejected_spec. exists a, b. rewrite !H. auto. }
    congruence.
Qed.

Lemma dedupe_dirs_In : forall l x, In x (dedupe_dirs l) <-> In x l.
Proof.
  induction l as [|y l IH]; intro x; simpl; [tauto|].
  rewrite filter_In, IH. split.
  - intros [H|[H _]]; auto.
  - intros [H|H]; [auto|].
    destruct (dpath_eqb x y) eqn:E.
    + apply dpath_eqb_eq in E. auto.
    + right. split; [assumption|]. reflexivity.
Qed.

(* ------------------------------------------------------------------------------------------------------------ *)
(* listing                                                                                                      *)

Lemma pairs_of_In : forall roots files r f,
  In (r, f) (pairs_of roots files) <-> In r roots /\ In f files /\ globbed f = true /\ is_prefix r (fdir f) = true.
Proof.
  intros. unfold pairs_of. rewrite in_flat_map. split.
  - intros [r' [Hr H]]. apply in_map_iff in H. destruct H as [f' [E H]]. inversion E; subst.
    apply filter_In in H. destruct H as [H1 H2]. apply andb_true_iff in H2. tauto.
  - intros [Hr [Hf [Hg Hp]]]. exists r. split; [assumption|]. apply in_map_iff. exists f. split; [reflexivity|].
    apply filter_In. split; [assumption|]. rewrite Hg, Hp. reflexivity.
Qed.

(* C19_names_matter: a malformed definition file name anywhere under a listed directory is reported *)
Lemma listing_bad_name : forall roots files r f,
  In r roots -> In f files -> globbed f = true -> is_prefix r (fdir f) = true -> fbad f = true ->
  listing roots files = Err EFileName.
Proof.
  intros. unfold listing.
  assert (E : existsb (fun rf => fbad (snd rf)) (pairs_of roots files) = true).
  { apply existsb_exists. exists (r, f). split; [|assumption]. apply pairs_of_In. auto. }
  rewrite E. reflexivity.
Qed.
