(* C10 - facts about directory sets, the listing and the sort. *)
From Coq Require Import ZArith List Bool Lia Sorted Permutation.
From PV Require Import Namespace.Reader Namespace.ReaderProofs Namespace.Listing.
Import ListNotations.
Open Scope Z_scope.

(* ------------------------------------------------------------------------------------------------------------ *)
(* directories                                                                                                  *)

Lemma is_prefix_spec : forall p q, is_prefix p q = true <-> exists r, q = p ++ r.
Proof.
  induction p as [|x p IH]; intros q; simpl.
  - split; [intros _; exists q; reflexivity|reflexivity].
  - destruct q as [|y q].
    + split; [discriminate|]. intros [r H]. discriminate.
    + rewrite andb_true_iff, str_eqb_eq, IH. split.
      * intros [E [r H]]. subst. exists r. reflexivity.
      * intros [r H]. inversion H; subst. split; [reflexivity|exists r; reflexivity].
Qed.

Lemma is_prefix_refl : forall p, is_prefix p p = true.
Proof. intro p. apply is_prefix_spec. exists []. symmetry. apply app_nil_r. Qed.

Lemma dpath_eqb_eq : forall p q, dpath_eqb p q = true <-> p = q.
Proof.
  intros p q. unfold dpath_eqb. rewrite andb_true_iff, !is_prefix_spec. split.
  - intros [[r1 H1] [r2 H2]]. subst q. rewrite <- app_assoc in H2.
    assert (H : length p = length (p ++ r1 ++ r2)) by (rewrite <- H2; reflexivity).
    rewrite !app_length in H. destruct r1; [symmetry; apply app_nil_r|simpl in H; lia].
  - intro; subst. split; exists []; symmetry; apply app_nil_r.
Qed.

Lemma dpath_eqb_refl : forall p, dpath_eqb p p = true.
Proof. intro. apply dpath_eqb_eq. reflexivity. Qed.

Lemma dpath_eqb_false : forall p q, dpath_eqb p q = false <-> p <> q.
Proof.
  intros. split; intro H.
  - intro E. apply dpath_eqb_eq in E. congruence.
  - destruct (dpath_eqb p q) eqn:E; [|reflexivity]. apply dpath_eqb_eq in E. contradiction.
Qed.

(* a lies inside b (or is b) *)
Definition inside (a b : dpath) : Prop := exists r, a = b ++ r.

(* C10_reject_dirs *)
Lemma dirs_rejected_spec : forall allow dirs,
  dirs_rejected allow dirs = true <->
  exists a b, In a dirs /\ In b dirs /\ a <> b /\
              ((allow = false /\ lower (dname a) = lower (dname b)) \/ inside a b).
Proof.
  intros allow dirs. unfold dirs_rejected. rewrite existsb_exists. split.
  - intros [a [Ha H]]. apply existsb_exists in H. destruct H as [b [Hb H]].
    unfold dir_conflict in H. apply andb_true_iff in H. destruct H as [H1 H2].
    apply negb_true_iff, dpath_eqb_false in H1.
    exists a, b. repeat split; auto.
    apply orb_true_iff in H2. destruct H2 as [H2|H2].
    + left. apply andb_true_iff in H2. destruct H2 as [H2 H3]. apply negb_true_iff in H2.
      apply str_eqb_eq in H3. auto.
    + right. apply is_prefix_spec in H2. exact H2.
  - intros [a [b [Ha [Hb [Hne H]]]]]. exists a. split; [assumption|].
    apply existsb_exists. exists b. split; [assumption|].
    unfold dir_conflict. apply andb_true_iff. split.
    + apply negb_true_iff, dpath_eqb_false. assumption.
    + apply orb_true_iff. destruct H as [[H1 H2]|H].
      * left. subst allow. simpl. apply str_eqb_eq. assumption.
      * right. apply is_prefix_spec. exact H.
Qed.

(* the verdict depends on the SET of directories only *)
Lemma dirs_rejected_ext : forall allow d1 d2,
  (forall x, In x d1 <-> In x d2) -> dirs_rejected allow d1 = dirs_rejected allow d2.
Proof.
  intros allow d1 d2 H.
  destruct (dirs_rejected allow d1) eqn:E1, (dirs_rejected allow d2) eqn:E2; try reflexivity.
  - apply dirs_rejected_spec in E1. destruct E1 as [a [b [Ha [Hb R]]]].
    assert (dirs_rejected allow d2 = true).
    { apply dirs_rejected_spec. exists a, b. rewrite <- !H. auto. }
    congruence.
  - apply dirs_rejected_spec in E2. destruct E2 as [a [b [Ha [Hb R]]]].
    assert (dirs_rejected allow d1 = true).
    { apply dirs_rejected_spec. exists a, b. rewrite !H. auto. }
    congruence.
Qed.

Lemma dedupe_dirs_In : forall l x, In x (dedupe_dirs l) <-> In x l.
Proof.
  induction l as [|y l IH]; intro x; simpl; [tauto|].
  rewrite filter_In, IH. split.
  - intros [H|[H _]]; auto.
  - intros [H|H]; [auto|].
    destruct (dpath_eqb x y) eqn:E.
    + apply dpath_eqb_eq in E. auto.
    + right. split; [assumption|]. reflexivity.
Qed.

(* ------------------------------------------------------------------------------------------------------------ *)
(* listing                                                                                                      *)

Lemma pairs_of_In : forall roots files r f,
  In (r, f) (pairs_of roots files) <-> In r roots /\ In f files /\ globbed f = true /\ is_prefix r (fdir f) = true.
Proof.
  intros. unfold pairs_of. rewrite in_flat_map. split.
  - intros [r' [Hr H]]. apply in_map_iff in H. destruct H as [f' [E H]]. inversion E; subst.
    apply filter_In in H. destruct H as [H1 H2]. apply andb_true_iff in H2. tauto.
  - intros [Hr [Hf [Hg Hp]]]. exists r. split; [assumption|]. apply in_map_iff. exists f. split; [reflexivity|].
    apply filter_In. split; [assumption|]. rewrite Hg, Hp. reflexivity.
Qed.

(* C19_names_matter: a malformed definition file name anywhere under a listed directory is reported *)
Lemma listing_bad_name : forall roots files r f,
  In r roots -> In f files -> globbed f = true -> is_prefix r (fdir f) = true -> fbad f = true ->
  listing roots files = Err EFileName.
Proof.
  intros. unfold listing.
  assert (E : existsb (fun rf => fbad (snd rf)) (pairs_of roots files) = true).
  { apply existsb_exists. exists (r, f). split; [|assumption]. apply pairs_of_In. auto. }
  rewrite E. reflexivity.
Qed.

(* ------------------------------------------------------------------------------------------------------------ *)
(* independence from the order of enumeration and from order / duplication of the directory arguments           *)

From PV Require Import Namespace.SortProofs.

Lemma existsb_perm : forall {A} (p : A -> bool) l1 l2, Permutation l1 l2 -> existsb p l1 = existsb p l2.
Proof.
  intros A p l1 l2 P. induction P; simpl.
  - reflexivity.
  - rewrite IHP. reflexivity.
  - destruct (p x), (p y); reflexivity.
  - congruence.
Qed.

Lemma filter_perm : forall {A} (p : A -> bool) l1 l2, Permutation l1 l2 -> Permutation (filter p l1) (filter p l2).
Proof.
  intros A p l1 l2 P. induction P; simpl.
  - apply perm_nil.
  - destruct (p x); [apply perm_skip|]; assumption.
  - destruct (p x), (p y); try apply Permutation_refl. apply perm_swap.
  - eapply Permutation_trans; eassumption.
Qed.

Lemma flat_map_perm_pointwise : forall {A B} (f g : A -> list B) l,
  (forall x, In x l -> Permutation (f x) (g x)) -> Permutation (flat_map f l) (flat_map g l).
Proof.
  induction l as [|x l IH]; intros H; simpl; [apply perm_nil|].
  apply Permutation_app; [apply H; left; reflexivity|apply IH; intros; apply H; right; assumption].
Qed.

Lemma pairs_of_perm_files : forall roots f1 f2, Permutation f1 f2 -> Permutation (pairs_of roots f1) (pairs_of roots f2).
Proof.
  intros. unfold pairs_of. apply flat_map_perm_pointwise. intros r _. apply Permutation_map. apply filter_perm. assumption.
Qed.

Lemma pairs_of_perm_roots : forall r1 r2 files, Permutation r1 r2 -> Permutation (pairs_of r1 files) (pairs_of r2 files).
Proof. intros. unfold pairs_of. apply Permutation_flat_map. assumption. Qed.

Definition pair_meta (rf : dpath * fent) : meta := mk_meta (fst rf) (snd rf).

(* no two definition files found under the listed directories encode the same full name and version *)
Definition ukeys (roots : list dpath) (files : list fent) : Prop :=
  NoDup (map (fun rf => mkey (pair_meta rf)) (pairs_of roots files)).

Lemma listing_perm : forall r1 f1 r2 f2,
  Permutation (pairs_of r1 f1) (pairs_of r2 f2) -> ukeys r1 f1 -> listing r1 f1 = listing r2 f2.
Proof.
  intros r1 f1 r2 f2 P U. unfold listing.
  rewrite (existsb_perm _ _ _ P).
  destruct (existsb (fun rf => fbad (snd rf)) (pairs_of r2 f2)); [reflexivity|].
  f_equal. rewrite sort_metas_is. apply isort_perm_eq.
  - apply Permutation_map. exact P.
  - unfold ukeys in U. rewrite map_map. exact U.
Qed.

Lemma find_perm_unique : forall (l1 l2 : list fent) i, Permutation l1 l2 -> NoDup (map fid l1) ->
  find (fun f => fid f =? i) l1 = find (fun f => fid f =? i) l2.
Proof.
  intros l1 l2 i P. induction P; intros N; simpl.
  - reflexivity.
  - simpl in N. inversion N; subst. rewrite IHP by assumption. reflexivity.
  - simpl in N. inversion N as [|? ? H1 N1]; subst. inversion N1 as [|? ? H2 N2]; subst.
    destruct (fid y =? i) eqn:E1, (fid x =? i) eqn:E2; try reflexivity.
    apply Z.eqb_eq in E1, E2. exfalso. apply H1. left. congruence.
  - rewrite IHP1 by assumption. apply IHP2. eapply Permutation_NoDup; [|exact N]. apply Permutation_map. assumption.
Qed.

Lemma targets_of_perm : forall f1 f2 roots ids, Permutation f1 f2 -> NoDup (map fid f1) ->
  targets_of f1 roots ids = targets_of f2 roots ids.
Proof.
  intros f1 f2 roots ids P N. induction ids as [|i ids IH]; simpl; [reflexivity|].
  rewrite (find_perm_unique f1 f2 i P N). rewrite IH. reflexivity.
Qed.

Lemma dedupe_dirs_NoDup : forall l, NoDup (dedupe_dirs l).
Proof.
  induction l as [|x l IH]; simpl; [constructor|]. constructor.
  - intro H. apply filter_In in H. destruct H as [_ H]. rewrite dpath_eqb_refl in H. discriminate.
  - apply NoDup_filter. assumption.
Qed.

Lemma dedupe_dirs_perm : forall l1 l2, (forall x, In x l1 <-> In x l2) -> Permutation (dedupe_dirs l1) (dedupe_dirs l2).
Proof.
  intros l1 l2 H. apply NoDup_Permutation; try apply dedupe_dirs_NoDup.
  intro x. rewrite !dedupe_dirs_In. apply H.
Qed.

Section RunPerm.
Variable txt : Z -> list item.

(* C10_perm: the order in which the operating system / a Python set enumerates the files is irrelevant *)
Lemma run_namespace_perm : forall f1 f2 root lookups allow,
  Permutation f1 f2 -> ukeys [root] f1 -> ukeys (dedupe_dirs (lookups ++ [root])) f1 ->
  run_namespace txt f1 root lookups allow = run_namespace txt f2 root lookups allow.
Proof.
  intros f1 f2 root lookups allow P U1 U2. unfold run_namespace.
  rewrite (listing_perm [root] f1 [root] f2 (pairs_of_perm_files _ _ _ P) U1).
  rewrite (listing_perm _ f1 _ f2 (pairs_of_perm_files _ _ _ P) U2). reflexivity.
Qed.

Lemma run_files_perm : forall f1 f2 ids roots lookups,
  Permutation f1 f2 -> NoDup (map fid f1) -> (forall dirs, ukeys (dedupe_dirs dirs) f1) ->
  run_files txt f1 ids roots lookups = run_files txt f2 ids roots lookups.
Proof.
  intros f1 f2 ids roots lookups P N U. unfold run_files.
  rewrite (targets_of_perm f1 f2 roots ids P N).
  destruct (targets_of f2 roots ids) as [[|p ps]|e]; try reflexivity.
  rewrite (listing_perm _ f1 _ f2 (pairs_of_perm_files _ _ _ P) (U _)). reflexivity.
Qed.

(* C10_dir_args: order and duplication of the lookup directory arguments are irrelevant *)
Lemma run_namespace_dir_args : forall files root lk1 lk2 allow,
  (forall x, In x lk1 <-> In x lk2) -> ukeys (dedupe_dirs (lk1 ++ [root])) files ->
  run_namespace txt files root lk1 allow = run_namespace txt files root lk2 allow.
Proof.
  intros files root lk1 lk2 allow H U. unfold run_namespace.
  assert (Hs : forall x, In x (lk1 ++ [root]) <-> In x (lk2 ++ [root])).
  { intro x. rewrite !in_app_iff, H. tauto. }
  rewrite (dirs_rejected_ext allow (dedupe_dirs (lk1 ++ [root])) (dedupe_dirs (lk2 ++ [root]))).
  2:{ intro x. rewrite !dedupe_dirs_In. apply Hs. }
  rewrite (listing_perm (dedupe_dirs (lk1 ++ [root])) files (dedupe_dirs (lk2 ++ [root])) files); [reflexivity| |assumption].
  apply pairs_of_perm_roots. apply dedupe_dirs_perm. exact Hs.
Qed.

Lemma run_files_dir_args : forall files ids roots lk1 lk2,
  (forall x, In x lk1 <-> In x lk2) -> (forall dirs, ukeys (dedupe_dirs dirs) files) ->
  run_files txt files ids roots lk1 = run_files txt files ids roots lk2.
Proof.
  intros files ids roots lk1 lk2 H U. unfold run_files.
  destruct (targets_of files roots ids) as [[|p ps]|e]; try reflexivity.
  set (ps' := dedupe_files (p :: ps)).
  assert (Hs : forall x, In x (lk1 ++ map fst ps' ++ roots) <-> In x (lk2 ++ map fst ps' ++ roots)).
  { intro x. rewrite !in_app_iff, H. tauto. }
  rewrite (dirs_rejected_ext true (dedupe_dirs (lk1 ++ map fst ps' ++ roots)) (dedupe_dirs (lk2 ++ map fst ps' ++ roots))).
  2:{ intro x. rewrite !dedupe_dirs_In. apply Hs. }
  rewrite (listing_perm (dedupe_dirs (lk1 ++ map fst ps' ++ roots)) files (dedupe_dirs (lk2 ++ map fst ps' ++ roots)) files); [reflexivity| |apply U].
  apply pairs_of_perm_roots. apply dedupe_dirs_perm. exact Hs.
Qed.
End RunPerm.
