(* C09 - basic facts: strings, keys, resolution. *)
From Coq Require Import ZArith List Bool Lia.
From PV Require Import Namespace.Reader.
Import ListNotations.
Open Scope Z_scope.

Lemma str_eqb_eq : forall a b, str_eqb a b = true <-> a = b.
Proof.
  induction a as [|x a IH]; destruct b as [|y b]; simpl; split; intro H; try reflexivity; try discriminate.
  - apply andb_true_iff in H. destruct H as [H1 H2]. apply Z.eqb_eq in H1. apply IH in H2. subst. reflexivity.
  - inversion H; subst. apply andb_true_iff. split; [apply Z.eqb_refl|apply IH; reflexivity].
Qed.

Lemma str_eqb_refl : forall a, str_eqb a a = true.
Proof. intro a. apply str_eqb_eq. reflexivity. Qed.

Lemma str_eqb_neq : forall a b, str_eqb a b = false <-> a <> b.
Proof.
  intros a b. split; intro H.
  - intro E. apply str_eqb_eq in E. congruence.
  - destruct (str_eqb a b) eqn:E; [|reflexivity]. apply str_eqb_eq in E. contradiction.
Qed.

Lemma str_eqb_sym : forall a b, str_eqb a b = str_eqb b a.
Proof.
  intros a b. destruct (str_eqb a b) eqn:E.
  - apply str_eqb_eq in E. subst. symmetry. apply str_eqb_refl.
  - symmetry. apply str_eqb_neq. apply str_eqb_neq in E. congruence.
Qed.

Lemma key_eqb_eq : forall a b, key_eqb a b = true <-> mkey a = mkey b.
Proof.
  intros a b. unfold key_eqb, mkey. rewrite !andb_true_iff, str_eqb_eq, !Z.eqb_eq. split.
  - intros [[H1 H2] H3]. congruence.
  - intro H. inversion H. auto.
Qed.

Lemma key_eqb_refl : forall a, key_eqb a a = true.
Proof. intro a. apply key_eqb_eq. reflexivity. Qed.

Lemma key_eqb_sym : forall a b, key_eqb a b = key_eqb b a.
Proof.
  intros a b. destruct (key_eqb a b) eqn:E, (key_eqb b a) eqn:F; try reflexivity.
  - apply key_eqb_eq in E. symmetry in E. apply key_eqb_eq in E. congruence.
  - apply key_eqb_eq in F. symmetry in F. apply key_eqb_eq in F. congruence.
Qed.

Lemma key_eqb_false : forall a b, key_eqb a b = false <-> mkey a <> mkey b.
Proof.
  intros a b. split; intro H.
  - intro E. apply key_eqb_eq in E. congruence.
  - destruct (key_eqb a b) eqn:E; [|reflexivity]. apply key_eqb_eq in E. contradiction.
Qed.

(* ------------------------------------------------------------------------------------------------------------ *)
(* resolution                                                                                                   *)

Lemma cand_spec : forall full a b d,
  cand full a b d = true <-> lower (mname d) = lower full /\ mmaj d = a /\ mmin d = b.
Proof.
  intros. unfold cand. rewrite !andb_true_iff, str_eqb_eq, !Z.eqb_eq. tauto.
Qed.

(* C09_resolve_exact *)
Lemma resolve_found_iff : forall me n a b L d,
  resolve me n a b L = RFound d <->
  filter (cand (complete me n) a b) L = [d] /\ mname d = complete me n.
Proof.
  intros. unfold resolve. destruct (filter (cand (complete me n) a b) L) as [|x [|y r]] eqn:F.
  - split; [discriminate|]. intros [H _]. discriminate.
  - destruct (str_eqb (mname x) (complete me n)) eqn:E.
    + apply str_eqb_eq in E. split.
      * intro H. inversion H; subst. auto.
      * intros [H _]. inversion H; subst. reflexivity.
    + apply str_eqb_neq in E. split; [discriminate|]. intros [H H2]. inversion H; subst. contradiction.
  - split.
    + destruct (negb (str_eqb (mname x) (mname y))); discriminate.
    + intros [H _]. discriminate.
Qed.

Lemma resolve_found_props : forall me n a b L d,
  resolve me n a b L = RFound d ->
  In d L /\ mname d = complete me n /\ mmaj d = a /\ mmin d = b /\
  forall e, In e L -> lower (mname e) = lower (complete me n) -> mmaj e = a -> mmin e = b -> e = d.
Proof.
  intros me n a b L d H. apply resolve_found_iff in H. destruct H as [F N].
  assert (Hd : In d (filter (cand (complete me n) a b) L)) by (rewrite F; left; reflexivity).
  apply filter_In in Hd. destruct Hd as [Hin Hc]. apply cand_spec in Hc. destruct Hc as [_ [Ha Hb]].
  repeat split; auto.
  intros e He Hl Hea Heb.
  assert (In e (filter (cand (complete me n) a b) L)).
  { apply filter_In. split; [assumption|]. apply cand_spec. auto. }
  rewrite F in H. destruct H as [H|[]]. auto.
Qed.

(* C09_errors *)
Lemma resolve_undefined_iff : forall me n a b L,
  resolve me n a b L = RUndefined <-> forall e, In e L -> cand (complete me n) a b e = false.
Proof.
  intros. unfold resolve. destruct (filter (cand (complete me n) a b) L) as [|x [|y r]] eqn:F.
  - split; [|reflexivity]. intros _ e He. destruct (cand (complete me n) a b e) eqn:C; [|reflexivity].
    assert (In e []) by (rewrite <- F; apply filter_In; auto). contradiction.
  - split.
    + destruct (str_eqb (mname x) (complete me n)); discriminate.
    + intro H. assert (Hx : In x (filter (cand (complete me n) a b) L)) by (rewrite F; left; reflexivity).
      apply filter_In in Hx. destruct Hx as [Hx Hc]. rewrite (H x Hx) in Hc. discriminate.
  - split.
    + destruct (negb (str_eqb (mname x) (mname y))); discriminate.
    + intro H. assert (Hx : In x (filter (cand (complete me n) a b) L)) by (rewrite F; left; reflexivity).
      apply filter_In in Hx. destruct Hx as [Hx Hc]. rewrite (H x Hx) in Hc. discriminate.
Qed.

Lemma resolve_many : forall me n a b L x y r,
  filter (cand (complete me n) a b) L = x :: y :: r ->
  resolve me n a b L = RCollision \/ resolve me n a b L = RCaseCollision.
Proof.
  intros. unfold resolve. rewrite H. destruct (negb (str_eqb (mname x) (mname y))); auto.
Qed.

Lemma resolve_single_wrong_case : forall me n a b L d,
  filter (cand (complete me n) a b) L = [d] -> mname d <> complete me n ->
  resolve me n a b L = RCaseCollision.
Proof.
  intros. unfold resolve. rewrite H. apply str_eqb_neq in H0. rewrite H0. reflexivity.
Qed.

(* the result of a resolution only depends on the candidates *)
Lemma resolve_ext : forall me n a b L1 L2,
  filter (cand (complete me n) a b) L1 = filter (cand (complete me n) a b) L2 ->
  resolve me n a b L1 = resolve me n a b L2.
Proof. intros. unfold resolve. rewrite H. reflexivity. Qed.
