(* C09 - the reader without cache: fuel, termination (the lookup list shrinks), cycles, independence of the result
   from the referrer (under case_unique). *)
From Coq Require Import ZArith List Bool Lia.
From PV Require Import Namespace.Reader Namespace.ReaderProofs.
Import ListNotations.
Open Scope Z_scope.

(* ------------------------------------------------------------------------------------------------------------ *)
(* keys as values; lookup lists as key-filtered sublists of one list                                             *)

Definition key := (str * Z * Z)%type.
Definition keyb (k1 k2 : key) : bool :=
  let '(n1, a1, b1) := k1 in let '(n2, a2, b2) := k2 in str_eqb n1 n2 && (a1 =? a2) && (b1 =? b2).

Lemma key_eqb_keyb : forall a b, key_eqb a b = keyb (mkey a) (mkey b).
Proof. reflexivity. Qed.

Lemma keyb_eq : forall k1 k2, keyb k1 k2 = true <-> k1 = k2.
Proof.
  intros [[n1 a1] b1] [[n2 a2] b2]. simpl. rewrite !andb_true_iff, str_eqb_eq, !Z.eqb_eq. split.
  - intros [[H1 H2] H3]. congruence.
  - intro H. inversion H. auto.
Qed.

Lemma keyb_refl : forall k, keyb k k = true.
Proof. intro. apply keyb_eq. reflexivity. Qed.

Lemma keyb_false : forall k1 k2, keyb k1 k2 = false <-> k1 <> k2.
Proof.
  intros. split; intro H.
  - intro E. apply keyb_eq in E. congruence.
  - destruct (keyb k1 k2) eqn:E; [|reflexivity]. apply keyb_eq in E. contradiction.
Qed.

Definition fk (K : key -> bool) (L : list meta) : list meta := filter (fun x => K (mkey x)) L.
Definition kall : key -> bool := fun _ => true.
Definition kminus (K : key -> bool) (d : meta) : key -> bool := fun k => K k && negb (keyb k (mkey d)).

Lemma filter_filter' : forall {A} (p q : A -> bool) l, filter p (filter q l) = filter (fun x => q x && p x) l.
Proof.
  induction l as [|x l IH]; simpl; [reflexivity|].
  destruct (q x); simpl; [destruct (p x); simpl; rewrite IH; reflexivity|exact IH].
Qed.

Lemma fk_all : forall L, fk kall L = L.
Proof. induction L as [|x L IH]; [reflexivity|]. unfold fk in *. simpl. f_equal. exact IH. Qed.

Lemma rm_fk : forall K d L, rm d (fk K L) = fk (kminus K d) L.
Proof. intros. unfold rm, fk, kminus. rewrite filter_filter'. reflexivity. Qed.

Lemma fk_In : forall K L x, In x (fk K L) <-> In x L /\ K (mkey x) = true.
Proof. intros. unfold fk. apply filter_In. Qed.

Lemma fk_ext : forall K1 K2 L, (forall x, In x L -> K1 (mkey x) = K2 (mkey x)) -> fk K1 L = fk K2 L.
Proof. intros. unfold fk. apply filter_ext_in. exact H. Qed.

Lemma filter_length_le : forall {A} (p : A -> bool) l, (length (filter p l) <= length l)%nat.
Proof. induction l as [|x l IH]; simpl; [lia|]. destruct (p x); simpl; lia. Qed.

Lemma filter_length_lt : forall {A} (p : A -> bool) l x, In x l -> p x = false -> (length (filter p l) < length l)%nat.
Proof.
  induction l as [|y l IH]; simpl; intros x Hin Hp; [contradiction|].
  destruct Hin as [E|Hin].
  - subst. rewrite Hp. pose proof (filter_length_le p l). lia.
  - specialize (IH x Hin Hp). destruct (p y); simpl; lia.
Qed.

Lemma rm_length_lt : forall x L, In x L -> (length (rm x L) < length L)%nat.
Proof.
  intros. unfold rm. apply filter_length_lt with (x := x); [assumption|]. rewrite key_eqb_refl. reflexivity.
Qed.

Lemma rm_length_le : forall x L, (length (rm x L) <= length L)%nat.
Proof. intros. unfold rm. apply filter_length_le. Qed.

Lemma resolve_found_In : forall me n a b L x, resolve me n a b L = RFound x -> In x L.
Proof. intros. apply resolve_found_props in H. tauto. Qed.

(* ------------------------------------------------------------------------------------------------------------ *)
Section Pure.
Variable txt : Z -> list item.

(* generic transfer lemma for the evaluation of a body *)
Lemma eval_items_transfer : forall (rd rd' : meta -> res ctree) me L L' its r,
  (forall n a b arr x t, In (Ref n a b arr) its -> resolve me n a b L = RFound x -> rd x = Ok t ->
     resolve me n a b L' = RFound x /\ rd' x = Ok t) ->
  eval_items rd me L its = Ok r -> eval_items rd' me L' its = Ok r.
Proof.
  intros rd rd' me L L'. induction its as [|it its IH]; intros r H E; simpl in *; [assumption|].
  destruct it as [n a b arr| | |w].
  - destruct (resolve me n a b L) as [x| | |] eqn:R; try discriminate.
    destruct (rd x) as [t|e] eqn:Rd; [|discriminate].
    destruct (H n a b arr x t (or_introl eq_refl) R Rd) as [R' Hrd]. rewrite R', Hrd.
    destruct (eval_items rd me L its) as [[s ts]|e] eqn:Ev; [|discriminate].
    rewrite (IH (s, ts)); [assumption| |reflexivity].
    intros. apply (H n0 a0 b0 arr0); [right; assumption|assumption|assumption].
  - apply IH; [|assumption]. intros. apply (H n a b arr); [right; assumption|assumption|assumption].
  - discriminate.
  - destruct (eval_items rd me L its) as [[s ts]|e] eqn:Ev; [|discriminate].
    rewrite (IH (s, ts)); [assumption| |reflexivity].
    intros. apply (H n a b arr); [right; assumption|assumption|assumption].
Qed.

(* the kids of a successful evaluation come from resolved references *)
Lemma eval_items_kids : forall (rd : meta -> res ctree) me L its s ts,
  eval_items rd me L its = Ok (s, ts) ->
  forall k, In k ts -> exists n a b arr x, In (Ref n a b arr) its /\ resolve me n a b L = RFound x /\ rd x = Ok k.
Proof.
  intros rd me L. induction its as [|it its IH]; intros s ts E k Hk; simpl in E.
  - inversion E; subst. contradiction.
  - destruct it as [n a b arr| | |w].
    + destruct (resolve me n a b L) as [x| | |] eqn:R; try discriminate.
      destruct (rd x) as [t|e] eqn:Rd; [|discriminate].
      destruct (eval_items rd me L its) as [[s' ts']|e] eqn:Ev; [|discriminate].
      inversion E; subst. destruct Hk as [Hk|Hk].
      * subst. exists n, a, b, arr, x. split; [left; reflexivity|auto].
      * destruct (IH _ _ eq_refl k Hk) as [n' [a' [b' [arr' [x' [H1 H2]]]]]].
        exists n', a', b', arr', x'. split; [right; assumption|assumption].
    + destruct (IH _ _ E k Hk) as [n' [a' [b' [arr' [x' [H1 H2]]]]]].
      exists n', a', b', arr', x'. split; [right; assumption|assumption].
    + discriminate.
    + destruct (eval_items rd me L its) as [[s' ts']|e] eqn:Ev; [|discriminate].
      inversion E; subst.
      destruct (IH _ _ eq_refl k Hk) as [n' [a' [b' [arr' [x' [H1 H2]]]]]].
      exists n', a', b', arr', x'. split; [right; assumption|assumption].
Qed.

(* every reference of a successfully evaluated body was resolved and read *)
Lemma eval_items_refs : forall (rd : meta -> res ctree) me L its r,
  eval_items rd me L its = Ok r ->
  forall n a b arr, In (Ref n a b arr) its -> exists x t, resolve me n a b L = RFound x /\ rd x = Ok t /\ In t (snd r).
Proof.
  intros rd me L. induction its as [|it its IH]; intros r E n a b arr Hin; simpl in *; [contradiction|].
  destruct it as [n' a' b' arr'| | |w].
  - destruct (resolve me n' a' b' L) as [x| | |] eqn:R; try discriminate.
    destruct (rd x) as [t|e] eqn:Rd; [|discriminate].
    destruct (eval_items rd me L its) as [[s' ts']|e] eqn:Ev; [|discriminate].
    inversion E; subst. destruct Hin as [Hin|Hin].
    + inversion Hin; subst. exists x, t. simpl. auto.
    + destruct (IH _ eq_refl n a b arr Hin) as [x' [t' [H1 [H2 H3]]]]. exists x', t'. simpl in *. auto.
  - destruct Hin as [Hin|Hin]; [discriminate|]. eapply IH; eassumption.
  - discriminate.
  - destruct (eval_items rd me L its) as [[s' ts']|e] eqn:Ev; [|discriminate].
    inversion E; subst. destruct Hin as [Hin|Hin]; [discriminate|].
    destruct (IH _ eq_refl n a b arr Hin) as [x' [t' [H1 [H2 H3]]]]. exists x', t'. simpl in *. auto.
Qed.

(* an evaluation that runs out of fuel does so inside a sub-read *)
Lemma eval_items_nofuel : forall (rd : meta -> res ctree) me L its,
  (forall x, In x L -> rd x <> Err EFuel) -> eval_items rd me L its <> Err EFuel.
Proof.
  intros rd me L. induction its as [|it its IH]; intros H; simpl; [discriminate|].
  destruct it as [n a b arr| | |w].
  - destruct (resolve me n a b L) as [x| | |] eqn:R; try discriminate.
    pose proof (H x (resolve_found_In _ _ _ _ _ _ R)) as Hx.
    destruct (rd x) as [t|e] eqn:Rd.
    + specialize (IH H). destruct (eval_items rd me L its) as [[s ts]|e]; [discriminate|]. congruence.
    + congruence.
  - apply IH; assumption.
  - discriminate.
  - specialize (IH H). destruct (eval_items rd me L its) as [[s ts]|e]; [discriminate|]. congruence.
Qed.

(* results that are not "out of fuel" do not depend on the reader used for sub-reads as long as it agrees *)
Lemma eval_items_agree : forall (rd rd' : meta -> res ctree) me L its,
  (forall x, In x L -> rd x <> Err EFuel -> rd' x = rd x) ->
  eval_items rd me L its <> Err EFuel -> eval_items rd' me L its = eval_items rd me L its.
Proof.
  intros rd rd' me L. induction its as [|it its IH]; intros H NF; simpl in *; [reflexivity|].
  destruct it as [n a b arr| | |w].
  - destruct (resolve me n a b L) as [x| | |] eqn:R; try reflexivity.
    pose proof (resolve_found_In _ _ _ _ _ _ R) as Hx.
    destruct (rd x) as [t|e] eqn:Rd.
    + rewrite (H x Hx) by congruence. rewrite Rd.
      rewrite IH; [reflexivity|assumption|].
      destruct (eval_items rd me L its) as [[s ts]|e]; [discriminate|]. congruence.
    + rewrite (H x Hx) by congruence. rewrite Rd. reflexivity.
  - apply IH; assumption.
  - reflexivity.
  - rewrite IH; [reflexivity|assumption|].
    destruct (eval_items rd me L its) as [[s ts]|e]; [discriminate|]. congruence.
Qed.

(* ------------------------------------------------------------------------------------------------------------ *)
(* fuel                                                                                                         *)

Lemma read_fuel_mono : forall f d L, read txt f d L <> Err EFuel -> forall f', (f <= f')%nat -> read txt f' d L = read txt f d L.
Proof.
  induction f as [|f IH]; intros d L NF f' Hle; simpl in *; [congruence|].
  destruct f' as [|f']; [lia|]. simpl.
  rewrite (eval_items_agree (fun x => read txt f x (rm d L)) (fun x => read txt f' x (rm d L))).
  - reflexivity.
  - intros x _ Hx. apply IH; [assumption|lia].
  - destruct (eval_items (fun x => read txt f x (rm d L)) d (rm d L) (txt (mfile d))) as [[s ks]|e]; [discriminate|]. congruence.
Qed.

(* C09_terminates: the lookup list shrinks with every level *)
Lemma read_terminates_gen : forall f d L, (length (rm d L) < f)%nat -> read txt f d L <> Err EFuel.
Proof.
  induction f as [|f IH]; intros d L Hlen; [lia|]. simpl.
  assert (NF : eval_items (fun x => read txt f x (rm d L)) d (rm d L) (txt (mfile d)) <> Err EFuel).
  { apply eval_items_nofuel. intros x Hx. apply IH. pose proof (rm_length_lt x (rm d L) Hx). lia. }
  destruct (eval_items (fun x => read txt f x (rm d L)) d (rm d L) (txt (mfile d))) as [[s ks]|e]; [discriminate|]. congruence.
Qed.

Lemma read_top_terminates : forall d L, read_top txt d L <> Err EFuel.
Proof. intros. unfold read_top. apply read_terminates_gen. pose proof (rm_length_le d L). lia. Qed.

Lemma read_top_of_ok : forall f d L t, read txt f d L = Ok t -> read_top txt d L = Ok t.
Proof.
  intros f d L t H. unfold read_top.
  destruct (Nat.le_ge_cases f (S (length L))) as [Hle|Hge].
  - rewrite (read_fuel_mono f d L); [assumption|congruence|assumption].
  - pose proof (read_top_terminates d L) as NF. unfold read_top in NF.
    rewrite <- (read_fuel_mono (S (length L)) d L NF f Hge). assumption.
Qed.

Lemma read_of_top_ok : forall f d L t, read_top txt d L = Ok t -> (length (rm d L) < f)%nat -> read txt f d L = Ok t.
Proof.
  intros f d L t H Hlen. pose proof (read_terminates_gen f d L Hlen) as NF.
  destruct (read txt f d L) as [t'|e] eqn:E.
  - apply read_top_of_ok in E. congruence.
  - exfalso. unfold read_top in H.
    destruct (Nat.le_ge_cases f (S (length L))) as [Hle|Hge].
    + rewrite (read_fuel_mono f d L) in H; [congruence|congruence|assumption].
    + rewrite <- (read_fuel_mono (S (length L)) d L) with (f' := f) in H; [congruence| |assumption]. rewrite H. discriminate.
Qed.

(* ------------------------------------------------------------------------------------------------------------ *)
(* shape of a successful read                                                                                   *)

Lemma read_ok_inv : forall f d L t, read txt f d L = Ok t ->
  exists f' s ks, f = S f' /\ eval_items (fun x => read txt f' x (rm d L)) d (rm d L) (txt (mfile d)) = Ok (s, ks) /\ t = node_of d s ks.
Proof.
  intros f d L t H. destruct f as [|f']; simpl in H; [discriminate|].
  destruct (eval_items (fun x => read txt f' x (rm d L)) d (rm d L) (txt (mfile d))) as [[s ks]|e] eqn:E; [|discriminate].
  inversion H. exists f', s, ks. auto.
Qed.

Lemma read_ok_key : forall f d L t, read txt f d L = Ok t -> tkey t = mkey d /\ tfile t = mfile d.
Proof.
  intros. apply read_ok_inv in H. destruct H as [f' [s [ks [_ [_ E]]]]]. subst. split; reflexivity.
Qed.

(* ------------------------------------------------------------------------------------------------------------ *)
(* case_unique: no two lookups equal up to letter case with the same version (they may be exact duplicates)      *)

Definition case_unique (L : list meta) : Prop :=
  forall a b, In a L -> In b L -> lower (mname a) = lower (mname b) -> mmaj a = mmaj b -> mmin a = mmin b -> mname a = mname b.

Definition case_uniqueb (L : list meta) : bool :=
  forallb (fun a => forallb (fun b =>
    implb (str_eqb (lower (mname a)) (lower (mname b)) && (mmaj a =? mmaj b) && (mmin a =? mmin b)) (str_eqb (mname a) (mname b))) L) L.

Lemma case_uniqueb_ok : forall L, case_uniqueb L = true -> case_unique L.
Proof.
  intros L H a b Ha Hb Hl Hj Hn. unfold case_uniqueb in H. rewrite forallb_forall in H.
  specialize (H a Ha). rewrite forallb_forall in H. specialize (H b Hb).
  assert (E : str_eqb (lower (mname a)) (lower (mname b)) && (mmaj a =? mmaj b) && (mmin a =? mmin b) = true).
  { rewrite !andb_true_iff, str_eqb_eq, !Z.eqb_eq. auto. }
  rewrite E in H. simpl in H. apply str_eqb_eq. assumption.
Qed.

Lemma lower_eq_of_eq : forall a b : str, a = b -> lower a = lower b.
Proof. intros. subst. reflexivity. Qed.

(* under case_unique the candidates of a resolved reference all carry the key of the definition found *)
Lemma cand_same_key : forall L me n a b K x e,
  case_unique L -> resolve me n a b (fk K L) = RFound x -> In e L -> cand (complete me n) a b e = true ->
  mkey e = mkey x.
Proof.
  intros L me n a b K x e CU R He Hc.
  apply resolve_found_props in R. destruct R as [Hx [Hn [Ha [Hb _]]]].
  apply fk_In in Hx. destruct Hx as [Hx _].
  apply cand_spec in Hc. destruct Hc as [Hl [Hea Heb]].
  unfold mkey. rewrite (CU e x He Hx); [congruence| |congruence|congruence].
  rewrite Hl, Hn. reflexivity.
Qed.

(* a resolution that succeeded in a key-filtered sublist succeeds in every larger key-filtered sublist *)
Lemma resolve_grow : forall L me n a b K1 K2 x,
  case_unique L -> (forall k, K1 k = true -> K2 k = true) ->
  resolve me n a b (fk K1 L) = RFound x -> resolve me n a b (fk K2 L) = RFound x.
Proof.
  intros L me n a b K1 K2 x CU Hsub R.
  rewrite <- R. apply resolve_ext. unfold fk. rewrite !filter_filter'.
  apply filter_ext_in. intros e He.
  destruct (cand (complete me n) a b e) eqn:C; [|rewrite !andb_false_r; reflexivity].
  rewrite !andb_true_r.
  pose proof (cand_same_key L me n a b K1 x e CU R He C) as Hk.
  pose proof (resolve_found_In _ _ _ _ _ _ R) as Hx. apply fk_In in Hx. destruct Hx as [_ Hx].
  rewrite Hk, Hx. apply Hsub. assumption.
Qed.

(* ... and in every smaller one that still contains the key found *)
Lemma resolve_shrink : forall L me n a b K1 K2 x,
  (forall k, K1 k = true -> K2 k = true) -> K1 (mkey x) = true ->
  resolve me n a b (fk K2 L) = RFound x -> resolve me n a b (fk K1 L) = RFound x.
Proof.
  intros L me n a b K1 K2 x Hsub Hx R.
  apply resolve_found_iff in R. destruct R as [F N]. apply resolve_found_iff. split; [|assumption].
  assert (E : filter (cand (complete me n) a b) (fk K1 L) = filter (fun e => K1 (mkey e)) (filter (cand (complete me n) a b) (fk K2 L))).
  { unfold fk. rewrite !filter_filter'. apply filter_ext_in. intros e He.
    cbv beta. destruct (K1 (mkey e)) eqn:E1.
    - rewrite (Hsub _ E1). destruct (cand (complete me n) a b e); reflexivity.
    - destruct (K2 (mkey e)), (cand (complete me n) a b e); reflexivity. }
  rewrite E, F. simpl. rewrite Hx. reflexivity.
Qed.

(* C09_standalone, core: a successful read stays the same when removed definitions are put back *)
Lemma read_grow : forall L, case_unique L -> forall f d K1 K2 t,
  (forall k, K1 k = true -> K2 k = true) ->
  read txt f d (fk K1 L) = Ok t -> read txt f d (fk K2 L) = Ok t.
Proof.
  intros L CU. induction f as [|f IH]; intros d K1 K2 t Hsub H; simpl in *; [discriminate|].
  rewrite !rm_fk in *.
  destruct (eval_items (fun x => read txt f x (fk (kminus K1 d) L)) d (fk (kminus K1 d) L) (txt (mfile d))) as [[s ks]|e] eqn:E; [|discriminate].
  assert (Hsub' : forall k, kminus K1 d k = true -> kminus K2 d k = true).
  { intros k Hk. unfold kminus in *. apply andb_true_iff in Hk. destruct Hk as [H1 H2]. rewrite (Hsub _ H1), H2. reflexivity. }
  assert (T : eval_items (fun x => read txt f x (fk (kminus K2 d) L)) d (fk (kminus K2 d) L) (txt (mfile d)) = Ok (s, ks)).
  { apply (eval_items_transfer (fun x => read txt f x (fk (kminus K1 d) L)) _ d (fk (kminus K1 d) L)); [|assumption].
    intros n a b arr x t' _ R Ht'. split.
    - eapply resolve_grow; eassumption.
    - eapply IH; eassumption. }
  rewrite T. assumption.
Qed.

(* ------------------------------------------------------------------------------------------------------------ *)
(* subtrees                                                                                                     *)

Inductive sdesc : ctree -> ctree -> Prop :=       (* sdesc t' t: t' is a strict descendant of t *)
| sd_kid : forall t k, In k (tkids t) -> sdesc k t
| sd_deep : forall t k t', In k (tkids t) -> sdesc t' k -> sdesc t' t.

Lemma read_kid : forall f d L t k, read txt f d L = Ok t -> In k (tkids t) ->
  exists f' n a b arr x, f = S f' /\ In (Ref n a b arr) (txt (mfile d)) /\ resolve d n a b (rm d L) = RFound x /\ read txt f' x (rm d L) = Ok k.
Proof.
  intros f d L t k H Hk. apply read_ok_inv in H. destruct H as [f' [s [ks [Ef [E Et]]]]]. subst. simpl in Hk.
  destruct (eval_items_kids _ _ _ _ _ _ E k Hk) as [n [a [b [arr [x [H1 [H2 H3]]]]]]].
  exists f', n, a, b, arr, x. auto.
Qed.

(* every strict descendant is the result of reading a lookup in a shrunken list *)
Lemma read_desc : forall L t' t, sdesc t' t -> forall f d K, read txt f d (fk K L) = Ok t ->
  exists f' d' K', In d' L /\ K' (mkey d') = true /\ (forall k, K' k = true -> kminus K d k = true) /\ read txt f' d' (fk K' L) = Ok t'.
Proof.
  intros L t' t Hd. induction Hd as [t k Hk|t k t' Hk Hd IH]; intros f d K H.
  - destruct (read_kid _ _ _ _ _ H Hk) as [f' [n [a [b [arr [x [Ef [Hin [R Rd]]]]]]]]].
    rewrite rm_fk in R, Rd. pose proof (resolve_found_In _ _ _ _ _ _ R) as Hx. apply fk_In in Hx.
    exists f', x, (kminus K d). split; [tauto|]. split; [tauto|]. split; [auto|assumption].
  - destruct (read_kid _ _ _ _ _ H Hk) as [f' [n [a [b [arr [x [Ef [Hin [R Rd]]]]]]]]].
    rewrite rm_fk in R, Rd.
    destruct (IH _ _ _ Rd) as [f'' [d' [K' [H1 [H2 [H3 H4]]]]]].
    exists f'', d', K'. split; [assumption|]. split; [assumption|]. split; [|assumption].
    intros k0 Hk0. apply H3 in Hk0. unfold kminus in Hk0. apply andb_true_iff in Hk0. tauto.
Qed.

(* C09_standalone *)
Lemma read_standalone : forall L, case_unique L -> forall d t, read_top txt d L = Ok t ->
  forall t', sdesc t' t -> exists d', In d' L /\ tkey t' = mkey d' /\ tfile t' = mfile d' /\ read_top txt d' L = Ok t'.
Proof.
  intros L CU d t H t' Hd. unfold read_top in H. rewrite <- (fk_all L) in H.
  destruct (read_desc L t' t Hd _ _ _ H) as [f' [d' [K' [H1 [H2 [H3 H4]]]]]].
  exists d'. split; [assumption|].
  destruct (read_ok_key _ _ _ _ H4) as [Hk Hf]. split; [assumption|]. split; [assumption|].
  apply (read_grow L CU f' d' K' kall t') in H4; [|reflexivity].
  rewrite fk_all in H4. eapply read_top_of_ok; eassumption.
Qed.

(* along every path of a returned tree the keys are pairwise different: no definition contains itself *)
Lemma read_desc_key : forall L t' t, sdesc t' t -> forall f d K, read txt f d (fk K L) = Ok t ->
  K (tkey t') = true /\ tkey t' <> mkey d.
Proof.
  intros L t' t Hd f d K H.
  destruct (read_desc L t' t Hd f d K H) as [f' [d' [K' [H1 [H2 [H3 H4]]]]]].
  destruct (read_ok_key _ _ _ _ H4) as [Hk _]. rewrite Hk.
  apply H3 in H2. unfold kminus in H2. apply andb_true_iff in H2. destruct H2 as [H2 H5].
  split; [assumption|]. apply negb_true_iff, keyb_false in H5. assumption.
Qed.

(* ------------------------------------------------------------------------------------------------------------ *)
(* cycles                                                                                                       *)

(* d contains a field whose type is written exactly as c's full name (absolute, or relative to d's namespace) and version *)
Definition refers (d c : meta) : Prop :=
  exists n a b arr, In (Ref n a b arr) (txt (mfile d)) /\ mname c = complete d n /\ mmaj c = a /\ mmin c = b.

Inductive reaches (L : list meta) : meta -> meta -> Prop :=
| reaches_one : forall d e, refers d e -> reaches L d e
| reaches_step : forall d c e, In c L -> refers d c -> reaches L c e -> reaches L d e.

Lemma refers_found : forall L f d K t c, read txt f d (fk K L) = Ok t -> refers d c ->
  exists f' x tx, f = S f' /\ mkey x = mkey c /\ In x (fk (kminus K d) L) /\
     (forall e, In e (fk (kminus K d) L) -> cand (mname c) (mmaj c) (mmin c) e = true -> e = x) /\
     read txt f' x (fk (kminus K d) L) = Ok tx.
Proof.
  intros L f d K t c H [n [a [b [arr [Hin [Hn [Ha Hb]]]]]]].
  apply read_ok_inv in H. destruct H as [f' [s [ks [Ef [E Et]]]]]. rewrite rm_fk in E.
  destruct (eval_items_refs _ _ _ _ _ E n a b arr Hin) as [x [tx [R [Rd _]]]].
  pose proof (resolve_found_props _ _ _ _ _ _ R) as [Hx [Hxn [Hxa [Hxb Hu]]]].
  exists f', x, tx. split; [assumption|]. split; [unfold mkey; congruence|]. split; [assumption|]. split; [|assumption].
  intros e He Hc. apply cand_spec in Hc. destruct Hc as [Hl [Hea Heb]].
  apply Hu; [assumption|congruence|congruence|congruence].
Qed.

(* whatever d reaches through exactly spelled references has a key that is still available below d, and is not d's *)
Lemma reaches_key : forall L d e, reaches L d e -> forall f K t, read txt f d (fk K L) = Ok t ->
  K (mkey e) = true /\ mkey e <> mkey d.
Proof.
  intros L d e Hr. induction Hr as [d e Hre|d c e Hc Hre Hr IH]; intros f K t H.
  - destruct (refers_found L f d K t e H Hre) as [f' [x [tx [_ [Hk [Hx _]]]]]].
    apply fk_In in Hx. destruct Hx as [_ Hx]. rewrite Hk in Hx. unfold kminus in Hx.
    apply andb_true_iff in Hx. destruct Hx as [H1 H2]. apply negb_true_iff, keyb_false in H2. auto.
  - destruct (refers_found L f d K t c H Hre) as [f' [x [tx [Ef [Hk [Hx [Hu Rd]]]]]]].
    assert (Hcx : c = x).
    { apply Hu.
      - apply fk_In. split; [assumption|]. apply fk_In in Hx. destruct Hx as [_ Hx]. rewrite Hk in Hx. assumption.
      - apply cand_spec. auto. }
    subst x. destruct (IH _ _ _ Rd) as [H1 H2]. unfold kminus in H1. apply andb_true_iff in H1.
    destruct H1 as [H1 H3]. apply negb_true_iff, keyb_false in H3. auto.
Qed.

(* C09_cycles: a definition that reaches its own key (self reference included) is never read successfully,
   whichever member of the cycle the reading starts from and whatever has been removed from the lookup list *)
Lemma read_cycle : forall L d e, reaches L d e -> mkey e = mkey d -> forall f K t, read txt f d (fk K L) <> Ok t.
Proof.
  intros L d e Hr Hk f K t H. destruct (reaches_key L d e Hr f K t H) as [_ H2]. contradiction.
Qed.

Lemma read_top_cycle : forall L d e, reaches L d e -> mkey e = mkey d -> exists err, read_top txt d L = Err err /\ err <> EFuel.
Proof.
  intros L d e Hr Hk. destruct (read_top txt d L) as [t|err] eqn:E.
  - exfalso. unfold read_top in E. rewrite <- (fk_all L) in E. exact (read_cycle L d e Hr Hk _ _ _ E).
  - exists err. split; [reflexivity|]. intro. subst. exact (read_top_terminates d L E).
Qed.

End Pure.
