(* C19 - noninterference at the level of the public entry points. *)
From Coq Require Import ZArith List Bool.
From PV Require Import Namespace.Reader Namespace.ReaderProofs Namespace.Listing Namespace.Closure.
Import ListNotations.
Open Scope Z_scope.

(* the targets and the lookup list of a call (when the directories are accepted and all file names parse) *)
Definition call_lists (files : list fent) (q : query) : option (list meta * list meta) :=
  match q with
  | QNamespace root lookups allow =>
      match listing [root] files, listing (dedupe_dirs (lookups ++ [root])) files with
      | Ok targets, Ok L => Some (targets, L)
      | _, _ => None
      end
  | QFiles ids roots lookups =>
      match targets_of files roots ids with
      | Ok ps =>
          let ps := dedupe_files ps in
          match listing (dedupe_dirs (lookups ++ map fst ps ++ roots)) files with
          | Ok L => Some (sort_metas (map (fun rf => mk_meta (fst rf) (snd rf)) ps), L)
          | Err _ => None
          end
      | Err _ => None
      end
  end.

Theorem run_query_agree : forall txt txt' files q,
  (forall targets L, call_lists files q = Some (targets, L) ->
     forall d, reach txt L targets d -> txt (mfile d) = txt' (mfile d)) ->
  run_query txt files q = run_query txt' files q.
Proof.
  intros txt txt' files q H. destruct q as [root lookups allow|ids roots lookups]; simpl in *.
  - unfold run_namespace. destruct (dirs_rejected allow _); [reflexivity|].
    destruct (listing [root] files) as [targets|e]; [|reflexivity].
    destruct targets as [|t0 ts]; [reflexivity|].
    destruct (listing (dedupe_dirs (lookups ++ [root])) files) as [L|e]; [|reflexivity].
    apply complete_read_agree. apply H. reflexivity.
  - unfold run_files. destruct (targets_of files roots ids) as [ps|e]; [|reflexivity].
    destruct ps as [|p ps]; [reflexivity|].
    destruct (dirs_rejected true _); [reflexivity|].
    destruct (listing _ files) as [L|e]; [|reflexivity].
    apply complete_read_agree. apply H. reflexivity.
Qed.
