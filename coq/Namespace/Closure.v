(* C19 - the dependency closure of a set of targets and the noninterference theorem: the outcome of reading is a
   function of the texts of the closure (and of the file names of the lookups) only. *)
From Coq Require Import ZArith List Bool Lia.
From PV Require Import Namespace.Reader Namespace.ReaderProofs Namespace.ReadPure.
Import ListNotations.
Open Scope Z_scope.

(* the closure: the targets, and every lookup whose lower-cased name and version match a reference written in the
   text of a member (all case-insensitive candidates: an over-approximation of what is really read) *)
Inductive reach (txt : Z -> list item) (L T : list meta) : meta -> Prop :=
| reach_t : forall d, In d T -> reach txt L T d
| reach_ref : forall d n a b arr x, reach txt L T d -> In (Ref n a b arr) (txt (mfile d)) -> In x L ->
    cand (complete d n) a b x = true -> reach txt L T x.

Lemma rm_incl : forall d M, incl (rm d M) M.
Proof. intros d M x H. unfold rm in H. apply filter_In in H. tauto. Qed.

Lemma found_cand : forall me n a b M x, resolve me n a b M = RFound x -> In x M /\ cand (complete me n) a b x = true.
Proof.
  intros. apply resolve_found_props in H. destruct H as [H1 [H2 [H3 [H4 _]]]]. split; [assumption|].
  apply cand_spec. rewrite H2. auto.
Qed.

(* extensionality of the evaluation of a body in the reader used for the references that get resolved *)
Lemma eval_itemsS_ext : forall (rd1 rd2 : meta -> cache -> res (ctree * cache * list event)) me M its line c,
  (forall n a b arr x c0, In (Ref n a b arr) its -> resolve me n a b M = RFound x -> rd1 x c0 = rd2 x c0) ->
  eval_itemsS rd1 me M line its c = eval_itemsS rd2 me M line its c.
Proof.
  intros rd1 rd2 me M. induction its as [|it its IH]; intros line c H; simpl; [reflexivity|].
  assert (H' : forall n a b arr x c0, In (Ref n a b arr) its -> resolve me n a b M = RFound x -> rd1 x c0 = rd2 x c0).
  { intros. eapply H; [right; eassumption|eassumption]. }
  destruct it as [n a b arr| | |w].
  - destruct (resolve me n a b M) as [x| | |] eqn:R; try reflexivity.
    rewrite <- (H n a b arr x c (or_introl eq_refl) R).
    destruct (rd1 x c) as [[[t c1] ev1]|e]; [|reflexivity]. rewrite (IH (line + 1) c1 H'). reflexivity.
  - rewrite (IH (line + 1) c H'). reflexivity.
  - reflexivity.
  - rewrite (IH (line + 1) c H'). reflexivity.
Qed.

Section NI.
Variables txt txt' : Z -> list item.
Variables L T : list meta.
Hypothesis agree : forall d, reach txt L T d -> txt (mfile d) = txt' (mfile d).

Lemma readS_agree : forall f tk d M c, reach txt L T d -> incl M L -> readS txt f tk d M c = readS txt' f tk d M c.
Proof.
  induction f as [|f IH]; intros tk d M c Hr Hi; simpl; [reflexivity|].
  destruct (cache_get (tk, mfile d) c); [reflexivity|].
  rewrite <- (agree d Hr).
  rewrite (eval_itemsS_ext (fun x c' => readS txt f false x (rm d M) c') (fun x c' => readS txt' f false x (rm d M) c')); [reflexivity|].
  intros n a b arr x c0 Hin R. apply found_cand in R. destruct R as [Hx Hc].
  assert (Hx' : In x M) by (apply (rm_incl d M); assumption).
  apply IH.
  - eapply reach_ref; [exact Hr|exact Hin|apply Hi; exact Hx'|exact Hc].
  - intros y Hy. apply Hi. apply (rm_incl d M). assumption.
Qed.

Lemma step0_agree : forall st d, In d T -> step0 txt L st d = step0 txt' L st d.
Proof.
  intros st d Hd. unfold step0.
  destruct (pool_setdefault (mfile d) (true, mfile d) (rpool st)) as [o p1].
  destruct (match cache_get o (rcache st) with
            | Some t => if cmem t (rdirect st) || cmem t (rtrans st) then Some t else None
            | None => None end); [reflexivity|].
  rewrite (readS_agree (S (length L)) (fst o) d L (rcache st) (reach_t _ _ _ d Hd) (incl_refl L)). reflexivity.
Qed.

Lemma run_targets_agree : forall ts st, incl ts T -> run_targets txt L st ts = run_targets txt' L st ts.
Proof.
  induction ts as [|d ts IH]; intros st Hi; simpl; [reflexivity|].
  rewrite (step0_agree st d (Hi d (or_introl eq_refl))).
  destruct (step0 txt' L st d); [|reflexivity]. apply IH. intros x Hx. apply Hi. right. assumption.
Qed.
End NI.

(* C19_noninterference *)
Theorem complete_read_agree : forall txt txt' L T,
  (forall d, reach txt L T d -> txt (mfile d) = txt' (mfile d)) ->
  complete_read txt T L = complete_read txt' T L.
Proof.
  intros txt txt' L T H. unfold complete_read.
  rewrite (run_targets_agree txt txt' L T H T st0 (incl_refl T)). reflexivity.
Qed.

(* ------------------------------------------------------------------------------------------------------------ *)
(* only members of the closure are opened / have their directives evaluated                                      *)

Section Opened.
Variable txt : Z -> list item.
Variables L T : list meta.

Definition ev_ok (e : event) : Prop :=
  match e with
  | EvOpen f => exists x, reach txt L T x /\ mfile x = f
  | EvPrint f _ => exists x, reach txt L T x /\ mfile x = f
  | EvDep x => reach txt L T x
  end.

Lemma eval_itemsS_events : forall (rd : meta -> cache -> res (ctree * cache * list event)) me M,
  reach txt L T me -> incl M L ->
  (forall x c0 t c1 ev, In x M -> reach txt L T x -> rd x c0 = Ok (t, c1, ev) -> Forall ev_ok ev) ->
  forall its line c s ks c' ev, (forall it, In it its -> In it (txt (mfile me))) ->
  eval_itemsS rd me M line its c = Ok (s, ks, c', ev) -> Forall ev_ok ev.
Proof.
  intros rd me M Hme Hi Hrd. induction its as [|it its IH]; intros line c s ks c' ev Hsub E; simpl in E.
  - inversion E; subst. constructor.
  - assert (Hsub' : forall it0, In it0 its -> In it0 (txt (mfile me))) by (intros; apply Hsub; right; assumption).
    destruct it as [n a b arr| | |w].
    + destruct (resolve me n a b M) as [x| | |] eqn:R; try discriminate.
      destruct (rd x c) as [[[t c1] ev1]|e] eqn:Rd; [|discriminate].
      destruct (eval_itemsS rd me M (line + 1) its c1) as [[[[s' ts] c2] ev2]|e] eqn:Ev; [|discriminate].
      inversion E; subst. apply found_cand in R. destruct R as [Hx Hc].
      assert (Hrx : reach txt L T x).
      { eapply reach_ref; [exact Hme|apply Hsub; left; reflexivity|apply Hi; exact Hx|exact Hc]. }
      constructor; [exact Hrx|]. apply Forall_app. split.
      * eapply Hrd; eassumption.
      * eapply IH; eassumption.
    + destruct (eval_itemsS rd me M (line + 1) its c) as [[[[s' ts] c2] ev2]|e] eqn:Ev; [|discriminate].
      inversion E; subst. constructor; [exists me; auto|]. eapply IH; eassumption.
    + discriminate.
    + destruct (eval_itemsS rd me M (line + 1) its c) as [[[[s' ts] c2] ev2]|e] eqn:Ev; [|discriminate].
      inversion E; subst. eapply IH; eassumption.
Qed.

Lemma readS_events : forall f tk d M c t c' ev, reach txt L T d -> incl M L ->
  readS txt f tk d M c = Ok (t, c', ev) -> Forall ev_ok ev.
Proof.
  induction f as [|f IH]; intros tk d M c t c' ev Hr Hi H; simpl in H; [discriminate|].
  destruct (cache_get (tk, mfile d) c); [inversion H; subst; constructor|].
  destruct (eval_itemsS (fun x c'0 => readS txt f false x (rm d M) c'0) d (rm d M) 1 (txt (mfile d)) c)
    as [[[[s ks] c1] ev1]|e] eqn:E; [|discriminate].
  inversion H; subst. constructor; [exists d; auto|].
  eapply (eval_itemsS_events _ d (rm d M) Hr); [| |intros it Hit; exact Hit|exact E].
  - intros y Hy. apply Hi. apply (rm_incl d M). assumption.
  - intros x c0 t0 c2 ev0 Hx Hrx Hrd. eapply IH; [exact Hrx| |exact Hrd].
    intros y Hy. apply Hi. apply (rm_incl d M). assumption.
Qed.

Definition st_ok (st : rstate) : Prop :=
  (forall f, In f (ropened st) -> exists x, reach txt L T x /\ mfile x = f) /\
  (forall h f l, In (h, f, l) (rdeliv st) -> exists x, reach txt L T x /\ mfile x = f).

Lemma opened_of_ok : forall ev, Forall ev_ok ev -> forall f, In f (opened_of ev) -> exists x, reach txt L T x /\ mfile x = f.
Proof.
  induction ev as [|e ev IH]; intros F f Hf; simpl in Hf; [contradiction|].
  inversion F as [|? ? He F']; subst. destruct e as [g|g l|x]; simpl in Hf.
  - destruct Hf as [Hf|Hf]; [subst; exact He|apply IH; assumption].
  - apply IH; assumption.
  - apply IH; assumption.
Qed.

Lemma prints_of_ok : forall h ev, Forall ev_ok ev -> forall h' f l, In (h', f, l) (prints_of h ev) -> exists x, reach txt L T x /\ mfile x = f.
Proof.
  induction ev as [|e ev IH]; intros F h' f l Hf; simpl in Hf; [contradiction|].
  inversion F as [|? ? He F']; subst. destruct e as [g|g l0|x]; simpl in Hf.
  - eapply IH; eassumption.
  - destruct Hf as [Hf|Hf]; [inversion Hf; subst; exact He|eapply IH; eassumption].
  - eapply IH; eassumption.
Qed.

Lemma absorb_all_same_log : forall xs st st', absorb_all st xs = Ok st' -> ropened st' = ropened st /\ rdeliv st' = rdeliv st.
Proof.
  induction xs as [|x xs IH]; intros st st' H; simpl in H; [inversion H; auto|].
  destruct (absorb st x) as [st1|e] eqn:A; [|discriminate].
  destruct (IH _ _ H) as [H1 H2]. rewrite H1, H2. unfold absorb in A.
  destruct (pool_setdefault (mfile x) (false, mfile x) (rpool st)) as [o p1].
  destruct (cache_get o (rcache st)); [|discriminate].
  destruct (cmem c (rdirect st) || cmem c (rtrans st)); inversion A; subst; auto.
Qed.

Lemma step0_ok : forall st d st', In d T -> st_ok st -> step0 txt L st d = Ok st' -> st_ok st'.
Proof.
  intros st d st' Hd [Ho Hp] H. unfold step0 in H.
  destruct (pool_setdefault (mfile d) (true, mfile d) (rpool st)) as [o p1].
  destruct (match cache_get o (rcache st) with
            | Some t => if cmem t (rdirect st) || cmem t (rtrans st) then Some t else None
            | None => None end) as [t|].
  - destruct (cmem t (rtrans st)); inversion H; subst; split; assumption.
  - destruct (readS txt (S (length L)) (fst o) d L (rcache st)) as [[[t c1] ev]|e] eqn:R; [|discriminate].
    pose proof (readS_events _ _ _ _ _ _ _ _ (reach_t _ _ _ d Hd) (incl_refl L) R) as F.
    apply absorb_all_same_log in H. destruct H as [H1 H2]. unfold st_ok. rewrite H1, H2. simpl. split.
    + intros f Hf. apply in_app_iff in Hf. destruct Hf as [Hf|Hf]; [apply Ho; assumption|eapply opened_of_ok; eassumption].
    + intros h f l Hf. apply in_app_iff in Hf. destruct Hf as [Hf|Hf]; [eapply Hp; eassumption|eapply prints_of_ok; eassumption].
Qed.

Lemma run_targets_ok : forall ts st st', incl ts T -> st_ok st -> run_targets txt L st ts = Ok st' -> st_ok st'.
Proof.
  induction ts as [|d ts IH]; intros st st' Hi Hs H; simpl in H; [inversion H; subst; assumption|].
  destruct (step0 txt L st d) as [st1|e] eqn:S; [|discriminate].
  eapply IH; [|eapply step0_ok; [apply Hi; left; reflexivity|exact Hs|exact S]|exact H].
  intros x Hx. apply Hi. right. assumption.
Qed.

(* C19_opened_in_closure *)
Theorem complete_read_opened : forall out, complete_read txt T L = Ok out ->
  (forall f, In f (oopened out) -> exists x, reach txt L T x /\ mfile x = f) /\
  (forall h f l, In (h, f, l) (odeliv out) -> exists x, reach txt L T x /\ mfile x = f).
Proof.
  intros out H. unfold complete_read in H.
  destruct (run_targets txt L st0 T) as [st|e] eqn:R; [|discriminate].
  assert (S0 : st_ok st0) by (split; intros; contradiction).
  pose proof (run_targets_ok T st0 st (incl_refl T) S0 R) as [Ho Hp].
  destruct (ports_ok _ && minors_ok _); [|discriminate]. inversion H; subst. simpl. split; assumption.
Qed.
End Opened.
