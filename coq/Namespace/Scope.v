(* C19 - a lookup definition that is no candidate for any reference of the closure can be removed from (added to)
   the lookup list without changing the outcome - whatever its version, port-ID or text: the cross-definition checks
   only see direct (port-IDs) and transitive + direct (minor versions), never the other lookups. *)
From Coq Require Import ZArith List Bool Lia.
From PV Require Import Namespace.Reader Namespace.ReaderProofs Namespace.ReadPure Namespace.ReadCache Namespace.Closure.
Import ListNotations.
Open Scope Z_scope.

Definition drop (ef : Z) (M : list meta) : list meta := filter (fun x => negb (mfile x =? ef)) M.

Lemma drop_In : forall ef M x, In x (drop ef M) <-> In x M /\ mfile x <> ef.
Proof.
  intros. unfold drop. rewrite filter_In, negb_true_iff, Z.eqb_neq. tauto.
Qed.

Lemma filter_comm : forall {A} (p q : A -> bool) l, filter p (filter q l) = filter q (filter p l).
Proof.
  intros. rewrite !filter_filter'. apply filter_ext. intro. apply andb_comm.
Qed.

Lemma rm_drop : forall d ef M, rm d (drop ef M) = drop ef (rm d M).
Proof. intros. unfold rm, drop. apply filter_comm. Qed.

Lemma drop_length : forall ef M, (length (drop ef M) <= length M)%nat.
Proof. intros. apply filter_length_le. Qed.

(* ------------------------------------------------------------------------------------------------------------ *)
(* fuel independence of the cached reader                                                                       *)

Lemma eval_itemsS_agree_fuel : forall (rd rd' : meta -> cache -> res (ctree * cache * list event)) me M its line c,
  (forall x c0, In x M -> rd x c0 <> Err EFuel -> rd' x c0 = rd x c0) ->
  eval_itemsS rd me M line its c <> Err EFuel -> eval_itemsS rd' me M line its c = eval_itemsS rd me M line its c.
Proof.
  intros rd rd' me M. induction its as [|it its IH]; intros line c H NF; simpl in *; [reflexivity|].
  destruct it as [n a b arr| | |w].
  - destruct (resolve me n a b M) as [x| | |] eqn:R; try reflexivity.
    pose proof (resolve_found_In _ _ _ _ _ _ R) as Hx.
    destruct (rd x c) as [[[t c1] ev1]|e] eqn:Rd.
    + rewrite (H x c Hx) by congruence. rewrite Rd.
      rewrite IH; [reflexivity|assumption|].
      destruct (eval_itemsS rd me M (line + 1) its c1) as [[[[s ts] c2] ev2]|e]; [discriminate|congruence].
    + rewrite (H x c Hx) by congruence. rewrite Rd. reflexivity.
  - rewrite IH; [reflexivity|assumption|].
    destruct (eval_itemsS rd me M (line + 1) its c) as [[[[s ts] c2] ev2]|e]; [discriminate|congruence].
  - reflexivity.
  - rewrite IH; [reflexivity|assumption|].
    destruct (eval_itemsS rd me M (line + 1) its c) as [[[[s ts] c2] ev2]|e]; [discriminate|congruence].
Qed.

Lemma readS_fuel_mono : forall txt f tk d M c, readS txt f tk d M c <> Err EFuel ->
  forall f', (f <= f')%nat -> readS txt f' tk d M c = readS txt f tk d M c.
Proof.
  intro txt. induction f as [|f IH]; intros tk d M c NF f' Hle; simpl in *; [congruence|].
  destruct f' as [|f']; [lia|]. simpl.
  destruct (cache_get (tk, mfile d) c); [reflexivity|].
  rewrite (eval_itemsS_agree_fuel (fun x c' => readS txt f false x (rm d M) c') (fun x c' => readS txt f' false x (rm d M) c')).
  - reflexivity.
  - intros x c0 _ Hx. apply IH; [assumption|lia].
  - destruct (eval_itemsS (fun x c' => readS txt f false x (rm d M) c') d (rm d M) 1 (txt (mfile d)) c) as [[[[s ks] c1] ev]|e];
      [discriminate|congruence].
Qed.

(* ------------------------------------------------------------------------------------------------------------ *)

Lemma eval_itemsS_ext2 : forall (rd1 rd2 : meta -> cache -> res (ctree * cache * list event)) me M M2 its line c,
  (forall n a b arr, In (Ref n a b arr) its -> resolve me n a b M = resolve me n a b M2) ->
  (forall n a b arr x c0, In (Ref n a b arr) its -> resolve me n a b M = RFound x -> rd1 x c0 = rd2 x c0) ->
  eval_itemsS rd1 me M line its c = eval_itemsS rd2 me M2 line its c.
Proof.
  intros rd1 rd2 me M M2. induction its as [|it its IH]; intros line c HR H; simpl; [reflexivity|].
  assert (HR' : forall n a b arr, In (Ref n a b arr) its -> resolve me n a b M = resolve me n a b M2).
  { intros. eapply HR. right. eassumption. }
  assert (H' : forall n a b arr x c0, In (Ref n a b arr) its -> resolve me n a b M = RFound x -> rd1 x c0 = rd2 x c0).
  { intros. eapply H; [right; eassumption|eassumption]. }
  destruct it as [n a b arr| | |w].
  - rewrite <- (HR n a b arr (or_introl eq_refl)).
    destruct (resolve me n a b M) as [x| | |] eqn:R; try reflexivity.
    rewrite <- (H n a b arr x c (or_introl eq_refl) R).
    destruct (rd1 x c) as [[[t c1] ev1]|e]; [|reflexivity]. rewrite (IH (line + 1) c1 HR' H'). reflexivity.
  - rewrite (IH (line + 1) c HR' H'). reflexivity.
  - reflexivity.
  - rewrite (IH (line + 1) c HR' H'). reflexivity.
Qed.

Section Scope.
Variable txt : Z -> list item.
Variables L T : list meta.
Variable ef : Z.                       (* the file of the definition(s) in question *)

(* no lookup with that file is a candidate for a reference written in the closure (closure taken without it) *)
Hypothesis not_cand : forall d, reach txt (drop ef L) T d -> forall n a b arr, In (Ref n a b arr) (txt (mfile d)) ->
  forall y, In y L -> mfile y = ef -> cand (complete d n) a b y = false.
Hypothesis not_target : forall d, In d T -> mfile d <> ef.

Lemma resolve_drop : forall d n a b arr M, reach txt (drop ef L) T d -> In (Ref n a b arr) (txt (mfile d)) -> incl M L ->
  resolve d n a b M = resolve d n a b (drop ef M).
Proof.
  intros d n a b arr M Hr Hin Hi. apply resolve_ext. unfold drop. rewrite filter_comm.
  symmetry. rewrite <- (filter_ext_in (fun _ => true)).
  - clear. induction (filter (cand (complete d n) a b) M) as [|x l IH]; simpl; [reflexivity|]. f_equal. assumption.
  - intros y Hy. apply filter_In in Hy. destruct Hy as [Hy Hc]. symmetry. apply negb_true_iff, Z.eqb_neq.
    intro E. rewrite (not_cand d Hr n a b arr Hin y (Hi y Hy) E) in Hc. discriminate.
Qed.

Lemma readS_drop : forall f tk d M c, reach txt (drop ef L) T d -> incl M L ->
  readS txt f tk d M c = readS txt f tk d (drop ef M) c.
Proof.
  induction f as [|f IH]; intros tk d M c Hr Hi; simpl; [reflexivity|].
  destruct (cache_get (tk, mfile d) c); [reflexivity|].
  rewrite rm_drop.
  assert (Hi' : incl (rm d M) L) by (intros y Hy; apply Hi; apply (rm_incl d M); assumption).
  rewrite (eval_itemsS_ext2 (fun x c' => readS txt f false x (rm d M) c') (fun x c' => readS txt f false x (drop ef (rm d M)) c')
             d (rm d M) (drop ef (rm d M))); [reflexivity| |].
  - intros n a b arr Hin. eapply resolve_drop; eassumption.
  - intros n a b arr x c0 Hin R. apply found_cand in R. destruct R as [Hx Hc].
    apply IH; [|assumption].
    eapply reach_ref; [exact Hr|exact Hin| |exact Hc].
    apply drop_In. split; [apply Hi'; assumption|].
    intro E. rewrite (not_cand d Hr n a b arr Hin x (Hi' x Hx) E) in Hc. discriminate.
Qed.

Lemma readS_top_drop : forall tk d c, reach txt (drop ef L) T d ->
  readS txt (S (length L)) tk d L c = readS txt (S (length (drop ef L))) tk d (drop ef L) c.
Proof.
  intros tk d c Hr. rewrite (readS_drop _ tk d L c Hr (incl_refl L)).
  apply readS_fuel_mono; [apply readS_top_terminates|]. pose proof (drop_length ef L). lia.
Qed.

Lemma step0_drop : forall st d, In d T -> step0 txt L st d = step0 txt (drop ef L) st d.
Proof.
  intros st d Hd. unfold step0.
  destruct (pool_setdefault (mfile d) (true, mfile d) (rpool st)) as [o p1].
  destruct (match cache_get o (rcache st) with
            | Some t => if cmem t (rdirect st) || cmem t (rtrans st) then Some t else None
            | None => None end); [reflexivity|].
  rewrite (readS_top_drop (fst o) d (rcache st) (reach_t _ _ _ d Hd)). reflexivity.
Qed.

Lemma run_targets_drop : forall ts st, incl ts T -> run_targets txt L st ts = run_targets txt (drop ef L) st ts.
Proof.
  induction ts as [|d ts IH]; intros st Hi; simpl; [reflexivity|].
  rewrite (step0_drop st d (Hi d (or_introl eq_refl))).
  destruct (step0 txt (drop ef L) st d); [|reflexivity]. apply IH. intros x Hx. apply Hi. right. assumption.
Qed.

(* every composite held by the reader was built from a member of the closure *)
Definition tree_ok (t : ctree) : Prop := exists x, reach txt (drop ef L) T x /\ mfile x = tfile t.
Definition cache_ok (c : cache) : Prop := forall o t, cache_get o c = Some t -> tree_ok t.

Lemma eval_itemsS_cache_ok : forall (rd : meta -> cache -> res (ctree * cache * list event)) me M,
  reach txt (drop ef L) T me -> incl M (drop ef L) ->
  (forall x c0 t c1 ev, In x M -> reach txt (drop ef L) T x -> cache_ok c0 -> rd x c0 = Ok (t, c1, ev) -> cache_ok c1) ->
  forall its line c s ks c' ev, (forall it, In it its -> In it (txt (mfile me))) -> cache_ok c ->
  eval_itemsS rd me M line its c = Ok (s, ks, c', ev) -> cache_ok c'.
Proof.
  intros rd me M Hme Hi Hrd. induction its as [|it its IH]; intros line c s ks c' ev Hsub Hc E; simpl in E.
  - inversion E; subst. assumption.
  - assert (Hsub' : forall it0, In it0 its -> In it0 (txt (mfile me))) by (intros; apply Hsub; right; assumption).
    destruct it as [n a b arr| | |w].
    + destruct (resolve me n a b M) as [x| | |] eqn:R; try discriminate.
      destruct (rd x c) as [[[t c1] ev1]|e] eqn:Rd; [|discriminate].
      destruct (eval_itemsS rd me M (line + 1) its c1) as [[[[s' ts] c2] ev2]|e] eqn:Ev; [|discriminate].
      inversion E; subst. apply found_cand in R. destruct R as [Hx Hcd].
      assert (Hrx : reach txt (drop ef L) T x).
      { eapply reach_ref; [exact Hme|apply Hsub; left; reflexivity|apply Hi; exact Hx|exact Hcd]. }
      eapply IH; [exact Hsub'| |exact Ev]. eapply Hrd; eassumption.
    + destruct (eval_itemsS rd me M (line + 1) its c) as [[[[s' ts] c2] ev2]|e] eqn:Ev; [|discriminate].
      inversion E; subst. eapply IH; eassumption.
    + discriminate.
    + destruct (eval_itemsS rd me M (line + 1) its c) as [[[[s' ts] c2] ev2]|e] eqn:Ev; [|discriminate].
      inversion E; subst. eapply IH; eassumption.
Qed.

Lemma readS_cache_ok : forall f tk d M c t c' ev, reach txt (drop ef L) T d -> incl M (drop ef L) -> cache_ok c ->
  readS txt f tk d M c = Ok (t, c', ev) -> cache_ok c' /\ tree_ok t.
Proof.
  induction f as [|f IH]; intros tk d M c t c' ev Hr Hi Hc H; simpl in H; [discriminate|].
  destruct (cache_get (tk, mfile d) c) as [t0|] eqn:G.
  - inversion H; subst. split; [assumption|]. eapply Hc; eassumption.
  - destruct (eval_itemsS (fun x c'0 => readS txt f false x (rm d M) c'0) d (rm d M) 1 (txt (mfile d)) c)
      as [[[[s ks] c1] ev1]|e] eqn:E; [|discriminate].
    inversion H; subst.
    assert (Hi' : incl (rm d M) (drop ef L)) by (intros y Hy; apply Hi; apply (rm_incl d M); assumption).
    assert (Hc1 : cache_ok c1).
    { eapply (eval_itemsS_cache_ok _ d (rm d M) Hr Hi'); [|intros it Hit; exact Hit|exact Hc|exact E].
      intros x c0 t0 c2 ev0 Hx Hrx Hc0 Hrd. eapply (IH false x (rm d M) c0 t0 c2 ev0 Hrx Hi' Hc0 Hrd). }
    assert (Ht : tree_ok (node_of d s ks)) by (exists d; split; [assumption|reflexivity]).
    split; [|assumption].
    intros o t0 Ho. simpl in Ho. destruct (okey_eqb o (tk, mfile d)); [inversion Ho; subst; assumption|eapply Hc1; eassumption].
Qed.

Definition st_trees_ok (st : rstate) : Prop :=
  cache_ok (rcache st) /\ (forall t, In t (rdirect st) -> tree_ok t) /\ (forall t, In t (rtrans st) -> tree_ok t).

Lemma cadd_In : forall t s x, In x (cadd t s) -> In x s \/ x = t.
Proof.
  intros t s x H. unfold cadd in H. destruct (cmem t s); [left; assumption|].
  apply in_app_iff in H. destruct H as [H|[H|[]]]; auto.
Qed.

Lemma cremove_In : forall t s x, In x (cremove t s) -> In x s.
Proof. intros t s x H. unfold cremove in H. apply filter_In in H. tauto. Qed.

Lemma cmem_In : forall t s, cmem t s = true -> exists x, In x s /\ ceq t x = true.
Proof. intros t s H. unfold cmem in H. apply existsb_exists in H. exact H. Qed.

Lemma absorb_trees_ok : forall st x st', st_trees_ok st -> absorb st x = Ok st' -> st_trees_ok st'.
Proof.
  intros st x st' [Hc [Hd Ht]] H. unfold absorb in H.
  destruct (pool_setdefault (mfile x) (false, mfile x) (rpool st)) as [o p1].
  destruct (cache_get o (rcache st)) as [t|] eqn:G; [|discriminate].
  destruct (cmem t (rdirect st) || cmem t (rtrans st)); inversion H; subst; (split; [exact Hc|split; [exact Hd|]]); simpl.
  - exact Ht.
  - intros t0 H0. apply cadd_In in H0. destruct H0 as [H0|H0]; [apply Ht; assumption|subst; eapply Hc; eassumption].
Qed.

Lemma absorb_all_trees_ok : forall xs st st', st_trees_ok st -> absorb_all st xs = Ok st' -> st_trees_ok st'.
Proof.
  induction xs as [|x xs IH]; intros st st' Hs H; simpl in H; [inversion H; subst; assumption|].
  destruct (absorb st x) as [st1|e] eqn:A; [|discriminate]. eapply IH; [eapply absorb_trees_ok; eassumption|exact H].
Qed.

Lemma step0_trees_ok : forall st d st', In d T -> st_trees_ok st -> step0 txt (drop ef L) st d = Ok st' -> st_trees_ok st'.
Proof.
  intros st d st' Hd [Hc [Hdi Htr]] H. unfold step0 in H.
  destruct (pool_setdefault (mfile d) (true, mfile d) (rpool st)) as [o p1].
  destruct (match cache_get o (rcache st) with
            | Some t => if cmem t (rdirect st) || cmem t (rtrans st) then Some t else None
            | None => None end) as [t|] eqn:SK.
  - assert (Ht : tree_ok t).
    { destruct (cache_get o (rcache st)) as [t0|] eqn:G; [|discriminate].
      destruct (cmem t0 (rdirect st) || cmem t0 (rtrans st)); [|discriminate]. inversion SK; subst. eapply Hc; eassumption. }
    destruct (cmem t (rtrans st)); inversion H; subst; (split; [exact Hc|]); simpl; split; auto.
    + intros t0 H0. apply cadd_In in H0. destruct H0 as [H0|H0]; [auto|subst; assumption].
    + intros t0 H0. apply cremove_In in H0. auto.
  - destruct (readS txt (S (length (drop ef L))) (fst o) d (drop ef L) (rcache st)) as [[[t c1] ev]|e] eqn:R; [|discriminate].
    destruct (readS_cache_ok _ _ _ _ _ _ _ _ (reach_t _ _ _ d Hd) (incl_refl _) Hc R) as [Hc1 Ht].
    eapply absorb_all_trees_ok; [|exact H]. split; [exact Hc1|]. simpl. split.
    + intros t0 H0. apply cadd_In in H0. destruct H0 as [H0|H0]; [auto|subst; assumption].
    + intros t0 H0. apply cremove_In in H0. auto.
Qed.

Lemma run_targets_trees_ok : forall ts st st', incl ts T -> st_trees_ok st -> run_targets txt (drop ef L) st ts = Ok st' -> st_trees_ok st'.
Proof.
  induction ts as [|d ts IH]; intros st st' Hi Hs H; simpl in H; [inversion H; subst; assumption|].
  destruct (step0 txt (drop ef L) st d) as [st1|e] eqn:S; [|discriminate].
  eapply IH; [|eapply step0_trees_ok; [apply Hi; left; reflexivity|exact Hs|exact S]|exact H].
  intros x Hx. apply Hi. right. assumption.
Qed.

Lemma reach_file : forall x, reach txt (drop ef L) T x -> mfile x <> ef.
Proof.
  intros x H. destruct H as [d Hd|d n a b arr x Hr Hin Hx Hc]; [apply not_target; assumption|].
  apply drop_In in Hx. tauto.
Qed.

Lemma find_drop : forall g M, g <> ef -> find (fun d => mfile d =? g) (drop ef M) = find (fun d => mfile d =? g) M.
Proof.
  intros g M Hg. induction M as [|y M IH]; simpl; [reflexivity|].
  destruct (mfile y =? ef) eqn:E; simpl.
  - apply Z.eqb_eq in E. destruct (mfile y =? g) eqn:E2; [apply Z.eqb_eq in E2; congruence|assumption].
  - destruct (mfile y =? g); [reflexivity|assumption].
Qed.

Lemma map_port_drop : forall ts, (forall t, In t ts -> tree_ok t) ->
  map (fun t => (t, port_of L t)) ts = map (fun t => (t, port_of (drop ef L) t)) ts.
Proof.
  intros ts H. apply map_ext_in. intros t Ht. f_equal. unfold port_of.
  destruct (H t Ht) as [x [Hr Hf]]. rewrite find_drop; [reflexivity|]. rewrite <- Hf. apply reach_file. assumption.
Qed.

Lemma isort_In : forall {A} (leb : A -> A -> bool) l x, In x (isort leb l) -> In x l.
Proof.
  intros A leb. assert (Hins : forall y l x, In x (insert leb y l) -> x = y \/ In x l).
  { induction l as [|z l IH]; simpl; intros x H.
    - destruct H as [H|[]]; auto.
    - destruct (leb y z); simpl in H.
      + destruct H as [H|H]; auto.
      + destruct H as [H|H]; [auto|]. destruct (IH _ H); auto. }
  induction l as [|y l IH]; simpl; intros x H; [contradiction|].
  destruct (Hins _ _ _ H) as [E|E]; [auto|right; apply IH; assumption].
Qed.

(* C19_checks_scope *)
Theorem complete_read_drop : complete_read txt T L = complete_read txt T (drop ef L).
Proof.
  unfold complete_read. rewrite (run_targets_drop T st0 (incl_refl T)).
  destruct (run_targets txt (drop ef L) st0 T) as [st|e] eqn:R; [|reflexivity].
  assert (S0 : st_trees_ok st0).
  { split; [intros o t H; discriminate|]. split; intros t H; contradiction. }
  destruct (run_targets_trees_ok T st0 st (incl_refl T) S0 R) as [_ [Hd Ht]].
  rewrite (map_port_drop (sort_trees (rdirect st))).
  2:{ intros t H. apply Hd. eapply isort_In. exact H. }
  rewrite (map_port_drop (sort_trees (rtrans st) ++ sort_trees (rdirect st))).
  2:{ intros t H. apply in_app_iff in H. destruct H as [H|H]; [apply Ht|apply Hd]; eapply isort_In; exact H. }
  reflexivity.
Qed.
End Scope.
