(* C15 - from file paths to (full name, version, port-ID) and back: model of
     _dsdl_definition.py  DSDLDefinition.__init__, _parse_decimal, _infer_path_to_root_from_first_found, from_first_in
     _namespace.py        read_namespace / read_files as far as the identity of the types is concerned
     _composite.py        the checks of CompositeType.__init__ that concern the name, the version, the port-ID and the path
     _name.py             check_name
   Strings are lists of code points.  A path is a list of components plus an "absolute" flag; the absolute paths of the
   model are relative to a hidden prefix (the scratch directory of a case) whose components never equal a generated name.
   Not modelled (C15 is partial there): symbolic links and ".." (Path.resolve is "make absolute"), case-insensitive file
   systems, int() refusing more than 4300 digits.  The file system is an explicit argument (a finite listing), never an
   axiom; so is the working directory.  Definitions only, no proofs. *)
From Coq Require Import ZArith List Bool.
From PV Require Import Util.ListSet.
Import ListNotations.
Open Scope Z_scope.

(* ---------------------------------------------------------------------------------------------------------- *)
(* strings                                                                                                     *)

Notation str := (list Z) (only parsing).
Definition dot : Z := 46.

(* Python str.split(sep) for a one-character separator: never returns the empty list *)
Fixpoint split_on (sep : Z) (s : str) : list str :=
  match s with
  | [] => [[]]
  | c :: r => if c =? sep then [] :: split_on sep r
              else match split_on sep r with
                   | [] => [[c]]
                   | h :: t => (c :: h) :: t
                   end
  end.

Fixpoint join_with (sep : Z) (l : list str) : str :=
  match l with
  | [] => []
  | [x] => x
  | x :: r => x ++ sep :: join_with sep r
  end.

Definition has_dot (s : str) : bool := existsb (fun c => c =? dot) s.

Fixpoint strs_eqb (a b : list str) : bool :=
  match a, b with
  | [], [] => true
  | x :: a', y :: b' => list_eqb x y && strs_eqb a' b'
  | _, _ => false
  end.

Definition str_in (s : str) (l : list str) : bool := existsb (list_eqb s) l.

(* _parse_decimal: text.isascii() and text.isdigit(), then int(text) *)
Definition is_digit (c : Z) : bool := (48 <=? c) && (c <=? 57).
Definition dec_value (s : str) : Z := fold_left (fun acc c => acc * 10 + (c - 48)) s 0.
Definition parse_decimal (s : str) : option Z :=
  match s with
  | [] => None
  | _ => if forallb is_digit s then Some (dec_value s) else None
  end.

Fixpoint ends_with (suffix s : str) : bool :=
  list_eqb suffix s || match s with [] => false | _ :: r => ends_with suffix r end.

Definition SUFFIX_DSDL : str := [46; 100; 115; 100; 108].                 (* ".dsdl" *)
Definition SUFFIX_UAVCAN : str := [46; 117; 97; 118; 99; 97; 110].        (* ".uavcan" *)
(* rglob("*.dsdl") + rglob("*.uavcan"), case-sensitive *)
Definition glob_match (basename : str) : bool := ends_with SUFFIX_DSDL basename || ends_with SUFFIX_UAVCAN basename.

(* ---------------------------------------------------------------------------------------------------------- *)
(* _name.py check_name                                                                                         *)

(* str.lower() on a name whose characters have already passed the (ASCII) character-set test *)
Definition lower_cp (c : Z) : Z := if (65 <=? c) && (c <=? 90) then c + 32 else c.
Definition lower (s : str) : str := map lower_cp s.

Definition is_lower_alpha (c : Z) : bool := (97 <=? c) && (c <=? 122).
Definition is_upper_alpha (c : Z) : bool := (65 <=? c) && (c <=? 90).
Definition valid_first (c : Z) : bool := is_lower_alpha c || is_upper_alpha c || (c =? 95).
Definition valid_cont (c : Z) : bool := valid_first c || is_digit c.

Fixpoint strip_prefix_str (p s : str) : option str :=
  match p, s with
  | [], _ => Some s
  | x :: p', y :: s' => if x =? y then strip_prefix_str p' s' else None
  | _ :: _, [] => None
  end.

Definition all_digits (s : str) : bool := forallb is_digit s.
Definition digits1 (s : str) : bool := match s with [] => false | _ => all_digits s end.

(* word followed by \d*$ *)
Definition pat_word_digits (w s : str) : bool :=
  match strip_prefix_str w s with Some r => all_digits r | None => false end.
(* word followed by exactly one digit *)
Definition pat_word_digit (w s : str) : bool :=
  match strip_prefix_str w s with Some [d] => is_digit d | _ => false end.
(* q\d+_\d+$ *)
Definition pat_q (s : str) : bool :=
  match s with
  | 113 :: r => match split_on 95 r with
                | [a; b] => digits1 a && digits1 b
                | _ => false
                end
  | _ => false
  end.
Definition pat_uq (s : str) : bool := pat_q s || match s with 117 :: r => pat_q r | _ => false end.
(* _.*_$ *)
Definition pat_underscores (s : str) : bool :=
  match s with
  | 95 :: r => match rev r with 95 :: _ => true | _ => false end
  | _ => false
  end.

Definition W_void : str := [118; 111; 105; 100].
Definition W_int : str := [105; 110; 116].
Definition W_uint : str := [117; 105; 110; 116].
Definition W_float : str := [102; 108; 111; 97; 116].
Definition W_com : str := [99; 111; 109].
Definition W_lpt : str := [108; 112; 116].

Definition RESERVED : list str :=
  [ [116; 114; 117; 110; 99; 97; 116; 101; 100]       (* truncated *)
  ; [115; 97; 116; 117; 114; 97; 116; 101; 100]       (* saturated *)
  ; [116; 114; 117; 101]                              (* true *)
  ; [102; 97; 108; 115; 101]                          (* false *)
  ; [98; 111; 111; 108]                               (* bool *)
  ; [111; 112; 116; 105; 111; 110; 97; 108]           (* optional *)
  ; [97; 108; 105; 103; 110; 101; 100]                (* aligned *)
  ; [99; 111; 110; 115; 116]                          (* const *)
  ; [115; 116; 114; 117; 99; 116]                     (* struct *)
  ; [115; 117; 112; 101; 114]                         (* super *)
  ; [116; 101; 109; 112; 108; 97; 116; 101]           (* template *)
  ; [101; 110; 117; 109]                              (* enum *)
  ; [115; 101; 108; 102]                              (* self *)
  ; [97; 110; 100]                                    (* and *)
  ; [111; 114]                                        (* or *)
  ; [110; 111; 116]                                   (* not *)
  ; [97; 117; 116; 111]                               (* auto *)
  ; [116; 121; 112; 101]                              (* type *)
  ; [99; 111; 110]                                    (* con *)
  ; [112; 114; 110]                                   (* prn *)
  ; [97; 117; 120]                                    (* aux *)
  ; [110; 117; 108]                                   (* nul *)
  ].

Definition disallowed (s : str) : bool :=
  str_in s RESERVED || pat_word_digits W_void s || pat_word_digits W_int s || pat_word_digits W_uint s
  || pat_uq s || pat_word_digits W_float s || pat_word_digit W_com s || pat_word_digit W_lpt s || pat_underscores s.

(* characters are tested before case folding (fix F11), the disallowed patterns after it *)
Definition check_name (s : str) : bool :=
  match s with
  | [] => false
  | c :: r => valid_first c && forallb valid_cont r && negb (disallowed (lower s))
  end.

(* ---------------------------------------------------------------------------------------------------------- *)
(* paths                                                                                                       *)

Notation comp := (list Z) (only parsing).
Inductive path := P (absolute : bool) (cs : list comp).

Definition is_abs (p : path) : bool := match p with P a _ => a end.
Definition comps (p : path) : list comp := match p with P _ cs => cs end.
Definition path_eqb (p q : path) : bool := Bool.eqb (is_abs p) (is_abs q) && strs_eqb (comps p) (comps q).

Definition parent (p : path) : path := match p with P a cs => P a (removelast cs) end.
Definition pname (cs : list comp) : str := last cs [].
Definition join (p q : path) : path := if is_abs q then q else match p with P a cs => P a (cs ++ comps q) end.

Fixpoint strip_prefix (pre l : list comp) : option (list comp) :=
  match pre, l with
  | [], _ => Some l
  | x :: pre', y :: l' => if list_eqb x y then strip_prefix pre' l' else None
  | _ :: _, [] => None
  end.

Definition is_prefix (a b : list comp) : bool := match strip_prefix a b with Some _ => true | None => false end.

(* PurePath.relative_to *)
Definition relative_to (p q : path) : option (list comp) :=
  if Bool.eqb (is_abs p) (is_abs q) then strip_prefix (comps q) (comps p) else None.

(* Path.resolve() without symbolic links and "..": make absolute *)
Definition resolve (cwd : list comp) (p : path) : list comp := if is_abs p then comps p else cwd ++ comps p.

(* PurePath.stem of a final component *)
Fixpoint rfind_dot (s : str) (i : nat) (acc : option nat) : option nat :=
  match s with
  | [] => acc
  | c :: r => rfind_dot r (S i) (if c =? dot then Some i else acc)
  end.
Definition stem (s : str) : str :=
  match rfind_dot s 0 None with
  | Some i => if (Nat.ltb 0 i) && (Nat.ltb i (length s - 1)) then firstn i s else s
  | None => s
  end.

(* the file system: regular files (with the kind of definition they contain) and directories, absolute *)
Record fsys := mkFs { fs_files : list (list comp * bool); fs_dirs : list (list comp) }.
Definition is_file (fs : fsys) (p : list comp) : bool := existsb (fun f => strs_eqb (fst f) p) (fs_files fs).
Definition is_dir (fs : fsys) (p : list comp) : bool := existsb (strs_eqb p) (fs_dirs fs).
Definition exists_ (fs : fsys) (p : list comp) : bool := is_file fs p || is_dir fs p.
Definition file_is_service (fs : fsys) (p : list comp) : bool :=
  match find (fun f => strs_eqb (fst f) p) (fs_files fs) with Some (_, s) => s | None => false end.

(* ---------------------------------------------------------------------------------------------------------- *)
(* results                                                                                                     *)

Inductive rej := RInvalid | RValueError | ROther.        (* InvalidDefinitionError / ValueError / anything else *)
Inductive res (A : Type) := Ok (a : A) | Err (e : rej).
Arguments Ok {A} a.
Arguments Err {A} e.

Definition bind {A B} (r : res A) (f : A -> res B) : res B := match r with Ok a => f a | Err e => Err e end.

Fixpoint mapM {A B} (f : A -> res B) (l : list A) : res (list B) :=
  match l with
  | [] => Ok []
  | x :: r => bind (f x) (fun y => bind (mapM f r) (fun ys => Ok (y :: ys)))
  end.

(* ---------------------------------------------------------------------------------------------------------- *)
(* DSDLDefinition.__init__(file_path, root_namespace_path), both already resolved                              *)

Record ddef := mkDef {
  d_file : list comp; d_root : list comp;
  d_name : str; d_major : Z; d_minor : Z; d_port : option Z
}.

(* relative_path.name.split(".")[:-1] -> (port-ID text, short name, major text, minor text) *)
Definition parse_basename (basename : str) : option (option str * str * str * str) :=
  match removelast (split_on dot basename) with
  | [p; s; mj; mn] => Some (Some p, s, mj, mn)
  | [s; mj; mn] => Some (None, s, mj, mn)
  | _ => None
  end.

(* the part of __init__ that does not touch the file system: root directory name and path below the root *)
Definition parse_rel (root_name : str) (rel : list comp) : option (str * Z * Z * option Z) :=
  if has_dot root_name then None else
  let relative_path := root_name :: rel in
  match parse_basename (pname relative_path) with
  | None => None
  | Some (sp, short, smj, smn) =>
    let port := match sp with Some t => match parse_decimal t with Some v => Some (Some v) | None => None end
                            | None => Some None end in
    match port with
    | None => None
    | Some port =>
      match parse_decimal smj, parse_decimal smn with
      | Some mj, Some mn =>
        let ns := removelast relative_path in
        if existsb has_dot ns then None
        else Some (join_with dot (ns ++ [short]), mj, mn, port)
      | _, _ => None
      end
    end
  end.

Definition mk_definition (fs : fsys) (file root : list comp) : res ddef :=
  if negb (exists_ fs file) then Err RInvalid
  else if has_dot (pname root) then Err RInvalid
  else match strip_prefix root file with
       | None => Err RValueError                    (* Path.relative_to raises, nothing catches it *)
       | Some rel =>
         match parse_rel (pname root) rel with
         | Some (n, mj, mn, port) => Ok (mkDef file root n mj mn port)
         | None => Err RInvalid
         end
       end.

(* ---------------------------------------------------------------------------------------------------------- *)
(* CompositeType.__init__: the checks that concern name, version, port-ID and path                             *)

Fixpoint search_up_rev (path_rev : list comp) (ns_rev : list str) : option (list comp) :=
  match ns_rev with
  | [] => None
  | c :: rest =>
    match path_rev with
    | [] => None                      (* above the scratch directory: a hidden name, never equal *)
    | d :: prest =>
      if list_eqb c (stem d)
      then match rest with [] => Some (rev path_rev) | _ => search_up_rev prest rest end
      else None
    end
  end.

Definition MAX_NAME_LENGTH : Z := 255.
Definition MAX_VERSION_NUMBER : Z := 255.
Definition MAX_SUBJECT_ID : Z := 8191.
Definition MAX_SERVICE_ID : Z := 511.

(* returns (final name, path to the root namespace) *)
Definition composite_init (name : str) (mj mn : Z) (port : option Z) (file : list comp)
                          (has_parent_service is_service_type : bool) : res (str * list comp) :=
  let nm := name in                          (* no normalisation of the name (fix F15) *)
  match nm with
  | [] => Err RInvalid
  | _ =>
    if negb (has_dot nm) then Err RInvalid
    else if MAX_NAME_LENGTH <? Z.of_nat (length nm) then Err RInvalid
    else
      let cs := split_on dot nm in
      if negb (forallb check_name cs) then Err RInvalid
      else
        let ns := removelast cs in
        let ns := if has_parent_service then removelast ns else ns in
        match search_up_rev (rev (removelast file)) (rev ns) with
        | None => Err RInvalid
        | Some root =>
          if negb ((0 <=? mj) && (mj <=? MAX_VERSION_NUMBER) && (0 <=? mn) && (mn <=? MAX_VERSION_NUMBER) && (0 <? mj + mn))
          then Err RInvalid
          else match port with
               | None => Ok (nm, root)
               | Some p => if (0 <=? p) && (p <=? (if is_service_type then MAX_SERVICE_ID else MAX_SUBJECT_ID))
                           then Ok (nm, root) else Err RInvalid
               end
        end
  end.

(* what the property observes of a CompositeType *)
Record ident := mkId {
  i_name : str; i_major : Z; i_minor : Z; i_port : option Z;
  i_file : list comp;             (* source_file_path *)
  i_root : list comp              (* source_file_path_to_root *)
}.

Definition REQUEST : str := [46; 82; 101; 113; 117; 101; 115; 116].            (* ".Request" *)
Definition RESPONSE : str := [46; 82; 101; 115; 112; 111; 110; 115; 101].      (* ".Response" *)

(* DataTypeBuilder.finalize on a definition whose text is valid *)
Definition composite_of (service : bool) (d : ddef) : res ident :=
  if service then
    bind (composite_init (d_name d ++ REQUEST) (d_major d) (d_minor d) None (d_file d) true false) (fun rq =>
    bind (composite_init (d_name d ++ RESPONSE) (d_major d) (d_minor d) None (d_file d) true false) (fun _ =>
    (* ServiceType: name = request.full_namespace *)
    let name := join_with dot (removelast (split_on dot (fst rq))) in
    bind (composite_init name (d_major d) (d_minor d) (d_port d) (d_file d) false true) (fun r =>
    Ok (mkId (fst r) (d_major d) (d_minor d) (d_port d) (d_file d) (snd r)))))
  else
    bind (composite_init (d_name d) (d_major d) (d_minor d) (d_port d) (d_file d) false false) (fun r =>
    Ok (mkId (fst r) (d_major d) (d_minor d) (d_port d) (d_file d) (snd r))).

(* ---------------------------------------------------------------------------------------------------------- *)
(* _infer_path_to_root_from_first_found(dsdl_path, valid_dsdl_roots)                                           *)

(* INFERENCE 2: first root (in list order) the target is relative to: as pure paths (the root is returned as it was
   given), or - when at least one of the two is absolute - after resolving both (the resolved root is returned; F13).
   `resolved` is the resolved target: None for a relative target that does not exist relative to the working directory. *)
Fixpoint strategy2 (cwd : list comp) (target : path) (resolved : option (list comp)) (roots : list path) : option path :=
  match roots with
  | [] => None
  | r :: rest =>
    match relative_to target r with
    | Some _ => Some r
    | None =>
      match resolved with
      | Some t =>
        if (is_abs r || is_abs target) && is_prefix (resolve cwd r) t
        then Some (P true (resolve cwd r))
        else strategy2 cwd target resolved rest
      | None => strategy2 cwd target resolved rest
      end
    end
  end.

(* INFERENCE 3, one root: walk up from the root; `up` counts the components that are left *)
Fixpoint walk_up (fs : fsys) (cwd : list comp) (target : path) (a : bool) (cs_rev : list comp) : option path :=
  match cs_rev with
  | [] => None                          (* "." or the scratch directory and above: no name that can match *)
  | nm :: prest =>
    let p := P a (rev cs_rev) in
    if list_eqb nm (hd [] (comps target)) && exists_ fs (resolve cwd (join (parent p) target))
    then Some p
    else walk_up fs cwd target a prest
  end.

Fixpoint strategy3 (fs : fsys) (cwd : list comp) (target : path) (roots : list path) : option path :=
  match roots with
  | [] => None
  | r :: rest =>
    match walk_up fs cwd target (is_abs r) (rev (comps r)) with
    | Some p => Some p
    | None => strategy3 fs cwd target rest
    end
  end.

(* INFERENCE 4: the first component of the target's directory that is one of the bare root names *)
Fixpoint strategy4 (names : list str) (a : bool) (done todo : list comp) : option path :=
  match todo with
  | [] => None
  | c :: rest => if str_in c names then Some (P a (done ++ [c])) else strategy4 names a (done ++ [c]) rest
  end.

Definition bare_names (roots : list path) : list str :=
  flat_map (fun r => match r with P false [c] => [c] | _ => [] end) roots.

Definition infer_root (fs : fsys) (cwd : list comp) (target : path) (roots : list path) : res path :=
  match roots with
  | [] =>                                                                       (* INFERENCE 1 *)
    if is_abs target then Err RInvalid
    else match comps target with
         | [] => Err ROther                      (* Path(".").parts[0]: not a DSDL file at all *)
         | c :: _ => if exists_ fs (cwd ++ [c]) then Ok (P false [c]) else Err RInvalid
         end
  | _ =>
    let resolved := if is_abs target || exists_ fs (resolve cwd target) then Some (resolve cwd target) else None in
    match strategy2 cwd target resolved roots with
    | Some r => Ok r
    | None =>
      match (if is_abs target then None else strategy3 fs cwd target roots) with
      | Some r => Ok r
      | None =>
        match strategy4 (bare_names roots) (is_abs target) [] (removelast (comps target)) with
        | Some r => Ok r
        | None => Err RInvalid                                                  (* PathInferenceError *)
        end
      end
    end
  end.

(* from_first_in *)
Definition from_first_in (fs : fsys) (cwd : list comp) (roots : list path) (target : path) : res ddef :=
  bind (infer_root fs cwd target roots) (fun root_path =>
  (* a relative target is relative to the same origin as the root (then it lies under the root and exists there) or it
     begins with the name of the root and is relative to the directory that contains the root (F13) *)
  let here := resolve cwd target in
  let file := if is_abs target || (is_prefix (resolve cwd root_path) here && exists_ fs here)
              then here
              else resolve cwd (join (parent root_path) target) in
  mk_definition fs file (resolve cwd root_path)).

(* ---------------------------------------------------------------------------------------------------------- *)
(* read_files / read_namespace                                                                                 *)

(* normalize_paths_argument_to_list: duplicates removed, first occurrences kept *)
Fixpoint normalize (l : list path) (seen : list path) : list path :=
  match l with
  | [] => []
  | p :: r => if existsb (path_eqb p) seen then normalize r seen else p :: normalize r (p :: seen)
  end.

Fixpoint dedup_dirs (l : list (list comp)) : list (list comp) :=
  match l with
  | [] => []
  | d :: r => d :: filter (fun x => negb (strs_eqb d x)) (dedup_dirs r)
  end.

(* _ensure_no_namespace_name_collisions_or_nested_root_namespaces with allow_name_collisions=True *)
Definition nested (dirs : list (list comp)) : bool :=
  existsb (fun a => existsb (fun b => negb (strs_eqb a b) && is_prefix b a) dirs) dirs.

(* _construct_dsdl_definitions_from_namespaces: every *.dsdl / *.uavcan below the directory *)
Definition globbed (fs : fsys) (dir : list comp) : list (list comp) :=
  filter (fun f => is_prefix dir f && negb (strs_eqb dir f) && glob_match (pname f)) (map fst (fs_files fs)).

Definition definitions_of_namespaces (fs : fsys) (dirs : list (list comp)) : res (list ddef) :=
  mapM (fun fd => mk_definition fs (fst fd) (snd fd))
       (flat_map (fun d => map (fun f => (f, d)) (globbed fs d)) dirs).

(* output[definition.file_path] = definition: a later definition of the same file replaces an earlier one *)
Fixpoint by_file (l : list ddef) : list ddef :=
  match l with
  | [] => []
  | d :: r => if existsb (fun d' => strs_eqb (d_file d) (d_file d')) r then by_file r else d :: by_file r
  end.

Definition lookup_stage (fs : fsys) (dirs : list (list comp)) (targets : list ddef) : res (list ident) :=
  if negb (forallb (exists_ fs) dirs) then Err ROther                 (* Path.samefile: FileNotFoundError *)
  else if nested dirs then Err RInvalid
  else bind (definitions_of_namespaces fs dirs) (fun _ =>
       mapM (fun d => composite_of (file_is_service fs (d_file d)) d) targets).

Definition read_files (fs : fsys) (cwd : list comp) (targets roots lookups : list path) : res (list ident) :=
  let roots := normalize roots [] in
  bind (mapM (from_first_in fs cwd roots) (normalize targets [])) (fun defs =>
  let defs := by_file defs in
  match defs with
  | [] => Ok []
  | _ =>
    let dirs := dedup_dirs (map (resolve cwd) (normalize lookups [])
                            ++ map d_root defs
                            ++ filter (exists_ fs) (map (resolve cwd) roots)) in
    lookup_stage fs dirs defs
  end).

Definition read_namespace (fs : fsys) (cwd : list comp) (root : path) (lookups : list path) : res (list ident) :=
  let rootd := resolve cwd root in
  let dirs := dedup_dirs (map (resolve cwd) (normalize lookups []) ++ [rootd]) in
  if negb (forallb (exists_ fs) dirs) then Err ROther
  else if nested dirs then Err RInvalid
  else bind (definitions_of_namespaces fs [rootd]) (fun defs =>
       match defs with
       | [] => Ok []
       | _ => lookup_stage fs dirs defs
       end).

(* ---------------------------------------------------------------------------------------------------------- *)
(* specification side: the shape <root>/<ns>/.../[<port-id>.]<ShortName>.<major>.<minor>.<suffix>               *)

Definition no_dot (s : str) : Prop := ~ In dot s.
Definition digits (s : str) : Prop := s <> [] /\ forall c, In c s -> 48 <= c <= 57.

(* the basename  [port.]short.major.minor.suffix *)
Definition render_basename (port : option str) (short smj smn suffix : str) : str :=
  match port with
  | Some p => p ++ dot :: short ++ dot :: smj ++ dot :: smn ++ dot :: suffix
  | None => short ++ dot :: smj ++ dot :: smn ++ dot :: suffix
  end.

(* decimal rendering of a non-negative number, most significant digit first *)
Fixpoint render_pos_fuel (fuel : nat) (n : Z) (acc : str) : str :=
  match fuel with
  | O => acc
  | S f => let acc' := (48 + n mod 10) :: acc in if n <? 10 then acc' else render_pos_fuel f (n / 10) acc'
  end.
Definition render_dec (n : Z) : str := render_pos_fuel (S (Z.to_nat (Z.log2 n))) n [].
