(* C11 - proofs: the two loops of _namespace.py decide exactly the declarative conformity. *)
From Coq Require Import ZArith List Bool Lia Permutation.
From PV Require Import Util.ListSet Namespace.CrossRules.
Import ListNotations.
Open Scope Z_scope.

(* ---------------------------------------------------------------------------------------------------------- *)
(* small reflections                                                                                           *)

Lemma name_eqb_eq a b : name_eqb a b = true <-> name a = name b.
Proof. apply list_eqb_eq. Qed.

Lemma name_eqb_false a b : name_eqb a b = false <-> name a <> name b.
Proof.
  split; intros H.
  - intros E. apply name_eqb_eq in E. congruence.
  - destruct (name_eqb a b) eqn:X; [apply name_eqb_eq in X; contradiction|reflexivity].
Qed.

Lemma opt_eqb_eq p q : opt_eqb p q = true <-> p = q.
Proof.
  destruct p, q; simpl; split; intros H; try congruence; try discriminate.
  - apply Z.eqb_eq in H. congruence.
  - inversion H. apply Z.eqb_refl.
Qed.

Lemma bool_eqb_eq a b : Bool.eqb a b = true <-> a = b.
Proof. split; [apply eqb_prop|intros ->; apply eqb_reflx]. Qed.

(* ---------------------------------------------------------------------------------------------------------- *)
(* check_ports                                                                                                 *)

Lemma port_collision_false a b :
  0 <= major a -> 0 <= major b ->
  (port_collision a b = false <->
   (same_kind a b -> forall p, port a = Some p -> port b = Some p ->
    name a = name b /\ (major a = major b \/ major a = 0 \/ major b = 0))).
Proof.
  intros Ha Hb. unfold port_collision, fpid_must_be_different, same_kind. split.
  - intros H SK p Pa Pb. rewrite Pa, Pb, Z.eqb_refl, andb_true_r in H.
    rewrite SK, eqb_reflx, andb_true_l in H.
    apply orb_false_iff in H. destruct H as [H1 H2].
    apply negb_false_iff in H1. apply name_eqb_eq in H1. split; [exact H1|].
    destruct (major a =? major b) eqn:E; [apply Z.eqb_eq in E; left; exact E|].
    simpl in H2. right.
    destruct (0 <? major a) eqn:E1; [|apply Z.ltb_ge in E1; left; lia].
    destruct (0 <? major b) eqn:E2; [discriminate|apply Z.ltb_ge in E2; right; lia].
  - intros H.
    destruct (port a) as [p|] eqn:Pa; [|apply andb_false_r].
    destruct (port b) as [q|] eqn:Pb; [|apply andb_false_r].
    destruct (p =? q) eqn:E; [|apply andb_false_r]. apply Z.eqb_eq in E. subst q.
    rewrite andb_true_r.
    destruct (Bool.eqb (is_svc a) (is_svc b)) eqn:SK; [|reflexivity].
    apply eqb_prop in SK. destruct (H SK p eq_refl eq_refl) as [N M].
    apply name_eqb_eq in N. rewrite N. simpl.
    destruct M as [M|[M|M]].
    + rewrite M, Z.eqb_refl. reflexivity.
    + rewrite M. simpl. apply andb_false_r.
    + rewrite M. simpl. rewrite !andb_false_r. reflexivity.
Qed.

Lemma check_ports_spec ds : wf ds -> (check_ports ds = true <-> PortsConform ds).
Proof.
  intros W. unfold check_ports, PortsConform. rewrite forallb_forall. split.
  - intros H a b Ia Ib. specialize (H a Ia). rewrite forallb_forall in H. specialize (H b Ib).
    apply negb_true_iff in H. exact (proj1 (port_collision_false a b (W a Ia) (W b Ib)) H).
  - intros H a Ia. apply forallb_forall. intros b Ib. apply negb_true_iff.
    apply (proj2 (port_collision_false a b (W a Ia) (W b Ib))). exact (H a b Ia Ib).
Qed.

(* ---------------------------------------------------------------------------------------------------------- *)
(* pairwise compatibility                                                                                      *)

Lemma lay_ok_spec mj x y : lay_ok mj x y = true <-> (1 <= mj -> same_lay x y).
Proof.
  unfold lay_ok, same_lay. destruct (0 <? mj) eqn:E.
  - apply Z.ltb_lt in E. rewrite andb_true_iff, Z.eqb_eq, bool_eqb_eq. split; [tauto|intros H; apply H; lia].
  - apply Z.ltb_ge in E. split; [lia|reflexivity].
Qed.

Lemma port_ok_spec a b : minor a <> minor b -> (port_ok a b = true <-> port_rule a b).
Proof.
  intros NE. unfold port_ok, port_rule, has_port.
  destruct (port a) as [p|] eqn:Pa, (port b) as [q|] eqn:Pb; simpl.
  - rewrite Z.eqb_eq. split; [intros ->; left; reflexivity|].
    intros [H|[[H _]|[H _]]]; congruence.
  - destruct (minor b <? minor a) eqn:E; rewrite ?Pa, ?Pb.
    + apply Z.ltb_lt in E. split; [intros _; right; right; split; [reflexivity|exact E]|reflexivity].
    + apply Z.ltb_ge in E. split; [discriminate|]. intros [H|[[H _]|[_ H]]]; try discriminate; lia.
  - destruct (minor b <? minor a) eqn:E; rewrite ?Pa, ?Pb.
    + apply Z.ltb_lt in E. split; [discriminate|]. intros [H|[[_ H]|[H _]]]; try discriminate; lia.
    + apply Z.ltb_ge in E. split; [intros _; right; left; split; [reflexivity|lia]|reflexivity].
  - split; [intros _; left; reflexivity|reflexivity].
Qed.

Lemma pair_ok_spec a b : minor a <> minor b -> (pair_ok a b = true <-> compatible a b).
Proof.
  intros NE. unfold pair_ok, compatible, same_kind, lays_equal, is_svc.
  destruct (knd a) as [x|q1 r1], (knd b) as [y|q2 r2].
  - rewrite andb_true_iff, (port_ok_spec a b NE), lay_ok_spec. tauto.
  - split; [discriminate|intros [H _]; discriminate].
  - split; [discriminate|intros [H _]; discriminate].
  - rewrite !andb_true_iff, (port_ok_spec a b NE), !lay_ok_spec. tauto.
Qed.

(* ---------------------------------------------------------------------------------------------------------- *)
(* tagging and grouping                                                                                        *)

Lemma enum_from_in {A} (l : list A) k i x :
  In (i, x) (enum_from k l) <-> (k <= i)%nat /\ nth_error l (i - k) = Some x.
Proof.
  revert k. induction l as [|y r IH]; intros k; simpl.
  - split; [tauto|]. intros [_ H]. destruct (i - k)%nat; discriminate.
  - rewrite IH. split.
    + intros [E|[L N]].
      * inversion E; subst. split; [lia|]. replace (i - i)%nat with 0%nat by lia. reflexivity.
      * split; [lia|]. replace (i - k)%nat with (S (i - S k)) by lia. exact N.
    + intros [L N]. destruct (Nat.eq_dec i k) as [->|D].
      * left. replace (k - k)%nat with 0%nat in N by lia. simpl in N. congruence.
      * right. split; [lia|]. replace (i - k)%nat with (S (i - S k)) in N by lia. exact N.
Qed.

Lemma enum_in {A} (l : list A) i x : In (i, x) (enum l) <-> nth_error l i = Some x.
Proof.
  unfold enum. rewrite enum_from_in. replace (i - 0)%nat with i by lia. split; [tauto|split; [lia|assumption]].
Qed.

Section KeysFacts.
Context {K : Type} (eqb : K -> K -> bool) (eqb_eq : forall a b, eqb a b = true <-> a = b).

Lemma keys_in l k : In k (keys eqb l) <-> In k l.
Proof.
  induction l as [|x r IH]; simpl; [tauto|].
  rewrite filter_In, IH. split.
  - intros [H|[H _]]; auto.
  - intros [H|H]; auto. destruct (eqb x k) eqn:E.
    + apply eqb_eq in E. auto.
    + right. split; [exact H|reflexivity].
Qed.

Lemma keys_nodup l : NoDup (keys eqb l).
Proof.
  induction l as [|x r IH]; simpl; [constructor|]. constructor.
  - rewrite filter_In. intros [_ H]. apply negb_true_iff in H.
    assert (eqb x x = true) by (apply eqb_eq; reflexivity). congruence.
  - apply NoDup_filter. exact IH.
Qed.
End KeysFacts.

Definition pair_fine (ta tb : tagged) : Prop :=
  fst ta <> fst tb -> minor (snd ta) <> minor (snd tb) /\ pair_ok (snd ta) (snd tb) = true.

Lemma group_ok_spec g : group_ok g = true <-> forall ta tb, In ta g -> In tb g -> pair_fine ta tb.
Proof.
  unfold group_ok, pair_fine. rewrite forallb_forall. split.
  - intros H ta tb Ia Ib D. specialize (H ta Ia). rewrite forallb_forall in H. specialize (H tb Ib).
    apply orb_true_iff in H. destruct H as [H|H]; [apply Nat.eqb_eq in H; contradiction|].
    apply andb_true_iff in H. destruct H as [H1 H2]. split; [|exact H2].
    apply negb_true_iff in H1. apply Z.eqb_neq in H1. exact H1.
  - intros H ta Ia. apply forallb_forall. intros tb Ib. apply orb_true_iff.
    destruct (Nat.eq_dec (fst ta) (fst tb)) as [E|D]; [left; apply Nat.eqb_eq; exact E|right].
    destruct (H ta tb Ia Ib D) as [H1 H2]. apply andb_true_iff. split; [|exact H2].
    apply negb_true_iff. apply Z.eqb_neq. exact H1.
Qed.

Lemma check_minor_tagged ds :
  check_minor ds = true <->
  forall ta tb, In ta (enum ds) -> In tb (enum ds) ->
  name (snd ta) = name (snd tb) -> major (snd ta) = major (snd tb) -> pair_fine ta tb.
Proof.
  unfold check_minor. rewrite forallb_forall. split.
  - intros H ta tb Ia Ib N M.
    set (n := name (snd ta)).
    assert (Kn : In n (keys list_eqb (map (fun t : tagged => name (snd t)) (enum ds)))).
    { apply (keys_in list_eqb list_eqb_eq). apply in_map_iff. exists ta. split; [reflexivity|exact Ia]. }
    specialize (H n Kn). cbv zeta in H. rewrite forallb_forall in H.
    set (defs := filter (fun t : tagged => list_eqb (name (snd t)) n) (enum ds)) in *.
    assert (Da : In ta defs). { apply filter_In. split; [exact Ia|apply list_eqb_eq; reflexivity]. }
    assert (Db : In tb defs). { apply filter_In. split; [exact Ib|apply list_eqb_eq; symmetry; exact N]. }
    set (mj := major (snd ta)).
    assert (Km : In mj (keys Z.eqb (map (fun t : tagged => major (snd t)) defs))).
    { apply (keys_in Z.eqb Z.eqb_eq). apply in_map_iff. exists ta. split; [reflexivity|exact Da]. }
    specialize (H mj Km). rewrite group_ok_spec in H. apply H.
    + apply filter_In. split; [exact Da|apply Z.eqb_refl].
    + apply filter_In. split; [exact Db|apply Z.eqb_eq; symmetry; exact M].
  - intros H n _. cbv zeta. apply forallb_forall. intros mj _. apply group_ok_spec.
    intros ta tb Ia Ib. apply filter_In in Ia. destruct Ia as [Ia Ma]. apply filter_In in Ia. destruct Ia as [Ia Na].
    apply filter_In in Ib. destruct Ib as [Ib Mb]. apply filter_In in Ib. destruct Ib as [Ib Nb].
    apply list_eqb_eq in Na, Nb. apply Z.eqb_eq in Ma, Mb. apply H; auto; congruence.
Qed.

(* the loops in terms of positions *)
Lemma check_minor_positions ds :
  check_minor ds = true <->
  forall a b, two_of ds a b -> same_series a b -> minor a <> minor b /\ pair_ok a b = true.
Proof.
  rewrite check_minor_tagged. unfold two_of, same_series, pair_fine. split.
  - intros H a b (i & j & D & Na & Nb) [N M].
    apply (H (i, a) (j, b)); simpl; auto; apply enum_in; assumption.
  - intros H [i a] [j b] Ia Ib N M D. simpl in *. apply enum_in in Ia, Ib.
    apply H; [exists i, j; auto|split; assumption].
Qed.

Lemma two_of_in ds a b : two_of ds a b -> In a ds /\ In b ds.
Proof. intros (i & j & _ & A & B). split; eapply nth_error_In; eassumption. Qed.

Lemma in_two_of ds a b : In a ds -> In b ds -> a <> b -> two_of ds a b.
Proof.
  intros A B D. apply In_nth_error in A, B. destruct A as [i A], B as [j B]. exists i, j.
  split; [|split; assumption]. intros ->. congruence.
Qed.

(* full characterisation, no hypothesis *)
Lemma check_minor_spec ds : check_minor ds = true <-> VersionsUnique ds /\ MinorsConform ds.
Proof.
  rewrite check_minor_positions. unfold VersionsUnique, MinorsConform. split.
  - intros H. split.
    + intros a b T S. apply (H a b T S).
    + intros a b Ia Ib S NE. apply pair_ok_spec; [exact NE|].
      apply H; [|exact S]. apply in_two_of; auto. intros ->. apply NE. reflexivity.
  - intros [U C] a b T S. pose proof (U a b T S) as NE. split; [exact NE|].
    apply pair_ok_spec; [exact NE|]. destruct (two_of_in _ _ _ T). apply C; auto.
Qed.

(* the statement of DESIGN.md: under "no two summaries share (name, major, minor)" *)
Lemma check_minor_spec_unique ds : VersionsUnique ds -> (check_minor ds = true <-> MinorsConform ds).
Proof. intros U. rewrite check_minor_spec. tauto. Qed.

Lemma accept_spec direct transitive :
  wf direct -> (accept direct transitive = true <-> Conforming direct (transitive ++ direct)).
Proof.
  intros W. unfold accept, Conforming. rewrite andb_true_iff, (check_ports_spec direct W), check_minor_spec. tauto.
Qed.

Lemma run_spec direct transitive :
  wf direct -> (run direct transitive = Accept <-> Conforming direct (transitive ++ direct)).
Proof.
  intros W. rewrite <- (accept_spec direct transitive W). unfold run.
  destruct (accept direct transitive); split; congruence.
Qed.

(* ---------------------------------------------------------------------------------------------------------- *)
(* the verdict does not depend on the order of the definitions                                                 *)

Lemma two_of_split ds a b :
  two_of ds a b <-> exists l1 l2 l3, ds = l1 ++ a :: l2 ++ b :: l3 \/ ds = l1 ++ b :: l2 ++ a :: l3.
Proof.
  split.
  - intros (i & j & D & A & B).
    assert (forall i j x y, (i < j)%nat -> nth_error ds i = Some x -> nth_error ds j = Some y ->
                            exists l1 l2 l3, ds = l1 ++ x :: l2 ++ y :: l3) as Hlt.
    { clear. intros i j x y L A B. apply nth_error_split in A. destruct A as (l1 & r & -> & Len).
      rewrite nth_error_app2 in B by lia. replace (j - length l1)%nat with (S (j - S (length l1))) in B by lia.
      simpl in B. apply nth_error_split in B. destruct B as (l2 & l3 & -> & _). exists l1, l2, l3. reflexivity. }
    destruct (Nat.lt_ge_cases i j) as [L|L].
    + destruct (Hlt i j a b L A B) as (l1 & l2 & l3 & E). exists l1, l2, l3. left. exact E.
    + assert (j < i)%nat as L' by lia. destruct (Hlt j i b a L' B A) as (l1 & l2 & l3 & E). exists l1, l2, l3. right. exact E.
  - intros (l1 & l2 & l3 & [E|E]); subst ds.
    + exists (length l1), (length l1 + S (length l2))%nat. split; [lia|]. split.
      * rewrite nth_error_app2 by lia. replace (length l1 - length l1)%nat with 0%nat by lia. reflexivity.
      * rewrite nth_error_app2 by lia. replace (length l1 + S (length l2) - length l1)%nat with (S (length l2)) by lia.
        simpl. rewrite nth_error_app2 by lia. replace (length l2 - length l2)%nat with 0%nat by lia. reflexivity.
    + exists (length l1 + S (length l2))%nat, (length l1). split; [lia|]. split.
      * rewrite nth_error_app2 by lia. replace (length l1 + S (length l2) - length l1)%nat with (S (length l2)) by lia.
        simpl. rewrite nth_error_app2 by lia. replace (length l2 - length l2)%nat with 0%nat by lia. reflexivity.
      * rewrite nth_error_app2 by lia. replace (length l1 - length l1)%nat with 0%nat by lia. reflexivity.
Qed.

Lemma two_of_perm_char ds a b : two_of ds a b <-> exists m, Permutation ds (a :: b :: m).
Proof.
  split.
  - intros T. apply two_of_split in T. destruct T as (l1 & l2 & l3 & [->| ->]).
    + exists (l1 ++ l2 ++ l3). apply Permutation_sym. apply Permutation_cons_app.
      rewrite (app_assoc l1 l2 (b :: l3)). apply Permutation_cons_app. rewrite <- app_assoc. reflexivity.
    + exists (l1 ++ l2 ++ l3). apply Permutation_sym. eapply perm_trans; [apply perm_swap|].
      apply Permutation_cons_app. rewrite (app_assoc l1 l2 (a :: l3)). apply Permutation_cons_app. rewrite <- app_assoc. reflexivity.
  - intros (m & Pm). assert (In a ds) as Ia by (eapply Permutation_in; [apply Permutation_sym; exact Pm|left; reflexivity]).
    apply in_split in Ia. destruct Ia as (l1 & r & ->).
    assert (Permutation (b :: m) (l1 ++ r)) as P2 by (apply Permutation_cons_app_inv with (a := a); apply Permutation_sym; exact Pm).
    assert (In b (l1 ++ r)) as Ib by (eapply Permutation_in; [exact P2|left; reflexivity]).
    apply two_of_split. apply in_app_or in Ib. destruct Ib as [Ib|Ib]; apply in_split in Ib; destruct Ib as (x & y & ->).
    + exists x, y, r. right. rewrite <- app_assoc. reflexivity.
    + exists l1, x, y. left. reflexivity.
Qed.

Lemma two_of_perm ds ds' a b : Permutation ds ds' -> two_of ds a b -> two_of ds' a b.
Proof.
  intros Pm T. apply two_of_perm_char in T. destruct T as (m & T). apply two_of_perm_char. exists m.
  eapply perm_trans; [apply Permutation_sym; exact Pm|exact T].
Qed.

Lemma bool_eq_iff (x y : bool) : (x = true <-> y = true) -> x = y.
Proof. destruct x, y; intros [H1 H2]; try reflexivity; [symmetry; apply H1; reflexivity|apply H2; reflexivity]. Qed.

Lemma check_minor_perm ds ds' : Permutation ds ds' -> check_minor ds = check_minor ds'.
Proof.
  intros Pm. apply bool_eq_iff. rewrite !check_minor_spec. unfold VersionsUnique, MinorsConform.
  assert (forall l l', Permutation l l' ->
            ((forall a b, two_of l a b -> same_series a b -> minor a <> minor b) /\
             (forall a b, In a l -> In b l -> same_series a b -> minor a <> minor b -> compatible a b)) ->
            ((forall a b, two_of l' a b -> same_series a b -> minor a <> minor b) /\
             (forall a b, In a l' -> In b l' -> same_series a b -> minor a <> minor b -> compatible a b))) as K.
  { intros l l' Q [U C]. split.
    - intros a b T. apply U. eapply two_of_perm; [apply Permutation_sym; exact Q|exact T].
    - intros a b Ia Ib. apply C; eapply Permutation_in; try (apply Permutation_sym; exact Q); assumption. }
  split; apply K; [exact Pm|apply Permutation_sym; exact Pm].
Qed.

Lemma check_ports_perm ds ds' : Permutation ds ds' -> check_ports ds = check_ports ds'.
Proof.
  intros Pm. apply bool_eq_iff. unfold check_ports.
  assert (forall l l', Permutation l l' ->
            forallb (fun a => forallb (fun b => negb (port_collision a b)) l) l = true ->
            forallb (fun a => forallb (fun b => negb (port_collision a b)) l') l' = true) as K.
  { intros l l' Q H. rewrite forallb_forall in *. intros a Ia. rewrite forallb_forall. intros b Ib.
    assert (In a l) as Ia' by (eapply Permutation_in; [apply Permutation_sym; exact Q|exact Ia]).
    assert (In b l) as Ib' by (eapply Permutation_in; [apply Permutation_sym; exact Q|exact Ib]).
    specialize (H a Ia'). rewrite forallb_forall in H. exact (H b Ib'). }
  split; apply K; [exact Pm|apply Permutation_sym; exact Pm].
Qed.

(* the verdict does not depend on the order in which the definitions are listed *)
Lemma run_perm d d' t t' : Permutation d d' -> Permutation t t' -> run d t = run d' t'.
Proof.
  intros Pd Pt. unfold run, accept. rewrite (check_ports_perm d d' Pd).
  rewrite (check_minor_perm (t ++ d) (t' ++ d')); [reflexivity|apply Permutation_app; assumption].
Qed.

(* definitions that are neither read directly nor reached cannot turn an accepted set into a rejected one through
   the port rule: the port check looks at `direct` only *)
Lemma accept_transitive_ports_ignored d t :
  accept d t = check_ports d && check_minor (t ++ d).
Proof. reflexivity. Qed.
