(* C15 - proofs about the path model. *)
From Coq Require Import ZArith List Bool Lia.
From PV Require Import Util.ListSet Namespace.Paths.
Import ListNotations.
Open Scope Z_scope.

Lemma is_digit_spec c : is_digit c = true <-> 48 <= c <= 57.
Proof. unfold is_digit. rewrite andb_true_iff, !Z.leb_le. tauto. Qed.

Lemma parse_decimal_some s v : parse_decimal s = Some v <-> digits s /\ v = dec_value s.
Proof.
  unfold parse_decimal, digits. destruct s as [|c r].
  - split; [discriminate|intros [[H _] _]; congruence].
  - destruct (forallb is_digit (c :: r)) eqn:E.
    + rewrite forallb_forall in E. split.
      * intros H. inversion H. split; [split; [discriminate|]|reflexivity].
        intros x Hx. apply is_digit_spec. apply E. exact Hx.
      * intros [_ ->]. reflexivity.
    + split; [discriminate|]. intros [[_ H] _].
      assert (forallb is_digit (c :: r) = true) as X.
      { apply forallb_forall. intros x Hx. apply is_digit_spec. apply H. exact Hx. }
      congruence.
Qed.
