(* C15 - proofs about the path model. *)
From Coq Require Import ZArith List Bool Lia.
From PV Require Import Util.ListSet Namespace.Paths.
Import ListNotations.
Open Scope Z_scope.

Lemma is_digit_spec c : is_digit c = true <-> 48 <= c <= 57.
Proof. unfold is_digit. rewrite andb_true_iff, !Z.leb_le. tauto. Qed.

Lemma parse_decimal_some s v : parse_decimal s = Some v <-> digits s /\ v = dec_value s.
Proof.
  unfold parse_decimal, digits. destruct s as [|c r].
  - split; [discriminate|intros [[H _] _]; congruence].
  - destruct (forallb is_digit (c :: r)) eqn:E.
    + rewrite forallb_forall in E. split.
      * intros H. inversion H. split; [split; [discriminate|]|reflexivity].
        intros x Hx. apply is_digit_spec. apply E. exact Hx.
      * intros [_ ->]. reflexivity.
    + split; [discriminate|]. intros [[_ H] _].
      assert (forallb is_digit (c :: r) = true) as X.
      { apply forallb_forall. intros x Hx. apply is_digit_spec. apply H. exact Hx. }
      congruence.
Qed.

(* ---------------------------------------------------------------------------------------------------------- *)
(* strings: split / join                                                                                       *)

Lemma has_dot_false s : has_dot s = false <-> no_dot s.
Proof.
  unfold has_dot, no_dot. split.
  - intros H I. assert (existsb (fun c => c =? dot) s = true) as X.
    { apply existsb_exists. exists dot. split; [exact I|apply Z.eqb_refl]. } congruence.
  - intros H. destruct (existsb (fun c => c =? dot) s) eqn:E; [|reflexivity].
    apply existsb_exists in E. destruct E as (c & I & E). apply Z.eqb_eq in E. subst. contradiction.
Qed.

Lemma has_dot_true s : has_dot s = true <-> In dot s.
Proof.
  unfold has_dot. rewrite existsb_exists. split.
  - intros (c & I & E). apply Z.eqb_eq in E. subst. exact I.
  - intros I. exists dot. split; [exact I|apply Z.eqb_refl].
Qed.

Lemma split_on_nonempty sep s : split_on sep s <> [].
Proof. destruct s as [|c r]; simpl; [discriminate|]. destruct (c =? sep); [discriminate|]. destruct (split_on sep r); discriminate. Qed.

Lemma split_on_nodot s : no_dot s -> split_on dot s = [s].
Proof.
  unfold no_dot. induction s as [|c r IH]; intros H; simpl; [reflexivity|].
  destruct (c =? dot) eqn:E; [apply Z.eqb_eq in E; subst; exfalso; apply H; left; reflexivity|].
  rewrite IH; [reflexivity|]. intros I. apply H. right. exact I.
Qed.

Lemma split_on_app a b : no_dot a -> split_on dot (a ++ dot :: b) = a :: split_on dot b.
Proof.
  unfold no_dot. induction a as [|c r IH]; intros H; simpl.
  - reflexivity.
  - destruct (c =? dot) eqn:E; [apply Z.eqb_eq in E; subst; exfalso; apply H; left; reflexivity|].
    rewrite IH; [reflexivity|]. intros I. apply H. right. exact I.
Qed.

Lemma join_split s : join_with dot (split_on dot s) = s.
Proof.
  induction s as [|c r IH]; simpl; [reflexivity|].
  destruct (c =? dot) eqn:E.
  - apply Z.eqb_eq in E. subst c. destruct (split_on dot r) as [|h t] eqn:S; [exfalso; exact (split_on_nonempty _ _ S)|].
    cbn [join_with]. simpl in IH. cbn [app]. f_equal. exact IH.
  - destruct (split_on dot r) as [|h t] eqn:S; [exfalso; exact (split_on_nonempty _ _ S)|].
    destruct t as [|h2 t2]; simpl in *; subst; reflexivity.
Qed.

Lemma split_parts_nodot s p : In p (split_on dot s) -> no_dot p.
Proof.
  revert p. induction s as [|c r IH]; intros p; simpl.
  - intros [<-|[]]. intros [].
  - destruct (c =? dot) eqn:E.
    + intros [<-|I]; [intros []|apply IH; exact I].
    + destruct (split_on dot r) as [|h t] eqn:S.
      * intros [<-|[]]. intros [X|[]]. apply Z.eqb_neq in E. congruence.
      * intros [<-|I].
        -- intros [X|X]; [apply Z.eqb_neq in E; congruence|]. apply (IH h); [left; reflexivity|exact X].
        -- apply IH. right. exact I.
Qed.

Lemma split_join l : l <> [] -> Forall no_dot l -> split_on dot (join_with dot l) = l.
Proof.
  induction l as [|x r IH]; intros NE F; [congruence|].
  inversion F as [|? ? Hx Hr]; subst. destruct r as [|y r'].
  - simpl. apply split_on_nodot. exact Hx.
  - change (join_with dot (x :: y :: r')) with (x ++ dot :: join_with dot (y :: r')).
    rewrite split_on_app by exact Hx. rewrite IH; [reflexivity|discriminate|exact Hr].
Qed.

Lemma list_eqb_refl s : list_eqb s s = true.
Proof. apply list_eqb_eq. reflexivity. Qed.

Lemma strs_eqb_eq a b : strs_eqb a b = true <-> a = b.
Proof.
  revert b. induction a as [|x a IH]; intros [|y b]; simpl; split; intros H; try congruence; try discriminate.
  - apply andb_true_iff in H. destruct H as [H1 H2]. apply list_eqb_eq in H1. apply IH in H2. congruence.
  - inversion H; subst. rewrite list_eqb_refl. simpl. apply IH. reflexivity.
Qed.

Lemma strip_prefix_app pre l : strip_prefix pre (pre ++ l) = Some l.
Proof. induction pre as [|x r IH]; simpl; [reflexivity|]. rewrite list_eqb_refl. exact IH. Qed.

Lemma strip_prefix_some pre l rest : strip_prefix pre l = Some rest <-> l = pre ++ rest.
Proof.
  split.
  - revert l. induction pre as [|x r IH]; intros l; simpl.
    + intros H. inversion H. reflexivity.
    + destruct l as [|y l']; [discriminate|]. destruct (list_eqb x y) eqn:E; [|discriminate].
      apply list_eqb_eq in E. subst y. intros H. rewrite (IH l' H). reflexivity.
  - intros ->. apply strip_prefix_app.
Qed.

Lemma is_prefix_spec a b : is_prefix a b = true <-> exists rest, b = a ++ rest.
Proof.
  unfold is_prefix. destruct (strip_prefix a b) as [r|] eqn:E.
  - apply strip_prefix_some in E. split; [intros _; exists r; exact E|reflexivity].
  - split; [discriminate|]. intros (r & ->). rewrite strip_prefix_app in E. discriminate.
Qed.

Lemma last_app_single {A} (l : list A) (x d : A) : last (l ++ [x]) d = x.
Proof. induction l as [|y r IH]; simpl; [reflexivity|]. destruct (r ++ [x]) eqn:E; [destruct r; discriminate|exact IH]. Qed.

Lemma removelast_app_single {A} (l : list A) (x : A) : removelast (l ++ [x]) = l.
Proof. rewrite removelast_app by discriminate. simpl. apply app_nil_r. Qed.

(* ---------------------------------------------------------------------------------------------------------- *)
(* file name -> identity: round trip                                                                           *)

Lemma digits_no_dot s : digits s -> no_dot s.
Proof. intros [_ H] I. specialize (H _ I). unfold dot in H. lia. Qed.

Definition wf_fields (sp : option str) (short smj smn sfx : str) : Prop :=
  no_dot short /\ digits smj /\ digits smn /\ no_dot sfx /\ match sp with Some p => digits p | None => True end.

Lemma parse_decimal_digits s : digits s -> parse_decimal s = Some (dec_value s).
Proof. intros H. apply parse_decimal_some. split; [exact H|reflexivity]. Qed.

Lemma parse_basename_render sp short smj smn sfx :
  wf_fields sp short smj smn sfx -> parse_basename (render_basename sp short smj smn sfx) = Some (sp, short, smj, smn).
Proof.
  intros (Hs & Hmj & Hmn & Hx & Hp). unfold parse_basename, render_basename.
  apply digits_no_dot in Hmj, Hmn. destruct sp as [p|].
  - apply digits_no_dot in Hp.
    rewrite (split_on_app p _ Hp), (split_on_app short _ Hs), (split_on_app smj _ Hmj), (split_on_app smn _ Hmn), (split_on_nodot sfx Hx).
    reflexivity.
  - rewrite (split_on_app short _ Hs), (split_on_app smj _ Hmj), (split_on_app smn _ Hmn), (split_on_nodot sfx Hx).
    reflexivity.
Qed.

Lemma existsb_has_dot_false l : Forall no_dot l -> existsb has_dot l = false.
Proof.
  induction 1 as [|x r Hx Hr IH]; simpl; [reflexivity|].
  rewrite (proj2 (has_dot_false x) Hx). exact IH.
Qed.

Lemma parse_rel_render rn ds sp short smj smn sfx :
  no_dot rn -> Forall no_dot ds -> wf_fields sp short smj smn sfx ->
  parse_rel rn (ds ++ [render_basename sp short smj smn sfx]) =
  Some (join_with dot ((rn :: ds) ++ [short]), dec_value smj, dec_value smn, option_map dec_value sp).
Proof.
  intros Hrn Hds W. unfold parse_rel. rewrite (proj2 (has_dot_false rn) Hrn).
  unfold pname. rewrite app_comm_cons, last_app_single, (parse_basename_render _ _ _ _ _ W).
  destruct W as (Hs & Hmj & Hmn & Hx & Hp).
  rewrite (parse_decimal_digits _ Hmj), (parse_decimal_digits _ Hmn).
  rewrite removelast_app_single.
  assert (existsb has_dot (rn :: ds) = false) as E by (apply existsb_has_dot_false; constructor; assumption).
  destruct sp as [p|].
  - rewrite (parse_decimal_digits _ Hp), E. reflexivity.
  - rewrite E. reflexivity.
Qed.

(* DSDLDefinition.__init__ on a well-formed path: exactly the encoded name, version and port-ID *)
Lemma mk_definition_render fs root ds sp short smj smn sfx :
  let rn := pname root in
  let file := root ++ ds ++ [render_basename sp short smj smn sfx] in
  no_dot rn -> Forall no_dot ds -> wf_fields sp short smj smn sfx -> exists_ fs file = true ->
  mk_definition fs file root =
  Ok (mkDef file root (join_with dot ((rn :: ds) ++ [short])) (dec_value smj) (dec_value smn) (option_map dec_value sp)).
Proof.
  intros rn file Hrn Hds W E. unfold mk_definition. rewrite E. simpl negb. cbv iota.
  fold rn. rewrite (proj2 (has_dot_false rn) Hrn).
  unfold file at 1. rewrite strip_prefix_app.
  rewrite (parse_rel_render rn ds sp short smj smn sfx Hrn Hds W). reflexivity.
Qed.

(* ... and nothing else is accepted *)
Lemma parse_basename_inv b sp short smj smn :
  parse_basename b = Some (sp, short, smj, smn) ->
  exists sfx, b = render_basename sp short smj smn sfx /\ no_dot short /\ no_dot smj /\ no_dot smn /\ no_dot sfx
              /\ match sp with Some p => no_dot p | None => True end.
Proof.
  unfold parse_basename. intros H.
  pose proof (join_split b) as J. pose proof (split_parts_nodot b) as ND.
  pose proof (split_on_nonempty dot b) as NE.
  set (l := split_on dot b) in *. clearbody l.
  destruct (exists_last NE) as (rl & sfx & ->). rewrite removelast_app_single in H.
  destruct rl as [|x1 [|x2 [|x3 [|x4 [|x5 r]]]]]; try discriminate.
  - injection H as <- <- <- <-. exists sfx. simpl in J. unfold render_basename.
    repeat split; try (apply ND; simpl; tauto). symmetry. exact J.
  - injection H as <- <- <- <-. exists sfx. simpl in J. unfold render_basename.
    repeat split; try (apply ND; simpl; tauto). symmetry. exact J.
Qed.

Lemma existsb_has_dot_false_inv l : existsb has_dot l = false -> Forall no_dot l.
Proof.
  induction l as [|x r IH]; simpl; intros H; [constructor|].
  apply orb_false_iff in H. destruct H as [H1 H2]. constructor; [apply has_dot_false; exact H1|apply IH; exact H2].
Qed.

Lemma parse_rel_inv rn rel n mj mn port :
  parse_rel rn rel = Some (n, mj, mn, port) ->
  no_dot rn /\ exists ds sp short smj smn sfx,
    rel = ds ++ [render_basename sp short smj smn sfx] /\ Forall no_dot ds /\ wf_fields sp short smj smn sfx /\
    n = join_with dot ((rn :: ds) ++ [short]) /\ mj = dec_value smj /\ mn = dec_value smn /\ port = option_map dec_value sp.
Proof.
  intros H. assert (Hrn : no_dot rn).
  { unfold parse_rel in H. destruct (has_dot rn) eqn:E; [discriminate|]. apply has_dot_false. exact E. }
  split; [exact Hrn|].
  destruct rel as [|r0 rel'].
  { (* the root directory itself: its name has no dot, hence fewer than three parts *)
    exfalso. unfold parse_rel in H. rewrite (proj2 (has_dot_false rn) Hrn) in H. cbv zeta in H.
    unfold pname in H. simpl last in H. unfold parse_basename in H. rewrite (split_on_nodot rn Hrn) in H. simpl in H. discriminate. }
  assert (NE : r0 :: rel' <> []) by discriminate.
  destruct (exists_last NE) as (ds & b & Erel). rewrite Erel in *. clear Erel NE r0 rel'.
  unfold parse_rel in H. rewrite (proj2 (has_dot_false rn) Hrn) in H. cbv zeta in H.
  unfold pname in H. rewrite app_comm_cons, last_app_single, removelast_app_single in H.
  destruct (parse_basename b) as [[[[sp short] smj] smn]|] eqn:PB; [|discriminate].
  destruct (parse_basename_inv _ _ _ _ _ PB) as (sfx & Eb & Hs & _ & _ & Hx & _).
  assert (exists p, match sp with Some t => match parse_decimal t with Some v => Some (Some v) | None => None end | None => Some None end = Some p
                    /\ p = option_map dec_value sp /\ match sp with Some t => digits t | None => True end) as (p & Ep & Epv & Hp).
  { destruct sp as [t|].
    - destruct (parse_decimal t) as [v|] eqn:PD; [|discriminate]. apply parse_decimal_some in PD. destruct PD as [D ->].
      eexists. split; [reflexivity|]. split; [reflexivity|exact D].
    - eexists. split; [reflexivity|]. split; [reflexivity|exact I]. }
  rewrite Ep in H.
  destruct (parse_decimal smj) as [vmj|] eqn:Pmj; [|discriminate].
  destruct (parse_decimal smn) as [vmn|] eqn:Pmn; [|discriminate].
  destruct (existsb has_dot (rn :: ds)) eqn:ED; [discriminate|].
  apply parse_decimal_some in Pmj, Pmn. destruct Pmj as [Dmj ->], Pmn as [Dmn ->].
  apply existsb_has_dot_false_inv in ED. inversion ED as [|? ? _ Hds]; subst.
  inversion H; subst. exists ds, sp, short, smj, smn, sfx.
  split; [reflexivity|]. split; [exact Hds|]. split; [exact (conj Hs (conj Dmj (conj Dmn (conj Hx Hp))))|].
  repeat split; reflexivity.
Qed.

Lemma mk_definition_shape fs file root d :
  mk_definition fs file root = Ok d <->
  exists_ fs file = true /\
  exists ds sp short smj smn sfx,
    file = root ++ ds ++ [render_basename sp short smj smn sfx] /\
    no_dot (pname root) /\ Forall no_dot ds /\ wf_fields sp short smj smn sfx /\
    d = mkDef file root (join_with dot ((pname root :: ds) ++ [short])) (dec_value smj) (dec_value smn) (option_map dec_value sp).
Proof.
  split.
  - unfold mk_definition. destruct (exists_ fs file) eqn:E; [|discriminate]. simpl negb. cbv iota.
    destruct (has_dot (pname root)) eqn:HD; [discriminate|].
    destruct (strip_prefix root file) as [rel|] eqn:SP; [|discriminate]. apply strip_prefix_some in SP.
    destruct (parse_rel (pname root) rel) as [[[[n mj] mn] port]|] eqn:PR; [|discriminate].
    intros H. inversion H; subst d. split; [reflexivity|].
    destruct (parse_rel_inv _ _ _ _ _ _ PR) as (Hrn & ds & sp & short & smj & smn & sfx & -> & Hds & W & -> & -> & -> & ->).
    exists ds, sp, short, smj, smn, sfx. split; [exact SP|]. split; [exact Hrn|]. split; [exact Hds|]. split; [exact W|reflexivity].
  - intros (E & ds & sp & short & smj & smn & sfx & -> & Hrn & Hds & W & ->).
    apply mk_definition_render; assumption.
Qed.

(* ---------------------------------------------------------------------------------------------------------- *)
(* the composite-level checks: source_file_path / source_file_path_to_root point back                          *)

Lemma rfind_dot_none s i acc : no_dot s -> rfind_dot s i acc = acc.
Proof.
  unfold no_dot. revert i acc. induction s as [|c r IH]; intros i acc H; simpl; [reflexivity|].
  destruct (c =? dot) eqn:E; [apply Z.eqb_eq in E; subst; exfalso; apply H; left; reflexivity|].
  apply IH. intros I. apply H. right. exact I.
Qed.

Lemma stem_nodot s : no_dot s -> stem s = s.
Proof. intros H. unfold stem. rewrite (rfind_dot_none s 0 None H). reflexivity. Qed.

Lemma search_up_ok l rp rn :
  Forall no_dot l -> no_dot rn ->
  search_up_rev (l ++ rn :: rev rp) (l ++ [rn]) = Some (rp ++ [rn]).
Proof.
  intros Hl Hrn. induction Hl as [|c l' Hc Hl' IH].
  - simpl. rewrite (stem_nodot rn Hrn), list_eqb_refl. rewrite rev_involutive. reflexivity.
  - cbn [app search_up_rev]. rewrite (stem_nodot c Hc), list_eqb_refl.
    destruct (l' ++ [rn]) as [|x r] eqn:E; [destruct l'; discriminate|]. exact IH.
Qed.

Definition version_ok (mj mn : Z) : bool :=
  (0 <=? mj) && (mj <=? MAX_VERSION_NUMBER) && (0 <=? mn) && (mn <=? MAX_VERSION_NUMBER) && (0 <? mj + mn).
Definition port_ok (port : option Z) (is_service_type : bool) : bool :=
  match port with
  | None => true
  | Some p => (0 <=? p) && (p <=? (if is_service_type then MAX_SERVICE_ID else MAX_SUBJECT_ID))
  end.
Definition name_checks (cs : list str) (mj mn : Z) (port : option Z) (is_service_type : bool) : bool :=
  forallb check_name cs && negb (MAX_NAME_LENGTH <? Z.of_nat (length (join_with dot cs))) && version_ok mj mn && port_ok port is_service_type.

Lemma join_two_has_dot a b r : has_dot (join_with dot (a :: b :: r)) = true.
Proof. apply has_dot_true. change (join_with dot (a :: b :: r)) with (a ++ dot :: join_with dot (b :: r)). apply in_or_app. right. left. reflexivity. Qed.

Lemma join_two_nonempty a b r : join_with dot (a :: b :: r) <> [].
Proof. change (join_with dot (a :: b :: r)) with (a ++ dot :: join_with dot (b :: r)). destruct a; discriminate. Qed.

Lemma match_nonempty {A B} (l : list B) (x y : A) : l <> [] -> match l with [] => x | _ :: _ => y end = y.
Proof. destruct l; [congruence|reflexivity]. Qed.

(* name components = root name :: directories ++ tail, where tail is [short] or [short; Request/Response] *)
Lemma composite_init_shape (rp : list comp) (rn : str) (ds tail : list str) (b : str) (root : list comp) (cs : list str)
      mj mn port (hps ist : bool) :
  root = rp ++ [rn] ->
  cs = (rn :: ds) ++ tail ->
  Forall no_dot cs ->
  removelast (if hps then removelast cs else cs) = rn :: ds ->
  tail <> [] ->
  composite_init (join_with dot cs) mj mn port (root ++ ds ++ [b]) hps ist =
  if name_checks cs mj mn port ist then Ok (join_with dot cs, root) else Err RInvalid.
Proof.
  intros Eroot Ecs0 Hcs Hns Htail. unfold composite_init, name_checks.
  assert (Hcs2 : exists a b' r, cs = a :: b' :: r).
  { rewrite Ecs0. destruct tail as [|t0 tr]; [congruence|]. destruct ds as [|d0 dr]; simpl; eauto. }
  destruct Hcs2 as (a & b' & r & Ecs).
  assert (NE : join_with dot cs <> []) by (rewrite Ecs; apply join_two_nonempty).
  rewrite (match_nonempty _ _ _ NE).
  assert (HD : has_dot (join_with dot cs) = true) by (rewrite Ecs; apply join_two_has_dot).
  rewrite HD. simpl negb. cbv iota.
  destruct (MAX_NAME_LENGTH <? Z.of_nat (length (join_with dot cs))) eqn:EL; [simpl negb; rewrite andb_false_r; reflexivity|].
  rewrite split_join; [|rewrite Ecs; discriminate|exact Hcs].
  destruct (forallb check_name cs) eqn:EC; [|reflexivity]. simpl negb. cbv iota. cbn [andb negb].
  replace (removelast (root ++ ds ++ [b])) with (root ++ ds) by (rewrite app_assoc, removelast_app_single; reflexivity).
  assert (Hns' : (if hps then removelast (removelast cs) else removelast cs) = rn :: ds) by (destruct hps; exact Hns).
  rewrite Hns'. rewrite Eroot at 1. rewrite rev_app_distr, rev_app_distr. simpl rev at 2. cbn [app].
  change (rev (rn :: ds)) with (rev ds ++ [rn]).
  assert (Fds : Forall no_dot (rev ds) /\ no_dot rn).
  { rewrite Ecs0 in Hcs. apply Forall_app in Hcs. destruct Hcs as [H1 _]. inversion H1; subst. split; [apply Forall_rev; assumption|assumption]. }
  destruct Fds as [Fds Frn]. rewrite (search_up_ok (rev ds) rp rn Fds Frn). rewrite <- Eroot.
  unfold version_ok, port_ok.
  destruct ((0 <=? mj) && (mj <=? MAX_VERSION_NUMBER) && (0 <=? mn) && (mn <=? MAX_VERSION_NUMBER) && (0 <? mj + mn)); [|reflexivity].
  simpl negb. cbv iota. cbn [andb]. destruct port as [p|]; [|reflexivity].
  destruct ((0 <=? p) && (p <=? (if ist then MAX_SERVICE_ID else MAX_SUBJECT_ID))); reflexivity.
Qed.

Lemma join_app_single cs x : cs <> [] -> join_with dot (cs ++ [x]) = join_with dot cs ++ dot :: x.
Proof.
  induction cs as [|a r IH]; intros NE; [congruence|]. destruct r as [|b r'].
  - reflexivity.
  - change (join_with dot ((a :: b :: r') ++ [x])) with (a ++ dot :: join_with dot ((b :: r') ++ [x])).
    rewrite IH by discriminate. change (join_with dot (a :: b :: r')) with (a ++ dot :: join_with dot (b :: r')).
    rewrite <- app_assoc. reflexivity.
Qed.

Definition W_Request : list Z := [82; 101; 113; 117; 101; 115; 116].
Definition W_Response : list Z := [82; 101; 115; 112; 111; 110; 115; 101].

Definition msg_checks (cs : list (list Z)) (mj mn : Z) (port : option Z) : bool := name_checks cs mj mn port false.
Definition svc_checks (cs : list (list Z)) (mj mn : Z) (port : option Z) : bool :=
  forallb check_name cs && negb (MAX_NAME_LENGTH <? Z.of_nat (length (join_with dot cs)) + 9) && version_ok mj mn && port_ok port true.

Lemma no_dot_word w : forallb (fun c => negb (c =? dot)) w = true -> no_dot w.
Proof. intros H I. rewrite forallb_forall in H. specialize (H _ I). rewrite Z.eqb_refl in H. discriminate. Qed.

(* a message type read from a well-formed path: accepted iff the names, the version and the port-ID are valid,
   and then source_file_path / source_file_path_to_root are the file and the root directory it was parsed against *)
Lemma composite_of_msg rp rn ds short b mj mn port :
  let root := rp ++ [rn] in
  let file := root ++ ds ++ [b] in
  let cs := (rn :: ds) ++ [short] in
  Forall no_dot cs ->
  composite_of false (mkDef file root (join_with dot cs) mj mn port) =
  if msg_checks cs mj mn port then Ok (mkId (join_with dot cs) mj mn port file root) else Err RInvalid.
Proof.
  intros root file cs Hcs. unfold composite_of, msg_checks. cbn [d_name d_major d_minor d_port d_file].
  unfold file. rewrite (composite_init_shape rp rn ds [short] b root cs mj mn port false false eq_refl eq_refl Hcs).
  - destruct (name_checks cs mj mn port false); reflexivity.
  - unfold cs. rewrite removelast_app_single. reflexivity.
  - discriminate.
Qed.

Lemma composite_of_svc rp rn ds short b mj mn port :
  let root := rp ++ [rn] in
  let file := root ++ ds ++ [b] in
  let cs := (rn :: ds) ++ [short] in
  Forall no_dot cs ->
  composite_of true (mkDef file root (join_with dot cs) mj mn port) =
  if svc_checks cs mj mn port then Ok (mkId (join_with dot cs) mj mn port file root) else Err RInvalid.
Proof.
  intros root file cs Hcs. unfold composite_of. cbn [d_name d_major d_minor d_port d_file].
  assert (NEcs : cs <> []) by (unfold cs; discriminate).
  assert (Hrq : Forall no_dot ((rn :: ds) ++ [short; W_Request])).
  { change ((rn :: ds) ++ [short; W_Request]) with ((rn :: ds) ++ [short] ++ [W_Request]). rewrite app_assoc.
    apply Forall_app. split; [exact Hcs|]. constructor; [apply no_dot_word; reflexivity|constructor]. }
  assert (Hrs : Forall no_dot ((rn :: ds) ++ [short; W_Response])).
  { change ((rn :: ds) ++ [short; W_Response]) with ((rn :: ds) ++ [short] ++ [W_Response]). rewrite app_assoc.
    apply Forall_app. split; [exact Hcs|]. constructor; [apply no_dot_word; reflexivity|constructor]. }
  assert (Erq : join_with dot cs ++ REQUEST = join_with dot ((rn :: ds) ++ [short; W_Request])).
  { change ((rn :: ds) ++ [short; W_Request]) with ((rn :: ds) ++ [short] ++ [W_Request]). rewrite app_assoc.
    fold cs. rewrite (join_app_single cs W_Request NEcs). reflexivity. }
  assert (Ers : join_with dot cs ++ RESPONSE = join_with dot ((rn :: ds) ++ [short; W_Response])).
  { change ((rn :: ds) ++ [short; W_Response]) with ((rn :: ds) ++ [short] ++ [W_Response]). rewrite app_assoc.
    fold cs. rewrite (join_app_single cs W_Response NEcs). reflexivity. }
  assert (RL : forall x, removelast (removelast ((rn :: ds) ++ [short; x])) = rn :: ds).
  { intros x. change ((rn :: ds) ++ [short; x]) with ((rn :: ds) ++ [short] ++ [x]). rewrite app_assoc.
    rewrite removelast_app_single, removelast_app_single. reflexivity. }
  rewrite Erq, Ers. unfold file.
  rewrite (composite_init_shape rp rn ds [short; W_Request] b root _ mj mn None true false eq_refl eq_refl Hrq (RL _)) by discriminate.
  rewrite (composite_init_shape rp rn ds [short; W_Response] b root _ mj mn None true false eq_refl eq_refl Hrs (RL _)) by discriminate.
  (* lengths and names of the two sections *)
  assert (LQ : length (join_with dot ((rn :: ds) ++ [short; W_Request])) = (length (join_with dot cs) + 8)%nat).
  { rewrite <- Erq, app_length. reflexivity. }
  assert (LS : length (join_with dot ((rn :: ds) ++ [short; W_Response])) = (length (join_with dot cs) + 9)%nat).
  { rewrite <- Ers, app_length. reflexivity. }
  assert (FQ : forall x, check_name x = true -> forallb check_name ((rn :: ds) ++ [short; x]) = forallb check_name cs).
  { intros x Hx. change ((rn :: ds) ++ [short; x]) with ((rn :: ds) ++ [short] ++ [x]). rewrite app_assoc. fold cs.
    rewrite forallb_app. simpl. rewrite Hx. rewrite !andb_true_r. reflexivity. }
  unfold name_checks, svc_checks. rewrite (FQ W_Request eq_refl), (FQ W_Response eq_refl), LQ, LS.
  cbn [port_ok]. rewrite !andb_true_r.
  destruct (forallb check_name cs) eqn:EC; [|reflexivity]. cbn [andb].
  destruct (version_ok mj mn) eqn:EV; [|rewrite !andb_false_r; reflexivity]. rewrite !andb_true_r.
  destruct (MAX_NAME_LENGTH <? Z.of_nat (length (join_with dot cs)) + 9) eqn:E9.
  - (* too long for the response *)
    assert ((MAX_NAME_LENGTH <? Z.of_nat (length (join_with dot cs) + 9)) = true) as X.
    { apply Z.ltb_lt. apply Z.ltb_lt in E9. lia. }
    rewrite X. destruct (negb (MAX_NAME_LENGTH <? Z.of_nat (length (join_with dot cs) + 8))); reflexivity.
  - assert ((MAX_NAME_LENGTH <? Z.of_nat (length (join_with dot cs) + 9)) = false) as X9.
    { apply Z.ltb_ge. apply Z.ltb_ge in E9. lia. }
    assert ((MAX_NAME_LENGTH <? Z.of_nat (length (join_with dot cs) + 8)) = false) as X8.
    { apply Z.ltb_ge. apply Z.ltb_ge in E9. lia. }
    rewrite X8, X9. cbn [negb bind fst snd].
    rewrite <- Erq. rewrite Erq. rewrite split_join; [|destruct ds; discriminate|exact Hrq].
    change ((rn :: ds) ++ [short; W_Request]) with ((rn :: ds) ++ [short] ++ [W_Request]). rewrite app_assoc, removelast_app_single.
    fold cs.
    rewrite (composite_init_shape rp rn ds [short] b root cs mj mn port false true eq_refl eq_refl Hcs).
    + unfold name_checks. rewrite EC, EV. cbn [andb].
      assert ((MAX_NAME_LENGTH <? Z.of_nat (length (join_with dot cs))) = false) as X0.
      { apply Z.ltb_ge. apply Z.ltb_ge in E9. lia. }
      rewrite X0. cbn [negb andb]. destruct (port_ok port true); reflexivity.
    + unfold cs. rewrite removelast_app_single. reflexivity.
    + discriminate.
Qed.

(* ---------------------------------------------------------------------------------------------------------- *)
(* one file, one root: what a reader observes                                                                  *)

Definition identity_of (fs : fsys) (file root : list (list Z)) : res ident :=
  bind (mk_definition fs file root) (fun d => composite_of (file_is_service fs file) d).

Definition kind_checks (svc : bool) := if svc then svc_checks else msg_checks.

Theorem identity_of_spec fs rp rn file i :
  let root := rp ++ [rn] in
  identity_of fs file root = Ok i <->
  exists_ fs file = true /\
  exists ds sp short smj smn sfx,
    file = root ++ ds ++ [render_basename sp short smj smn sfx] /\
    no_dot rn /\ Forall no_dot ds /\ wf_fields sp short smj smn sfx /\
    kind_checks (file_is_service fs file) ((rn :: ds) ++ [short]) (dec_value smj) (dec_value smn) (option_map dec_value sp) = true /\
    i = mkId (join_with dot ((rn :: ds) ++ [short])) (dec_value smj) (dec_value smn) (option_map dec_value sp) file root.
Proof.
  intros root. unfold identity_of.
  assert (PN : pname root = rn) by (unfold root, pname; apply last_app_single).
  split.
  - destruct (mk_definition fs file root) as [d|e] eqn:MD; [|discriminate]. cbn [bind]. intros C.
    apply mk_definition_shape in MD. destruct MD as (E & ds & sp & short & smj & smn & sfx & Ef & Hrn & Hds & W & ->).
    rewrite PN in *. split; [exact E|]. exists ds, sp, short, smj, smn, sfx.
    assert (Hcs : Forall no_dot ((rn :: ds) ++ [short])).
    { apply Forall_app. split; [constructor; assumption|]. constructor; [apply W|constructor]. }
    rewrite Ef in C at 2.
    destruct (file_is_service fs file).
    + unfold root in C. rewrite (composite_of_svc rp rn ds short _ _ _ _ Hcs) in C. fold root in C. rewrite <- Ef in C.
      destruct (svc_checks _ _ _ _) eqn:K; [|discriminate]. inversion C.
      split; [exact Ef|]. split; [exact Hrn|]. split; [exact Hds|]. split; [exact W|]. split; [exact K|reflexivity].
    + unfold root in C. rewrite (composite_of_msg rp rn ds short _ _ _ _ Hcs) in C. fold root in C. rewrite <- Ef in C.
      destruct (msg_checks _ _ _ _) eqn:K; [|discriminate]. inversion C.
      split; [exact Ef|]. split; [exact Hrn|]. split; [exact Hds|]. split; [exact W|]. split; [exact K|reflexivity].
  - intros (E & ds & sp & short & smj & smn & sfx & Ef & Hrn & Hds & W & K & ->).
    assert (MD := mk_definition_render fs root ds sp short smj smn sfx). cbv zeta in MD. rewrite PN in MD.
    rewrite <- Ef in MD. rewrite (MD Hrn Hds W E). cbn [bind].
    assert (Hcs : Forall no_dot ((rn :: ds) ++ [short])).
    { apply Forall_app. split; [constructor; assumption|]. constructor; [apply W|constructor]. }
    rewrite Ef at 2. destruct (file_is_service fs file); cbn [kind_checks] in K.
    + unfold root. rewrite (composite_of_svc rp rn ds short _ _ _ _ Hcs), K. fold root. rewrite <- Ef. reflexivity.
    + unfold root. rewrite (composite_of_msg rp rn ds short _ _ _ _ Hcs), K. fold root. rewrite <- Ef. reflexivity.
Qed.

(* ---------------------------------------------------------------------------------------------------------- *)
(* root inference                                                                                              *)

(* a given root covers the (resolved) target *)
Definition covers (cwd : list (list Z)) (f : list (list Z)) (r : path) : bool := is_prefix (resolve cwd r) f.

Lemma is_prefix_app_inv pre a b : is_prefix (pre ++ a) (pre ++ b) = true -> is_prefix a b = true.
Proof.
  intros H. apply is_prefix_spec in H. destruct H as (rest & H). rewrite <- app_assoc in H. apply app_inv_head in H.
  apply is_prefix_spec. exists rest. exact H.
Qed.

Lemma is_prefix_app pre a b : is_prefix a b = true -> is_prefix (pre ++ a) (pre ++ b) = true.
Proof.
  intros H. apply is_prefix_spec in H. destruct H as (rest & ->). apply is_prefix_spec. exists rest. rewrite app_assoc. reflexivity.
Qed.

Lemma relative_to_covers cwd t r rest : relative_to t r = Some rest -> covers cwd (resolve cwd t) r = true.
Proof.
  unfold relative_to, covers, resolve. destruct t as [ta tc], r as [ra rc]. cbn [is_abs comps].
  destruct (Bool.eqb ta ra) eqn:E; [|discriminate]. apply eqb_prop in E. subst ra. intros H.
  assert (is_prefix rc tc = true) as P. { unfold is_prefix. rewrite H. reflexivity. }
  destruct ta; [exact P|apply is_prefix_app; exact P].
Qed.

Lemma covers_relative cwd t r :
  is_abs t = false -> is_abs r = false -> covers cwd (resolve cwd t) r = true -> exists rest, relative_to t r = Some rest.
Proof.
  unfold relative_to, covers, resolve. destruct t as [ta tc], r as [ra rc]. cbn [is_abs comps]. intros -> -> H.
  apply is_prefix_app_inv in H. cbn [Bool.eqb]. unfold is_prefix in H. destruct (strip_prefix rc tc) as [x|]; [eauto|discriminate].
Qed.

(* strategy 2 returns the first root of the list that covers the resolved target *)
Lemma strategy2_unique cwd t roots r0 :
  let f := resolve cwd t in
  In r0 roots -> covers cwd f r0 = true ->
  (forall r, In r roots -> covers cwd f r = true -> resolve cwd r = resolve cwd r0) ->
  exists p, strategy2 cwd t (Some f) roots = Some p /\ resolve cwd p = resolve cwd r0.
Proof.
  intros f. induction roots as [|r rest IH]; intros I C0 U; [destruct I|].
  cbn [strategy2]. destruct (relative_to t r) as [x|] eqn:RT.
  - exists r. split; [reflexivity|]. apply U; [left; reflexivity|]. exact (relative_to_covers cwd t r x RT).
  - fold f. destruct (covers cwd f r) eqn:CR.
    + (* covered but not relative as pure paths: at least one of the two is absolute *)
      assert ((is_abs r || is_abs t) = true) as AB.
      { destruct (is_abs r) eqn:Ar; [reflexivity|]. destruct (is_abs t) eqn:At; [reflexivity|].
        destruct (covers_relative cwd t r At Ar CR) as (y & Y). congruence. }
      unfold covers in CR. rewrite AB, CR. cbn [andb]. exists (P true (resolve cwd r)). split; [reflexivity|].
      cbn [resolve is_abs comps]. apply U; [left; reflexivity|exact CR].
    + unfold covers in CR. rewrite CR, andb_false_r. apply IH.
      * destruct I as [->|I]; [unfold covers in C0; congruence|exact I].
      * exact C0.
      * intros r' I' C'. apply U; [right; exact I'|exact C'].
Qed.

Lemma strategy2_none_inv cwd t o roots p :
  strategy2 cwd t o roots = Some p ->
  exists r, In r roots /\ ((exists x, relative_to t r = Some x) \/ exists f, o = Some f /\ is_prefix (resolve cwd r) f = true).
Proof.
  induction roots as [|r rest IH]; cbn [strategy2]; [discriminate|].
  destruct (relative_to t r) as [x|] eqn:RT.
  - intros _. exists r. split; [left; reflexivity|left; eauto].
  - destruct o as [f|].
    + destruct ((is_abs r || is_abs t) && is_prefix (resolve cwd r) f) eqn:E.
      * intros _. exists r. split; [left; reflexivity|]. right. exists f. split; [reflexivity|].
        apply andb_true_iff in E. apply E.
      * intros H. destruct (IH H) as (r' & I & X). exists r'. split; [right; exact I|exact X].
    + intros H. destruct (IH H) as (r' & I & X). exists r'. split; [right; exact I|exact X].
Qed.

Lemma infer_root_nonempty fs cwd t roots :
  roots <> [] ->
  infer_root fs cwd t roots =
  let resolved := if is_abs t || exists_ fs (resolve cwd t) then Some (resolve cwd t) else None in
  match strategy2 cwd t resolved roots with
  | Some r => Ok r
  | None =>
    match (if is_abs t then None else strategy3 fs cwd t roots) with
    | Some r => Ok r
    | None =>
      match strategy4 (bare_names roots) (is_abs t) [] (removelast (comps t)) with
      | Some r => Ok r
      | None => Err RInvalid
      end
    end
  end.
Proof. destruct roots; [congruence|reflexivity]. Qed.

Lemma in_nonempty {A} (x : A) l : In x l -> l <> [].
Proof. destruct l; [intros []|discriminate]. Qed.

(* Designation by root PATHS (absolute or relative to the working directory), target absolute or relative to the
   working directory: if the target lies under exactly one of the given roots, that root is inferred and the
   definition is the one of (target, that root) - whatever the spelling, the order and the other roots. *)
Theorem from_first_in_paths fs cwd t roots r0 :
  let f := resolve cwd t in
  (is_abs t = true \/ exists_ fs f = true) ->
  In r0 roots -> covers cwd f r0 = true ->
  (forall r, In r roots -> covers cwd f r = true -> resolve cwd r = resolve cwd r0) ->
  from_first_in fs cwd roots t = mk_definition fs f (resolve cwd r0).
Proof.
  intros f EX I C0 U. unfold from_first_in. rewrite (infer_root_nonempty fs cwd t roots (in_nonempty _ _ I)).
  assert ((is_abs t || exists_ fs (resolve cwd t)) = true) as RS.
  { destruct EX as [->|E]; [reflexivity|]. fold f. rewrite E. apply orb_true_r. }
  cbv zeta. rewrite RS.
  destruct (strategy2_unique cwd t roots r0 I C0 U) as (p & S2 & RP). cbv zeta in S2. rewrite S2. cbn [bind].
  rewrite RP. unfold covers in C0. unfold f in C0. rewrite C0. cbn [andb].
  destruct (is_abs t) eqn:At; [reflexivity|]. cbn [orb]. destruct EX as [X|X]; [discriminate|]. unfold f in X. rewrite X. reflexivity.
Qed.

(* INFERENCE 1: no roots at all, a relative target: the root is the first component of the target *)
Theorem from_first_in_no_roots fs cwd c rest :
  exists_ fs (cwd ++ [c]) = true ->
  from_first_in fs cwd [] (P false (c :: rest)) = mk_definition fs (cwd ++ c :: rest) (cwd ++ [c]).
Proof.
  intros E. unfold from_first_in, infer_root. cbn [is_abs comps]. rewrite E. cbn [bind is_abs orb resolve comps parent removelast join app].
  destruct (is_prefix (cwd ++ [c]) (cwd ++ c :: rest) && exists_ fs (cwd ++ c :: rest)); reflexivity.
Qed.

(* INFERENCE 4: bare root names; an absolute target none of whose ancestors is covered by a given root path *)
Lemma strategy4_first names a done pre n post :
  str_in n names = true -> (forall x, In x pre -> str_in x names = false) ->
  strategy4 names a done (pre ++ n :: post) = Some (P a (done ++ pre ++ [n])).
Proof.
  intros Hn. revert done. induction pre as [|x pre' IH]; intros done Hpre; cbn [app strategy4].
  - rewrite Hn. reflexivity.
  - rewrite (Hpre x (or_introl eq_refl)). rewrite IH; [|intros y Iy; apply Hpre; right; exact Iy].
    rewrite <- app_assoc. reflexivity.
Qed.

Theorem from_first_in_bare_name fs cwd f roots pre n post b :
  f = pre ++ n :: post ++ [b] ->
  roots <> [] ->
  (forall r, In r roots -> covers cwd f r = false) ->
  str_in n (bare_names roots) = true ->
  (forall x, In x pre -> str_in x (bare_names roots) = false) ->
  from_first_in fs cwd roots (P true f) = mk_definition fs f (pre ++ [n]).
Proof.
  intros Ef NE NC Hn Hpre. unfold from_first_in. rewrite (infer_root_nonempty fs cwd (P true f) roots NE).
  cbv zeta. cbn [is_abs orb resolve comps].
  destruct (strategy2 cwd (P true f) (Some f) roots) as [p|] eqn:S2.
  { exfalso. destruct (strategy2_none_inv _ _ _ _ _ S2) as (r & I & [(x & X)|(f' & F' & X)]).
    - pose proof (relative_to_covers cwd _ _ _ X) as C. cbn [resolve is_abs comps] in C. rewrite (NC r I) in C. discriminate.
    - inversion F'; subst f'. specialize (NC r I). unfold covers in NC. congruence. }
  assert (removelast f = pre ++ n :: post) as RL.
  { rewrite Ef. replace (pre ++ n :: post ++ [b]) with ((pre ++ n :: post) ++ [b]) by (rewrite <- app_assoc; reflexivity).
    apply removelast_app_single. }
  rewrite RL, (strategy4_first _ true [] pre n post Hn Hpre). cbn [app bind is_abs orb resolve comps]. reflexivity.
Qed.

(* INFERENCE 3: a relative target that begins with the name of its root and does not exist relative to the working
   directory, a root given as a path: if the only place where the walk finds the target is that root, it is inferred
   and the file is the one below the directory that contains the root *)
Lemma strategy3_unique fs cwd t roots r0 :
  In r0 roots ->
  walk_up fs cwd t (is_abs r0) (rev (comps r0)) = Some r0 ->
  (forall r p, In r roots -> walk_up fs cwd t (is_abs r) (rev (comps r)) = Some p -> p = r0) ->
  strategy3 fs cwd t roots = Some r0.
Proof.
  induction roots as [|r rest IH]; intros I W U; [destruct I|]. cbn [strategy3].
  destruct (walk_up fs cwd t (is_abs r) (rev (comps r))) as [p|] eqn:E.
  - rewrite (U r p (or_introl eq_refl) E). reflexivity.
  - apply IH.
    + destruct I as [->|I]; [congruence|exact I].
    + exact W.
    + intros r' p I' W'. apply (U r' p); [right; exact I'|exact W'].
Qed.

Theorem from_first_in_name_relative fs cwd a pre n rest roots :
  let r0 := P a (pre ++ [n]) in
  let t := P false (n :: rest) in
  exists_ fs (cwd ++ n :: rest) = false ->
  exists_ fs (resolve cwd (P a (pre ++ n :: rest))) = true ->
  In r0 roots ->
  (forall r, In r roots -> relative_to t r = None) ->
  (forall r p, In r roots -> walk_up fs cwd t (is_abs r) (rev (comps r)) = Some p -> p = r0) ->
  from_first_in fs cwd roots t = mk_definition fs (resolve cwd (P a (pre ++ n :: rest))) (resolve cwd r0).
Proof.
  intros r0 t NEx Ex I NR U. unfold from_first_in. rewrite (infer_root_nonempty fs cwd t roots (in_nonempty _ _ I)).
  assert (At : is_abs t = false) by reflexivity.
  assert (Rt : resolve cwd t = cwd ++ n :: rest) by reflexivity.
  cbv zeta. rewrite At, Rt, NEx. cbn [orb].
  assert (S2 : strategy2 cwd t None roots = None).
  { destruct (strategy2 cwd t None roots) as [p|] eqn:S; [|reflexivity]. exfalso.
    destruct (strategy2_none_inv _ _ _ _ _ S) as (r & Ir & [(x & X)|(f' & F' & _)]); [rewrite (NR r Ir) in X; discriminate|discriminate]. }
  rewrite S2.
  assert (W0 : walk_up fs cwd t (is_abs r0) (rev (comps r0)) = Some r0).
  { unfold r0. cbn [is_abs comps]. rewrite rev_app_distr. cbn [rev app walk_up].
    rewrite rev_involutive. unfold t at 1. cbn [comps hd]. rewrite list_eqb_refl. cbn [andb].
    unfold parent. rewrite removelast_app_single. unfold join. rewrite At. unfold t. cbn [comps].
    rewrite Ex. reflexivity. }
  rewrite (strategy3_unique fs cwd t roots r0 I W0 U). cbn [bind].
  rewrite andb_false_r. cbn [orb].
  unfold r0, parent. rewrite removelast_app_single. unfold join. rewrite At. unfold t. cbn [comps]. reflexivity.
Qed.

(* ---------------------------------------------------------------------------------------------------------- *)
(* decimal rendering: parse_decimal (render_dec n) = Some n                                                    *)

Definition dstep (acc c : Z) : Z := acc * 10 + (c - 48).

Lemma fold_dstep s a : fold_left dstep s a = a * 10 ^ Z.of_nat (length s) + fold_left dstep s 0.
Proof.
  revert a. induction s as [|c r IH]; intros a; cbn [fold_left length].
  - simpl. lia.
  - rewrite (IH (dstep a c)), (IH (dstep 0 c)). unfold dstep. rewrite Nat2Z.inj_succ, Z.pow_succ_r by lia. ring.
Qed.

Lemma render_value fuel n acc :
  0 <= n < 10 ^ Z.of_nat fuel -> (1 <= fuel)%nat ->
  fold_left dstep (render_pos_fuel fuel n acc) 0 = n * 10 ^ Z.of_nat (length acc) + fold_left dstep acc 0.
Proof.
  revert n acc. induction fuel as [|f IH]; intros n acc Hn Hf; [lia|].
  cbn [render_pos_fuel]. destruct (n <? 10) eqn:E.
  - apply Z.ltb_lt in E. rewrite Z.mod_small by lia. cbn [fold_left]. rewrite fold_dstep. unfold dstep. f_equal. ring.
  - apply Z.ltb_ge in E.
    assert (1 <= f)%nat as Hf'.
    { destruct f; [|lia]. simpl in Hn. lia. }
    rewrite IH; [|split; [apply Z.div_pos; lia|]|exact Hf'].
    + cbn [length fold_left]. rewrite (fold_dstep acc (dstep 0 _)). unfold dstep.
      rewrite Nat2Z.inj_succ, Z.pow_succ_r by lia.
      pose proof (Z.div_mod n 10 ltac:(lia)) as DM. set (q := n / 10) in *. set (m := n mod 10) in *.
      replace n with (10 * q + m) by lia. ring.
    + apply Z.div_lt_upper_bound; [lia|]. rewrite Nat2Z.inj_succ, Z.pow_succ_r in Hn by lia. lia.
Qed.

Lemma render_digits fuel n acc :
  0 <= n -> (forall c, In c acc -> 48 <= c <= 57) -> forall c, In c (render_pos_fuel fuel n acc) -> 48 <= c <= 57.
Proof.
  revert n acc. induction fuel as [|f IH]; intros n acc Hn Ha c; cbn [render_pos_fuel]; [apply Ha|].
  assert (forall c, In c ((48 + n mod 10) :: acc) -> 48 <= c <= 57) as Ha'.
  { intros x [<-|I]; [pose proof (Z.mod_pos_bound n 10 ltac:(lia)); lia|apply Ha; exact I]. }
  destruct (n <? 10); [apply Ha'|]. apply IH; [apply Z.div_pos; lia|exact Ha'].
Qed.

Lemma render_nonempty fuel n acc : (1 <= fuel)%nat -> render_pos_fuel fuel n acc <> [].
Proof.
  revert n acc. induction fuel as [|f IH]; intros n acc Hf; [lia|]. cbn [render_pos_fuel].
  destruct (n <? 10); [discriminate|]. destruct f; [cbn; discriminate|]. apply IH. lia.
Qed.

Lemma pow10_log2 n : 0 <= n -> n < 10 ^ Z.of_nat (S (Z.to_nat (Z.log2 n))).
Proof.
  intros Hn. rewrite Nat2Z.inj_succ, Z2Nat.id by apply Z.log2_nonneg.
  destruct (Z.eq_dec n 0) as [->|NZ]; [simpl; lia|].
  pose proof (Z.log2_spec n ltac:(lia)) as [_ H].
  assert (2 ^ Z.succ (Z.log2 n) <= 10 ^ Z.succ (Z.log2 n)) by (apply Z.pow_le_mono_l; lia). lia.
Qed.

Theorem parse_render_dec n : 0 <= n -> parse_decimal (render_dec n) = Some n /\ digits (render_dec n).
Proof.
  intros Hn. unfold render_dec.
  assert (D : digits (render_pos_fuel (S (Z.to_nat (Z.log2 n))) n [])).
  { split; [apply render_nonempty; lia|]. apply render_digits; [exact Hn|intros c []]. }
  split; [|exact D]. rewrite (parse_decimal_digits _ D). f_equal. unfold dec_value.
  change (fun acc c => acc * 10 + (c - 48)) with dstep.
  rewrite render_value; [simpl; lia| |lia]. split; [exact Hn|apply pow10_log2; exact Hn].
Qed.

(* ---------------------------------------------------------------------------------------------------------- *)
(* read_files with one target and one root path: every designation yields the identity of (file, root)        *)

Lemma mk_definition_fields fs file root d : mk_definition fs file root = Ok d -> d_file d = file /\ d_root d = root.
Proof.
  unfold mk_definition. destruct (negb (exists_ fs file)); [discriminate|]. destruct (has_dot (pname root)); [discriminate|].
  destruct (strip_prefix root file); [|discriminate]. destruct (parse_rel (pname root) l) as [[[[? ?] ?] ?]|]; [|discriminate].
  intros H. inversion H. split; reflexivity.
Qed.

Lemma strs_eqb_refl a : strs_eqb a a = true.
Proof. apply strs_eqb_eq. reflexivity. Qed.

Theorem read_files_single fs cwd t r0 :
  let f := resolve cwd t in
  let R := resolve cwd r0 in
  (is_abs t = true \/ exists_ fs f = true) ->
  covers cwd f r0 = true ->
  exists_ fs R = true ->
  (exists ds, definitions_of_namespaces fs [R] = Ok ds) ->          (* no malformed file name below the root *)
  read_files fs cwd [t] [r0] [] = bind (identity_of fs f R) (fun i => Ok [i]).
Proof.
  intros f R EX C ER (ds & DN). unfold read_files. cbn [normalize existsb mapM].
  rewrite (from_first_in_paths fs cwd t [r0] r0 EX (or_introl eq_refl) C);
    [|intros r [<-|[]] _; reflexivity].
  fold f R. unfold identity_of. destruct (mk_definition fs f R) as [d|e] eqn:MD; [|reflexivity].
  destruct (mk_definition_fields _ _ _ _ MD) as [Df Dr].
  cbn [bind by_file existsb map app filter]. rewrite Dr. fold R. rewrite ER. cbn [app dedup_dirs filter].
  rewrite strs_eqb_refl. cbn [negb].
  unfold lookup_stage. cbn [forallb]. rewrite ER. cbn [andb negb].
  unfold nested. cbn [existsb]. rewrite strs_eqb_refl. cbn [negb andb orb].
  rewrite DN. cbn [bind mapM]. rewrite Df.
  destruct (composite_of (file_is_service fs f) d); reflexivity.
Qed.

(* hence two designations of the same file under the same root agree, whatever the spellings and working directories *)
Theorem designations_agree fs cwd cwd' t t' r r' :
  resolve cwd t = resolve cwd' t' -> resolve cwd r = resolve cwd' r' ->
  (is_abs t = true \/ exists_ fs (resolve cwd t) = true) ->
  (is_abs t' = true \/ exists_ fs (resolve cwd' t') = true) ->
  covers cwd (resolve cwd t) r = true ->
  exists_ fs (resolve cwd r) = true ->
  (exists ds, definitions_of_namespaces fs [resolve cwd r] = Ok ds) ->
  read_files fs cwd [t] [r] [] = read_files fs cwd' [t'] [r'] [].
Proof.
  intros Et Er EX EX' C E DN.
  rewrite (read_files_single fs cwd t r EX C E DN).
  assert (C' : covers cwd' (resolve cwd' t') r' = true) by (unfold covers in *; rewrite <- Et, <- Er; exact C).
  rewrite Er in E, DN. rewrite (read_files_single fs cwd' t' r' EX' C' E DN). rewrite Et, Er. reflexivity.
Qed.

(* ---------------------------------------------------------------------------------------------------------- *)
(* read_namespace: exactly the identities encoded by the paths of the files below the root                     *)

Lemma mapM_ok {A B} (f : A -> res B) l ys : mapM f l = Ok ys -> Forall2 (fun x y => f x = Ok y) l ys.
Proof.
  revert ys. induction l as [|x r IH]; intros ys; cbn [mapM].
  - intros H. inversion H. constructor.
  - destruct (f x) as [y|e] eqn:E; [|discriminate]. cbn [bind]. destruct (mapM f r) as [ys'|e]; [|discriminate].
    cbn [bind]. intros H. inversion H. constructor; [exact E|apply IH; reflexivity].
Qed.

Lemma Forall2_map_l {A B C} (g : A -> B) (R : B -> C -> Prop) l ys :
  Forall2 R (map g l) ys <-> Forall2 (fun x y => R (g x) y) l ys.
Proof.
  revert ys. induction l as [|x r IH]; intros ys; split; intros H; inversion H; subst; constructor; try assumption; apply IH; assumption.
Qed.

Theorem read_namespace_identities fs cwd r ids :
  let R := resolve cwd r in
  read_namespace fs cwd r [] = Ok ids ->
  Forall2 (fun g i => identity_of fs g R = Ok i) (globbed fs R) ids.
Proof.
  intros R. unfold read_namespace. cbn [normalize map app dedup_dirs filter]. fold R.
  destruct (negb (forallb (exists_ fs) [R])) eqn:EX; [discriminate|].
  destruct (nested [R]); [discriminate|].
  unfold definitions_of_namespaces at 1. cbn [flat_map]. rewrite app_nil_r.
  destruct (mapM _ (map (fun f => (f, R)) (globbed fs R))) as [defs|e] eqn:MD; [|discriminate]. cbn [bind].
  apply mapM_ok in MD. apply Forall2_map_l in MD. cbn [fst snd] in MD.
  destruct defs as [|d0 dr] eqn:ED.
  - intros H. inversion H. inversion MD. constructor.
  - rewrite <- ED in *. unfold lookup_stage. rewrite EX.
    destruct (nested [R]); [discriminate|]. destruct (definitions_of_namespaces fs [R]); [|discriminate]. cbn [bind].
    intros CM. apply mapM_ok in CM. clear ED d0 dr EX.
    revert ids CM. induction MD as [|g d gs ds Hg Hrest IH]; intros ids CM; inversion CM; subst; constructor.
    + unfold identity_of. rewrite Hg. cbn [bind]. destruct (mk_definition_fields _ _ _ _ Hg) as [Df _]. rewrite <- Df. assumption.
    + apply IH. assumption.
Qed.

(* INFERENCE 4 for a target relative to the working directory: it needs that the walk of inference 3 finds nothing
   (this is the hypothesis that the open finding F16 violates) *)
Theorem from_first_in_bare_name_relative fs cwd tc roots pre n post b :
  tc = pre ++ n :: post ++ [b] ->
  roots <> [] ->
  exists_ fs (cwd ++ tc) = true ->
  (forall r, In r roots -> covers cwd (cwd ++ tc) r = false) ->
  strategy3 fs cwd (P false tc) roots = None ->
  str_in n (bare_names roots) = true ->
  (forall x, In x pre -> str_in x (bare_names roots) = false) ->
  from_first_in fs cwd roots (P false tc) = mk_definition fs (cwd ++ tc) (cwd ++ pre ++ [n]).
Proof.
  intros Ef NE EX NC S3 Hn Hpre. unfold from_first_in. rewrite (infer_root_nonempty fs cwd (P false tc) roots NE).
  cbv zeta. cbn [is_abs orb resolve comps]. rewrite EX.
  destruct (strategy2 cwd (P false tc) (Some (cwd ++ tc)) roots) as [p|] eqn:S2.
  { exfalso. destruct (strategy2_none_inv _ _ _ _ _ S2) as (r & I & [(x & X)|(f' & F' & X)]).
    - pose proof (relative_to_covers cwd _ _ _ X) as C. cbn [resolve is_abs comps] in C. rewrite (NC r I) in C. discriminate.
    - inversion F'; subst f'. specialize (NC r I). unfold covers in NC. congruence. }
  rewrite S3.
  assert (removelast tc = pre ++ n :: post) as RL.
  { rewrite Ef. replace (pre ++ n :: post ++ [b]) with ((pre ++ n :: post) ++ [b]) by (rewrite <- app_assoc; reflexivity).
    apply removelast_app_single. }
  rewrite RL, (strategy4_first _ false [] pre n post Hn Hpre). cbn [app bind is_abs orb resolve comps].
  assert (is_prefix (cwd ++ pre ++ [n]) (cwd ++ tc) = true) as PF.
  { apply is_prefix_app. apply is_prefix_spec. exists (post ++ [b]). rewrite Ef, <- app_assoc. reflexivity. }
  rewrite PF. reflexivity.
Qed.

(* ---------------------------------------------------------------------------------------------------------- *)
(* the request and response sections of an accepted service: <service>.Request / <service>.Response with the same
   root namespace directory as the service itself                                                              *)
Lemma composite_sections (rp : list (list Z)) (rn : list Z) (ds : list (list Z)) (short b : list Z) mj mn port :
  let root := rp ++ [rn] in
  let file := root ++ ds ++ [b] in
  let cs := (rn :: ds) ++ [short] in
  Forall no_dot cs ->
  svc_checks cs mj mn port = true ->
  composite_init (join_with dot cs ++ REQUEST) mj mn None file true false = Ok (join_with dot cs ++ REQUEST, root) /\
  composite_init (join_with dot cs ++ RESPONSE) mj mn None file true false = Ok (join_with dot cs ++ RESPONSE, root).
Proof.
  intros root file cs Hcs K.
  assert (NEcs : cs <> []) by (unfold cs; discriminate).
  unfold svc_checks in K. apply andb_true_iff in K. destruct K as [K Kp]. apply andb_true_iff in K. destruct K as [K Kv].
  apply andb_true_iff in K. destruct K as [Kn Kl]. apply negb_true_iff in Kl. apply Z.ltb_ge in Kl.
  assert (SEC : forall w tail, w = dot :: tail -> check_name tail = true -> no_dot tail -> (Z.of_nat (length tail) <= 8) ->
            composite_init (join_with dot cs ++ w) mj mn None file true false = Ok (join_with dot cs ++ w, root)).
  { intros w tail -> Hc Hnd Hlen.
    assert (E : join_with dot cs ++ dot :: tail = join_with dot ((rn :: ds) ++ [short; tail])).
    { change ((rn :: ds) ++ [short; tail]) with ((rn :: ds) ++ [short] ++ [tail]). rewrite app_assoc. fold cs.
      rewrite (join_app_single cs tail NEcs). reflexivity. }
    assert (F : Forall no_dot ((rn :: ds) ++ [short; tail])).
    { change ((rn :: ds) ++ [short; tail]) with ((rn :: ds) ++ [short] ++ [tail]). rewrite app_assoc.
      apply Forall_app. split; [exact Hcs|]. constructor; [exact Hnd|constructor]. }
    assert (RL : removelast (removelast ((rn :: ds) ++ [short; tail])) = rn :: ds).
    { change ((rn :: ds) ++ [short; tail]) with ((rn :: ds) ++ [short] ++ [tail]). rewrite app_assoc.
      rewrite removelast_app_single, removelast_app_single. reflexivity. }
    rewrite E. unfold file.
    rewrite (composite_init_shape rp rn ds [short; tail] b root _ mj mn None true false eq_refl eq_refl F RL) by discriminate.
    assert (NC : name_checks ((rn :: ds) ++ [short; tail]) mj mn None false = true).
    { unfold name_checks. apply andb_true_iff. split; [|reflexivity].
      apply andb_true_iff. split; [|exact Kv]. apply andb_true_iff. split.
      - change ((rn :: ds) ++ [short; tail]) with ((rn :: ds) ++ [short] ++ [tail]). rewrite app_assoc. fold cs.
        rewrite forallb_app. cbn [forallb]. rewrite Kn, Hc. reflexivity.
      - apply negb_true_iff. apply Z.ltb_ge. rewrite <- E, app_length. cbn [length].
        rewrite Nat2Z.inj_add, Nat2Z.inj_succ. unfold MAX_NAME_LENGTH in *. lia. }
    rewrite NC. reflexivity. }
  split.
  - apply (SEC REQUEST W_Request); [reflexivity|reflexivity|apply no_dot_word; reflexivity|simpl; lia].
  - apply (SEC RESPONSE W_Response); [reflexivity|reflexivity|apply no_dot_word; reflexivity|simpl; lia].
Qed.
