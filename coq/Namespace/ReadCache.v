(* C09 - the reader with the per-object cache: whatever has been read before, through whichever referrer and in
   whichever order, a read returns what reading the definition on its own returns (under case_unique). *)
From Coq Require Import ZArith List Bool Lia.
From PV Require Import Namespace.Reader Namespace.ReaderProofs Namespace.ReadPure.
Import ListNotations.
Open Scope Z_scope.

Section Cache.
Variable txt : Z -> list item.

Definition files_unique (L : list meta) : Prop := NoDup (map mfile L).

Lemma file_inj : forall L d d', files_unique L -> In d L -> In d' L -> mfile d = mfile d' -> d = d'.
Proof.
  induction L as [|x L IH]; intros d d' U Hd Hd' E; [contradiction|].
  unfold files_unique in U. simpl in U. inversion U as [|? ? Hn U']; subst.
  destruct Hd as [Hd|Hd], Hd' as [Hd'|Hd'].
  - congruence.
  - subst. exfalso. apply Hn. rewrite E. apply in_map. assumption.
  - subst. exfalso. apply Hn. rewrite <- E. apply in_map. assumption.
  - apply IH; assumption.
Qed.

(* every cached composite is what reading its definition on its own yields *)
Definition cinv (L : list meta) (c : cache) : Prop :=
  forall tk f t, cache_get (tk, f) c = Some t -> exists d, In d L /\ mfile d = f /\ read_top txt d L = Ok t.

Lemma cinv_nil : forall L, cinv L [].
Proof. intros L tk f t H. discriminate. Qed.

Lemma okey_eqb_eq : forall a b, okey_eqb a b = true <-> a = b.
Proof.
  intros [a1 a2] [b1 b2]. unfold okey_eqb. simpl. rewrite andb_true_iff, Z.eqb_eq. split.
  - intros [H1 H2]. apply eqb_prop in H1. congruence.
  - intro H. inversion H. split; [apply eqb_reflx|reflexivity].
Qed.

Lemma cinv_cons : forall L c tk d t, cinv L c -> In d L -> read_top txt d L = Ok t -> cinv L (((tk, mfile d), t) :: c).
Proof.
  intros L c tk d t Hc Hd Hr tk' f t' H. simpl in H.
  destruct (okey_eqb (tk', f) (tk, mfile d)) eqn:E.
  - apply okey_eqb_eq in E. inversion E; subst. inversion H; subst. exists d. auto.
  - apply (Hc tk' f t' H).
Qed.

(* ------------------------------------------------------------------------------------------------------------ *)
(* removing the referrer from the lookup list does not disturb the reading of what it refers to                  *)

Lemma kminus_comm : forall K a b L, fk (kminus (kminus K a) b) L = fk (kminus (kminus K b) a) L.
Proof.
  intros. apply fk_ext. intros x _. unfold kminus.
  destruct (K (mkey x)), (keyb (mkey x) (mkey a)), (keyb (mkey x) (mkey b)); reflexivity.
Qed.

Lemma read_minus_referrer : forall L, case_unique L -> forall d x, In d L -> refers txt d x ->
  forall f y K ty, K (mkey x) && negb (keyb (mkey x) (mkey y)) = false ->
  read txt f y (fk K L) = Ok ty -> read txt f y (fk (kminus K d) L) = Ok ty.
Proof.
  intros L CU d x Hd Hdx. induction f as [|f IH]; intros y K ty Hcond H; [simpl in H; discriminate|].
  simpl in H. simpl. rewrite !rm_fk in *.
  destruct (eval_items (fun z => read txt f z (fk (kminus K y) L)) y (fk (kminus K y) L) (txt (mfile y))) as [[s ks]|e] eqn:E; [|discriminate].
  assert (T : eval_items (fun z => read txt f z (fk (kminus (kminus K d) y) L)) y (fk (kminus (kminus K d) y) L) (txt (mfile y)) = Ok (s, ks)).
  { rewrite (kminus_comm K d y L).
    apply (eval_items_transfer (fun z => read txt f z (fk (kminus K y) L)) _ y (fk (kminus K y) L)); [|assumption].
    intros n a b arr z tz _ R Rz.
    (* the definition found is not (a duplicate of) the referrer d *)
    assert (Hzd : keyb (mkey z) (mkey d) = false).
    { destruct (keyb (mkey z) (mkey d)) eqn:Ek; [|reflexivity]. exfalso.
      apply keyb_eq in Ek.
      pose proof (resolve_found_props _ _ _ _ _ _ R) as [Hz [Hzn [Hza [Hzb Hu]]]].
      assert (d = z).
      { apply Hu.
        - apply fk_In. split; [assumption|]. apply fk_In in Hz. destruct Hz as [_ Hz]. rewrite <- Ek. assumption.
        - inversion Ek as [[E1 E2 E3]]. rewrite <- Hzn, E1. reflexivity.
        - inversion Ek. congruence.
        - inversion Ek. congruence. }
      subst z.
      destruct (refers_found txt L f d (kminus K y) tz x Rz Hdx) as [f' [x' [tx [_ [Hk [Hx' _]]]]]].
      apply fk_In in Hx'. destruct Hx' as [_ Hx']. rewrite Hk in Hx'. unfold kminus in Hx'.
      apply andb_true_iff in Hx'. destruct Hx' as [Hx' _]. congruence. }
    split.
    - apply (resolve_shrink L y n a b (kminus (kminus K y) d) (kminus K y) z).
      + intros k Hk. unfold kminus in *. apply andb_true_iff in Hk. tauto.
      + pose proof (resolve_found_In _ _ _ _ _ _ R) as Hz. apply fk_In in Hz. destruct Hz as [_ Hz].
        unfold kminus at 1. rewrite Hz, Hzd. reflexivity.
      + assumption.
    - apply IH; [|assumption].
      unfold kminus at 1. apply andb_false_iff in Hcond. destruct Hcond as [Hc|Hc].
      + rewrite Hc. reflexivity.
      + rewrite Hc. rewrite andb_false_r. reflexivity. }
  rewrite T. assumption.
Qed.

(* ------------------------------------------------------------------------------------------------------------ *)
(* soundness of the cached reader: what it returns is what reading on its own returns                            *)

Lemma rm_as_fk : forall d L, rm d L = fk (kminus kall d) L.
Proof. intros. rewrite <- (fk_all L) at 1. apply rm_fk. Qed.

Lemma eval_itemsS_sound : forall L d K (rd : meta -> cache -> res (ctree * cache * list event)),
  case_unique L -> In d L ->
  (forall x c0 t c1 ev, In x (fk (kminus K d) L) -> cinv L c0 -> rd x c0 = Ok (t, c1, ev) -> read_top txt x L = Ok t /\ cinv L c1) ->
  forall its line c s ks c' ev,
  (forall it, In it its -> In it (txt (mfile d))) ->
  cinv L c ->
  eval_itemsS rd d (fk (kminus K d) L) line its c = Ok (s, ks, c', ev) ->
  cinv L c' /\ eval_items (fun x => read txt (length L) x (rm d L)) d (rm d L) its = Ok (s, ks).
Proof.
  intros L d K rd CU Hd Hrd. induction its as [|it its IH]; intros line c s ks c' ev Hsub Hc E; simpl in E.
  - inversion E; subst. split; [assumption|reflexivity].
  - assert (Hsub' : forall it0, In it0 its -> In it0 (txt (mfile d))) by (intros; apply Hsub; right; assumption).
    destruct it as [n a b arr| | |w].
    + destruct (resolve d n a b (fk (kminus K d) L)) as [x| | |] eqn:R; try discriminate.
      destruct (rd x c) as [[[t c1] ev1]|e] eqn:Rd; [|discriminate].
      destruct (eval_itemsS rd d (fk (kminus K d) L) (line + 1) its c1) as [[[[s' ts] c2] ev2]|e] eqn:Ev; [|discriminate].
      inversion E; subst. clear E.
      pose proof (resolve_found_In _ _ _ _ _ _ R) as Hx.
      destruct (Hrd x c t c1 ev1 Hx Hc Rd) as [Hrt Hc1].
      destruct (IH _ _ _ _ _ _ Hsub' Hc1 Ev) as [Hc2 Hev]. split; [assumption|].
      simpl. rewrite (rm_as_fk d L).
      assert (Hsubk : forall k, kminus K d k = true -> kminus kall d k = true).
      { intros k Hk. unfold kminus in *. apply andb_true_iff in Hk. destruct Hk as [_ Hk]. rewrite Hk. reflexivity. }
      rewrite (resolve_grow L d n a b (kminus K d) (kminus kall d) x CU Hsubk R).
      assert (Hxm : In x (fk (kminus kall d) L)).
      { apply fk_In in Hx. destruct Hx as [Hx1 Hx2]. apply fk_In. split; [assumption|apply Hsubk; assumption]. }
      assert (Rx : read txt (length L) x (fk (kminus kall d) L) = Ok t).
      { assert (Hdx : refers txt d x).
        { pose proof (resolve_found_props _ _ _ _ _ _ R) as [_ [Hn [Ha [Hb _]]]].
          exists n, a, b, arr. split; [apply Hsub; left; reflexivity|auto]. }
        unfold read_top in Hrt. rewrite <- (fk_all L) in Hrt at 2.
        apply (read_minus_referrer L CU d x Hd Hdx) in Hrt.
        - apply read_top_of_ok in Hrt. apply read_of_top_ok; [assumption|].
          pose proof (rm_length_lt x _ Hxm). rewrite <- (rm_as_fk d L) in *. pose proof (rm_length_le d L). lia.
        - unfold kall. rewrite keyb_refl. reflexivity. }
      rewrite Rx. rewrite <- (rm_as_fk d L). rewrite Hev. reflexivity.
    + destruct (eval_itemsS rd d (fk (kminus K d) L) (line + 1) its c) as [[[[s' ts] c2] ev2]|e] eqn:Ev; [|discriminate].
      inversion E; subst. simpl. eapply IH; eassumption.
    + discriminate.
    + destruct (eval_itemsS rd d (fk (kminus K d) L) (line + 1) its c) as [[[[s' ts] c2] ev2]|e] eqn:Ev; [|discriminate].
      inversion E; subst. simpl. destruct (IH _ _ _ _ _ _ Hsub' Hc Ev) as [Hc2 Hev]. split; [assumption|]. rewrite Hev. reflexivity.
Qed.

Lemma readS_sound : forall L, case_unique L -> files_unique L -> forall f tk d K c t c' ev,
  In d L -> cinv L c -> readS txt f tk d (fk K L) c = Ok (t, c', ev) -> read_top txt d L = Ok t /\ cinv L c'.
Proof.
  intros L CU FU. induction f as [|f IH]; intros tk d K c t c' ev Hd Hc H; simpl in H; [discriminate|].
  destruct (cache_get (tk, mfile d) c) as [t0|] eqn:G.
  - inversion H; subst. split; [|assumption].
    destruct (Hc _ _ _ G) as [d0 [Hd0 [Hf Hr]]]. rewrite (file_inj L d d0 FU Hd Hd0 (eq_sym Hf)). assumption.
  - rewrite rm_fk in H.
    destruct (eval_itemsS (fun x c0 => readS txt f false x (fk (kminus K d) L) c0) d (fk (kminus K d) L) 1 (txt (mfile d)) c)
      as [[[[s ks] c1] ev1]|e] eqn:E; [|discriminate].
    inversion H; subst. clear H.
    assert (Hrd : forall x c0 t c2 ev0, In x (fk (kminus K d) L) -> cinv L c0 ->
              readS txt f false x (fk (kminus K d) L) c0 = Ok (t, c2, ev0) -> read_top txt x L = Ok t /\ cinv L c2).
    { intros x c0 t c2 ev0 Hx Hc0 Hr. apply fk_In in Hx. destruct Hx as [Hx _]. eapply IH; eassumption. }
    destruct (eval_itemsS_sound L d K (fun x c0 => readS txt f false x (fk (kminus K d) L) c0) CU Hd Hrd
                (txt (mfile d)) 1 c s ks c1 ev1 (fun it H => H) Hc E) as [Hc1 Hev].
    assert (Hr : read_top txt d L = Ok (node_of d s ks)).
    { unfold read_top. simpl. rewrite Hev. reflexivity. }
      split; [assumption|]. apply cinv_cons; assumption.
Qed.

(* ------------------------------------------------------------------------------------------------------------ *)
(* completeness: whenever reading on its own (in whatever shrunken list) succeeds, so does the cached reader      *)

Lemma eval_itemsS_complete : forall L d K f,
  case_unique L -> files_unique L ->
  (forall x c t, In x L -> cinv L c -> read txt f x (fk (kminus K d) L) = Ok t ->
     exists c' ev, readS txt f false x (fk (kminus K d) L) c = Ok (t, c', ev)) ->
  forall its line c s ks, cinv L c ->
  eval_items (fun x => read txt f x (fk (kminus K d) L)) d (fk (kminus K d) L) its = Ok (s, ks) ->
  exists c' ev, eval_itemsS (fun x c0 => readS txt f false x (fk (kminus K d) L) c0) d (fk (kminus K d) L) line its c = Ok (s, ks, c', ev).
Proof.
  intros L d K f CU FU Hrd. induction its as [|it its IH]; intros line c s ks Hc E; simpl in E; simpl.
  - inversion E; subst. eauto.
  - destruct it as [n a b arr| | |w].
    + destruct (resolve d n a b (fk (kminus K d) L)) as [x| | |] eqn:R; try discriminate.
      destruct (read txt f x (fk (kminus K d) L)) as [t|e] eqn:Rd; [|discriminate].
      destruct (eval_items (fun x => read txt f x (fk (kminus K d) L)) d (fk (kminus K d) L) its) as [[s' ts]|e] eqn:Ev; [|discriminate].
      inversion E; subst. clear E.
      pose proof (resolve_found_In _ _ _ _ _ _ R) as Hx. apply fk_In in Hx. destruct Hx as [Hx _].
      destruct (Hrd x c t Hx Hc Rd) as [c1 [ev1 Hs]]. rewrite Hs.
      destruct (readS_sound L CU FU f false x (kminus K d) c t c1 ev1 Hx Hc Hs) as [_ Hc1].
      destruct (IH (line + 1) c1 s' ts Hc1 eq_refl) as [c2 [ev2 Hs2]]. rewrite Hs2. eauto.
    + destruct (IH (line + 1) c s ks Hc E) as [c2 [ev2 Hs2]]. rewrite Hs2. eauto.
    + discriminate.
    + destruct (eval_items (fun x => read txt f x (fk (kminus K d) L)) d (fk (kminus K d) L) its) as [[s' ts]|e] eqn:Ev; [|discriminate].
      inversion E; subst. destruct (IH (line + 1) c s' ks Hc eq_refl) as [c2 [ev2 Hs2]]. rewrite Hs2. eauto.
Qed.

Lemma readS_complete : forall L, case_unique L -> files_unique L -> forall f tk d K c t,
  In d L -> cinv L c -> read txt f d (fk K L) = Ok t -> exists c' ev, readS txt f tk d (fk K L) c = Ok (t, c', ev).
Proof.
  intros L CU FU. induction f as [|f IH]; intros tk d K c t Hd Hc H; [simpl in H; discriminate|].
  simpl. destruct (cache_get (tk, mfile d) c) as [t0|] eqn:G.
  - destruct (Hc _ _ _ G) as [d0 [Hd0 [Hf Hr]]]. rewrite <- (file_inj L d d0 FU Hd Hd0 (eq_sym Hf)) in Hr.
    apply (read_grow txt L CU (S f) d K kall t) in H; [|reflexivity]. rewrite fk_all in H.
    apply read_top_of_ok in H. assert (t0 = t) by congruence. subst. eauto.
  - simpl in H. rewrite rm_fk in *.
    destruct (eval_items (fun x => read txt f x (fk (kminus K d) L)) d (fk (kminus K d) L) (txt (mfile d))) as [[s ks]|e] eqn:E; [|discriminate].
    inversion H; subst.
    assert (Hrd : forall x c0 t0, In x L -> cinv L c0 -> read txt f x (fk (kminus K d) L) = Ok t0 ->
              exists c' ev, readS txt f false x (fk (kminus K d) L) c0 = Ok (t0, c', ev)).
    { intros x c0 t0 Hx Hc0 Hr. apply IH; assumption. }
    destruct (eval_itemsS_complete L d K f CU FU Hrd (txt (mfile d)) 1 c s ks Hc E) as [c1 [ev1 Hs]].
    rewrite Hs. eauto.
Qed.

(* ------------------------------------------------------------------------------------------------------------ *)
(* termination of the cached reader                                                                             *)

Lemma eval_itemsS_nofuel : forall (rd : meta -> cache -> res (ctree * cache * list event)) me L its line c,
  (forall x c0, In x L -> rd x c0 <> Err EFuel) -> eval_itemsS rd me L line its c <> Err EFuel.
Proof.
  intros rd me L. induction its as [|it its IH]; intros line c H; simpl; [discriminate|].
  destruct it as [n a b arr| | |w].
  - destruct (resolve me n a b L) as [x| | |] eqn:R; try discriminate.
    pose proof (H x c (resolve_found_In _ _ _ _ _ _ R)) as Hx.
    destruct (rd x c) as [[[t c1] ev1]|e] eqn:Rd; [|congruence].
    specialize (IH (line + 1) c1 H).
    destruct (eval_itemsS rd me L (line + 1) its c1) as [[[[s ts] c2] ev2]|e]; [discriminate|congruence].
  - specialize (IH (line + 1) c H).
    destruct (eval_itemsS rd me L (line + 1) its c) as [[[[s ts] c2] ev2]|e]; [discriminate|congruence].
  - discriminate.
  - specialize (IH (line + 1) c H).
    destruct (eval_itemsS rd me L (line + 1) its c) as [[[[s ts] c2] ev2]|e]; [discriminate|congruence].
Qed.

Lemma readS_terminates_gen : forall f tk d M c, (length (rm d M) < f)%nat -> readS txt f tk d M c <> Err EFuel.
Proof.
  induction f as [|f IH]; intros tk d M c Hlen; [lia|]. simpl.
  destruct (cache_get (tk, mfile d) c); [discriminate|].
  assert (NF : eval_itemsS (fun x c' => readS txt f false x (rm d M) c') d (rm d M) 1 (txt (mfile d)) c <> Err EFuel).
  { apply eval_itemsS_nofuel. intros x c0 Hx. apply IH. pose proof (rm_length_lt x (rm d M) Hx). lia. }
  destruct (eval_itemsS (fun x c' => readS txt f false x (rm d M) c') d (rm d M) 1 (txt (mfile d)) c) as [[[[s ks] c1] ev]|e];
    [discriminate|congruence].
Qed.

Lemma readS_top_terminates : forall tk d L c, readS txt (S (length L)) tk d L c <> Err EFuel.
Proof. intros. apply readS_terminates_gen. pose proof (rm_length_le d L). lia. Qed.

(* ------------------------------------------------------------------------------------------------------------ *)
(* C09_cache_order: an arbitrary sequence of top-level reads (any objects, any order, repetitions) threading the  *)
(* cache, stopped by the first failure as in the implementation                                                 *)

Fixpoint read_seq (L : list meta) (c : cache) (os : list (bool * meta)) : list ctree * bool :=
  match os with
  | [] => ([], true)
  | (tk, d) :: r =>
      match readS txt (S (length L)) tk d L c with
      | Ok (t, c', _) => let '(ts, ok) := read_seq L c' r in (t :: ts, ok)
      | Err _ => ([], false)
      end
  end.

Fixpoint pure_seq (L : list meta) (ds : list meta) : list ctree * bool :=
  match ds with
  | [] => ([], true)
  | d :: r =>
      match read_top txt d L with
      | Ok t => let '(ts, ok) := pure_seq L r in (t :: ts, ok)
      | Err _ => ([], false)
      end
  end.

Lemma read_seq_pure : forall L, case_unique L -> files_unique L -> forall os c,
  (forall o, In o os -> In (snd o) L) -> cinv L c ->
  read_seq L c os = pure_seq L (map snd os).
Proof.
  intros L CU FU. induction os as [|[tk d] os IH]; intros c Hin Hc; [reflexivity|]. cbn [read_seq pure_seq map snd].
  assert (Hd : In d L) by (apply (Hin (tk, d)); left; reflexivity).
  destruct (readS txt (S (length L)) tk d L c) as [[[t c'] ev]|e] eqn:E.
  - rewrite <- (fk_all L) in E at 2.
    destruct (readS_sound L CU FU _ _ _ _ _ _ _ _ Hd Hc E) as [Hr Hc']. rewrite Hr.
    rewrite (IH c'); [reflexivity| |assumption]. intros o Ho. apply Hin. right. assumption.
  - destruct (read_top txt d L) as [t|e'] eqn:R; [|reflexivity].
    exfalso. unfold read_top in R. rewrite <- (fk_all L) in R at 2.
    destruct (readS_complete L CU FU _ tk d kall c t Hd Hc R) as [c' [ev Hs]]. rewrite fk_all in Hs. congruence.
Qed.

End Cache.
