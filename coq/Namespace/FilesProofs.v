(* C10 - what _complete_read_function / read_namespace / read_files return, under the hypotheses that no two lookup
   definitions are equal up to letter case with the same version and that every definition has its own file. *)
From Coq Require Import ZArith List Bool Lia Permutation Sorted.
From PV Require Import Namespace.Reader Namespace.ReaderProofs Namespace.ReadPure Namespace.ReadCache Namespace.ReadEvents
                       Namespace.SortProofs Namespace.LoopProofs Namespace.Listing Namespace.ListingProofs.
Import ListNotations.
Open Scope Z_scope.

Lemma NoDup_map_inj : forall {A B} (f : A -> B) l, (forall a b, In a l -> In b l -> f a = f b -> a = b) -> NoDup l -> NoDup (map f l).
Proof.
  induction l as [|x l IH]; intros H N; simpl; [constructor|]. inversion N as [|? ? Hn N']; subst. constructor.
  - intro Hin. apply in_map_iff in Hin. destruct Hin as [y [E Hy]].
    assert (y = x) by (apply H; [right; assumption|left; reflexivity|assumption]). subst. contradiction.
  - apply IH; [|assumption]. intros. apply H; try (right; assumption). assumption.
Qed.

Section Files.
Variable txt : Z -> list item.
Variable L : list meta.
Hypothesis SU : strict_unique L.
Hypothesis FU : files_unique L.

Theorem run_targets_spec : forall targets st,
  NoDup targets -> (forall d, In d targets -> In d L) ->
  run_targets txt L st0 targets = Ok st ->
  (forall d, In d targets -> exists t, read_top txt d L = Ok t /\ In t (rdirect st)) /\
  (forall t, In t (rdirect st) <-> exists d, In d targets /\ read_top txt d L = Ok t) /\
  (forall t, In t (rtrans st) <-> ~ In t (rdirect st) /\ exists t0, In t0 (rdirect st) /\ sdesc t t0) /\
  NoDup (rdirect st ++ rtrans st) /\
  NoDup (map tkey (rdirect st ++ rtrans st)) /\
  NoDup (map tfile (rdirect st ++ rtrans st)) /\
  (forall t, In t (rdirect st ++ rtrans st) -> genuine txt L t).
Proof.
  intros targets st N HL H.
  pose proof (run_targets_inv txt L SU FU targets [] st0 st (inv0 txt L) N HL H) as J. simpl in J.
  pose proof (j_nodup _ _ _ _ _ J) as ND. unfold sets in ND.
  assert (Hg : forall t, In t (rdirect st ++ rtrans st) -> genuine txt L t) by (apply (j_gen _ _ _ _ _ J)).
  split; [|split; [|split; [|split; [|split; [|split]]]]].
  - intros d Hd. destruct (j_Pok _ _ _ _ _ J d Hd) as [t Ht]. exists t. split; [assumption|].
    apply (j_direct _ _ _ _ _ J). exists d. auto.
  - apply (j_direct _ _ _ _ _ J).
  - intro t. split.
    + intro Ht. split; [|apply (j_trans _ _ _ _ _ J); assumption].
      apply NoDup_app_iff in ND. destruct ND as [_ [_ N3]]. intro Hd. exact (N3 t Hd Ht).
    + intros [Hn [t0 [H0 Hs]]].
      assert (Hin : In t (sets st)).
      { apply (inv_closed txt L SU FU targets st J t0 t); [unfold sets; apply in_app_iff; auto|assumption]. }
      unfold sets in Hin. apply in_app_iff in Hin. destruct Hin; [contradiction|assumption].
  - exact ND.
  - apply NoDup_map_inj; [|exact ND]. intros a b Ha Hb E. apply (gen_key_eq txt L SU); auto.
  - apply NoDup_map_inj; [|exact ND]. intros a b Ha Hb E. apply (gen_file_eq txt L FU); auto.
  - exact Hg.
Qed.

Lemma sort_trees_In : forall l x, In x (sort_trees l) <-> In x l.
Proof.
  intros. rewrite sort_trees_is. split; intro H.
  - eapply Permutation_in; [apply isort_perm|exact H].
  - eapply Permutation_in; [apply Permutation_sym, isort_perm|exact H].
Qed.

Lemma sort_trees_strict : forall l, NoDup (map tkey l) -> StronglySorted (fun a b => rank_lt (tkey a) (tkey b)) (sort_trees l).
Proof.
  intros l N. rewrite sort_trees_is. apply sorted_strict; [apply isort_sorted|].
  eapply Permutation_NoDup; [|exact N]. apply Permutation_map. apply Permutation_sym, isort_perm.
Qed.

Lemma NoDup_app_l : forall {A} (a b : list A), NoDup (a ++ b) -> NoDup a.
Proof. intros A a b H. apply NoDup_app_iff in H. tauto. Qed.
Lemma NoDup_app_r : forall {A} (a b : list A), NoDup (a ++ b) -> NoDup b.
Proof. intros A a b H. apply NoDup_app_iff in H. tauto. Qed.

(* C10_files *)
Theorem complete_read_spec : forall targets out,
  NoDup targets -> (forall d, In d targets -> In d L) ->
  complete_read txt targets L = Ok out ->
  (* direct = exactly the requested definitions, one composite each, equal to what reading it alone yields *)
  (forall t, In t (odirect out) <-> exists d, In d targets /\ read_top txt d L = Ok t) /\
  Permutation (map tfile (odirect out)) (map mfile targets) /\
  (* transitive = exactly the rest of the dependency closure *)
  (forall t, In t (otrans out) <-> ~ In t (odirect out) /\ exists t0, In t0 (odirect out) /\ sdesc t t0) /\
  (forall t, In t (otrans out) -> genuine txt L t) /\
  (* disjoint, and each sorted by name, then newest major, then newest minor *)
  (forall t, In t (odirect out) -> ~ In t (otrans out)) /\
  StronglySorted (fun a b => rank_lt (tkey a) (tkey b)) (odirect out) /\
  StronglySorted (fun a b => rank_lt (tkey a) (tkey b)) (otrans out).
Proof.
  intros targets out N HL H. unfold complete_read in H.
  destruct (run_targets txt L st0 targets) as [st|e] eqn:R; [|discriminate].
  destruct (ports_ok _ && minors_ok _); [|discriminate]. inversion H; subst out. simpl. clear H.
  destruct (run_targets_spec targets st N HL R) as [H0 [H1 [H2 [H3 [H4 [H5 H6]]]]]].
  split; [|split; [|split; [|split; [|split; [|split]]]]].
  - intro t. rewrite sort_trees_In. apply H1.
  - apply NoDup_Permutation.
    + rewrite sort_trees_is. eapply Permutation_NoDup; [apply Permutation_map, Permutation_sym, isort_perm|].
      rewrite map_app in H5. eapply NoDup_app_l. exact H5.
    + apply NoDup_map_inj; [|exact N]. intros a b Ha Hb E. apply (file_inj L); auto.
    + intro f. rewrite !in_map_iff. split.
      * intros [t [E Ht]]. apply (proj1 (sort_trees_In _ _)) in Ht. apply H1 in Ht. destruct Ht as [d [Hd Rd]].
        exists d. split; [|assumption]. destruct (read_top_key txt L d t Rd) as [_ F]. congruence.
      * intros [d [E Hd]]. destruct (H0 d Hd) as [t [Rd Ht]]. exists t. split; [|apply (proj2 (sort_trees_In _ _)); assumption].
        destruct (read_top_key txt L d t Rd) as [_ F]. congruence.
  - intro t. rewrite sort_trees_In, H2. split.
    + intros [Hn [t0 [Ht0 Hs]]]. split; [rewrite sort_trees_In; assumption|]. exists t0. split; [apply (proj2 (sort_trees_In _ _)); assumption|assumption].
    + intros [Hn [t0 [Ht0 Hs]]]. split; [rewrite sort_trees_In in Hn; assumption|]. exists t0. split; [apply (proj1 (sort_trees_In _ _)) in Ht0; assumption|assumption].
  - intros t Ht. apply (proj1 (sort_trees_In _ _)) in Ht. apply H6. apply in_app_iff. auto.
  - intros t Hd Ht. apply (proj1 (sort_trees_In _ _)) in Hd. apply (proj1 (sort_trees_In _ _)) in Ht. apply H2 in Ht. tauto.
  - apply sort_trees_strict. rewrite map_app in H4. eapply NoDup_app_l. exact H4.
  - apply sort_trees_strict. rewrite map_app in H4. eapply NoDup_app_r. exact H4.
Qed.

(* the loop fails exactly when some requested definition cannot be read on its own *)
Theorem run_targets_ok_iff : forall targets,
  NoDup targets -> (forall d, In d targets -> In d L) ->
  ((exists st, run_targets txt L st0 targets = Ok st) <-> forall d, In d targets -> exists t, read_top txt d L = Ok t).
Proof.
  intros targets N HL. split.
  - intros [st H] d Hd. destruct (run_targets_spec targets st N HL H) as [H0 _]. destruct (H0 d Hd) as [t [Ht _]]. eauto.
  - intro Hok. apply (run_targets_progress txt L SU FU targets [] st0 (inv0 txt L) N HL Hok).
Qed.

(* the order of the targets is irrelevant for what is returned (it only shows in the order of handler calls) *)
Theorem complete_read_target_order : forall T1 T2,
  Permutation T1 T2 -> NoDup T1 -> (forall d, In d T1 -> In d L) ->
  match complete_read txt T1 L, complete_read txt T2 L with
  | Ok o1, Ok o2 => odirect o1 = odirect o2 /\ otrans o1 = otrans o2
  | Err _, Err _ => True
  | _, _ => False
  end.
Proof.
  intros T1 T2 P N1 HL1.
  assert (N2 : NoDup T2) by (eapply Permutation_NoDup; eassumption).
  assert (HL2 : forall d, In d T2 -> In d L) by (intros d Hd; apply HL1; eapply Permutation_in; [apply Permutation_sym; exact P|exact Hd]).
  unfold complete_read.
  destruct (run_targets txt L st0 T1) as [st1|e1] eqn:R1, (run_targets txt L st0 T2) as [st2|e2] eqn:R2.
  - destruct (run_targets_spec T1 st1 N1 HL1 R1) as [_ [A1 [A2 [A3 [A4 _]]]]].
    destruct (run_targets_spec T2 st2 N2 HL2 R2) as [_ [B1 [B2 [B3 [B4 _]]]]].
    assert (Hd : forall t, In t (rdirect st1) <-> In t (rdirect st2)).
    { intro t. rewrite A1, B1. split; intros [d [Hd Hr]]; exists d; (split; [|assumption]).
      - eapply Permutation_in; eassumption.
      - eapply Permutation_in; [apply Permutation_sym; exact P|assumption]. }
    assert (Ht : forall t, In t (rtrans st1) <-> In t (rtrans st2)).
    { intro t. rewrite A2, B2. split; intros [Hn [t0 [H0 Hs]]]; (split; [rewrite Hd in *; assumption|exists t0; split; [apply Hd; assumption|assumption]])
        || (split; [rewrite <- Hd; assumption|exists t0; split; [apply Hd; assumption|assumption]]). }
    assert (Ed : sort_trees (rdirect st1) = sort_trees (rdirect st2)).
    { rewrite sort_trees_is. apply isort_perm_eq.
      - apply NoDup_Permutation; [eapply NoDup_app_l; exact A3|eapply NoDup_app_l; exact B3|exact Hd].
      - rewrite map_app in A4. eapply NoDup_app_l. exact A4. }
    assert (Et : sort_trees (rtrans st1) = sort_trees (rtrans st2)).
    { rewrite sort_trees_is. apply isort_perm_eq.
      - apply NoDup_Permutation; [eapply NoDup_app_r; exact A3|eapply NoDup_app_r; exact B3|exact Ht].
      - rewrite map_app in A4. eapply NoDup_app_r. exact A4. }
    rewrite Ed, Et.
    destruct (ports_ok _ && minors_ok _); simpl; auto.
  - exfalso. assert (Hex : exists st, run_targets txt L st0 T2 = Ok st).
    { apply (run_targets_ok_iff T2 N2 HL2). intros d Hd.
      apply (proj1 (run_targets_ok_iff T1 N1 HL1) (ex_intro _ st1 R1)). eapply Permutation_in; [apply Permutation_sym; exact P|exact Hd]. }
    destruct Hex as [st H]. congruence.
  - exfalso. assert (Hex : exists st, run_targets txt L st0 T1 = Ok st).
    { apply (run_targets_ok_iff T1 N1 HL1). intros d Hd.
      apply (proj1 (run_targets_ok_iff T2 N2 HL2) (ex_intro _ st2 R2)). eapply Permutation_in; [exact P|exact Hd]. }
    destruct Hex as [st H]. congruence.
  - exact I.
Qed.

(* the model never takes the branch that stands for "a pending definition is not cached" *)
Theorem complete_read_reachable : forall targets,
  NoDup targets -> (forall d, In d targets -> In d L) -> complete_read txt targets L <> Err EUnreachable.
Proof.
  intros targets N HL. unfold complete_read.
  pose proof (run_targets_reachable txt L SU FU targets [] st0 (inv0 txt L) N HL) as H.
  destruct (run_targets txt L st0 targets) as [st|e]; [|congruence].
  destruct (ports_ok _ && minors_ok _); discriminate.
Qed.
End Files.

(* C10_sorted without any hypothesis: both lists are sorted by the rank (ties possible only for equal keys) *)
Theorem complete_read_sorted : forall txt targets L out, complete_read txt targets L = Ok out ->
  StronglySorted (fun a b => rleb (tkey a) (tkey b) = true) (odirect out) /\
  StronglySorted (fun a b => rleb (tkey a) (tkey b) = true) (otrans out).
Proof.
  intros txt targets L out H. unfold complete_read in H.
  destruct (run_targets txt L st0 targets) as [st|e]; [|discriminate].
  destruct (ports_ok _ && minors_ok _); [|discriminate]. inversion H; subst out. simpl.
  rewrite sort_trees_is. split; apply (isort_sorted tkey).
Qed.
