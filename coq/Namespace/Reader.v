(* C09 / C10 / C19 - model of reference resolution and of the reader.  Definitions only, no proofs.

   Anchors:
     _data_type_builder.py   DataTypeBuilder.resolve_versioned_data_type
     _dsdl_definition.py     DSDLDefinition.read (cache, removal of self from the lookup list, __eq__ by (name, version),
                             text read on demand)
     _namespace_reader.py    _read_definitions (file_pool, direct / transitive sets, promotion, pending definitions)
     _namespace.py           _complete_read_function (post checks over direct / transitive + direct)
     _dsdl.py                get_definition_ordering_rank / file_sort

   A definition is known to the reader by what its PATH encodes (meta); its text is a function of the file id
   (txt : Z -> list item) that the model consults only when the implementation opens the file.
   Strings are lists of code points; '.' is 46.  Names are ASCII in everything the generator produces, so
   str.lower() is ASCII lower-casing. *)
From Coq Require Import ZArith List Bool.
Import ListNotations.
Open Scope Z_scope.

Definition str := list Z.

Definition lower_cp (c : Z) : Z := if (65 <=? c) && (c <=? 90) then c + 32 else c.
Definition lower (s : str) : str := map lower_cp s.

Fixpoint str_eqb (a b : str) : bool :=
  match a, b with
  | [], [] => true
  | x :: a', y :: b' => (x =? y) && str_eqb a' b'
  | _, _ => false
  end.

(* Python compares str by code points, lexicographically *)
Fixpoint str_ltb (a b : str) : bool :=
  match a, b with
  | _, [] => false
  | [], _ :: _ => true
  | x :: a', y :: b' => (x <? y) || ((x =? y) && str_ltb a' b')
  end.

Definition has_dot (s : str) : bool := existsb (Z.eqb 46) s.

(* ------------------------------------------------------------------------------------------------------------ *)
(* DSDLDefinition as constructed from a path: namespace, short name, version, fixed port-ID, the file            *)

Record meta := mkMeta {
  mns : str;                (* full_namespace, e.g. "ns.sub" *)
  mshort : str;             (* short_name *)
  mmaj : Z; mmin : Z;       (* version *)
  mport : option Z;         (* fixed_port_id *)
  mfile : Z                 (* identifies file_path *)
}.

Definition mname (d : meta) : str := mns d ++ 46 :: mshort d.                      (* full_name *)
Definition mkey (d : meta) : str * Z * Z := (mname d, mmaj d, mmin d).

(* DSDLDefinition.__eq__: same full name and same version *)
Definition key_eqb (a b : meta) : bool :=
  str_eqb (mname a) (mname b) && (mmaj a =? mmaj b) && (mmin a =? mmin b).

(* list(filter(lambda d: d != self, lookup_definitions)) *)
Definition rm (d : meta) (L : list meta) : list meta := filter (fun x => negb (key_eqb x d)) L.

(* ------------------------------------------------------------------------------------------------------------ *)
(* abstract definition text: one item per line                                                                  *)

Inductive item :=
| Ref (n : str) (maj min : Z) (arr : Z)    (* a field of composite type "n.maj.min" (arr = 0) or "n.maj.min[arr]" *)
| Print                                    (* @print *)
| Fault                                    (* a line that makes the definition invalid, e.g. @assert false *)
| Plain (w : Z).                           (* a field of a primitive type of w bits (w a multiple of 8) *)

(* ------------------------------------------------------------------------------------------------------------ *)
(* resolve_versioned_data_type up to the choice of the definition                                               *)

Definition complete (me : meta) (n : str) : str := if has_dot n then n else mns me ++ 46 :: n.

Definition cand (full : str) (maj min : Z) (d : meta) : bool :=
  str_eqb (lower (mname d)) (lower full) && (mmaj d =? maj) && (mmin d =? min).

Inductive rres := RFound (d : meta) | RUndefined | RCollision | RCaseCollision.

Definition resolve (me : meta) (n : str) (maj min : Z) (L : list meta) : rres :=
  let full := complete me n in
  match filter (cand full maj min) L with
  | [] => RUndefined                                                             (* UndefinedDataTypeError *)
  | [d] => if str_eqb (mname d) full then RFound d else RCaseCollision           (* DataTypeNameCollisionError *)
  | a :: b :: _ => if negb (str_eqb (mname a) (mname b)) then RCaseCollision else RCollision
  end.

(* ------------------------------------------------------------------------------------------------------------ *)
(* composite types as far as the reader is concerned                                                            *)

Inductive ctree := Node (file : Z) (nm : str) (maj min : Z) (size : Z) (kids : list ctree).

Definition tfile (t : ctree) := match t with Node f _ _ _ _ _ => f end.
Definition tname (t : ctree) := match t with Node _ n _ _ _ _ => n end.
Definition tmaj (t : ctree) := match t with Node _ _ a _ _ _ => a end.
Definition tmin (t : ctree) := match t with Node _ _ _ b _ _ => b end.
Definition tsize (t : ctree) := match t with Node _ _ _ _ s _ => s end.
Definition tkids (t : ctree) := match t with Node _ _ _ _ _ k => k end.
Definition tkey (t : ctree) : str * Z * Z := (tname t, tmaj t, tmin t).

Inductive rerr := EUndefined | ECollision | ECaseCollision | EFault | ECross | EFileName | ENested | ERootName
                | EPathInference | EUnreachable | EFuel.
Inductive res (A : Type) := Ok (a : A) | Err (e : rerr).
Arguments Ok {A} a.
Arguments Err {A} e.

Definition mult (arr : Z) : Z := if arr =? 0 then 1 else arr.

Definition node_of (d : meta) (size : Z) (kids : list ctree) : ctree :=
  Node (mfile d) (mname d) (mmaj d) (mmin d) size kids.

Section Reader.
Variable txt : Z -> list item.

(* ------------------------------------------------------------------------------------------------------------ *)
(* reading one definition on its own: no cache, no handler                                                      *)

Section Items.
Variable rd : meta -> res ctree.
Variable me : meta.
Variable L : list meta.                       (* the lookup list WITHOUT the definitions equal to me *)
Fixpoint eval_items (its : list item) : res (Z * list ctree) :=
  match its with
  | [] => Ok (0, [])
  | Ref n a b arr :: r =>
      match resolve me n a b L with
      | RFound x =>
          match rd x with
          | Ok t =>
              match eval_items r with
              | Ok (s, ts) => Ok (mult arr * tsize t + s, t :: ts)
              | Err e => Err e
              end
          | Err e => Err e
          end
      | RUndefined => Err EUndefined
      | RCollision => Err ECollision
      | RCaseCollision => Err ECaseCollision
      end
  | Print :: r => eval_items r
  | Fault :: r => Err EFault
  | Plain w :: r => match eval_items r with Ok (s, ts) => Ok (w + s, ts) | Err e => Err e end
  end.
End Items.

Fixpoint read (fuel : nat) (d : meta) (L : list meta) : res ctree :=
  match fuel with
  | O => Err EFuel
  | S f =>
      let L' := rm d L in
      match eval_items (fun x => read f x L') d L' (txt (mfile d)) with
      | Ok (s, ks) => Ok (node_of d s ks)
      | Err e => Err e
      end
  end.

Definition read_top (d : meta) (L : list meta) : res ctree := read (S (length L)) d L.

(* ------------------------------------------------------------------------------------------------------------ *)
(* the same with the per-object cache, the visitor and the handler                                              *)

(* Targets and lookups are different objects for the same file: (true, file) is the object created for a target,
   (false, file) the one created from the lookup directories. *)
Definition okey := (bool * Z)%type.
Definition okey_eqb (a b : okey) : bool := Bool.eqb (fst a) (fst b) && (snd a =? snd b).
Definition cache := list (okey * ctree).
Fixpoint cache_get (o : okey) (c : cache) : option ctree :=
  match c with
  | [] => None
  | (o', t) :: r => if okey_eqb o o' then Some t else cache_get o r
  end.

Inductive event :=
| EvOpen (f : Z)                 (* DSDLDefinition.text read the file *)
| EvPrint (f : Z) (line : Z)     (* print_output_handler(line, text) called while file f is parsed *)
| EvDep (d : meta).              (* visitor.on_definition(_, d) *)

Section ItemsS.
Variable rd : meta -> cache -> res (ctree * cache * list event).
Variable me : meta.
Variable L : list meta.
Fixpoint eval_itemsS (line : Z) (its : list item) (c : cache) : res (Z * list ctree * cache * list event) :=
  match its with
  | [] => Ok (0, [], c, [])
  | Ref n a b arr :: r =>
      match resolve me n a b L with
      | RFound x =>
          match rd x c with
          | Ok (t, c1, ev1) =>
              match eval_itemsS (line + 1) r c1 with
              | Ok (s, ts, c2, ev2) => Ok (mult arr * tsize t + s, t :: ts, c2, EvDep x :: ev1 ++ ev2)
              | Err e => Err e
              end
          | Err e => Err e
          end
      | RUndefined => Err EUndefined
      | RCollision => Err ECollision
      | RCaseCollision => Err ECaseCollision
      end
  | Print :: r =>
      match eval_itemsS (line + 1) r c with
      | Ok (s, ts, c2, ev2) => Ok (s, ts, c2, EvPrint (mfile me) line :: ev2)
      | Err e => Err e
      end
  | Fault :: r => Err EFault
  | Plain w :: r =>
      match eval_itemsS (line + 1) r c with
      | Ok (s, ts, c2, ev2) => Ok (w + s, ts, c2, ev2)
      | Err e => Err e
      end
  end.
End ItemsS.

(* DSDLDefinition.read of the object (tk, mfile d) *)
Fixpoint readS (fuel : nat) (tk : bool) (d : meta) (L : list meta) (c : cache) : res (ctree * cache * list event) :=
  match fuel with
  | O => Err EFuel
  | S f =>
      match cache_get (tk, mfile d) c with
      | Some t => Ok (t, c, [])                                  (* cache hit: nothing is opened, nobody is notified *)
      | None =>
          let L' := rm d L in
          match eval_itemsS (fun x c' => readS f false x L' c') d L' 1 (txt (mfile d)) c with
          | Ok (s, ks, c1, ev) =>
              let t := node_of d s ks in
              Ok (t, ((tk, mfile d), t) :: c1, EvOpen (mfile d) :: ev)
          | Err e => Err e
          end
      end
  end.

(* ------------------------------------------------------------------------------------------------------------ *)
(* _read_definitions                                                                                            *)

(* CompositeType.__eq__/__hash__ on what the generator produces (sealed structures of fixed length):
   same full name, version and bit length *)
Definition ceq (a b : ctree) : bool :=
  str_eqb (tname a) (tname b) && (tmaj a =? tmaj b) && (tmin a =? tmin b) && (tsize a =? tsize b).
Definition cmem (t : ctree) (s : list ctree) : bool := existsb (ceq t) s.
Definition cadd (t : ctree) (s : list ctree) : list ctree := if cmem t s then s else s ++ [t].    (* set.add keeps the old element *)
Definition cremove (t : ctree) (s : list ctree) : list ctree := filter (fun x => negb (ceq t x)) s.

Definition pool := list (Z * okey).
Fixpoint pool_get (f : Z) (p : pool) : option okey :=
  match p with
  | [] => None
  | (f', o) :: r => if f =? f' then Some o else pool_get f r
  end.
Definition pool_setdefault (f : Z) (o : okey) (p : pool) : okey * pool :=
  match pool_get f p with
  | Some o' => (o', p)
  | None => (o, (f, o) :: p)
  end.

(* sorted(..., key = (full_name, -major, -minor)): stable insertion sort *)
Section Sort.
Context {A : Type} (leb : A -> A -> bool).
Fixpoint insert (x : A) (l : list A) : list A :=
  match l with
  | [] => [x]
  | y :: r => if leb x y then x :: l else y :: insert x r
  end.
Definition isort (l : list A) : list A := fold_right insert [] l.
End Sort.

Definition rank_leb (n1 : str) (a1 b1 : Z) (n2 : str) (a2 b2 : Z) : bool :=
  str_ltb n1 n2 || (str_eqb n1 n2 && ((a2 <? a1) || ((a1 =? a2) && (b2 <=? b1)))).
Definition meta_leb (a b : meta) : bool := rank_leb (mname a) (mmaj a) (mmin a) (mname b) (mmaj b) (mmin b).
Definition tree_leb (a b : ctree) : bool := rank_leb (tname a) (tmaj a) (tmin a) (tname b) (tmaj b) (tmin b).
Definition sort_metas := isort meta_leb.
Definition sort_trees := isort tree_leb.

Record rstate := mkSt {
  rcache : cache;
  rpool : pool;
  rdirect : list ctree;
  rtrans : list ctree;
  rdeliv : list (Z * Z * Z);      (* (path the handler was called with, file the directive is in, line) *)
  ropened : list Z
}.

Definition st0 : rstate := mkSt [] [] [] [] [] [].

Fixpoint deps_of (ev : list event) : list meta :=
  match ev with [] => [] | EvDep d :: r => d :: deps_of r | _ :: r => deps_of r end.
Fixpoint opened_of (ev : list event) : list Z :=
  match ev with [] => [] | EvOpen f :: r => f :: opened_of r | _ :: r => opened_of r end.
Fixpoint prints_of (target : Z) (ev : list event) : list (Z * Z * Z) :=
  match ev with [] => [] | EvPrint f l :: r => (target, f, l) :: prints_of target r | _ :: r => prints_of target r end.

(* _pending_definitions: a set of definitions (hash / eq by name and version) *)
Fixpoint dedupe_key (l : list meta) : list meta :=
  match l with
  | [] => []
  | x :: r => x :: filter (fun y => negb (key_eqb y x)) (dedupe_key r)
  end.
Definition pending_of (p : pool) (ev : list event) : list meta :=
  dedupe_key (filter (fun d => match pool_get (mfile d) p with None => true | Some _ => false end) (deps_of ev)).

(* one iteration of the loop at level 1 (target_definitions = the sorted pending definitions, which are lookup
   objects).  They were read successfully a moment ago, so they are cached, their read() is a cache hit and the
   visitor is not called: no further level exists.  If the object were not cached the code would parse it here;
   the model says EUnreachable instead (Namespace/ReaderProofs: never the case). *)
Definition absorb (st : rstate) (x : meta) : res rstate :=
  let '(o, p1) := pool_setdefault (mfile x) (false, mfile x) (rpool st) in
  match cache_get o (rcache st) with
  | Some t =>
      if cmem t (rdirect st) || cmem t (rtrans st)
      then Ok (mkSt (rcache st) p1 (rdirect st) (rtrans st) (rdeliv st) (ropened st))
      else Ok (mkSt (rcache st) p1 (rdirect st) (cadd t (rtrans st)) (rdeliv st) (ropened st))
  | None => Err EUnreachable
  end.

Fixpoint absorb_all (st : rstate) (xs : list meta) : res rstate :=
  match xs with
  | [] => Ok st
  | x :: r => match absorb st x with Ok st1 => absorb_all st1 r | Err e => Err e end
  end.

(* one iteration of the loop at level 0 *)
Definition step0 (L : list meta) (st : rstate) (d : meta) : res rstate :=
  let '(o, p1) := pool_setdefault (mfile d) (true, mfile d) (rpool st) in
  let skip :=
    match cache_get o (rcache st) with
    | Some t => if cmem t (rdirect st) || cmem t (rtrans st) then Some t else None
    | None => None
    end in
  match skip with
  | Some t =>
      if cmem t (rtrans st)
      then Ok (mkSt (rcache st) p1 (cadd t (rdirect st)) (cremove t (rtrans st)) (rdeliv st) (ropened st))   (* promote *)
      else Ok (mkSt (rcache st) p1 (rdirect st) (rtrans st) (rdeliv st) (ropened st))
  | None =>
      match readS (S (length L)) (fst o) d L (rcache st) with
      | Ok (t, c1, ev) =>
          let st1 := mkSt c1 p1 (cadd t (rdirect st)) (cremove t (rtrans st))
                          (rdeliv st ++ prints_of (mfile d) ev) (ropened st ++ opened_of ev) in
          absorb_all st1 (sort_metas (pending_of p1 ev))
      | Err e => Err e
      end
  end.

Fixpoint run_targets (L : list meta) (st : rstate) (ts : list meta) : res rstate :=
  match ts with
  | [] => Ok st
  | d :: r => match step0 L st d with Ok st1 => run_targets L st1 r | Err e => Err e end
  end.

(* ------------------------------------------------------------------------------------------------------------ *)
(* _complete_read_function: the two cross-definition checks, restricted to what the generator produces
   (messages, sealed, fixed length: extent = size).  The full rules are C11's. *)

Definition port_collision (a b : ctree * option Z) : bool :=
  let ta := fst a in let tb := fst b in
  (negb (str_eqb (tname ta) (tname tb)) || (negb (tmaj ta =? tmaj tb) && (0 <? tmaj ta) && (0 <? tmaj tb))) &&
  match snd a, snd b with Some p, Some q => p =? q | _, _ => false end.
Definition ports_ok (l : list (ctree * option Z)) : bool :=
  forallb (fun a => forallb (fun b => negb (port_collision a b)) l) l.

Definition has_port (p : option Z) : bool := match p with Some _ => true | None => false end.
Definition opt_eqb (p q : option Z) : bool :=
  match p, q with Some x, Some y => x =? y | None, None => true | _, _ => false end.
Definition minor_pair_ok (a b : ctree * option Z) : bool :=
  let ta := fst a in let tb := fst b in
  if str_eqb (tname ta) (tname tb) && (tmaj ta =? tmaj tb) then
    negb (tmin ta =? tmin tb) &&
    (if Bool.eqb (has_port (snd a)) (has_port (snd b)) then opt_eqb (snd a) (snd b)
     else has_port (snd (if tmin tb <? tmin ta then a else b))) &&
    (if 0 <? tmaj ta then tsize ta =? tsize tb else true)
  else true.
(* "if a is not b": pairs of different positions *)
Fixpoint minors_ok (l : list (ctree * option Z)) : bool :=
  match l with
  | [] => true
  | a :: r => forallb (fun b => minor_pair_ok a b && minor_pair_ok b a) r && minors_ok r
  end.

Definition port_of (L : list meta) (t : ctree) : option Z :=
  match find (fun d => mfile d =? tfile t) L with Some d => mport d | None => None end.

Record output := mkOut {
  odirect : list ctree; otrans : list ctree; odeliv : list (Z * Z * Z); oopened : list Z
}.

Definition complete_read (targets L : list meta) : res output :=
  match run_targets L st0 targets with
  | Ok st =>
      let dir := sort_trees (rdirect st) in
      let tra := sort_trees (rtrans st) in
      let wp := fun ts => map (fun t => (t, port_of L t)) ts in
      if ports_ok (wp dir) && minors_ok (wp (tra ++ dir))
      then Ok (mkOut dir tra (rdeliv st) (ropened st))
      else Err ECross
  | Err e => Err e
  end.

End Reader.
