(* C10 - the sort of _dsdl.file_sort: key (full_name, -major, -minor); insertion sort facts. *)
From Coq Require Import ZArith List Bool Lia Sorted Permutation.
From PV Require Import Namespace.Reader Namespace.ReaderProofs.
Import ListNotations.
Open Scope Z_scope.

(* ------------------------------------------------------------------------------------------------------------ *)
(* strings                                                                                                      *)

Lemma str_ltb_irrefl : forall a, str_ltb a a = false.
Proof. induction a as [|x a IH]; simpl; [reflexivity|]. rewrite Z.ltb_irrefl, Z.eqb_refl, IH. reflexivity. Qed.

Lemma str_ltb_trans : forall a b c, str_ltb a b = true -> str_ltb b c = true -> str_ltb a c = true.
Proof.
  induction a as [|x a IH]; intros b c H1 H2.
  - destruct b as [|y b]; simpl in H1; [discriminate|]. destruct c as [|z c]; simpl in H2; [discriminate|]. reflexivity.
  - destruct b as [|y b]; simpl in H1; [discriminate|]. destruct c as [|z c]; simpl in H2; [discriminate|]. simpl.
    apply orb_true_iff in H1. apply orb_true_iff in H2. apply orb_true_iff.
    destruct H1 as [H1|H1], H2 as [H2|H2].
    + left. apply Z.ltb_lt in H1, H2. apply Z.ltb_lt. lia.
    + apply andb_true_iff in H2. destruct H2 as [H2 _]. apply Z.eqb_eq in H2. subst. left. assumption.
    + apply andb_true_iff in H1. destruct H1 as [H1 _]. apply Z.eqb_eq in H1. subst. left. assumption.
    + apply andb_true_iff in H1. apply andb_true_iff in H2. destruct H1 as [E1 H1], H2 as [E2 H2].
      apply Z.eqb_eq in E1, E2. subst. right. rewrite Z.eqb_refl. simpl. eapply IH; eassumption.
Qed.

Lemma str_ltb_total : forall a b, str_ltb a b = false -> str_ltb b a = false -> a = b.
Proof.
  induction a as [|x a IH]; intros b H1 H2; destruct b as [|y b]; simpl in *; try reflexivity; try discriminate.
  apply orb_false_iff in H1. apply orb_false_iff in H2. destruct H1 as [L1 E1], H2 as [L2 E2].
  apply Z.ltb_ge in L1, L2. assert (x = y) by lia. subst. rewrite Z.eqb_refl in E1, E2. simpl in *.
  f_equal. apply IH; assumption.
Qed.

Lemma str_ltb_asym : forall a b, str_ltb a b = true -> str_ltb b a = false.
Proof.
  intros a b H. destruct (str_ltb b a) eqn:E; [|reflexivity].
  pose proof (str_ltb_trans a b a H E) as T. rewrite str_ltb_irrefl in T. discriminate.
Qed.

(* ------------------------------------------------------------------------------------------------------------ *)
(* the ordering rank                                                                                            *)

Definition rkey := (str * Z * Z)%type.
Definition rleb (k1 k2 : rkey) : bool :=
  let '(n1, a1, b1) := k1 in let '(n2, a2, b2) := k2 in rank_leb n1 a1 b1 n2 a2 b2.

Lemma rleb_total : forall k1 k2, rleb k1 k2 = true \/ rleb k2 k1 = true.
Proof.
  intros [[n1 a1] b1] [[n2 a2] b2]. unfold rleb, rank_leb.
  destruct (str_ltb n1 n2) eqn:L1; [left; reflexivity|].
  destruct (str_ltb n2 n1) eqn:L2; [right; reflexivity|].
  pose proof (str_ltb_total _ _ L1 L2). subst. rewrite str_eqb_refl. simpl.
  destruct (a2 <? a1) eqn:A1; [left; reflexivity|]. destruct (a1 <? a2) eqn:A2; [right; reflexivity|].
  apply Z.ltb_ge in A1, A2. assert (a1 = a2) by lia. subst. rewrite Z.eqb_refl. simpl.
  destruct (b2 <=? b1) eqn:B; [left; reflexivity|]. right. apply Z.leb_gt in B. apply Z.leb_le. lia.
Qed.

Lemma rleb_antisym : forall k1 k2, rleb k1 k2 = true -> rleb k2 k1 = true -> k1 = k2.
Proof.
  intros [[n1 a1] b1] [[n2 a2] b2]. unfold rleb, rank_leb. intros H1 H2.
  destruct (str_ltb n1 n2) eqn:L1.
  - rewrite (str_ltb_asym _ _ L1) in H2. simpl in H2. apply andb_true_iff in H2. destruct H2 as [E _].
    apply str_eqb_eq in E. subst. rewrite str_ltb_irrefl in L1. discriminate.
  - simpl in H1. apply andb_true_iff in H1. destruct H1 as [E H1]. apply str_eqb_eq in E. subst.
    rewrite str_ltb_irrefl, str_eqb_refl in H2. simpl in H2.
    apply orb_true_iff in H1. apply orb_true_iff in H2.
    destruct H1 as [H1|H1], H2 as [H2|H2].
    + apply Z.ltb_lt in H1, H2. lia.
    + apply andb_true_iff in H2. destruct H2 as [H2 _]. apply Z.eqb_eq in H2. apply Z.ltb_lt in H1. lia.
    + apply andb_true_iff in H1. destruct H1 as [H1 _]. apply Z.eqb_eq in H1. apply Z.ltb_lt in H2. lia.
    + apply andb_true_iff in H1. apply andb_true_iff in H2. destruct H1 as [E1 B1], H2 as [E2 B2].
      apply Z.eqb_eq in E1. apply Z.leb_le in B1, B2. subst. assert (b1 = b2) by lia. subst. reflexivity.
Qed.

Lemma rleb_trans : forall k1 k2 k3, rleb k1 k2 = true -> rleb k2 k3 = true -> rleb k1 k3 = true.
Proof.
  intros [[n1 a1] b1] [[n2 a2] b2] [[n3 a3] b3]. unfold rleb, rank_leb. intros H1 H2.
  apply orb_true_iff in H1. apply orb_true_iff in H2. apply orb_true_iff.
  destruct H1 as [H1|H1], H2 as [H2|H2].
  - left. eapply str_ltb_trans; eassumption.
  - apply andb_true_iff in H2. destruct H2 as [E _]. apply str_eqb_eq in E. subst. left. assumption.
  - apply andb_true_iff in H1. destruct H1 as [E _]. apply str_eqb_eq in E. subst. left. assumption.
  - apply andb_true_iff in H1. apply andb_true_iff in H2. destruct H1 as [E1 H1], H2 as [E2 H2].
    apply str_eqb_eq in E1, E2. subst. right. rewrite str_eqb_refl. simpl.
    apply orb_true_iff in H1. apply orb_true_iff in H2. apply orb_true_iff.
    destruct H1 as [H1|H1], H2 as [H2|H2].
    + left. apply Z.ltb_lt in H1, H2. apply Z.ltb_lt. lia.
    + apply andb_true_iff in H2. destruct H2 as [H2 _]. apply Z.eqb_eq in H2. subst. left. assumption.
    + apply andb_true_iff in H1. destruct H1 as [H1 _]. apply Z.eqb_eq in H1. subst. left. assumption.
    + apply andb_true_iff in H1. apply andb_true_iff in H2. destruct H1 as [E1 B1], H2 as [E2 B2].
      apply Z.eqb_eq in E1, E2. subst. right. rewrite Z.eqb_refl. simpl.
      apply Z.leb_le in B1, B2. apply Z.leb_le. lia.
Qed.

(* the Specification's wording: lexicographically by name, then newest major first, then newest minor first *)
Definition rank_lt (k1 k2 : rkey) : Prop :=
  let '(n1, a1, b1) := k1 in let '(n2, a2, b2) := k2 in
  str_ltb n1 n2 = true \/ (n1 = n2 /\ (a2 < a1 \/ (a1 = a2 /\ b2 < b1))).

Lemma rleb_neq_lt : forall k1 k2, rleb k1 k2 = true -> k1 <> k2 -> rank_lt k1 k2.
Proof.
  intros [[n1 a1] b1] [[n2 a2] b2]. unfold rleb, rank_leb, rank_lt. intros H Hne.
  apply orb_true_iff in H. destruct H as [H|H]; [left; assumption|].
  apply andb_true_iff in H. destruct H as [E H]. apply str_eqb_eq in E. subst. right. split; [reflexivity|].
  apply orb_true_iff in H. destruct H as [H|H]; [left; apply Z.ltb_lt; assumption|].
  apply andb_true_iff in H. destruct H as [E B]. apply Z.eqb_eq in E. apply Z.leb_le in B. subst. right. split; [reflexivity|].
  assert (b1 <> b2) by (intro; subst; apply Hne; reflexivity). lia.
Qed.

(* ------------------------------------------------------------------------------------------------------------ *)
(* insertion sort with a key                                                                                    *)

Section KeySort.
Context {A : Type} (kf : A -> rkey).
Definition kleb (a b : A) : bool := rleb (kf a) (kf b).

Lemma insert_perm : forall x l, Permutation (insert kleb x l) (x :: l).
Proof.
  induction l as [|y l IH]; simpl; [apply Permutation_refl|].
  destruct (kleb x y); [apply Permutation_refl|].
  eapply Permutation_trans; [apply perm_skip; exact IH|apply perm_swap].
Qed.

Lemma isort_perm : forall l, Permutation (isort kleb l) l.
Proof.
  induction l as [|x l IH]; simpl; [apply perm_nil|].
  eapply Permutation_trans; [apply insert_perm|apply perm_skip; exact IH].
Qed.

Definition kle (a b : A) : Prop := kleb a b = true.

Lemma insert_sorted : forall x l, StronglySorted kle l -> StronglySorted kle (insert kleb x l).
Proof.
  induction l as [|y l IH]; intros S; simpl.
  - constructor; [constructor|constructor].
  - inversion S as [|? ? S' F]; subst. destruct (kleb x y) eqn:E.
    + constructor; [assumption|]. constructor; [exact E|].
      eapply Forall_impl; [|exact F]. intros z Hz. unfold kle, kleb in *. eapply rleb_trans; eassumption.
    + constructor; [apply IH; assumption|].
      assert (Hyx : kle y x).
      { unfold kle, kleb in *. destruct (rleb_total (kf x) (kf y)) as [T|T]; [congruence|assumption]. }
      apply Forall_forall. intros z Hz.
      apply (Permutation_in _ (insert_perm x l)) in Hz. destruct Hz as [Hz|Hz]; [subst; assumption|].
      rewrite Forall_forall in F. apply F. assumption.
Qed.

Lemma isort_sorted : forall l, StronglySorted kle (isort kleb l).
Proof. induction l as [|x l IH]; simpl; [constructor|apply insert_sorted; assumption]. Qed.

(* with pairwise different keys the sorted list is strictly increasing in rank *)
Lemma sorted_strict : forall l, StronglySorted kle l -> NoDup (map kf l) -> StronglySorted (fun a b => rank_lt (kf a) (kf b)) l.
Proof.
  induction l as [|x l IH]; intros S N; [constructor|].
  inversion S as [|? ? S' F]; subst. simpl in N. inversion N as [|? ? Hn N']; subst.
  constructor; [apply IH; assumption|].
  apply Forall_forall. intros z Hz. rewrite Forall_forall in F.
  apply rleb_neq_lt; [apply F; assumption|]. intro E. apply Hn. rewrite E. apply in_map. assumption.
Qed.

(* a list has at most one sorted arrangement when its keys are pairwise different *)
Lemma sorted_perm_unique : forall l1 l2, StronglySorted kle l1 -> StronglySorted kle l2 -> Permutation l1 l2 ->
  NoDup (map kf l1) -> l1 = l2.
Proof.
  induction l1 as [|x l1 IH]; intros l2 S1 S2 P N.
  - apply Permutation_nil in P. subst. reflexivity.
  - destruct l2 as [|y l2]; [apply Permutation_sym, Permutation_nil in P; discriminate|].
    inversion S1 as [|? ? S1' F1]; subst. inversion S2 as [|? ? S2' F2]; subst.
    simpl in N. inversion N as [|? ? Hn N']; subst.
    rewrite Forall_forall in F1, F2.
    assert (Hxy : x = y).
    { assert (Hy : In y (x :: l1)) by (apply (Permutation_in _ (Permutation_sym P)); left; reflexivity).
      assert (Hx : In x (y :: l2)) by (apply (Permutation_in _ P); left; reflexivity).
      destruct Hy as [Hy|Hy]; [assumption|]. destruct Hx as [Hx|Hx]; [auto|].
      pose proof (F1 y Hy) as L1. pose proof (F2 x Hx) as L2. unfold kle, kleb in *.
      pose proof (rleb_antisym _ _ L1 L2) as E. exfalso. apply Hn. rewrite E. apply in_map. assumption. }
    subst y. f_equal. apply IH; try assumption. eapply Permutation_cons_inv; eassumption.
Qed.

(* C10_perm, core: the result of the sort does not depend on the order of the input *)
Lemma isort_perm_eq : forall l1 l2, Permutation l1 l2 -> NoDup (map kf l1) -> isort kleb l1 = isort kleb l2.
Proof.
  intros l1 l2 P N. apply sorted_perm_unique.
  - apply isort_sorted.
  - apply isort_sorted.
  - eapply Permutation_trans; [apply isort_perm|]. eapply Permutation_trans; [exact P|]. apply Permutation_sym, isort_perm.
  - eapply Permutation_NoDup; [|exact N]. apply Permutation_map. apply Permutation_sym, isort_perm.
Qed.
End KeySort.

Lemma sort_metas_is : sort_metas = isort (kleb mkey).
Proof. reflexivity. Qed.
Lemma sort_trees_is : sort_trees = isort (kleb tkey).
Proof. reflexivity. Qed.
