(* C10 - what a successful read leaves behind: which objects are cached afterwards, which dependencies the visitor
   was told about, and how both relate to the returned tree.  Used by the loop invariant of _read_definitions. *)
From Coq Require Import ZArith List Bool Lia.
From PV Require Import Namespace.Reader Namespace.ReaderProofs Namespace.ReadPure Namespace.ReadCache.
Import ListNotations.
Open Scope Z_scope.

Definition cached (o : okey) (c : cache) : Prop := cache_get o c <> None.

(* the composite types of the fields of every cached composite are cached as lookup objects *)
Definition kidsinv (c : cache) : Prop :=
  forall o t, cache_get o c = Some t -> forall k, In k (tkids t) -> cached (false, tfile k) c.

Lemma cached_cons : forall o e c, cached o c -> cached o (e :: c).
Proof.
  intros o [o' t] c H. unfold cached in *. simpl. destruct (okey_eqb o o'); [discriminate|assumption].
Qed.

Lemma kidsinv_nil : kidsinv [].
Proof. intros o t H. discriminate. Qed.

Section Events.
Variable txt : Z -> list item.
Variable L : list meta.
Hypothesis CU : case_unique L.
Hypothesis FU : files_unique L.

Record facts (tk : bool) (d : meta) (c : cache) (t : ctree) (c' : cache) (ev : list event) : Prop := {
  f_kids : kidsinv c';
  f_mono : forall o, cached o c -> cached o c';
  f_self : cached (tk, mfile d) c';
  f_tkids : forall k, In k (tkids t) -> cached (false, tfile k) c';
  f_deps : forall x, In (EvDep x) ev -> In x L /\ cached (false, mfile x) c' /\ exists tx, sdesc tx t /\ tfile tx = mfile x;
  f_new : forall o, cached o c' -> cached o c \/ o = (tk, mfile d) \/ exists x, In (EvDep x) ev /\ o = (false, mfile x)
}.

Record ifacts (c : cache) (ks : list ctree) (c' : cache) (ev : list event) : Prop := {
  if_cinv : cinv txt L c';
  if_kids : kidsinv c';
  if_mono : forall o, cached o c -> cached o c';
  if_tkids : forall k, In k ks -> cached (false, tfile k) c';
  if_deps : forall x, In (EvDep x) ev -> In x L /\ cached (false, mfile x) c' /\
                                          exists tx, (In tx ks \/ exists k, In k ks /\ sdesc tx k) /\ tfile tx = mfile x;
  if_new : forall o, cached o c' -> cached o c \/ exists x, In (EvDep x) ev /\ o = (false, mfile x)
}.

Lemma read_top_file : forall d t, read_top txt d L = Ok t -> tfile t = mfile d.
Proof. intros d t H. unfold read_top in H. apply read_ok_key in H. tauto. Qed.

Lemma eval_itemsS_facts : forall f d K,
  (forall x c t c1 ev, In x L -> cinv txt L c -> kidsinv c ->
     readS txt f false x (fk (kminus K d) L) c = Ok (t, c1, ev) -> facts false x c t c1 ev) ->
  forall its line c s ks c' ev, cinv txt L c -> kidsinv c ->
  eval_itemsS (fun x c0 => readS txt f false x (fk (kminus K d) L) c0) d (fk (kminus K d) L) line its c = Ok (s, ks, c', ev) ->
  ifacts c ks c' ev.
Proof.
  intros f d K Hrd. induction its as [|it its IH]; intros line c s ks c' ev Hc Hk E; simpl in E.
  - inversion E; subst. constructor; auto; try (intros; contradiction).
  - destruct it as [n a b arr| | |w].
    + destruct (resolve d n a b (fk (kminus K d) L)) as [x| | |] eqn:R; try discriminate.
      destruct (readS txt f false x (fk (kminus K d) L) c) as [[[t c1] ev1]|e] eqn:Rd; [|discriminate].
      destruct (eval_itemsS (fun x c0 => readS txt f false x (fk (kminus K d) L) c0) d (fk (kminus K d) L) (line + 1) its c1) as [[[[s' ts] c2] ev2]|e] eqn:Ev; [|discriminate].
      inversion E; subst s ks c' ev. clear E.
      pose proof (resolve_found_In _ _ _ _ _ _ R) as Hx. apply fk_In in Hx. destruct Hx as [Hx _].
      destruct (readS_sound txt L CU FU f false x (kminus K d) c t c1 ev1 Hx Hc Rd) as [Hrt Hc1].
      pose proof (read_top_file _ _ Hrt) as Hft.
      pose proof (Hrd x c t c1 ev1 Hx Hc Hk Rd) as F1.
      pose proof (IH (line + 1) c1 s' ts c2 ev2 Hc1 (f_kids _ _ _ _ _ _ F1) Ev) as F2.
      constructor.
      * exact (if_cinv _ _ _ _ F2).
      * exact (if_kids _ _ _ _ F2).
      * intros o Ho. apply (if_mono _ _ _ _ F2). apply (f_mono _ _ _ _ _ _ F1). assumption.
      * intros k [Hk0|Hk0].
        -- subst k. apply (if_mono _ _ _ _ F2). rewrite Hft. exact (f_self _ _ _ _ _ _ F1).
        -- apply (if_tkids _ _ _ _ F2). assumption.
      * intros y Hy. destruct Hy as [Hy|Hy].
        -- inversion Hy; subst y. split; [assumption|]. split.
           ++ apply (if_mono _ _ _ _ F2). exact (f_self _ _ _ _ _ _ F1).
           ++ exists t. split; [left; left; reflexivity|assumption].
        -- apply in_app_iff in Hy. destruct Hy as [Hy|Hy].
           ++ destruct (f_deps _ _ _ _ _ _ F1 y Hy) as [H1 [H2 [tx [H3 H4]]]]. split; [assumption|]. split.
              ** apply (if_mono _ _ _ _ F2). assumption.
              ** exists tx. split; [right; exists t; split; [left; reflexivity|assumption]|assumption].
           ++ destruct (if_deps _ _ _ _ F2 y Hy) as [H1 [H2 [tx [H3 H4]]]]. split; [assumption|]. split; [assumption|].
              exists tx. split; [|assumption]. destruct H3 as [H3|[k [H3 H5]]].
              ** left. right. assumption.
              ** right. exists k. split; [right; assumption|assumption].
      * intros o Ho. destruct (if_new _ _ _ _ F2 o Ho) as [H1|[y [H1 H2]]].
        -- destruct (f_new _ _ _ _ _ _ F1 o H1) as [H3|[H3|[y [H3 H4]]]].
           ++ left. assumption.
           ++ right. exists x. split; [left; reflexivity|assumption].
           ++ right. exists y. split; [right; apply in_app_iff; left; assumption|assumption].
        -- right. exists y. split; [right; apply in_app_iff; right; assumption|assumption].
    + destruct (eval_itemsS (fun x c0 => readS txt f false x (fk (kminus K d) L) c0) d (fk (kminus K d) L) (line + 1) its c) as [[[[s' ts] c2] ev2]|e] eqn:Ev; [|discriminate].
      inversion E; subst s ks c' ev. clear E.
      pose proof (IH (line + 1) c s' ts c2 ev2 Hc Hk Ev) as F2.
      constructor; try apply F2.
      * intros y Hy. destruct Hy as [Hy|Hy]; [discriminate|]. apply (if_deps _ _ _ _ F2). assumption.
      * intros o Ho. destruct (if_new _ _ _ _ F2 o Ho) as [H1|[y [H1 H2]]]; [left; assumption|].
        right. exists y. split; [right; assumption|assumption].
    + discriminate.
    + destruct (eval_itemsS (fun x c0 => readS txt f false x (fk (kminus K d) L) c0) d (fk (kminus K d) L) (line + 1) its c) as [[[[s' ts] c2] ev2]|e] eqn:Ev; [|discriminate].
      inversion E; subst s ks c' ev. clear E. exact (IH (line + 1) c s' ts c2 ev2 Hc Hk Ev).
Qed.

Lemma readS_facts : forall f tk d K c t c' ev, In d L -> cinv txt L c -> kidsinv c ->
  readS txt f tk d (fk K L) c = Ok (t, c', ev) -> facts tk d c t c' ev.
Proof.
  induction f as [|f IH]; intros tk d K c t c' ev Hd Hc Hk H; simpl in H; [discriminate|].
  destruct (cache_get (tk, mfile d) c) as [t0|] eqn:G.
  - inversion H; subst. constructor; auto.
    + unfold cached. rewrite G. discriminate.
    + intros k Hk0. eapply Hk; eassumption.
    + intros x Hx. contradiction.
  - rewrite rm_fk in H.
    destruct (eval_itemsS (fun x c0 => readS txt f false x (fk (kminus K d) L) c0) d (fk (kminus K d) L) 1 (txt (mfile d)) c)
      as [[[[s ks] c1] ev1]|e] eqn:E; [|discriminate].
    inversion H; subst. clear H.
    assert (Hrd : forall x c0 t0 c2 ev0, In x L -> cinv txt L c0 -> kidsinv c0 ->
              readS txt f false x (fk (kminus K d) L) c0 = Ok (t0, c2, ev0) -> facts false x c0 t0 c2 ev0).
    { intros. eapply IH; eassumption. }
    pose proof (eval_itemsS_facts f d K Hrd (txt (mfile d)) 1 c s ks c1 ev1 Hc Hk E) as F.
    constructor.
    + intros o t0 Ho k Hk0. simpl in Ho. destruct (okey_eqb o (tk, mfile d)) eqn:Eo.
      * inversion Ho; subst t0. simpl in Hk0. apply cached_cons. apply (if_tkids _ _ _ _ F). assumption.
      * apply cached_cons. eapply (if_kids _ _ _ _ F); eassumption.
    + intros o Ho. apply cached_cons. apply (if_mono _ _ _ _ F). assumption.
    + unfold cached. simpl. assert (Er : okey_eqb (tk, mfile d) (tk, mfile d) = true) by (apply okey_eqb_eq; reflexivity).
      rewrite Er. discriminate.
    + intros k Hk0. simpl in Hk0. apply cached_cons. apply (if_tkids _ _ _ _ F). assumption.
    + intros x Hx. destruct Hx as [Hx|Hx]; [discriminate|].
      destruct (if_deps _ _ _ _ F x Hx) as [H1 [H2 [tx [H3 H4]]]]. split; [assumption|]. split; [apply cached_cons; assumption|].
      exists tx. split; [|assumption]. destruct H3 as [H3|[k [H3 H5]]].
      * apply sd_kid. simpl. assumption.
      * eapply sd_deep; [|eassumption]. simpl. assumption.
    + intros o Ho. unfold cached in Ho. simpl in Ho. destruct (okey_eqb o (tk, mfile d)) eqn:Eo.
      * right. left. apply okey_eqb_eq. assumption.
      * destruct (if_new _ _ _ _ F o Ho) as [H1|[y [H1 H2]]]; [left; assumption|].
        right. right. exists y. split; [right; assumption|assumption].
Qed.

End Events.
