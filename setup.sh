#!/bin/bash
# Build the Coq development from files on disk (full .vo build, never -vos/-vok). Serialised by a lock.
cd "$(dirname "$0")/coq" || exit 1
exec 9> ../.build.lock
flock 9
{
  echo "-R . PV"
  echo "-arg -w -arg -notation-overridden,-deprecated-hint-without-locality,-deprecated-instance-without-locality"
  find . -name '*.v' | sed 's|^\./||' | LC_ALL=C sort
} > _CoqProject.new
cmp -s _CoqProject.new _CoqProject || mv _CoqProject.new _CoqProject
rm -f _CoqProject.new
coq_makefile -f _CoqProject -o Makefile > /dev/null
timeout 3000 make -k -j"${VERIF_JOBS:-16}" 2>&1 | grep -v 'conda' | grep -v '^Closed under the global context$'
rc=0
for v in $(find . -name '*.v'); do
  [ -f "${v%.v}.vo" ] && [ "${v%.v}.vo" -nt "$v" ] || { echo "setup: ${v%.v}.vo missing or stale"; rc=1; }
done
[ $rc = 0 ] && echo "setup: coq build ok"
# A file that does not build only affects the checks that depend on it: each check re-compiles its own Props/Cxx.v
# and reports a broken obligation itself. Hence the setup succeeds when the build could be attempted.
[ $rc = 0 ] || echo "setup: some files did not build (see above); dependent checks will report it"
exit 0
