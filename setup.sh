#!/bin/bash
# Build the Coq development from files on disk (full .vo build, never -vos/-vok).
set -e
cd "$(dirname "$0")/coq"
{
  echo "-R . PV"
  echo "-arg -w -arg -notation-overridden,-deprecated-hint-without-locality,-deprecated-instance-without-locality"
  find . -name '*.v' | sed 's|^\./||' | LC_ALL=C sort
} > _CoqProject
coq_makefile -f _CoqProject -o Makefile > /dev/null
timeout 3000 make -j"${VERIF_JOBS:-16}" 2>&1 | grep -v 'conda' | grep -v '^Closed under the global context$' || true
# fail if any .vo is missing
for v in $(find . -name '*.v'); do
  [ -f "${v%.v}.vo" ] || { echo "setup: missing ${v%.v}.vo"; exit 1; }
done
echo "setup: coq build ok"
