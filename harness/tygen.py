"""Shared helpers for properties about the type AST (C02, C08, C16, C18): JSON description of types,
random generation, construction of the implementation's objects, Gallina emission, translation to operator trees."""
import gallina as G

# JSON forms:
#  {"k":"prim","p":"bool|uint|int|float|byte|utf8","w":W,"c":"sat|trunc"}
#  {"k":"void","w":W}
#  {"k":"fix","e":T,"n":N}   {"k":"var","e":T,"n":N}
#  {"k":"struct"|"union","name":"ns.T3","ver":[1,0],"fs":[[name_or_None, T], ...], "dep": bool}
#  {"k":"delim","i":<struct/union>,"ext":E}


class NameGen:
    def __init__(self):
        self.n = 0

    def fresh(self):
        self.n += 1
        return "ns.T%d" % self.n


def gen_prim(rng, allow_special=None):
    r = rng.random()
    if r < 0.1:
        return {"k": "prim", "p": "bool"}
    if r < 0.55:
        return {"k": "prim", "p": "uint", "w": rng.choice([1, 2, 3, 5, 7, 8, 9, 13, 16, 17, 24, 31, 32, 33, 48, 63, 64, rng.randrange(1, 65)]),
                "c": rng.choice(["sat", "trunc"])}
    if r < 0.8:
        return {"k": "prim", "p": "int", "w": rng.choice([2, 3, 7, 8, 9, 16, 32, 33, 64, rng.randrange(2, 65)]), "c": "sat"}
    return {"k": "prim", "p": "float", "w": rng.choice([16, 32, 64]), "c": rng.choice(["sat", "trunc"])}


def gen_capacity(rng, small):
    r = rng.random()
    if small or r < 0.55:
        return rng.choice([1, 2, 3, 4, 5, 7, 8, 9, 15, 16, 17, 31, 32, 33])
    if r < 0.8:
        return rng.choice([254, 255, 256, 257, 65534, 65535, 65536, 65537, 2 ** 32 - 1, 2 ** 32, 2 ** 32 + 1])
    if r < 0.9:
        return rng.choice([2 ** 63 - 1, 2 ** 63, 2 ** 64 - 1, 2 ** 48, 10 ** 9])
    return rng.randrange(1, 100000)


def gen_type(rng, depth, names, small_caps=False, in_array=False, allow_delim=True, nested_arrays=False):
    """A random scalar-or-array type that is valid as a structure field (or array element when in_array)."""
    r = rng.random()
    if depth <= 0 or r < 0.3:
        return gen_prim(rng)
    if r < 0.6 and (not in_array or (nested_arrays and rng.random() < 0.5)):
        kind = rng.choice(["fix", "var", "var"])
        sub = rng.random()
        if sub < 0.1:
            e = {"k": "prim", "p": "byte"}
        elif sub < 0.2 and kind == "var":
            e = {"k": "prim", "p": "utf8"}
        else:
            e = gen_type(rng, depth - 1, names, small_caps, in_array=True, allow_delim=allow_delim, nested_arrays=nested_arrays)
        return {"k": kind, "e": e, "n": gen_capacity(rng, small_caps or in_array)}
    return gen_composite(rng, depth - 1, names, small_caps, allow_delim, nested_arrays=nested_arrays)


def gen_composite(rng, depth, names, small_caps=False, allow_delim=True, force=None, nested_arrays=False):
    kind = force or rng.choice(["struct", "struct", "union"])
    nf = rng.choice([0, 1, 2, 2, 3, 4, 5]) if kind == "struct" else rng.choice([2, 2, 3, 4])
    fs = []
    for i in range(nf):
        if kind == "struct" and rng.random() < 0.15:
            fs.append([None, {"k": "void", "w": rng.choice([1, 2, 3, 7, 8, 13, 32, 64])}])
        else:
            fs.append(["f%d" % i, gen_type(rng, depth, names, small_caps, allow_delim=allow_delim, nested_arrays=nested_arrays)])
    if nf >= 2 and rng.random() < 0.2:
        # two members whose length sets agree in min, max and residues modulo 32 but differ as sets
        w = rng.choice([32, 64])
        k = rng.choice([1, 2, 3])
        fs[0] = ["f0", {"k": "var", "e": {"k": "prim", "p": "uint", "w": 2 * w if w == 32 else 64, "c": "sat"}, "n": k}]
        fs[1] = ["f1", {"k": "var", "e": {"k": "prim", "p": "uint", "w": w if w == 32 else 32, "c": "sat"}, "n": 2 * k}]
        if rng.random() < 0.5:
            fs[0], fs[1] = ["f0", fs[1][1]], ["f1", fs[0][1]]
    t = {"k": kind, "name": names.fresh(), "ver": [1, 0], "fs": fs}
    if rng.random() < 0.25:
        t["consts"] = rng.choice([1, 2, 3])  # constants are attributes but never variants / fields
    if allow_delim and rng.random() < 0.35:
        mx = max_len(t)
        pad8 = (mx + 7) // 8 * 8
        ext = pad8 + 8 * rng.choice([0, 0, 1, 2, 8, 100])
        return {"k": "delim", "i": t, "ext": ext}
    return t


# ---------------------------------------------------------------------------------------------------------------
# reference layout (only for choosing admissible extents / cost guards - never part of a verdict)


def align_of(t):
    k = t["k"]
    if k in ("prim", "void"):
        return 1
    if k in ("fix", "var"):
        return align_of(t["e"])
    return 8


def width_of_prim(t):
    return {"bool": 1, "byte": 8, "utf8": 8}.get(t["p"]) or t["w"]


def _pad(a, x):
    return (x + a - 1) // a * a


def _width_for(bits):
    b = max(8, bits)
    w = 8
    while w < b:
        w *= 2
    return w


def max_len(t):
    k = t["k"]
    if k == "prim":
        return width_of_prim(t)
    if k == "void":
        return t["w"]
    if k == "fix":
        return max_len(t["e"]) * t["n"]
    if k == "var":
        return _width_for(int(t["n"]).bit_length()) + max_len(t["e"]) * t["n"]
    if k == "struct":
        off = 0
        for _, f in t["fs"]:
            off = _pad(align_of(f), off) + max_len(f)
        return _pad(8, off)
    if k == "union":
        return _pad(8, _width_for((len(t["fs"]) - 1).bit_length()) + max(max_len(f) for _, f in t["fs"]))
    if k == "delim":
        return 32 + t["ext"]
    raise ValueError(k)


def to_op(t):
    """Operator tree (JSON of harness/props/c01.py) mirroring coq/Layout/Types.v `bls`."""
    k = t["k"]

    def leaf(v):
        return {"o": "leaf", "v": [v], "how": "int", "raw": False}

    if k == "prim":
        return leaf(width_of_prim(t))
    if k == "void":
        return leaf(t["w"])
    if k == "fix":
        return {"o": "rep", "c": to_op(t["e"]), "k": t["n"]}
    if k == "var":
        return {"o": "cat", "cs": [leaf(_width_for(int(t["n"]).bit_length())), {"o": "rrep", "c": to_op(t["e"]), "k": t["n"]}]}
    if k == "struct":
        fs = t["fs"]
        if not fs:
            acc = leaf(0)
        else:
            acc = to_op(fs[0][1])
            for _, f in fs[1:]:
                acc = {"o": "cat", "cs": [{"o": "pad", "c": acc, "a": align_of(f)}, to_op(f)]}
        return {"o": "pad", "c": acc, "a": 8}
    if k == "union":
        fs = t["fs"]
        tag = _width_for((len(fs) - 1).bit_length())
        return {"o": "pad", "a": 8, "c": {"o": "cat", "cs": [leaf(tag), {"o": "uni", "cs": [to_op(f) for _, f in fs]}]}}
    if k == "delim":
        return {"o": "cat", "cs": [leaf(32), {"o": "rrep", "c": leaf(8), "k": t["ext"] // 8}]}
    raise ValueError(k)


BIG = 2000  # composites with more attributes than this are emitted to Coq as a generated term, not as a literal


def subtypes(t, out=None):
    """All nodes of the type tree, children first."""
    if out is None:
        out = []
    k = t["k"]
    if k in ("fix", "var"):
        subtypes(t["e"], out)
    elif k in ("struct", "union") and len(t["fs"]) <= BIG:
        for _, f in t["fs"]:
            subtypes(f, out)   # (the members of a composite with more than BIG attributes are not observed one by one)
    elif k == "delim":
        subtypes(t["i"], out)
    out.append(t)
    return out


# ---------------------------------------------------------------------------------------------------------------
# implementation objects


def build(t, cache=None):
    """Construct the pydsdl object for a JSON type (raises whatever the constructors raise)."""
    import pydsdl
    from pathlib import Path

    if cache is None:
        cache = {}
    key = id(t)
    if key in cache:
        return cache[key]
    k = t["k"]
    CM = pydsdl.PrimitiveType.CastMode
    if k == "prim":
        cm = CM.TRUNCATED if t.get("c") == "trunc" else CM.SATURATED
        p = t["p"]
        if p == "bool":
            o = pydsdl.BooleanType()
        elif p == "byte":
            o = pydsdl.ByteType()
        elif p == "utf8":
            o = pydsdl.UTF8Type()
        elif p == "uint":
            o = pydsdl.UnsignedIntegerType(t["w"], cm)
        elif p == "int":
            o = pydsdl.SignedIntegerType(t["w"], cm)
        else:
            o = pydsdl.FloatType(t["w"], cm)
    elif k == "void":
        o = pydsdl.VoidType(t["w"])
    elif k == "fix":
        o = pydsdl.FixedLengthArrayType(build(t["e"], cache), t["n"])
    elif k == "var":
        o = pydsdl.VariableLengthArrayType(build(t["e"], cache), t["n"])
    elif k in ("struct", "union"):
        attrs = []
        for name, f in t["fs"]:
            ft = build(f, cache)
            attrs.append(pydsdl.PaddingField(ft) if name is None else pydsdl.Field(ft, name))
        for ci in range(int(t.get("consts", 0))):
            from pydsdl import _expression
            attrs.insert(min(ci, len(attrs)), pydsdl.Constant(pydsdl.UnsignedIntegerType(8, CM.SATURATED), "C%d" % ci, _expression.Rational(ci % 200)))
        cls = pydsdl.StructureType if k == "struct" else pydsdl.UnionType
        comps = t["name"].split(".")
        o = cls(name=t["name"], version=pydsdl.Version(*t["ver"]), attributes=attrs, deprecated=bool(t.get("dep")),
                fixed_port_id=None, source_file_path=Path(*comps[:-1]) / ("%s.%d.%d.dsdl" % (comps[-1], t["ver"][0], t["ver"][1])),
                has_parent_service=False)
    elif k == "delim":
        o = pydsdl.DelimitedType(build(t["i"], cache), t["ext"])
    else:
        raise ValueError(k)
    cache[key] = o
    return o


# ---------------------------------------------------------------------------------------------------------------
# DSDL text


def type_text(t):
    k = t["k"]
    if k == "prim":
        p = t["p"]
        if p in ("bool", "byte", "utf8"):
            return p
        return "%s %s%d" % ("truncated" if t.get("c") == "trunc" else "saturated", p, t["w"])
    if k == "void":
        return "void%d" % t["w"]
    if k == "fix":
        return "%s[%d]" % (type_text(t["e"]), t["n"])
    if k == "var":
        return "%s[<=%d]" % (type_text(t["e"]), t["n"])
    if k in ("struct", "union"):
        return "%s.%d.%d" % (t["name"], t["ver"][0], t["ver"][1])
    if k == "delim":
        return type_text(t["i"])
    raise ValueError(k)


def definition_files(t, files=None):
    """DSDL source text for every composite inside t: {relative path: text}."""
    if files is None:
        files = {}
    for n in subtypes(t):
        if n["k"] == "delim":
            c, ext = n["i"], n["ext"]
        elif n["k"] in ("struct", "union"):
            c, ext = n, None
            if any(m["k"] == "delim" and m["i"] is n for m in subtypes(t)):
                continue
        else:
            continue
        lines = []
        if c.get("dep"):
            lines.append("@deprecated")
        if c["k"] == "union":
            lines.append("@union")
        for ci in range(int(c.get("consts", 0))):
            lines.append("uint8 C%d = %d" % (ci, ci % 200))
        for name, f in c["fs"]:
            lines.append(type_text(f) if name is None else "%s %s" % (type_text(f), name))
        lines.append("@sealed" if ext is None else "@extent %d" % ext)
        comps = c["name"].split(".")
        files["/".join(comps[:-1]) + "/%s.%d.%d.dsdl" % (comps[-1], c["ver"][0], c["ver"][1])] = "\n".join(lines) + "\n"
    return files


# ---------------------------------------------------------------------------------------------------------------
# Gallina


def emit_prim(t):
    p = t["p"]
    c = "Trunc" if t.get("c") == "trunc" else "Sat"
    if p == "bool":
        return "PBool"
    if p == "byte":
        return "PByte"
    if p == "utf8":
        return "PUtf8"
    if p == "uint":
        return "(PUInt %s %s)" % (G.z(t["w"]), c)
    if p == "int":
        return "(PSInt %s)" % G.z(t["w"])
    return "(PFloat %s %s)" % (G.z(t["w"]), c)


def emit_ty(t):
    k = t["k"]
    if k == "prim":
        return "(TPrim %s)" % emit_prim(t)
    if k == "void":
        return "(TVoid %s)" % G.z(t["w"])
    if k == "fix":
        return "(TFix %s %s)" % (emit_ty(t["e"]), G.z(t["n"]))
    if k == "var":
        return "(TVar %s %s)" % (emit_ty(t["e"]), G.z(t["n"]))
    if k in ("struct", "union") and len(t["fs"]) > BIG:
        # a huge composite (tag-width boundaries need 2**16 variants): its member types must be periodic; the Gallina term is
        # generated by map/seq instead of a multi-megabyte literal. Member names do not enter the layout; they are 'v' + index here.
        nm = G.codepoints("%s.%d.%d" % (t["name"], t["ver"][0], t["ver"][1]))
        period = next(p for p in range(1, 9) if all(t["fs"][i][1] == t["fs"][i % p][1] for i in range(len(t["fs"]))))
        alts = [emit_ty(t["fs"][i][1]) for i in range(period)]
        # (a Z counter: arithmetic on unary nat indices would make the construction quadratic)
        return ("(%s %s ((fix go (n : nat) (i : Z) {struct n} : list (option (list Z) * ty) := match n with O => [] | S m => "
                "(Some [118; i], nth (Z.to_nat (i mod %s)) %s (TVoid 1)) :: go m (i + 1) end) (Z.to_nat %s) 0))"
                % ("TStruct" if k == "struct" else "TUnion", nm, G.z(period), G.lst(alts), G.z(len(t["fs"]))))
    if k in ("struct", "union"):
        nm = G.codepoints("%s.%d.%d" % (t["name"], t["ver"][0], t["ver"][1]))
        fs = G.lst(["(%s, %s)" % (G.opt(None if n is None else G.codepoints(n)), emit_ty(f)) for n, f in t["fs"]])
        return "(%s %s %s)" % ("TStruct" if k == "struct" else "TUnion", nm, fs)
    if k == "delim":
        return "(TDelim %s %s)" % (emit_ty(t["i"]), G.z(t["ext"]))
    raise ValueError(k)


# ---------------------------------------------------------------------------------------------------------------
# offsets (mirror of coq/Layout/Offsets.v on operator-tree JSON; used for cost guards only) and BitLengthSet builder


def _leaf(v):
    return {"o": "leaf", "v": [v], "how": "int", "raw": False}


def field_offset_ops(t, base):
    k = t["k"]
    if k == "struct":
        off = {"o": "pad", "c": base, "a": 8}
        out = []
        for _, f in t["fs"]:
            o = {"o": "pad", "c": off, "a": align_of(f)}
            out.append(o)
            off = {"o": "cat", "cs": [o, to_op(f)]}
        return out
    if k == "union":
        tag = _width_for((len(t["fs"]) - 1).bit_length())
        o = {"o": "cat", "cs": [{"o": "pad", "c": base, "a": 8}, _leaf(tag)]}
        return [o for _ in t["fs"]]
    if k == "delim":
        return field_offset_ops(t["i"], {"o": "cat", "cs": [base, _leaf(32)]})
    return []


def elem_offset_op(e, base, i):
    return {"o": "cat", "cs": [{"o": "pad", "c": base, "a": align_of(e)}, {"o": "rep", "c": to_op(e), "k": i}]}


def build_bls(op):
    """BitLengthSet for an operator-tree JSON (leaf / pad / rep / rrep / cat / uni)."""
    from pydsdl import BitLengthSet

    o = op["o"]
    if o == "leaf":
        return BitLengthSet(set(op["v"]))
    if o == "pad":
        return build_bls(op["c"]).pad_to_alignment(op["a"])
    if o == "rep":
        return build_bls(op["c"]).repeat(op["k"])
    if o == "rrep":
        return build_bls(op["c"]).repeat_range(op["k"])
    if o == "cat":
        return BitLengthSet.concatenate([build_bls(c) for c in op["cs"]])
    if o == "uni":
        return BitLengthSet.unite([build_bls(c) for c in op["cs"]])
    raise ValueError(o)
