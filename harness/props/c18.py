"""C18 - equality / hash / immutability / pickle contract: generator, implementation runner, emitter."""
import copy
import json
import gallina as G
import tygen
from props import c01

ID = "C18"
PROPS_FILE = "Props/C18.v"
COQ_IMPORTS = "From PV Require Import Util.ListSet BLS.Model Layout.Types EqHash.Model Check.C18."
CASE_TYPE = "C18.case"
CHECK_FN = "C18.check_case"
SHARD = 150
RULE = ("pairs of objects of the same class built independently: (types) a random type and either an independent rebuild of the same "
        "description or a mutation of it (width, capacity +-1, cast mode, name, field order, field type of equal length, "
        "struct<->union, sealed<->delimited, extent); (fields)/(consts) attributes over such types with equal/different names and "
        "values; (sets) pairs of BitLengthSet operator trees (equal sets built differently, near misses that agree on min/max but "
        "differ modulo 32 or only modulo 64). Observed: a==b, b==a, a!=b, a==a, b==b, hash(a)==hash(b), compared with the model's "
        "ty_eq / field_eq / const_eq / approx_eq. Implementation-only probes: every list returned by a public accessor is mutated "
        "and the object re-observed; pickle round trip (equal, same str, attributes, layout observables, offsets). "
        "Non-trivial = the pair is not two single primitives; distinct by hash")
THEOREMS_NOTE = "C18_discriminates fixes the value of ==; C18_hash/C18_sym/C18_refl the contract; C18_bls_no_false_neg the one-sidedness of set equality"
TRUSTED = ["Python tuple/str hashing and pickle are exercised through the implementation only",
           "aliasing and pickling are properties of Python objects that the value model cannot exhibit (checked on the implementation only)"]
ASSUMPTIONS = ["pairs quantify over objects of the same class (Field vs Constant cross-class comparison is outside the property)"]
EXPLANATION = "partial: eq/hash laws are theorems over all values; aliasing and pickle are implementation-only probes"
LEVEL_TEXT = ("Coq theorems over all type values: equality (class + normalised string + approximate set equality) is reflexive, symmetric, "
              "transitive, hash-consistent, equals exactly the conjunction class/string/(min, max, residues mod 32), and - using the C01 "
              "theorems - never separates types or sets whose mathematical length sets are equal. Correspondence: ==, !=, hash of independently "
              "built implementation objects are compared with the model. Accessor aliasing and pickle round trips are checked on the "
              "implementation only (partial).")
LEVEL_NOTE = "Trusted: Coq kernel + vm_compute; aliasing/pickle are not modelled (implementation-only probes)."
TECHNIQUE = "Coq proof of equivalence/hash laws over the type AST + vm_compute correspondence; implementation-only aliasing and pickle probes"


# ----------------------------------------------------------------------------------------------------------------


def mutate(rng, t):
    """a near miss of t (same JSON shape conventions)"""
    t = copy.deepcopy(t)
    nodes = tygen.subtypes(t)
    for _ in range(8):
        n = rng.choice(nodes)
        k = n["k"]
        r = rng.random()
        if k == "prim" and n["p"] in ("uint", "int", "float"):
            if r < 0.4 and n["p"] != "float":
                n["w"] = max(2, min(64, n["w"] + rng.choice([-1, 1])))
                return t
            if r < 0.7 and n["p"] != "int":
                n["c"] = "trunc" if n.get("c") == "sat" else "sat"
                return t
            if n["p"] == "uint" and n["w"] >= 2:
                n["p"] = "int"
                n["c"] = "sat"
                return t
            if n["p"] == "int":
                n["p"] = "uint"
                return t
        elif k == "void":
            n["w"] = max(1, min(64, n["w"] + rng.choice([-1, 1])))
            return t
        elif k in ("fix", "var"):
            if k == "var" and r < 0.35 and n["n"] % 2 == 0 and n["e"]["k"] == "prim" and n["e"]["p"] == "uint" and n["e"]["w"] <= 32 \
                    and n["n"].bit_length() <= 8 and (n["n"] // 2).bit_length() <= 8:
                # same minimum and maximum length, fewer intermediate lengths: only the residues can tell them apart
                n["n"] //= 2
                n["e"]["w"] *= 2
                return t
            if r < 0.5:
                n["n"] = max(1, n["n"] + rng.choice([-1, 1, 32, -32]))
            else:
                n["k"] = "var" if k == "fix" else "fix"
            return t
        elif k in ("struct", "union"):
            if r < 0.3:
                n["name"] = n["name"] + "x"
                return t
            if r < 0.5 and len(n["fs"]) >= 2:
                i = rng.randrange(len(n["fs"]) - 1)
                n["fs"][i], n["fs"][i + 1] = n["fs"][i + 1], n["fs"][i]
                return t
            if r < 0.65 and n["fs"]:
                n["fs"] = n["fs"][:-1] if (k == "struct" or len(n["fs"]) > 2) else n["fs"]
                return t
            if r < 0.8 and len(n["fs"]) >= 2 and all(name is not None for name, _ in n["fs"]):
                n["k"] = "union" if k == "struct" else "struct"
                return t
            if n["fs"] and n["fs"][0][0] is not None:
                n["fs"][0][0] = n["fs"][0][0] + "_"
                return t
        elif k == "delim":
            if r < 0.5:
                n["ext"] += rng.choice([8, 64, 256])
                return t
    return t


def seal_toggle(t):
    """sealed <-> delimited at the top"""
    if t["k"] == "delim":
        return copy.deepcopy(t["i"])
    if t["k"] in ("struct", "union"):
        mx = (tygen.max_len(t) + 7) // 8 * 8
        return {"k": "delim", "i": copy.deepcopy(t), "ext": mx}
    return copy.deepcopy(t)


def cheap(t):
    c = [0, 0]
    for n in tygen.subtypes(t):
        c01.ref_mod(tygen.to_op(n), 32, c)
    return c[0] <= 60000 and c[1] <= 3e6


SET_PAIRS = [
    # equal sets built differently
    ({"o": "leaf", "v": [0, 8, 16], "how": "set", "raw": False}, {"o": "rrep", "c": {"o": "leaf", "v": [8], "how": "int", "raw": False}, "k": 2}),
    ({"o": "rep", "c": {"o": "leaf", "v": [1, 2], "how": "set", "raw": False}, "k": 2}, {"o": "leaf", "v": [2, 3, 4], "how": "set", "raw": False}),
    # same min/max, different residues modulo 32
    ({"o": "leaf", "v": [0, 8, 64], "how": "set", "raw": False}, {"o": "leaf", "v": [0, 16, 64], "how": "set", "raw": False}),
    # differ only modulo 64: indistinguishable for the approximate equality (documented false positive)
    ({"o": "leaf", "v": [0, 32, 128], "how": "set", "raw": False}, {"o": "leaf", "v": [0, 64, 128], "how": "set", "raw": False}),
    ({"o": "leaf", "v": [0, 1, 40], "how": "set", "raw": False}, {"o": "leaf", "v": [0, 33, 40], "how": "set", "raw": False}),
]


STRINGS = ["", "a", "A", "ab", "\u00e9", "e\u0301", "\u212b", "\u00c5", "A\u030a", "\ufb03", "ffi", "\u1e9b\u0323", "\u1e9b\u0323"[::-1], "\U0001f600", " ", "a "]


def gen_value(rng):
    r = rng.random()
    if r < 0.45:
        return {"str": rng.choice(STRINGS)}
    if r < 0.8:
        return {"num": rng.choice([0, 1, -1, 2, 3, 10 ** 20]), "den": rng.choice([1, 1, 2, 3, 7])}
    return {"bool": rng.random() < 0.5}


def gen_values(rng):
    if rng.random() < 0.6:
        a = gen_value(rng)
        b = dict(a) if rng.random() < 0.3 else gen_value(rng)
        return {"kind": "values", "a": a, "b": b}
    key = rng.choice(["str", "num"])

    def elems():
        out = []
        while len(out) < rng.choice([1, 2, 3]):
            v = gen_value(rng)
            if key in v:
                out.append(v)
        return out
    a = elems()
    b = list(reversed(a)) if rng.random() < 0.4 else elems()
    return {"kind": "valuesets", "a": a, "b": b}


def interior_pairs():
    """same class, same string form, same min and max - only the residues can tell them apart"""
    out = []
    def arr(w, n):
        return {"k": "var", "e": {"k": "prim", "p": "uint", "w": w, "c": "sat"}, "n": n}
    k = 0
    for (w1, n1), (w2, n2) in [((8, 2), (16, 1)), ((8, 4), (16, 2)), ((8, 4), (32, 1)), ((16, 2), (32, 1)), ((8, 6), (24, 2)), ((4, 4), (8, 2))]:
        for kind in ("struct", "union"):
            k += 1
            extra = [["z", {"k": "prim", "p": "uint", "w": w1 * n1 + 8, "c": "sat"}]] if kind == "union" else [["z", {"k": "prim", "p": "bool"}]]
            a = {"k": kind, "name": "ns.I%d" % k, "ver": [1, 0], "fs": [["x", arr(w1, n1)]] + extra}
            b = {"k": kind, "name": "ns.I%d" % k, "ver": [1, 0], "fs": [["x", arr(w2, n2)]] + extra}
            out.append((a, b))
            out.append(({"k": "fix", "e": a, "n": 2}, {"k": "fix", "e": b, "n": 2}))
            out.append(({"k": "delim", "i": a, "ext": 1024}, {"k": "delim", "i": b, "ext": 1024}))   # delimited: really equal sets
    return out


def generate(rng, tier):
    cases, streams = [], []
    u8c = {"k": "prim", "p": "uint", "w": 8, "c": "sat"}
    for ch in ("/", "A", " ", "~"):
        for other in ({"num": ord(ch), "den": 1}, {"chr": ch}, {"num": ord(ch) + 1, "den": 1}):
            cases.append({"kind": "consts", "a": ["SEP", u8c, {"chr": ch}], "b": ["SEP", dict(u8c), other]})
            streams.append("targeted")
    for a, b in interior_pairs():
        cases.append({"kind": "types", "a": a, "b": b})
        streams.append("targeted")
        cases.append({"kind": "fields", "a": ["f", a], "b": ["f", b]})
        streams.append("targeted")
    # composites that differ in the version only: every pair of neighbours around the byte boundaries of major and minor
    # (a version packed as major * 255 + minor identifies m.255 with (m+1).0)
    body = [["a", u8c], ["b", {"k": "var", "e": dict(u8c), "n": 3}]]
    vers = [[0, 1], [0, 254], [0, 255], [1, 0], [1, 1], [1, 254], [1, 255], [2, 0], [2, 1], [254, 255], [255, 0], [255, 254], [255, 255], [16, 0], [0, 16]]
    for kind in ("struct", "union"):
        for va in vers:
            for vb in vers:
                if va < vb and (abs(va[0] - vb[0]) <= 1 or va[::-1] == vb):
                    a = {"k": kind, "name": "ns.Ver", "ver": va, "fs": copy.deepcopy(body)}
                    b = {"k": kind, "name": "ns.Ver", "ver": vb, "fs": copy.deepcopy(body)}
                    cases.append({"kind": "types", "a": a, "b": b})
                    streams.append("targeted")
                    if kind == "struct" and va[1] in (255, 0):
                        cases.append({"kind": "types", "a": {"k": "delim", "i": a, "ext": 256}, "b": {"k": "delim", "i": b, "ext": 256}})
                        streams.append("targeted")
                        cases.append({"kind": "fields", "a": ["f", {"k": "fix", "e": a, "n": 2}], "b": ["f", {"k": "fix", "e": b, "n": 2}]})
                        streams.append("targeted")
    for x in STRINGS:
        for y in STRINGS:
            if x < y and (x.encode() != y.encode()):
                import unicodedata
                if unicodedata.normalize("NFC", x) == unicodedata.normalize("NFC", y) or len(cases) < 12:
                    cases.append({"kind": "values", "a": {"str": x}, "b": {"str": y}})
                    streams.append("targeted")
    for a, b in SET_PAIRS:
        cases.append({"kind": "sets", "a": a, "b": b})
        streams.append("targeted")
    n = 900 if tier == "quick" else 15000
    for i in range(n):
        names = tygen.NameGen()
        r = i % 12
        if r < 6:
            for _ in range(20):
                a = tygen.gen_type(rng, rng.choice([0, 1, 2, 2, 3]), names)
                if cheap(a):
                    break
            else:
                a = tygen.gen_prim(rng)
            how = rng.random()
            if how < 0.35:
                b = copy.deepcopy(a)
            elif how < 0.9:
                b = mutate(rng, a)
            else:
                b = seal_toggle(a)
            if not cheap(b):
                b = copy.deepcopy(a)
            kind = "types"
            if r == 4:
                na = rng.choice(["x", "y", "value"])
                nb = na if rng.random() < 0.6 else rng.choice(["x", "y", "value"])
                cases.append({"kind": "fields", "a": [na, a], "b": [nb, b]})
            else:
                cases.append({"kind": kind, "a": a, "b": b})
        elif r < 8:
            def const(rng_):
                p = tygen.gen_prim(rng_)
                if p["p"] == "bool":
                    v = {"bool": rng_.random() < 0.5}
                elif p["p"] == "float":
                    v = {"num": rng_.choice([0, 1, -3, 5]), "den": rng_.choice([1, 2, 4])}
                elif p["p"] == "int":
                    v = {"num": rng_.choice([0, 1, -1, -2]), "den": 1}
                else:
                    v = {"num": rng_.choice([0, 1]), "den": 1}
                return [rng_.choice(["A", "B"]), p, v]
            a = const(rng)
            b = copy.deepcopy(a) if rng.random() < 0.4 else const(rng)
            if rng.random() < 0.3:
                b = [a[0], copy.deepcopy(a[1]), b[2] if ("bool" in b[2]) == ("bool" in a[2]) else a[2]]
            cases.append({"kind": "consts", "a": a, "b": b})
        elif r < 10:
            for _ in range(30):
                a = c01.gen_tree(rng, rng.choice([1, 2, 3]), 32)
                a["raw"] = False
                how = rng.random()
                b = copy.deepcopy(a) if how < 0.3 else c01.gen_tree(rng, rng.choice([1, 2]), 32)
                if 0.3 <= how < 0.6:
                    # near miss: move one interior value of one leaf (keeps min and max of that leaf)
                    b = copy.deepcopy(a)
                    leaves = [x for x in c01.postorder(b) if x["o"] == "leaf" and len(x["v"]) >= 3]
                    if leaves:
                        lf = rng.choice(leaves)
                        j = rng.randrange(1, len(lf["v"]) - 1)
                        nv = lf["v"][j] + rng.choice([1, 8, 16, 32, 64])
                        if lf["v"][0] < nv < lf["v"][-1]:
                            lf["v"] = sorted(set(lf["v"][:j] + [nv] + lf["v"][j + 1:]))
                b["raw"] = False
                ca, cb = [0, 0], [0, 0]
                c01.ref_mod(a, 32, ca)
                c01.ref_mod(b, 32, cb)
                if ca[0] + cb[0] < 50000 and ca[1] + cb[1] < 3e6:
                    break
            else:
                a, b = SET_PAIRS[0]
            for t_ in c01.postorder(a) + c01.postorder(b):
                t_["raw"] = False
            cases.append({"kind": "sets", "a": a, "b": b})
        elif r == 10 and i % 24 == 10:
            cases.append(gen_values(rng))
        elif r == 10:
            cases.append({"kind": "alias", "type": tygen.gen_composite(rng, rng.choice([1, 2]), names, small_caps=True), "service": rng.random() < 0.4,
                          "first": rng.choice(["fields", "attributes", "constants", "fields_except_padding"])})
        else:
            cases.append({"kind": "pickle", "type": tygen.gen_composite(rng, rng.choice([1, 2, 3]), names, small_caps=True), "service": rng.random() < 0.3})
        streams.append("random")
    return cases, streams


# ----------------------------------------------------------------------------------------------------------------


def pair_obs(a, b):
    return {"eq_ab": bool(a == b), "eq_ba": bool(b == a), "ne_ab": bool(a != b), "eq_aa": bool(a == a), "eq_bb": bool(b == b),
            "hash_same": hash(a) == hash(b)}


def layout_obs(t):
    import pydsdl
    b = t.bit_length_set
    ob = [str(t), type(t).__name__, t.alignment_requirement, b.min, b.max, sorted(b % 32), sorted(b % 7)]
    if isinstance(t, pydsdl.CompositeType):
        ob += [t.short_name, t.root_namespace, t.full_namespace, list(t.name_components), list(t.namespace_components)]
        ob += [[(a.name, str(t[a.name])) for a in t.attributes if a.name]]   # lookup by name, constants included
        ob += [t.extent, t.full_name, tuple(t.version), t.deprecated, t.fixed_port_id, [str(x) for x in t.attributes],
               [(f.name, sorted(o % 8), o.min, o.max) for f, o in t.iterate_fields_with_offsets()]]
    return ob


def _run_impl_raw(cases):
    import pickle
    from fractions import Fraction
    from pathlib import Path
    import pydsdl
    from pydsdl import _expression

    out = []
    xproc = []
    for case in cases:
        try:
            k = case["kind"]
            if k == "types":
                cache_a = {}
                A = tygen.build(case["a"], cache_a)
                ob = pair_obs(A, tygen.build(case["b"]))
                _ = (A == A, hash(A))
                # queries on a composite must not disturb its parts: every nested type object still equals (and hashes like)
                # an independently built one
                for n in tygen.subtypes(case["a"])[:-1]:
                    part = cache_a.get(id(n))
                    if part is None:
                        continue
                    fresh = tygen.build(copy.deepcopy(n))
                    if not (part == fresh and fresh == part) or hash(part) != hash(fresh) or part.bit_length_set != fresh.bit_length_set:
                        ob["pred_fail"] = "after comparing a composite, its nested type %s no longer equals an independently built one" % part
                        break
                out.append(ob)
            elif k == "fields":
                fa = pydsdl.Field(tygen.build(case["a"][1]), case["a"][0])
                fb = pydsdl.Field(tygen.build(case["b"][1]), case["b"][0])
                out.append(pair_obs(fa, fb))
            elif k == "consts":
                def mk(c):
                    if "chr" in c[2]:
                        v = _expression.String(c[2]["chr"])   # stored as its code point
                    else:
                        v = _expression.Boolean(c[2]["bool"]) if "bool" in c[2] else _expression.Rational(Fraction(c[2]["num"], c[2]["den"]))
                    return pydsdl.Constant(tygen.build(c[1]), c[0], v)
                out.append(pair_obs(mk(case["a"]), mk(case["b"])))
            elif k == "sets":
                out.append(pair_obs(tygen.build_bls(case["a"]), tygen.build_bls(case["b"])))
            elif k in ("values", "valuesets"):
                def val(v):
                    if "str" in v:
                        return _expression.String(v["str"])
                    if "bool" in v:
                        return _expression.Boolean(v["bool"])
                    return _expression.Rational(Fraction(v["num"], v["den"]))
                if k == "values":
                    out.append(pair_obs(val(case["a"]), val(case["b"])))
                else:
                    out.append(pair_obs(_expression.Set([val(v) for v in case["a"]]), _expression.Set([val(v) for v in case["b"]])))
            elif k == "alias" and case.get("service"):
                # a freshly built service type: the FIRST access of an accessor must already be a copy
                def sec(suffix, fields):
                    return pydsdl.StructureType(name="ns.Svc." + suffix, version=pydsdl.Version(1, 0), attributes=fields, deprecated=False,
                                                fixed_port_id=None, source_file_path=Path("ns/Svc.1.0.dsdl"), has_parent_service=True)
                svc = pydsdl.ServiceType(sec("Request", [pydsdl.Field(tygen.build(case["type"]), "x")]), sec("Response", []), fixed_port_id=None)
                fail = None
                order = [case.get("first", "fields")] + ["attributes", "fields", "constants", "fields_except_padding", "name_components"]
                for acc in order:
                    lst = getattr(svc, acc)
                    n0 = len(lst)
                    lst.append("garbage")
                    again = getattr(svc, acc)
                    if len(again) != n0 or any(x == "garbage" for x in again):
                        fail = "mutating the list returned by the first access of ServiceType.%s changed the object" % acc
                        break
                if not fail and ([str(f) for f in svc.fields] != ["ns.Svc.Request.1.0 request", "ns.Svc.Response.1.0 response"] or svc.alignment_requirement != 8):
                    fail = "service type changed after mutating accessor results"
                out.append({"ok": True, "pred_fail": fail} if fail else {"ok": True})
            elif k == "alias":
                t = tygen.build(case["type"])
                before = layout_obs(t)
                fail = None
                # the list handed to a constructor still belongs to the caller: changing it afterwards must not change the type
                mine = [pydsdl.Field(pydsdl.UnsignedIntegerType(8, pydsdl.PrimitiveType.CastMode.SATURATED), "a"),
                        pydsdl.Field(t, "b")]
                own = pydsdl.StructureType(name="ns.Own", version=pydsdl.Version(1, 0), attributes=mine, deprecated=False, fixed_port_id=None,
                                           source_file_path=Path("ns/Own.1.0.dsdl"), has_parent_service=False)
                own_before = layout_obs(own)
                mine.append(pydsdl.Field(pydsdl.BooleanType(), "late"))
                mine.reverse()
                if layout_obs(own) != own_before:
                    fail = "changing the attribute list after it was handed to the constructor changed the type"
                for acc in ("attributes", "fields", "constants", "fields_except_padding", "name_components", "namespace_components"):
                    lst = getattr(t, acc)
                    if isinstance(lst, list):
                        n0 = len(lst)
                        lst.append("garbage")
                        lst.reverse()
                        again = getattr(t, acc)
                        if len(again) != n0 or any(x == "garbage" for x in again):
                            fail = "mutating the list returned by %s changed the object" % acc
                        del lst[:]
                        if len(getattr(t, acc)) != n0:
                            fail = "clearing the list returned by %s changed the object" % acc
                if t.inner_type is not t:
                    t.inner_type.attributes.clear()
                after = layout_obs(t)
                if before != after and not fail:
                    fail = "object changed after mutating accessor results"
                out.append({"ok": True, "pred_fail": fail} if fail else {"ok": True})
            else:
                t = tygen.build(case["type"])
                if case.get("service"):
                    def sec(suffix):
                        inner = case["type"]["i"] if case["type"]["k"] == "delim" else case["type"]
                        return pydsdl.StructureType(name="ns.Svc." + suffix, version=pydsdl.Version(1, 0), attributes=[pydsdl.Field(t, "x")] if suffix == "Request" else [],
                                                    deprecated=False, fixed_port_id=None, source_file_path=Path("ns/Svc.1.0.dsdl"), has_parent_service=True)
                    obj = pydsdl.ServiceType(sec("Request"), sec("Response"), fixed_port_id=None)
                    probe = lambda s: [str(s), layout_obs(s.request_type), layout_obs(s.response_type)]  # noqa
                else:
                    obj = t
                    probe = layout_obs
                _ = hash(obj)  # the object has been used as a set/dict key before it is pickled
                blob = pickle.dumps(obj)
                xproc.append((len(out), case, blob))
                clone = pickle.loads(blob)
                fail = None
                if not (clone == obj) or clone != obj or hash(clone) != hash(obj):
                    fail = "pickle round trip is not equal / hashes differently"
                elif probe(clone) != probe(obj):
                    fail = "pickle round trip changes string form, attributes or layout"
                out.append({"ok": True, "pred_fail": fail} if fail else {"ok": True})
        except Exception as ex:  # pylint: disable=broad-except
            out.append({"error": type(ex).__name__, "text": str(ex)[:300]})
    # pickles made here are loaded in ANOTHER interpreter with another hash seed and compared with objects built there
    if xproc:
        import base64
        import os
        import subprocess
        import sys
        import tempfile
        fd, path = tempfile.mkstemp(dir=os.environ.get("VERIF_SCRATCH"))
        with os.fdopen(fd, "w") as f:
            json.dump([[i, c, base64.b64encode(b).decode()] for i, c, b in xproc], f)
        env = dict(os.environ, PYTHONHASHSEED=str((int(os.environ.get("PYTHONHASHSEED", "0") or 0) + 12345) % 4000000000))
        r = subprocess.run([sys.executable, "-B", "-c", "import sys; sys.path[:0]=%r; from props import c18; c18.consume(%r)" % (sys.path[:3], path)],
                           env=env, capture_output=True, text=True, timeout=600)
        os.unlink(path)
        verdicts = json.loads(r.stdout.strip().splitlines()[-1]) if r.returncode == 0 and r.stdout.strip() else None
        for j, (i, _c, _b) in enumerate(xproc):
            bad = "the consumer process failed: %s" % (r.stderr[-300:]) if verdicts is None else verdicts[j]
            if bad and "pred_fail" not in out[i] and "error" not in out[i]:
                out[i] = {"ok": True, "pred_fail": bad}
    return out


def consume(path):
    """Runs in a second interpreter (different PYTHONHASHSEED): unpickled objects must equal, hash like and be found in a
    set of objects built freshly from the same description."""
    import base64
    import pickle
    import sys
    from pathlib import Path
    import pydsdl
    res = []
    for _i, case, b64 in json.load(open(path)):
        try:
            t = tygen.build(case["type"])
            if case.get("service"):
                def sec(suffix):
                    return pydsdl.StructureType(name="ns.Svc." + suffix, version=pydsdl.Version(1, 0), attributes=[pydsdl.Field(t, "x")] if suffix == "Request" else [],
                                                deprecated=False, fixed_port_id=None, source_file_path=Path("ns/Svc.1.0.dsdl"), has_parent_service=True)
                fresh = pydsdl.ServiceType(sec("Request"), sec("Response"), fixed_port_id=None)
            else:
                fresh = t
            clone = pickle.loads(base64.b64decode(b64))
            if not (clone == fresh and fresh == clone):
                res.append("an object unpickled in another process is not equal to a freshly built one")
            elif hash(clone) != hash(fresh) or fresh not in {clone} or clone not in {fresh}:
                res.append("an object unpickled in another process is equal to a freshly built one but hashes differently")
            else:
                res.append(None)
        except Exception as ex:  # pylint: disable=broad-except
            res.append("consumer raised %s: %s" % (type(ex).__name__, str(ex)[:200]))
    sys.stdout.write("\n" + json.dumps(res) + "\n")


def emit_pobs(o):
    return "{| eq_ab := %s; eq_ba := %s; ne_ab := %s; eq_aa := %s; eq_bb := %s; hash_same := %s |}" % tuple(
        G.b(o[k]) for k in ("eq_ab", "eq_ba", "ne_ab", "eq_aa", "eq_bb", "hash_same"))


def emit_field(f):
    return "(%s, %s)" % (G.opt(G.codepoints(f[0])), tygen.emit_ty(f[1]))


def emit_cval(v):
    return "(CBool %s)" % G.b(v["bool"]) if "bool" in v else "(CRat %s %s)" % (G.z(v["num"]), G.z(v["den"]))


FAIL = "[PSets (Leaf []) (Leaf []) {| eq_ab := false; eq_ba := false; ne_ab := false; eq_aa := false; eq_bb := false; hash_same := false |}]"


def emit(case, obs):
    if "error" in obs:
        # invalid mutants (e.g. a union that lost a variant) cannot be built: nothing to compare
        return "[]" if obs["error"] in ("MalformedUnionError", "InvalidExtentError", "AggregationError", "InvalidBitLengthError",
                                        "InvalidConstantValueError", "InvalidNumberOfElementsError", "AttributeNameCollisionError") else FAIL
    k = case["kind"]
    if k == "types":
        return "[PTypes %s %s %s]" % (tygen.emit_ty(case["a"]), tygen.emit_ty(case["b"]), emit_pobs(obs))
    if k == "fields":
        return "[PFields %s %s %s]" % (emit_field(case["a"]), emit_field(case["b"]), emit_pobs(obs))
    if k == "consts":
        from fractions import Fraction

        def norm(v):
            if "chr" in v:
                return {"num": ord(v["chr"]), "den": 1}
            if "bool" in v:
                return v
            f = Fraction(v["num"], v["den"])
            return {"num": f.numerator, "den": f.denominator}
        return "[PConsts (%s, %s) (%s, %s) %s]" % (emit_field(case["a"]), emit_cval(norm(case["a"][2])), emit_field(case["b"]), emit_cval(norm(case["b"][2])), emit_pobs(obs))
    if k == "sets":
        return "[PSets %s %s %s]" % (c01.emit_op(case["a"]), c01.emit_op(case["b"]), emit_pobs(obs))
    if k in ("values", "valuesets"):
        from fractions import Fraction

        def ev(v):
            if "str" in v:
                return "(CStr %s)" % G.codepoints(v["str"])
            if "bool" in v:
                return "(CBool %s)" % G.b(v["bool"])
            f = Fraction(v["num"], v["den"])
            return "(CRat %s %s)" % (G.z(f.numerator), G.z(f.denominator))
        if k == "values":
            return "[PValues %s %s %s]" % (ev(case["a"]), ev(case["b"]), emit_pobs(obs))
        return "[PValueSets %s %s %s]" % (G.lst([ev(v) for v in case["a"]]), G.lst([ev(v) for v in case["b"]]), emit_pobs(obs))
    return "[]"


def model_eval(case, obs):
    return ("Eval vm_compute in (map (fun it => match it with C18.PTypes a b _ => (ty_eq a b, ty_hash a, ty_hash b) "
            "| C18.PFields a b _ => (field_eq a b, ty_hash (snd a), ty_hash (snd b)) | _ => (false, ([], (0, 0)), ([], (0, 0))) end) (List.concat cases)).\n")


def nontrivial(case, obs):
    if case["kind"] == "types":
        return len(tygen.subtypes(case["a"])) + len(tygen.subtypes(case["b"])) > 2
    return True


def describe(case, obs):
    keys = ["kind:" + case["kind"]]
    if "error" in obs:
        keys.append("not-buildable:" + obs["error"])
    elif "eq_ab" in obs:
        keys.append("equal" if obs["eq_ab"] else "different")
        if obs["hash_same"] and not obs["eq_ab"]:
            keys.append("hash-collision-of-different-objects")
    if obs.get("pred_fail"):
        keys.append("pred_fail")
    return keys


def shrink(case):
    if case["kind"] == "types":
        for side in ("a", "b"):
            t = case[side]
            for n in tygen.subtypes(t)[:-1]:
                o = dict(case)
                o[side] = n
                yield o


def run_impl(cases):
    """every case under a wall-clock ceiling (>= 50x the slowest case on the unchanged tree): a hang becomes a reported failure"""
    import rt

    out = []
    for case in cases:
        try:
            out.append(rt.with_alarm(60, lambda c=case: _run_impl_raw([c])[0]))
        except rt.CaseTimeout:
            out.append({"harness_fail": True, "pred_fail": "the implementation did not finish this case within 60 s (cases are generated under a cost guard of well below a second)"})
    return out
