"""C07 - deserialization is total; implicit truncation / zero extension: generator, implementation runner, emitter.

A case is (type, header flag, recipe for a byte string).  Recipes that start from a valid representation
("valid", "prefix", "flip", "junk", "zeros", "setbyte") name a value; the runner serializes it with the implementation
and applies the recipe deterministically; the resulting byte string is part of the observation and is what the model
is evaluated on.  "raw" recipes carry the bytes themselves."""
import random as _random
import gallina as G
from props import c06 as S

ID = "C07"
PROPS_FILE = "Props/C07.v"
COQ_IMPORTS = "From PV Require Import BLS.Model Layout.Types Serdes.Model Check.C06 Check.C07."
CASE_TYPE = "C07.case"
CHECK_FN = "C07.check_case"
SHARD = 80
RULE = ("a case is (composite type, header flag, byte string): random bytes, every prefix of valid representations, single-bit flips, "
        "valid representation + junk, + zeros, bytes overwritten with 0xFF / capacity+1 / variant count, length prefix / tag / header (unions with interleaved constants: tags from #variants to #attributes) "
        "forced just above the limit, invalid UTF-8; observed: decoded value (type-directed positional form) or coarse exception class; "
        "implementation-alone predicates: only SerDesError/ValueError, decode->encode->decode fixed point, decoding the same bytes again after mutating the first result in place gives the same value, appending zero bytes does not "
        "change a successful result, junk after a valid representation is ignored; non-trivial = the byte string is non-empty and the type "
        "has an array, union or delimited part; distinct = by hash of the canonical case")
THEOREMS_NOTE = ("C07_reader_zero_extends (both read paths), C07_truncation / C07_truncation_ser, C07_zero_ext / C07_zero_ext_conv, C07_confinement, "
                 "C07_rejects_* / C07_accepts_* (never clamped), C07_valid_fixpoint (all types incl. float fields, extents < 2^35 bits): the model's result is the only admissible one")
TRUSTED = S.TRUSTED
ASSUMPTIONS = ["array capacities of random cases are <= 24 so that a hostile length prefix cannot make either side loop for long"]
EXPLANATION = ("theorems quantify over all types and all byte strings; the correspondence compares the implementation's result "
               "(value or exception class) with the proven model on generated hostile byte strings")


def apply_recipe(rec, bs):
    """bs: valid representation (bytes) or None when it could not be produced."""
    k = rec[0]
    if k == "raw":
        return bytes(rec[1])
    if bs is None:
        bs = b""
    if k == "valid":
        return bs
    if k == "prefix":
        return bs[:rec[1]]
    if k == "flip":
        if not bs:
            return bs
        i = rec[1] % (8 * len(bs))
        b = bytearray(bs)
        b[i // 8] ^= 1 << (i % 8)
        return bytes(b)
    if k == "junk":
        return bs + bytes(rec[1])
    if k == "zeros":
        return bs + bytes(rec[1])
    if k == "setbyte":
        if not bs:
            return bytes([rec[2]])
        b = bytearray(bs)
        b[rec[1] % len(bs)] = rec[2]
        return bytes(b)
    if k == "prefixjunk":
        return bs[:rec[1]] + bytes(rec[2])
    raise ValueError(k)


def mk_case(t, hdr, rec, v=None):
    return {"ty": t, "hdr": bool(hdr), "rec": rec, "val": v}


def targeted():
    out = []
    nid = [2000]

    def St(fields):
        nid[0] += 1
        return ["struct", nid[0], [[("f%d" % i) if ft[0] != "void" else None, ft] for i, ft in enumerate(fields)]]

    def Un(fields):
        nid[0] += 1
        return ["union", nid[0], [["v%d" % i, ft] for i, ft in enumerate(fields)]]

    def De(inner, extra=0):
        return ["delim", inner, S.max_len(inner) + extra]

    # array length just above capacity, 8- and 16-bit prefixes, at bit offsets 0 and 8 and unaligned
    for cap in (1, 3, 255, 256, 300):
        t = St([["var", ["byte"], cap], ["u", 8, "s"]])
        w = 1 if cap < 256 else 2
        for n in (cap - 1, cap, cap + 1, (1 << (8 * w)) - 1):
            if n >> (8 * w):
                continue
            out.append(mk_case(t, False, ["raw", list(n.to_bytes(w, "little")) + [1, 2, 3]]))
        t2 = St([["u", 3, "s"], ["var", ["bool"], cap]])
        for n in (cap, cap + 1):
            if n >> (8 * w):
                continue
            raw = (n << 3) | 5
            out.append(mk_case(t2, False, ["raw", list(raw.to_bytes(w + 1, "little"))]))
    # union tags: last valid, first invalid, 0xFF; 257 variants (16-bit tag)
    for nv in (2, 3, 5):
        t = Un([["u", 8, "s"]] * nv)
        for tag in (nv - 1, nv, 255):
            out.append(mk_case(t, False, ["raw", [tag, 9]]))
    # unions that also declare constants (attributes, never variants): tags from the number of variants up to the number of
    # attributes must be rejected like any other out-of-range tag
    for nv, consts in ((2, [[0, "u8"], [1, "u16"]]), (2, [[2, "u8"]]), (3, [[0, "bool"], [1, "u8"], [3, "u16"], [3, "u8"]]), (4, [[2, "u16"]])):
        t = Un([["u", 8, "s"], ["u", 16, "s"], ["bool"], ["i", 8]][:nv]) + [consts]
        for tag in sorted({nv - 1, nv, nv + 1, nv + len(consts) - 1, nv + len(consts), nv + len(consts) + 1}):
            out.append(mk_case(t, False, ["raw", [tag, 1, 2]]))
        out.append(mk_case(St([["u", 8, "s"], t, ["u", 8, "s"]]), False, ["raw", [9, nv, 1, 2, 3]]))
        out.append(mk_case(De(t, 8), True, ["raw", [3, 0, 0, 0, nv + len(consts) - 1, 1, 2]]))
    big = Un([["bool"]] * 256 + [["u", 8, "s"]])
    for tag in (255, 256, 257, 65535):
        out.append(mk_case(big, False, ["raw", list(tag.to_bytes(2, "little")) + [1]]))
    # delimiter header: equal to / one above the remaining data; top-level with header; nested; nested in a nested delimited
    inner = St([["u", 8, "s"], ["u", 16, "s"]])
    d = De(inner, 16)
    for h, body in ((3, [1, 2, 3]), (4, [1, 2, 3]), (0, [1, 2, 3]), (2, [1, 2, 3]), (5, [1, 2, 3, 4, 5]), (0xFFFFFFFF, [1]), (1, [])):
        out.append(mk_case(d, True, ["raw", list(h.to_bytes(4, "little")) + body]))
    outer = St([["u", 8, "s"], d, ["u", 8, "s"]])
    for h, body in ((3, [1, 2, 3, 77]), (4, [1, 2, 3, 77]), (5, [1, 2, 3, 77]), (1, [1, 2, 3, 77]), (0, [9]), (2, [1, 2])):
        out.append(mk_case(outer, False, ["raw", [0xAA] + list(h.to_bytes(4, "little")) + body]))
    dd = De(St([["u", 8, "s"], d, ["u", 8, "s"]]), 0)
    for h1, h2, body in ((8, 3, [1, 2, 3]), (8, 4, [1, 2, 3]), (7, 3, [1, 2, 3]), (9, 3, [1, 2, 3, 4]), (6, 1, [1, 2, 3]), (5, 0, [1, 2, 3])):
        out.append(mk_case(St([dd, ["u", 8, "s"]]), False, ["raw", list(h1.to_bytes(4, "little")) + [0x55] + list(h2.to_bytes(4, "little")) + body + [0x66, 0x77]]))
    arr = St([["var", d, 3], ["u", 8, "s"]])
    out.append(mk_case(arr, False, ["raw", [2] + [3, 0, 0, 0, 1, 2, 3] + [1, 0, 0, 0, 9] + [0x42]]))
    out.append(mk_case(arr, False, ["raw", [2] + [3, 0, 0, 0, 1, 2, 3] + [2, 0, 0, 0, 9]]))
    out.append(mk_case(arr, False, ["raw", [4]]))
    # invalid / boundary UTF-8
    ut = St([["var", ["utf8"], 8], ["u", 8, "s"]])
    for seq in ([0x80], [0xC0, 0x80], [0xC1, 0xBF], [0xC2, 0x80], [0xDF, 0xBF], [0xE0, 0x80, 0x80], [0xE0, 0x9F, 0xBF], [0xE0, 0xA0, 0x80],
                [0xED, 0x9F, 0xBF], [0xED, 0xA0, 0x80], [0xED, 0xBF, 0xBF], [0xEE, 0x80, 0x80], [0xEF, 0xBF, 0xBF], [0xF0, 0x8F, 0xBF, 0xBF],
                [0xF0, 0x90, 0x80, 0x80], [0xF4, 0x8F, 0xBF, 0xBF], [0xF4, 0x90, 0x80, 0x80], [0xF5, 0x80, 0x80, 0x80], [0xF8, 0x88, 0x80, 0x80],
                [0xE2, 0x82], [0xF0, 0x9F, 0x98], [0xC3], [0xFF], [0xC3, 0x28], [0xE2, 0x28, 0xA1], [0x61, 0xE2, 0x82, 0xAC, 0x62]):
        out.append(mk_case(ut, False, ["raw", [len(seq)] + seq + [0x7A]]))
        out.append(mk_case(ut, False, ["raw", [len(seq) + 1] + seq]))  # last byte zero-extended
    # empty input for assorted types
    for t in (St([]), St([["u", 7, "t"], ["f", 32, "s"]]), Un([["bool"], ["i", 9]]), d, outer, arr, ut):
        out.append(mk_case(t, False, ["raw", []]))
    out.append(mk_case(d, True, ["raw", []]))
    out.append(mk_case(d, True, ["raw", [1]]))
    out.append(mk_case(d, True, ["raw", [0, 0]]))
    out.append(mk_case(St([["bool"]]), True, ["raw", [1]]))  # header flag on a sealed type
    return out


def targeted_bounded_arrays():
    """Deterministic stream: byte[N], byte[<=N], utf8[<=N], uint8[N] arrays as first / middle / last member of a delimited
    composite - top level with header, nested as a field, as an array element, as a union variant - with delimiter headers that
    announce payloads ending before / in the middle of / exactly at the end of the array and at the end of the object; the
    announced payload is always followed by NON-ZERO bytes (sibling fields, the next element's header, trailing junk), so that a
    read which ignores the bound of the sub-reader is visible.  All fields are byte aligned; byte strings are written by hand."""
    out = []
    nid = [2500]

    def St(fields):
        nid[0] += 1
        return ["struct", nid[0], [["f%d" % i, ft] for i, ft in enumerate(fields)]]

    def Un(fields):
        nid[0] += 1
        return ["union", nid[0], [["v%d" % i, ft] for i, ft in enumerate(fields)]]

    def De(inner, extra=0):
        return ["delim", inner, S.max_len(inner) + extra]

    N = 4
    arrays = [
        (["fix", ["byte"], N], [], [0xB1, 0xB2, 0xB3, 0xB4]),
        (["var", ["byte"], N], [N], [0xB1, 0xB2, 0xB3, 0xB4]),
        (["var", ["utf8"], N], [N], [0x61, 0x62, 0x63, 0x64]),
        (["fix", ["u", 8, "s"], N], [], [0x91, 0x92, 0x93, 0x94]),
    ]
    junk = [0xE1, 0xE2, 0xE3, 0xE4, 0xE5, 0xE6]
    for arr, prefix, elems in arrays:
        for pos in ("first", "middle", "last"):
            head = [0x11] if pos in ("middle", "last") else []
            tail = [0x77] if pos in ("first", "middle") else []
            fields = ([["u", 8, "s"]] if head else []) + [arr] + ([["u", 8, "s"]] if tail else [])
            full = head + prefix + elems + tail
            s0 = len(head) + len(prefix)          # first element of the array
            e0 = s0 + len(elems)                  # one past its last element
            cuts = sorted({max(s0 - 1, 0), s0, s0 + 1, s0 + 2, e0 - 1, e0, len(full)})
            d = De(St(fields), 16)

            def hdr(n):
                return list(int(n).to_bytes(4, "little"))

            for h in cuts:
                body = hdr(h) + full[:h]
                # top level, with header
                out.append(mk_case(d, True, ["raw", body + junk]))
                # nested as a field between two siblings
                out.append(mk_case(St([["u", 8, "s"], d, ["u", 16, "s"]]), False, ["raw", [0x21] + body + [0xC1, 0xC2] + junk]))
                # as the first of two array elements (the second one complete), followed by a sibling
                out.append(mk_case(St([["var", d, 2], ["u", 8, "s"]]), False, ["raw", [2] + body + hdr(len(full)) + full + [0xC3] + junk]))
                out.append(mk_case(St([["fix", d, 2], ["u", 8, "s"]]), False, ["raw", hdr(len(full)) + full + body + [0xC4] + junk]))
                # as a union variant
                out.append(mk_case(Un([["bool"], d]), False, ["raw", [1] + body + junk]))
                # inside another delimited object whose own header is exact
                inner_obj = [0x31] + body + [0x32]
                out.append(mk_case(St([De(St([["u", 8, "s"], d, ["u", 8, "s"]]), 0), ["u", 8, "s"]]), False,
                                   ["raw", hdr(len(inner_obj)) + inner_obj + [0xC5] + junk]))
    return out


def gen_family(rng, tier, out):
    """One (type, value) with a family of hostile variants."""
    ctx = S.Ctx(rng, max_cap=8 if tier == "quick" else 16)
    depth = rng.choice([0, 1, 1, 2, 2, 3])
    t = S.gen_composite(ctx, depth)
    hdr = t[0] == "delim" and rng.random() < 0.5
    v = S.gen_value(rng, t, p_omit=rng.choice([0.0, 0.1]))
    maxb = min(S.max_len(t) // 8 + (4 if hdr else 0), 48)
    out.append(mk_case(t, hdr, ["valid"], v))
    r = rng.random()
    if r < 0.2 and maxb <= 24:
        for k in range(0, maxb + 1):  # every prefix (those beyond the actual length repeat the valid representation)
            out.append(mk_case(t, hdr, ["prefix", k], v))
    else:
        for _ in range(2):
            out.append(mk_case(t, hdr, ["prefix", rng.randrange(0, maxb + 1)], v))
    for _ in range(rng.choice([2, 3, 6])):
        out.append(mk_case(t, hdr, ["flip", rng.getrandbits(20)], v))
    out.append(mk_case(t, hdr, ["junk", [rng.randrange(256) for _ in range(rng.randrange(1, 9))]], v))
    out.append(mk_case(t, hdr, ["zeros", [0] * rng.randrange(1, 9)], v))
    for _ in range(2):
        out.append(mk_case(t, hdr, ["setbyte", rng.getrandbits(16), rng.choice([0xFF, 0x80, 1, 2, 3, 4, 5, 6, 8, 9, 16, 17, 24, 25, rng.randrange(256)])], v))
    out.append(mk_case(t, hdr, ["prefixjunk", rng.randrange(0, maxb + 1), [rng.randrange(256) for _ in range(rng.randrange(1, 6))]], v))
    # hostile tags around the number of variants / attributes of every union the top level gives direct access to
    top = t[1] if (t[0] == "delim" and not hdr) else t
    if top[0] == "union":
        nv, nc = len(top[2]), len(S.consts_of(top))
        for tag in sorted({nv, nv + 1, nv + nc - 1, nv + nc} - {nv - 1}):
            if 0 <= tag < 256 and nv < 256:
                out.append(mk_case(t, hdr, ["raw", [tag] + [rng.randrange(256) for _ in range(rng.randrange(0, 6))]]))
    for _ in range(2):
        n = rng.choice([0, 1, 2, 3, rng.randrange(0, 2 * maxb + 2)])
        kind = rng.random()
        if kind < 0.5:
            raw = [rng.randrange(256) for _ in range(n)]
        elif kind < 0.8:
            raw = [rng.choice([0, 0, 0, 1, 2, 3, 255]) for _ in range(n)]   # small numbers: plausible lengths / tags / headers
        else:
            raw = [0xFF] * n
        out.append(mk_case(t, hdr, ["raw", raw]))


def generate(rng, tier):
    cases = targeted() + targeted_bounded_arrays()
    streams = ["targeted"] * len(cases)
    n = 800 if tier == "quick" else 6000
    fam = []
    for _ in range(n):
        gen_family(rng, tier, fam)
    cases += fam
    streams += ["random"] * len(fam)
    return cases, streams


def run_impl(cases):
    import pydsdl as pydsdl_module
    B = S.Builder()
    out = []
    cache = {}
    for case in cases:
        t, hdr, rec, v = case["ty"], case["hdr"], case["rec"], case.get("val")
        p = S.Api(pydsdl_module, case)  # omits keyword arguments that equal the documented defaults in half of the calls
        key = G.lst([str(t)])
        try:
            schema = cache.get(key) or B.build(t)
            cache[key] = schema
        except Exception as ex:  # pylint: disable=broad-except
            out.append({"build_error": type(ex).__name__, "pred_fail": "type construction failed: %s" % type(ex).__name__})
            continue
        bs = None
        if v is not None:
            try:
                bs = p.serialize(schema, S.to_py(t, v), with_delimiter_header=hdr)
            except Exception:  # pylint: disable=broad-except
                bs = None
        data = apply_recipe(rec, bs)
        res, o = S.observe_deser(p, schema, t, data, hdr)
        obs = {"data": list(data), "res": res}
        fails = []
        if "err" in res and res["err"] not in ("SerDes", "ValueError"):
            fails.append("deserialize raised an exception that is neither SerDesError nor ValueError (%s)" % res["err"])
        if "shape" in res:
            fails.append("decoded object does not have the shape of the type (%s)" % res["shape"])
        if o is not None:
            # fixed point: the decoded value serializes, and decodes to itself
            try:
                bs2 = p.serialize(schema, o, with_delimiter_header=hdr)
                o2 = p.deserialize(schema, bs2, with_delimiter_header=hdr)
                if not S.py_equal(o, o2):
                    fails.append("decode -> encode -> decode is not a fixed point")
            except Exception as ex:  # pylint: disable=broad-except
                fails.append("decoded value is not valid for the type: serialize/deserialize raised %s" % type(ex).__name__)
            # zero extension
            for k in (1, 3, 8):
                try:
                    oz = p.deserialize(schema, data + bytes(k), with_delimiter_header=hdr)
                    if not S.py_equal(o, oz):
                        fails.append("appending %d zero bytes changes the result" % k)
                        break
                except Exception as ex:  # pylint: disable=broad-except
                    fails.append("appending %d zero bytes makes deserialize raise %s" % (k, type(ex).__name__))
                    break
        # the application mutates the object it received (in place, deeply); decoding the same bytes again with the same type
        # object must give the original value (no state shared between results and the codec)
        if o is not None:
            try:
                import copy
                snap = copy.deepcopy(o)
                S.mutate_in_place(_random.Random(len(data) * 7919 + 17), t, o)
                o3 = p.deserialize(schema, data, with_delimiter_header=hdr)
                if not S.py_equal(snap, o3):
                    fails.append("decoding the same bytes again after the first result was mutated in place gives a different value")
                o = snap
            except Exception as ex:  # pylint: disable=broad-except
                fails.append("second decoding of the same bytes raised %s" % type(ex).__name__)
        # implicit truncation: junk after a complete representation is ignored
        if bs is not None and rec[0] in ("valid", "junk", "zeros"):
            try:
                ov = p.deserialize(schema, bs, with_delimiter_header=hdr)
                oj = p.deserialize(schema, bs + b"\xa5\x5a\xff\x00\x01", with_delimiter_header=hdr)
                if o is None or not S.py_equal(ov, oj) or not S.py_equal(ov, o):
                    fails.append("bytes after a complete representation are not ignored")
            except Exception as ex:  # pylint: disable=broad-except
                fails.append("valid representation followed by junk raises %s" % type(ex).__name__)
        if fails:
            obs["pred_fail"] = "; ".join(fails)
        out.append(obs)
    return out


def emit(case, obs):
    if "build_error" in obs:
        return "(C07.Case (TVoid 0) false [] (C06.DErr COther))"
    return "(C07.Case %s %s %s %s)" % (S.emit_ty(case["ty"]), G.b(case["hdr"]), G.zlist(obs["data"]), S.emit_dobs(obs["res"]))


def model_eval(case, obs):
    return "Eval vm_compute in (map (fun c => match c with C07.Case t h d _ => deserialize t d h end) cases).\n"


def nontrivial(case, obs):
    t = case["ty"]
    rich = any(x[0] in ("fix", "var", "union", "delim") for x in S.walk_types(t))
    return bool(obs.get("data")) and rich


def describe(case, obs):
    t = case["ty"]
    keys = ["recipe:" + case["rec"][0], "depth=%d" % S.type_depth(t), "top:" + t[0], "hdr" if case["hdr"] else "nohdr"]
    res = obs.get("res", {})
    if "err" in res:
        keys.append("result:" + res["err"])
    elif "val" in res:
        keys.append("result:value")
    n = len(obs.get("data", []))
    keys.append("len:" + ("0" if n == 0 else "1-4" if n <= 4 else "5-16" if n <= 16 else "17-64" if n <= 64 else ">64"))
    for k in sorted({x[0] for x in S.walk_types(t) if x[0] in ("var", "fix", "union", "delim", "utf8", "byte", "f", "void")}):
        keys.append("has:" + k)
    if any(S.consts_of(x) for x in S.walk_types(t) if x[0] in ("struct", "union")):
        keys.append("has:constants")
    if obs.get("pred_fail"):
        keys.append("pred-fail")
    return keys


def shrink(case):
    rec = case["rec"]
    if rec[0] != "raw":
        return
    data = rec[1]
    for i in range(len(data)):
        yield mk_case(case["ty"], case["hdr"], ["raw", data[:i] + data[i + 1:]])
    for i, b in enumerate(data):
        if b:
            yield mk_case(case["ty"], case["hdr"], ["raw", data[:i] + [0] + data[i + 1:]])
    t = case["ty"]
    top = t[1] if t[0] == "delim" else t
    if top[0] == "struct" and len(top[2]) > 1:
        nt = ["struct", top[1], top[2][:-1]]
        yield mk_case(["delim", nt, t[2]] if t[0] == "delim" else nt, case["hdr"], rec)


LEVEL_TEXT = ("Machine-checked theorems (Coq, closed under the global context) about the executable model of the reader side of _serdes.py "
              "(offset/limit reader, zero extension on both read paths, bounded sub-readers, validation of lengths, tags and headers): every "
              "byte string yields a value or one of the modelled errors (totality is a typing fact of the model), decoded values are valid "
              "fixed points, junk after a complete representation is ignored, appended zero bytes do not change a successful result, "
              "lengths/tags/headers above the limit are rejected. The model is tied to /repo by comparing, inside Coq, the implementation's "
              "result on generated hostile byte strings with the model's.")
LEVEL_NOTE = S.LEVEL_NOTE
TECHNIQUE = S.TECHNIQUE
