"""C04 - constant expressions evaluate exactly, with the Specification's precedence: generator, renderer,
implementation runner, emitter.  The renderer (tree -> tokens -> text) is the textual twin of coq/Expr/Grammar.v
(level / wrap / parenthesize / render); the token list it produced is compared with render_min inside Coq for every case."""
import os
import re
import gallina as G
from props import c12 as V

ID = "C04"
PROPS_FILE = "Props/C04.v"
COQ_IMPORTS = ("From Coq Require Import QArith.\nFrom PV Require Import Expr.Values Expr.Syntax Expr.Sem Expr.Eval Expr.Grammar "
               "Const.Model Check.C04.\nOpen Scope Z_scope.")
CASE_TYPE = "C04.case"
CHECK_FN = "C04.check_case"
SHARD = 120
RULE = ("a case is one expression tree over the literal/operator vocabulary of the grammar (depth <= 5 quick, <= 7 thorough; "
        "integer exponents |n| <= 12), rendered with the parentheses the grammar requires plus random redundant ones and random "
        "blanks, placed in one of @print / @assert / constant initialiser / array capacity / @extent of ns/T.1.0.dsdl after "
        "0-5 constant declarations it may refer to; observable: printed value parsed back, assertion outcome, Constant.value, "
        "capacity, extent, or the rejection class; non-trivial = at least two operators and the model yields a value or a "
        "rejection below the root; distinct = by hash of the canonical case")
THEOREMS_NOTE = ("C04_eval_exact: the dispatch mechanism computes the Specification's table (sem); C04_precedence / "
                 "C04_precedence_roundtrip: the rendered tokens derive the tree by the grammar's rules and a deterministic PEG model "
                 "reads them back as exactly that tree; C04_rejects*: rejected iff outside the table; C04_literals: literal "
                 "decoding is positional/decimal/escape meaning")
TRUSTED = ["lexing of the text into tokens and that parsimonious implements the PEG semantics of the token-level parser model "
           "(Expr/Parser.v, proven sound w.r.t. the grammar relation and proven to invert the renderer) are sampled, not proved",
           "NFC normalisation in String equality is modelled by the standard algorithm over finite tables generated from "
           "unicodedata (coq/Expr/Nfc.v: ASCII, three combining marks and their composites, Hangul); strings are generated "
           "from that alphabet and the tables are re-derived and compared on every run",
           "the parser of the @print value format (a/b, true/false, Python string repr, {..}) in this module"]
ASSUMPTIONS = ["powers with non-integer exponents and min/max over two or more sets are 'unspecified' in the model: only "
               "'value or InvalidDefinitionError' is required of the implementation there",
               "exponent magnitudes and power nesting are bounded by the generator (cost guard); generated values stay below "
               "10**4300 because CPython refuses to convert larger integers to text (open finding F21 of C13: @print of such a "
               "value ends in InternalError although the value itself is computed exactly)"]
EXPLANATION = ("theorems quantify over all expression trees; the correspondence compares values delivered through five channels "
               "on generated trees and checks, inside Coq, that the text fed is the model's rendering of the tree")
LEVEL_TEXT = ("Machine-checked theorems (Coq, closed under the global context): the operator dispatch of pydsdl (per-class methods, "
              "automatic operand swapping, element-wise set application, Python Fraction mod/pow formulas) computes exactly the "
              "Specification's operator tables in exact rational arithmetic for every expression tree; the rendering of any tree "
              "is derivable by the grammar's precedence rules to that tree, and a deterministic parser with PEG semantics (sound "
              "w.r.t. the grammar) reads it back as exactly that tree; exactly the operand combinations outside the table are "
              "rejected; literal decoding equals positional / decimal-fraction / escape meaning. Tied to /repo by comparing "
              "delivered values on generated texts.")
LEVEL_NOTE = "Trusted: Coq kernel + vm_compute; PEG lexing/unambiguity and NFC normalisation are sampled only."
TECHNIQUE = "Coq proof (structural induction over expression trees, case analysis over operand classes) + vm_compute correspondence"

# ----------------------------------------------------------------------------------------------------------------
# renderer: textual twin of coq/Expr/Grammar.v

OPLEVEL = {"||": 0, "&&": 0, "==": 2, "!=": 2, "<=": 2, ">=": 2, "<": 2, ">": 2, "|": 3, "^": 3, "&": 3,
           "+": 4, "-": 4, "*": 5, "/": 5, "%": 5, "**": 7}
BINOP_COQ = {"||": "BOr", "&&": "BAnd", "==": "BEq", "!=": "BNe", "<=": "BLe", ">=": "BGe", "<": "BLt", ">": "BGt",
             "|": "BBor", "^": "BXor", "&": "BBand", "+": "BAdd", "-": "BSub", "*": "BMul", "/": "BDiv", "%": "BMod", "**": "BPow"}
UNOP_COQ = {"!": "UNot", "+": "UPos", "-": "UNeg"}


def level(e):
    k = e[0]
    if k == "bin":
        return OPLEVEL[e[1]]
    if k == "un":
        return 1 if e[1] == "!" else 6
    if k == "attr":
        return 8
    return 9


def wrap(L, e):
    return e if L <= level(e) else ["par", e]


def parenthesize(e):
    k = e[0]
    if k in ("lit", "id"):
        return e
    if k == "set":
        return ["set", [parenthesize(x) for x in e[1]]]
    if k == "un":
        return ["un", e[1], wrap(1 if e[1] == "!" else 7, parenthesize(e[2]))]
    if k == "bin":
        if e[1] == "**":
            return ["bin", "**", wrap(8, parenthesize(e[2])), wrap(6, parenthesize(e[3]))]
        L = OPLEVEL[e[1]]
        return ["bin", e[1], wrap(L, parenthesize(e[2])), wrap(L + 1, parenthesize(e[3]))]
    if k == "attr":
        return ["attr", wrap(8, parenthesize(e[1])), e[2]]
    if k == "par":
        return ["par", parenthesize(e[1])]
    raise ValueError(e)


def render(e):
    k = e[0]
    if k == "lit":
        return [e]
    if k == "id":
        return [e]
    if k == "set":
        out = [["sym", "{"]]
        for i, x in enumerate(e[1]):
            if i:
                out.append(["sym", ","])
            out += render(x)
        return out + [["sym", "}"]]
    if k == "un":
        return [["sym", e[1]]] + render(e[2])
    if k == "bin":
        return render(e[2]) + [["sym", e[1]]] + render(e[3])
    if k == "attr":
        return render(e[1]) + [["sym", "."], ["id", e[2]]]
    if k == "par":
        return [["sym", "("]] + render(e[1]) + [["sym", ")"]]
    raise ValueError(e)


def token_text(t):
    return t[2] if t[0] == "lit" else t[1]


def join_tokens(tokens, gaps):
    """Lexical side condition (the only one): between a numeric literal and a following "." the gap is never empty,
    because `6.e1` is one real literal and `6.min` is the real `6.` followed by garbage (maximal munch of literal_real)."""
    out = []
    for i, t in enumerate(tokens):
        if i:
            g = gaps[(i - 1) % len(gaps)] if gaps else ""
            if g == "" and t == ["sym", "."] and tokens[i - 1][0] == "lit" and tokens[i - 1][1] in ("int", "real"):
                g = " "
            out.append(g)
        out.append(token_text(t))
    return "".join(out)


# ----------------------------------------------------------------------------------------------------------------
# Gallina emission


def emit_lit(e):
    kind, text = e[1], e[2]
    if kind == "bool":
        return "(LBool %s)" % G.b(text == "true")
    return "(%s %s)" % ({"int": "LInt", "real": "LReal", "str": "LStr"}[kind], G.codepoints(text))


def emit_expr(e):
    k = e[0]
    if k == "lit":
        return "(ELit %s)" % emit_lit(e)
    if k == "id":
        return "(EIdent %s)" % G.codepoints(e[1])
    if k == "set":
        return "(ESet %s)" % G.lst([emit_expr(x) for x in e[1]])
    if k == "un":
        return "(EUn %s %s)" % (UNOP_COQ[e[1]], emit_expr(e[2]))
    if k == "bin":
        return "(EBin %s %s %s)" % (BINOP_COQ[e[1]], emit_expr(e[2]), emit_expr(e[3]))
    if k == "attr":
        return "(EAttr %s %s)" % (emit_expr(e[1]), G.codepoints(e[2]))
    if k == "par":
        return "(EPar %s)" % emit_expr(e[1])
    raise ValueError(e)


SYM_COQ = {"!": "SBang", ".": "SDot", "(": "SLPar", ")": "SRPar", "{": "SLBrace", "}": "SRBrace", ",": "SComma"}


def emit_token(t, prev_operand):
    if t[0] == "lit":
        return "(TLit %s)" % emit_lit(t)
    if t[0] == "id":
        return "(TId %s)" % G.codepoints(t[1])
    s = t[1]
    if s in SYM_COQ:
        return "(TSym %s)" % SYM_COQ[s]
    return "(TSym (SBin %s))" % BINOP_COQ[s]


def emit_tokens(tokens):
    return G.lst([emit_token(t, None) for t in tokens])


# ----------------------------------------------------------------------------------------------------------------
# generator

ENV = [  # name, type, value, kind
    ("A", ["int", 64, 0], V.vr(7), "int"),
    ("B_2", ["float", 64, 0], V.vr("1/3"), "rat"),
    ("C", ["bool"], V.vb(True), "bool"),
    ("D", ["uint", 8, 0], V.vs("x"), "int"),
    ("E9", ["int", 8, 2], V.vr(-5), "int"),
]

STR_POOL = ["a", "b", "Z", " ", "#", "{", "}", ",", "0", "\\n", "\\t", "\\\\", "\\u00e9", "\\U0001F600", "\\u20AC", "\xe9", "€",
            "\\N", "\\R", "\\T", "\\u0041", "@", "(", "=", "/"]


def gen_int_text(rng, big=False):
    r = rng.random()
    if r < 0.5:
        v = rng.randrange(0, 13)
    elif r < 0.8:
        v = rng.randrange(0, 300)
    elif r < 0.93 or not big:
        v = rng.choice([255, 256, 65535, 2 ** 31, 2 ** 32 - 1, 2 ** 63, 2 ** 64 - 1, 2 ** 64, 10 ** 9])
    else:
        v = rng.randrange(0, 2 ** 80)
    base = rng.choice(["d", "d", "d", "x", "o", "b"])
    if base == "d":
        digits = str(v)
        prefix = ""
        if v == 0 and rng.random() < 0.3:
            digits = "0" * rng.randrange(1, 4)
    elif base == "x":
        digits = "%x" % v
        if rng.random() < 0.4:
            digits = digits.upper()
        prefix = rng.choice(["0x", "0X"])
    elif base == "o":
        digits = "%o" % v
        prefix = rng.choice(["0o", "0O"])
    else:
        digits = bin(v)[2:]
        prefix = rng.choice(["0b", "0B"])
    if rng.random() < 0.3:
        out = []
        for i, ch in enumerate(digits):
            if (i or prefix) and rng.random() < 0.35:
                out.append("_")
            out.append(ch)
        digits = "".join(out)
    return prefix + digits


def sep_digits(rng, s):
    if rng.random() < 0.25:
        out = []
        for i, ch in enumerate(s):
            if i and rng.random() < 0.4:
                out.append("_")
            out.append(ch)
        return "".join(out)
    return s


def gen_real_text(rng):
    ip = sep_digits(rng, str(rng.choice([0, 1, 2, 5, 10, 12, 100, 3141, rng.randrange(0, 10 ** 6)])))
    fp = sep_digits(rng, rng.choice(["0", "5", "25", "125", "333", "001", "50", str(rng.randrange(0, 10 ** 5))]))
    form = rng.random()
    if form < 0.45:
        m = ip + "." + fp
    elif form < 0.6:
        m = "." + fp
    elif form < 0.72:
        m = ip + "."
    else:
        m = ip
    if form >= 0.72 or rng.random() < 0.3:
        m += rng.choice(["e", "E"]) + rng.choice(["", "+", "-"]) + sep_digits(rng, str(rng.choice([0, 1, 2, 3, 5, 10, 17])))
    return m


def gen_str_text(rng):
    q = rng.choice(["'", '"'])
    n = rng.choice([0, 1, 1, 1, 2, 3, 5])
    parts = []
    for _ in range(n):
        p = rng.choice(STR_POOL)
        parts.append(p)
    if rng.random() < 0.15:
        parts.append("\\" + q)
    if rng.random() < 0.15:
        parts.append("'" if q == '"' else '"')
    return q + "".join(parts) + q


def lit(kind, text):
    return ["lit", kind, text]


# ---- NFC: the alphabet for which coq/Expr/Nfc.v carries complete tables
NFC_MARKS = [0x301, 0x327, 0x308]
NFC_DIGEST = "a2878c886d8e0a65700ff5ac128cca8e8ed052c7"


def nfc_selftest():
    """Re-derive the composition/decomposition tables of coq/Expr/Nfc.v from this interpreter's unicodedata; a different
    Unicode database would make the model's tables stale, so refuse to generate rather than raise false alarms."""
    import hashlib
    import json
    import unicodedata as u
    S = set(range(0, 128)) | {0xE9, 0xC9, 0x20AC, 0x1F600, 0x10FFFF, 0xFFFF, 0xE000, 0xD7FF, 0x7FF, 0x800, 0x10000, 0xD800, 0xDFFF, 0xDBFF, 0x80, 0xA0}
    pairs = {}
    changed = True
    while changed:
        changed = False
        for c in list(S):
            for m in NFC_MARKS:
                r = u.normalize("NFC", chr(c) + chr(m))
                if len(r) == 1 and (c, m) not in pairs:
                    pairs[(c, m)] = ord(r)
                    if ord(r) not in S:
                        S.add(ord(r))
                        changed = True
    dec = {c: [ord(x) for x in u.normalize("NFD", chr(c))] for c in S if u.normalize("NFD", chr(c)) != chr(c)}
    d = hashlib.sha1(json.dumps([sorted((a, b, c) for (a, b), c in pairs.items()), sorted((k, v) for k, v in dec.items())]).encode()).hexdigest()
    if d != NFC_DIGEST:
        raise RuntimeError("unicodedata differs from the tables in coq/Expr/Nfc.v (digest %s): regenerate them" % d)


def esc(cps):
    return "".join(chr(c) if 32 <= c < 127 and chr(c) not in "'\"\\" else ("\\u%04x" % c if c < 0x10000 else "\\U%08x" % c) for c in cps)


def nfc_respell(rng, cps):
    """An expression whose value is canonically equivalent to the code point list: NFD or NFC spelling, as one literal
    or as a concatenation split at a random place (possibly between a base and its combining mark)."""
    import unicodedata as u
    form = rng.choice(["NFD", "NFC", "NFD"])
    t = [ord(c) for c in u.normalize(form, "".join(chr(c) for c in cps))]
    if len(t) >= 2 and rng.random() < 0.75:
        i = rng.randrange(1, len(t))
        e = ["bin", "+", lit("str", "'" + esc(t[:i]) + "'"), lit("str", "'" + esc(t[i:]) + "'")]
        if len(t) - i >= 2 and rng.random() < 0.3:
            j = rng.randrange(i + 1, len(t))
            e = ["bin", "+", ["bin", "+", lit("str", "'" + esc(t[:i]) + "'"), lit("str", "'" + esc(t[i:j]) + "'")], lit("str", '"' + esc(t[j:]) + '"')]
        return e
    return lit("str", "'" + esc(t) + "'")


NFC_WORDS = [[0xE9], [0x65, 0x301], [0x1E09], [0x63, 0x301, 0x327], [0xE7, 0x301], [0x107, 0x327], [0x1D8], [0x75, 0x308, 0x301], [0x75, 0x301, 0x308], [0xAC00], [0xAC01],
             [0x1100, 0x1161, 0x11A8], [0xAC00, 0x11A8], [0x61, 0xE9, 0x62], [0x65, 0x301, 0x301], [0x229, 0x301], [0x65, 0x327, 0x301], [0x5A, 0x301], [0x179],
             [0x301], [0x301, 0x65], [0x61, 0x308, 0x62, 0x327], [0xD55C, 0xAE00], [0x1112, 0x1161, 0x11AB, 0x1100, 0x1173, 0x11AF], [0x78, 0x301], [0x20AC, 0x301]]


def str_variant(rng, a):
    """A string literal equal or nearly equal to the literal a (same text, other quotes, letter case, blanks, escapes)."""
    text = a[2]
    q, inner = text[0], text[1:-1]
    r = rng.random()
    if "\\" not in inner and inner and rng.random() < 0.2:
        return nfc_respell(rng, [ord(c) for c in inner])
    if "\\" in inner or r < 0.25:
        return lit("str", text)
    if r < 0.5:
        return lit("str", q + inner.swapcase() + q)
    if r < 0.65:
        return lit("str", q + inner + " " + q)
    if r < 0.8:
        other = '"' if q == "'" else "'"
        return lit("str", other + inner + other) if other not in inner else lit("str", text)
    return lit("str", q + "".join("\\u%04x" % ord(c) if ord(c) < 0x10000 and c not in "'\"" and rng.random() < 0.5 else c for c in inner) + q)


class Gen:
    def __init__(self, rng, env_names, max_pow=2):
        self.rng = rng
        self.env = env_names  # {name: kind}
        self.pows = max_pow

    def ident(self, kind):
        c = [n for n, k in self.env.items() if k == kind or (kind == "rat" and k == "int")]
        return ["id", self.rng.choice(c)] if c else None

    def small_exponent(self):
        rng = self.rng
        n = rng.randrange(0, 13)
        r = rng.random()
        if r < 0.5:
            return lit("int", str(n))
        if r < 0.75:
            return ["un", "-", lit("int", str(n))]
        if r < 0.85:
            return ["bin", "-", lit("int", str(rng.randrange(0, 7))), lit("int", str(rng.randrange(0, 7)))]
        if r < 0.93:
            return lit("real", "%d.0" % n)
        return ["un", "+", lit("int", str(n))]

    def gen(self, kind, d):
        rng = self.rng
        if rng.random() < 0.04:
            kind = rng.choice(["rat", "int", "bool", "str", "set:rat", "set:str", "set:int", "set:bool", "set:set:int"])
        if rng.random() < 0.06 and d > 0:
            return ["par", self.gen(kind, d - 1)]
        leaf = d <= 0 or rng.random() < 0.15
        if kind in ("rat", "int"):
            if leaf:
                r = rng.random()
                i = self.ident(kind)
                if i and r < 0.15:
                    return i
                if kind == "rat" and r < 0.55:
                    return lit("real", gen_real_text(rng))
                return lit("int", gen_int_text(rng, big=True))
            r = rng.random()
            if r < 0.1:
                return ["un", rng.choice("+-"), self.gen(kind, d - 1)]
            if r < 0.55:
                ops = ["+", "-", "*", "%"] if kind == "int" else ["+", "-", "*", "/", "/", "%"]
                return ["bin", rng.choice(ops), self.gen(kind, d - 1), self.gen(kind, d - 1)]
            if r < 0.7:
                return ["bin", rng.choice(["|", "^", "&"]), self.gen("int", d - 1), self.gen("int", d - 1)]
            if r < 0.82 and self.pows > 0:
                self.pows -= 1
                ex = self.small_exponent()
                if kind == "int" and ex[0] == "un":
                    ex = ex[2]
                return ["bin", "**", self.gen(kind, min(d - 1, 2)), ex]
            if r < 0.92:
                return ["attr", self.gen("set:" + kind, d - 1), rng.choice(["min", "max"])]
            return ["attr", self.gen(rng.choice(["set:rat", "set:str", "set:int", "set:set:int", "set:bool"]), d - 1), "count"]
        if kind == "bool":
            if leaf:
                i = self.ident("bool")
                if i and rng.random() < 0.2:
                    return i
                return lit("bool", rng.choice(["true", "false"]))
            r = rng.random()
            if r < 0.12:
                return ["un", "!", self.gen("bool", d - 1)]
            if r < 0.4:
                return ["bin", rng.choice(["||", "&&"]), self.gen("bool", d - 1), self.gen("bool", d - 1)]
            if r < 0.7:
                return ["bin", rng.choice(["==", "!=", "<=", ">=", "<", ">"]), self.gen("rat", d - 1), self.gen("rat", d - 1)]
            if r < 0.8:
                k = rng.choice(["str", "bool"])
                a = self.gen(k, d - 1)
                b = self.gen(k, d - 1)
                if k == "str" and rng.random() < 0.15:
                    w = rng.choice(NFC_WORDS)
                    a, b = nfc_respell(rng, w), nfc_respell(rng, w if rng.random() < 0.8 else rng.choice(NFC_WORDS))
                    if rng.random() < 0.3:
                        a, b = ["set", [a]], ["set", [b]]
                elif k == "str" and a[0] == "lit" and a[1] == "str" and rng.random() < 0.6:
                    b = str_variant(rng, a)
                return ["bin", rng.choice(["==", "!="]), a, b]
            k = rng.choice(["set:int", "set:int", "set:str", "set:rat", "set:set:int"])
            return ["bin", rng.choice(["==", "!=", "<=", ">=", "<", ">"]), self.gen(k, d - 1), self.gen(k, d - 1)]
        if kind == "str":
            if rng.random() < 0.12:
                return nfc_respell(rng, rng.choice(NFC_WORDS))
            if leaf or rng.random() < 0.4:
                return lit("str", gen_str_text(rng))
            return ["bin", "+", self.gen("str", d - 1), self.gen("str", d - 1)]
        if kind.startswith("set:"):
            ek = kind[4:]
            r = rng.random()
            if leaf or r < 0.35:
                n = rng.choice([1, 1, 2, 2, 3, 4])
                return ["set", [self.gen(ek, max(d - 1, 0) if not leaf else 0) for _ in range(n)]]
            if r < 0.65:
                return ["bin", rng.choice(["|", "&", "^"]), self.gen(kind, d - 1), self.gen(kind, d - 1)]
            if ek in ("rat", "int", "set:int", "set:rat"):
                sk = "int" if "int" in ek else "rat"
                ops = ["+", "-", "*", "%"] if sk == "int" else ["+", "-", "*", "/", "%"]
                op = rng.choice(ops)
                a, b = self.gen(kind, d - 1), self.gen(sk, d - 1)
                if rng.random() < 0.08 and self.pows > 0:
                    self.pows -= 1
                    return ["bin", "**", self.gen(kind, min(d - 1, 1)), lit("int", str(rng.randrange(0, 5)))]
                return ["bin", op, a, b] if rng.random() < 0.5 else ["bin", op, b, a]
            if ek == "str":
                a, b = self.gen(kind, d - 1), self.gen("str", d - 1)
                return ["bin", "+", a, b] if rng.random() < 0.5 else ["bin", "+", b, a]
            return ["set", [self.gen(ek, d - 1) for _ in range(rng.choice([1, 2, 3]))]]
        raise ValueError(kind)


GAPS = ["", "", " ", " ", "  ", "\t", " \t"]


def make_case(rng, tree, chan, env_idx, comment=False, gaps=None):
    par = parenthesize(tree)
    toks = render(par)
    if gaps is None:
        style = rng.random()
        if style < 0.25:
            gaps = [""]
        elif style < 0.5:
            gaps = [" "]
        else:
            gaps = [rng.choice(GAPS) for _ in range(7)]
    text = join_tokens(toks, gaps)
    return {"env": env_idx, "e": tree, "toks": toks, "text": text, "chan": chan, "tail": rng.choice(["", " ", "  # c", "#x", "\t"]) if comment else ""}


CONST_TYPES = [["float", 64, 0], ["float", 16, 0], ["int", 64, 0], ["uint", 8, 0], ["uint", 64, 1], ["int", 8, 0], ["bool"], ["uint", 7, 0]]


def pick_chan(rng, kind):
    r = rng.random()
    if kind == "bool":
        return ["assert"] if r < 0.5 else ["print"] if r < 0.85 else ["const", ["bool"]]
    if kind in ("rat", "int"):
        if r < 0.5:
            return ["print"]
        if r < 0.75:
            return ["const", rng.choice(CONST_TYPES)]
        if kind == "int" and r < 0.9:
            return ["cap", rng.choice([0, 1, 2])]
        if kind == "int":
            return ["extent"]
        return ["print"]
    if kind == "str" and r < 0.2:
        return ["const", rng.choice([["uint", 8, 0], ["uint", 8, 1], ["int", 8, 0], ["uint", 16, 0]])]
    if r < 0.08:
        return rng.choice([["assert"], ["cap", 0], ["extent"], ["const", ["float", 64, 0]]])
    return ["print"]


def L(kind, text):
    return lit(kind, text)


# ---- literal shapes: the regular expressions of the unchanged grammar (the Specification), used only to choose the
# literal kind a text is offered as; texts that are no literal at all are offered as LInt and must be rejected
_DIG = r"[0-9](?:_?[0-9])*"
_POINT = r"(?:(?:%s)?\.%s|%s\.)" % (_DIG, _DIG, _DIG)
RE_REAL = re.compile(r"(?:(?:%s|%s)[eE][+-]?%s|%s)" % (_POINT, _DIG, _DIG, _POINT))
RE_INT = re.compile(r"0[bB](?:_?[01])+|0[oO](?:_?[0-7])+|0[xX](?:_?[0-9a-fA-F])+|(?:0(?:_?0)*)+|[1-9](?:_?[0-9])*")


def literal_kind(text):
    if RE_REAL.fullmatch(text):
        return "real"
    return "int"  # well-formed integer, or no literal at all (then the model rejects it: lit_wf = false)


def literal_shapes(rng, n_random):
    """Well-formed and malformed numeric literal texts; all start with a digit, '.' or '_' and contain no operator
    except a sign directly after an exponent mark, so that a text that is not one literal cannot be another valid
    expression (a leading '_' makes it an undefined identifier)."""
    out = []
    for p in ("0x", "0X", "0o", "0O", "0b", "0B"):
        for tail in ("", "_", "__", "___", "_1", "1_", "1__0", "_1__0_", "1_0", "_1_0", "1", "10", "2", "8", "g", "_g", "1.", ".1", "1e1", "_1_", "1_1_1", "__1"):
            out.append(p + tail)
    out += ["0", "00", "0_0", "0__0", "0_", "_0", "01", "0_1", "007", "1_", "_1", "1__0", "1_0", "1_0_", "1e", "1e+", "1e-", "1e+_1", "1e1_", "1e_1", "1_e1", "1e1", "1E1",
            "1e+1", "1e-1", "1e05", "0e0", "1e1e1", ".5", "5.", ".", "..5", "5..", "._5", "5._", "5_.", "_.5", ".5_", "1.5e", "1.5e+", ".e5", "1.e5", "1e5.", "1e5.0", "1.2.3",
            "0x.5", "0x1.", "0x1e5", "0b1e1", "00.5", "0_0.0_0", "1__0.5", "1.5", "1_0.2_5", "1.5_", "1._5", "_", "__", "_1_", "9_9", "9_", "0.0", "0.", ".0", "0e", "1.e", ".5e1",
            ".5e", "5.e1", "5.e+", "1_0e1_0", "1e1__0", "0b", "0o", "0x"]
    alpha = "0179_.eExXbBoOaf"
    for _ in range(n_random):
        ln = rng.choice([1, 2, 3, 3, 4, 5, 6, 8])
        t = rng.choice("0123456789.") + "".join(rng.choice(alpha) for _ in range(ln - 1))
        if rng.random() < 0.2 and ("e" in t or "E" in t):
            i = max(t.rfind("e"), t.rfind("E"))
            t = t[:i + 1] + rng.choice("+-") + t[i + 1:]
        out.append(t)
    seen, uniq = set(), []
    for t in out:
        if t not in seen and not t[0].isalpha():
            seen.add(t)
            uniq.append(t)
    return uniq


LITERAL_CHANS = [["print"], ["assert"], ["const", ["float", 64, 0]], ["const", ["uint", 8, 0]], ["cap", 0], ["cap", 1], ["cap", 2], ["extent"]]


def targeted():
    """Hand-written probes: precedence of every adjacent pair of levels, the complete operand-kind table, literal forms."""
    out = []
    one, two, three = L("int", "1"), L("int", "2"), L("int", "3")
    t, f = L("bool", "true"), L("bool", "false")
    # precedence / associativity probes (the tree is what the grammar must derive from the minimal rendering)
    probes = [
        ["bin", "-", ["bin", "-", L("int", "10"), three], two],                       # 10-3-2 = 5
        ["bin", "-", L("int", "10"), ["bin", "-", three, two]],                       # 10-(3-2)
        ["bin", "/", ["bin", "/", L("int", "100"), L("int", "5")], two],
        ["bin", "/", L("int", "100"), ["bin", "/", L("int", "5"), two]],
        ["bin", "**", two, ["bin", "**", three, two]],                                # 2**3**2 = 512
        ["bin", "**", ["bin", "**", two, three], two],                                # (2**3)**2 = 64
        ["un", "-", ["bin", "**", two, two]],                                         # -2**2 = -4
        ["bin", "**", ["un", "-", two], two],                                         # (-2)**2 = 4
        ["bin", "**", two, ["un", "-", one]],                                         # 2**-1
        ["bin", "**", two, ["un", "-", ["bin", "**", one, two]]],                     # 2**-1**2
        ["bin", "&&", ["bin", "||", t, f], f],                                        # true||false&&false : one level, left fold -> false
        ["bin", "||", t, ["bin", "&&", f, f]],                                        # true||(false&&false) -> true
        ["bin", "||", ["bin", "&&", f, f], t],
        ["bin", "+", one, ["bin", "*", two, three]],
        ["bin", "*", ["bin", "+", one, two], three],
        ["bin", "|", one, ["bin", "+", two, three]],
        ["bin", "+", ["bin", "|", one, two], three],
        ["bin", "==", ["bin", "|", one, two], three],
        ["bin", "|", one, ["bin", "==", two, three]],
        ["bin", "&", ["bin", "|", one, two], three],                                  # | ^ & share a level: (1|2)&3 = 3
        ["bin", "|", one, ["bin", "&", two, three]],                                  # 1|(2&3) = 3
        ["bin", "^", ["bin", "&", L("int", "6"), three], L("int", "5")],
        ["bin", "&", L("int", "6"), ["bin", "^", three, L("int", "5")]],
        ["bin", "==", ["bin", "<", one, two], t],                                     # comparison chain folds left
        ["bin", "<", one, ["bin", "==", two, t]],
        ["un", "!", ["bin", "==", t, f]],                                             # !true==false : ! over the comparison
        ["bin", "==", ["un", "!", t], f],
        ["un", "!", ["un", "!", t]],
        ["un", "-", ["un", "-", one]],
        ["un", "-", ["un", "+", one]],
        ["bin", "-", one, ["un", "-", one]],
        ["bin", "*", two, ["un", "-", three]],
        ["bin", "*", ["un", "-", two], three],
        ["un", "-", ["bin", "*", two, three]],
        ["bin", "%", ["un", "-", L("int", "7")], three],                              # -7%3 = (-7)%3 = 2
        ["un", "-", ["bin", "%", L("int", "7"), three]],                              # -(7%3) = -1
        ["attr", ["set", [one, two, three]], "max"],
        ["bin", "**", ["attr", ["set", [one, two]], "max"], two],
        ["attr", ["bin", "**", ["set", [one, two]], two], "max"],
        ["un", "-", ["attr", ["set", [one, two]], "min"]],
        ["attr", ["un", "-", one], "min"],
        ["attr", one, "min"],
        ["attr", L("real", "1."), "min"],
        ["attr", ["attr", ["set", [["set", [one]]]], "min"], "count"],
        ["bin", "||", t, ["un", "!", f]],
        ["bin", "<", one, ["un", "!", t]],
        ["un", "!", ["bin", "<", one, two]],
        ["bin", "+", ["un", "!", t], one],
        ["set", []],
        ["par", ["par", ["par", one]]],
    ]
    for p in probes:
        out.append((p, ["print"]))
    # the operand-kind table: every binary operator x every ordered pair of operand kinds
    samples = {
        "rat": [L("real", "1.5"), L("int", "0")], "int": [L("int", "6"), ["un", "-", L("int", "3")]], "bool": [t], "str": [L("str", "'ab'"), L("str", "''")],
        "set:int": [["set", [one, two]], ["set", [L("int", "0"), two, three]]], "set:rat": [["set", [L("real", ".5")]]], "set:str": [["set", [L("str", "'a'"), L("str", '"b"')]]],
        "set:bool": [["set", [t, f]]], "set:set": [["set", [["set", [one]], ["set", [one, two]]]]],
    }
    kinds = list(samples)
    for op in OPLEVEL:
        for ka in kinds:
            for kb in kinds:
                for a in samples[ka][:2 if ka == kb else 1]:
                    for b in samples[kb][:2 if ka == kb else 1]:
                        if op == "**" and kb in ("rat",) and b[2] == "1.5":
                            continue  # non-integer exponent: separate list below
                        out.append((["bin", op, a, b], ["print"]))
    for op in "!+-":
        for k in kinds:
            out.append((["un", op, samples[k][0]], ["print"]))
    for k in kinds:
        for a in ("min", "max", "count", "size", "Min", "e1"):
            for s in samples[k]:
                out.append((["attr", s, a], ["print"]))
    # string equality is exact: letter case, blanks, escapes versus raw characters
    for x, y in (("'a'", "'A'"), ("'ab'", "'aB'"), ("'a'", "'a '"), ("'a'", '"a"'), ("'\\u0061'", "'a'"), ("'\xe9'", "'\\u00e9'"), ("'\xe9'", "'\xc9'"),
                 ("'straSSe'", "'strasse'"), ("''", "' '"), ("'\\n'", "'\\N'"), ("'\\t'", "' '")):
        for op in ("==", "!="):
            out.append((["bin", op, L("str", x), L("str", y)], ["print"]))
        out.append((["bin", "==", ["set", [L("str", x)]], ["set", [L("str", y)]]], ["print"]))
        out.append((["attr", ["set", [L("str", x), L("str", y)]], "count"], ["print"]))
    # string equality is on NFC-normalised text, also for values formed by concatenation across a normalisation seam;
    # elements of sets are compared as they are; the printed value is the text as written
    for w in NFC_WORDS:
        import unicodedata as u
        nfd = [ord(c) for c in u.normalize("NFD", "".join(chr(c) for c in w))]
        nfc = [ord(c) for c in u.normalize("NFC", "".join(chr(c) for c in w))]
        whole_c, whole_d = L("str", "'" + esc(nfc) + "'"), L("str", "'" + esc(nfd) + "'")
        forms = [whole_c, whole_d]
        for i in range(1, len(nfd)):
            forms.append(["bin", "+", L("str", "'" + esc(nfd[:i]) + "'"), L("str", '"' + esc(nfd[i:]) + '"')])
        for f in forms:
            out.append((f, ["print"]))
            out.append((["bin", "==", f, whole_c], ["print"]))
            out.append((["bin", "!=", f, whole_c], ["assert"]))
            out.append((["bin", "==", whole_d, f], ["assert"]))
            out.append((["bin", "==", ["set", [f]], ["set", [whole_c]]], ["print"]))
            out.append((["attr", ["set", [f, whole_c, whole_d]], "count"], ["print"]))
            out.append((["bin", "<=", ["set", [f]], ["set", [whole_c, whole_d]]], ["print"]))
        out.append((["bin", "==", ["bin", "+", whole_d, L("str", "'x'")], ["bin", "+", whole_c, L("str", '"x"')]], ["print"]))
    # raw (unescaped) combining characters in the source text
    out.append((["bin", "==", ["bin", "+", L("str", "'e'"), L("str", "'\u0301'")], L("str", "'\xe9'")], ["print"]))
    out.append((["bin", "==", L("str", "'e\u0301'"), L("str", "'\xe9'")], ["assert"]))
    out.append((L("str", "'e\u0301'"), ["print"]))
    # division / modulo sign conventions and zero divisors
    for a in ("7", "-7", "7.5", "-7.5", "0"):
        for b in ("2", "-2", "0", "0.0", "2.5", "-2.5", "1/3"):
            def mk(s):
                if "/" in s:
                    x, y = s.split("/")
                    return ["bin", "/", L("int", x), L("int", y)]
                neg = s.startswith("-")
                s2 = s.lstrip("-")
                e = L("real" if "." in s2 else "int", s2)
                return ["un", "-", e] if neg else e
            for op in ("/", "%"):
                out.append((["bin", op, mk(a), mk(b)], ["print"]))
    # powers: zero base, negative exponents, rational base
    for base in (L("int", "0"), two, ["un", "-", two], ["bin", "/", two, three], ["un", "-", ["bin", "/", two, three]], L("real", "0.0")):
        for ex in (L("int", "0"), one, three, L("int", "12"), ["un", "-", one], ["un", "-", two], ["un", "-", three], L("real", "2.0"), L("real", "0.5"), ["bin", "/", one, three]):
            out.append((["bin", "**", base, ex], ["print"]))
    # close to CPython's int -> str limit (F21): still printable
    out.append((["bin", "**", L("int", "10"), L("int", "4299")], ["print"]))
    out.append((["bin", ">", ["bin", "**", L("int", "10"), L("int", "5000")], one], ["assert"]))
    # F4 corner cases (InvalidDefinitionError since the repair)
    out.append((["bin", "**", ["un", "-", L("int", "8")], ["bin", "/", one, three]], ["print"]))
    out.append((["bin", "**", ["bin", "**", L("int", "10"), L("int", "400")], L("real", "0.5")], ["print"]))
    out.append((["bin", "**", L("real", "0.0"), ["un", "-", L("real", "0.5")]], ["print"]))
    # literal forms
    for txt in ("0", "00", "0_0", "1_000", "0x_ff", "0XFF", "0xdead_BEEF", "0o17", "0O_1_7", "0b101", "0B_1_0", "123456789012345678901234567890",
                "0xffffffffffffffffffffffff", "9_9"):
        out.append((L("int", txt), ["print"]))
    for txt in ("1.5", ".5", "5.", "1e3", "1E3", "1e+3", "1e-3", "1.5e2", ".5e1", "5.e1", "1_0.2_5e1_0", "0.1", "0.000", "1e0", "12.50", "00.5", "1_2.3_4E-0_2", "007.7"):
        out.append((L("real", txt), ["print"]))
    for txt in ("''", '""', "'a'", '"a\'b"', "'a\"b'", "'\\''", '"\\""', "'\\\\'", "'\\n\\r\\t'", "'\\N\\R\\T'", "'\\u0041'", "'\\U00000041'", "'\\u00e9'", "'\\U0010FFFF'",
                "'\\U00110000'", "'\\ud800'", "'\\x41'", "'\\a'", "'\\u12'", "'\\u12g4'", "'\\U0000004'", "'\xe9'", "'€#'", "'a b\tc'", "'\\u004g'", "'\\0'", "'\\U0001f600'",
                "'\\uFFFF'", "'\\u0000'"):
        out.append((L("str", txt), ["print"]))
    # channels
    for e, ch in [
        (t, ["assert"]), (f, ["assert"]), (one, ["assert"]), (["bin", "==", one, one], ["assert"]), (L("str", "'a'"), ["assert"]), (["set", [t]], ["assert"]),
        (L("int", "8"), ["cap", 0]), (L("int", "0"), ["cap", 0]), (one, ["cap", 2]), (two, ["cap", 2]), (one, ["cap", 1]), (L("int", "0"), ["cap", 1]),
        (["un", "-", one], ["cap", 0]), (L("real", "2.0"), ["cap", 0]), (L("real", "2.5"), ["cap", 1]), (t, ["cap", 0]), (L("str", "'a'"), ["cap", 1]), (["set", [one]], ["cap", 2]),
        (["bin", "**", two, L("int", "64")], ["cap", 1]), (["bin", "-", ["bin", "**", two, L("int", "64")], one], ["cap", 1]), (["bin", "**", two, L("int", "64")], ["cap", 2]),
        (["bin", "+", ["bin", "**", two, L("int", "64")], one], ["cap", 2]), (["bin", "**", two, L("int", "70")], ["cap", 0]),
        (L("int", "0"), ["extent"]), (L("int", "8"), ["extent"]), (L("int", "7"), ["extent"]), (["un", "-", L("int", "8")], ["extent"]), (["bin", "*", L("int", "8"), L("int", "100")], ["extent"]),
        (L("real", "16.0"), ["extent"]), (L("real", "16.5"), ["extent"]), (t, ["extent"]), (["set", [L("int", "8")]], ["extent"]), (L("str", "'a'"), ["extent"]),
        (["bin", "/", one, three], ["const", ["float", 64, 0]]), (["bin", "/", one, three], ["const", ["int", 8, 0]]), (L("str", "'a'"), ["const", ["uint", 8, 0]]),
        (L("str", "'ab'"), ["const", ["uint", 8, 0]]), (["bin", "+", L("str", "''"), L("str", "'a'")], ["const", ["uint", 8, 1]]), (t, ["const", ["bool"]]), (one, ["const", ["bool"]]),
        (["set", [one]], ["const", ["uint", 8, 0]]), (["bin", "**", two, L("int", "63")], ["const", ["int", 64, 0]]), (["un", "-", ["bin", "**", two, L("int", "63")]], ["const", ["int", 64, 0]]),
    ]:
        out.append((e, ch))
    return out


def generate(rng, tier):
    nfc_selftest()
    cases, streams = [], []
    all_env = list(range(len(ENV)))
    for tree, chan in targeted():
        cases.append(make_case(rng, tree, chan, all_env, gaps=[rng.choice(["", " "])]))
        streams.append("targeted")
    # identifiers
    for name in ["A", "B_2", "C", "D", "E9", "F", "a", "_offset", "X"]:
        for env_idx in ([], all_env, [0, 2]):
            cases.append(make_case(rng, ["bin", "+", ["id", name], lit("int", "1")], ["print"], env_idx))
            streams.append("targeted")
            cases.append(make_case(rng, ["id", name], ["print"], env_idx))
            streams.append("targeted")
    # literal shapes, well-formed and malformed, through every channel
    shapes = literal_shapes(rng, 150 if tier == "quick" else 3000)
    for k, t in enumerate(shapes):
        chans = LITERAL_CHANS if k < 60 or tier != "quick" else [["print"], rng.choice(LITERAL_CHANS[1:])]
        for ch in chans:
            cases.append(make_case(rng, lit(literal_kind(t), t), ch, [], gaps=[""]))
            streams.append("targeted")
    n = 4200 if tier == "quick" else 60000
    maxd = [1, 2, 2, 3, 3, 4, 4, 5] if tier == "quick" else [2, 3, 4, 4, 5, 5, 6, 7]
    for _ in range(n):
        env_idx = sorted(rng.sample(all_env, rng.choice([0, 0, 2, 5])))
        names = {ENV[i][0]: ENV[i][3] for i in env_idx}
        kind = rng.choice(["rat", "rat", "int", "int", "bool", "bool", "str", "set:int", "set:rat", "set:str", "set:set:int", "set:bool"])
        g = Gen(rng, names)
        tree = g.gen(kind, rng.choice(maxd))
        cases.append(make_case(rng, tree, pick_chan(rng, kind), env_idx, comment=True))
        streams.append("random")
    return cases, streams


# ----------------------------------------------------------------------------------------------------------------
# implementation side


def parse_printed(s):
    """Inverse of Any.__str__ for rationals, booleans, strings (Python repr) and (nested) sets."""
    import ast
    from fractions import Fraction
    pos = 0

    def value():
        nonlocal pos
        c = s[pos]
        if c == "{":
            pos += 1
            items = []
            while True:
                items.append(value())
                if s.startswith(", ", pos):
                    pos += 2
                elif s[pos] == "}":
                    pos += 1
                    break
                else:
                    raise ValueError("bad set syntax at %d" % pos)
            import json
            items.sort(key=lambda j: json.dumps(j, sort_keys=True))
            return {"set": items}
        if c in "'\"":
            end = pos + 1
            while s[end] != c:
                end += 2 if s[end] == "\\" else 1
            lit_text = s[pos:end + 1]
            pos = end + 1
            return {"s": [ord(ch) for ch in ast.literal_eval(lit_text)]}
        if s.startswith("true", pos):
            pos += 4
            return {"b": True}
        if s.startswith("false", pos):
            pos += 5
            return {"b": False}
        end = pos
        while end < len(s) and (s[end].isdigit() or s[end] in "-/"):
            end += 1
        fr = Fraction(s[pos:end])
        pos = end
        return {"r": [fr.numerator, fr.denominator]}

    v = value()
    if pos != len(s):
        raise ValueError("trailing text")
    return v


def definition_text(case):
    lines = []
    for i in case["env"]:
        name, ty, val, _ = ENV[i]
        lines.append("%s %s = %s" % (V.type_text(ty), name, V.render_value(val)))
    ch = case["chan"]
    tx = case["text"] + case.get("tail", "")
    if ch[0] == "print":
        lines.append("@print " + tx)
    elif ch[0] == "assert":
        lines.append("@assert " + tx)
    elif ch[0] == "const":
        lines.append("%s X = %s" % (V.type_text(ch[1]), tx))
    elif ch[0] == "cap":
        lines.append("uint8[%s%s] x%s" % (["", "<=", "<"][ch[1]], case["text"], case.get("tail", "")))
    elif ch[0] == "extent":
        lines.append("@extent " + tx)
    if ch[0] != "extent":
        lines.append("@sealed")
    return "\n".join(lines) + "\n"


def run_impl(cases):
    import shutil
    import pydsdl
    root, ns = V.scratch_ns("c04")
    path = os.path.join(ns, "T.1.0.dsdl")
    real = os.path.realpath(path)
    out = []
    for c in cases:
        printed = []
        try:
            with open(path, "w", encoding="utf8") as f:
                f.write(definition_text(c))
            try:
                (comp,) = pydsdl.read_namespace(ns, [], print_output_handler=lambda p, l, t: printed.append((str(p), l, t)))
            except pydsdl.InvalidDefinitionError as ex:
                if ex.path is None or os.path.realpath(str(ex.path)) != real:
                    out.append({"rej": "CInvalidDefinition", "pred_fail": "error path %r is not the definition file" % (str(ex.path),)})
                    continue
                raise
            ch = c["chan"]
            if ch[0] == "print":
                if len(printed) != 1:
                    out.append({"rej": "COther", "pred_fail": "%d print outputs" % len(printed)})
                    continue
                out.append({"val": parse_printed(printed[0][2])})
            elif ch[0] == "assert":
                out.append({"pass": True})
            elif ch[0] == "const":
                k = [x for x in comp.constants if x.name == "X"][0]
                out.append({"val": V.native_to_json(k.value)})
            elif ch[0] == "cap":
                (fld,) = comp.fields
                ft = fld.data_type
                ok = isinstance(ft, pydsdl.FixedLengthArrayType if ch[1] == 0 else pydsdl.VariableLengthArrayType)
                o = {"int": ft.capacity}
                if not ok:
                    o["pred_fail"] = "wrong array kind %s" % type(ft).__name__
                out.append(o)
            elif ch[0] == "extent":
                o = {"int": comp.extent}
                if not isinstance(comp, pydsdl.DelimitedType):
                    o["pred_fail"] = "not delimited"
                out.append(o)
        except Exception as ex:  # pylint: disable=broad-except
            out.append({"rej": V.classify(ex)})
    shutil.rmtree(root, ignore_errors=True)
    return out


# ----------------------------------------------------------------------------------------------------------------
# emission


def emit_chan(ch):
    if ch[0] == "print":
        return "C04.ChPrint"
    if ch[0] == "assert":
        return "C04.ChAssert"
    if ch[0] == "const":
        return "(C04.ChConst %s)" % V.emit_type(ch[1])
    if ch[0] == "cap":
        return "(C04.ChCap %d)" % ch[1]
    return "C04.ChExtent"


def emit_obs(obs):
    if "val" in obs:
        return "(C04.OVal %s)" % V.emit_value(obs["val"])
    if "pass" in obs:
        return "C04.OPass"
    if "int" in obs:
        return "(C04.OInt %s)" % G.z(obs["int"])
    return "(C04.ORej %s)" % obs["rej"]


def emit_env(env_idx):
    return G.lst(["(%s, %s, %s)" % (G.codepoints(ENV[i][0]), V.emit_type(ENV[i][1]), V.emit_value(ENV[i][2])) for i in env_idx])


def emit(case, obs):
    return "(%s, %s, %s, %s, %s)" % (emit_env(case["env"]), emit_expr(case["e"]), emit_tokens(case["toks"]), emit_chan(case["chan"]), emit_obs(obs))


def model_eval(case, obs):
    return ("Eval vm_compute in (map (fun c => match c with (ds, e, toks, ch, o) => (C04.model ds e, tokens_eqb (render_min e) toks) end) cases).\n")


def count_ops(e):
    k = e[0]
    if k in ("lit", "id"):
        return 0
    if k == "set":
        return sum(count_ops(x) for x in e[1])
    if k == "un":
        return 1 + count_ops(e[2])
    if k == "bin":
        return 1 + count_ops(e[2]) + count_ops(e[3])
    return (1 if k == "attr" else 0) + count_ops(e[1])


def nontrivial(case, obs):
    return count_ops(case["e"]) >= 2


def describe(case, obs):
    keys = ["chan:" + case["chan"][0], "ops=%d" % min(count_ops(case["e"]), 12)]
    if case["e"][0] == "lit" and case["e"][1] in ("int", "real"):
        keys.append("literal:" + ("well-formed" if RE_REAL.fullmatch(case["e"][2]) or RE_INT.fullmatch(case["e"][2]) else "malformed"))
    keys.append("impl:" + ("rejected" if "rej" in obs else "value"))
    seen = set()

    def walk(e):
        k = e[0]
        if k == "bin":
            seen.add("op:" + e[1])
            walk(e[2])
            walk(e[3])
        elif k == "un":
            seen.add("un:" + e[1])
            walk(e[2])
        elif k == "set":
            seen.add("set-literal")
            for x in e[1]:
                walk(x)
        elif k == "attr":
            seen.add("attr:" + (e[2] if e[2] in ("min", "max", "count") else "other"))
            walk(e[1])
        elif k == "par":
            seen.add("redundant-parens")
            walk(e[1])
        elif k == "lit":
            seen.add("lit:" + e[1])
        else:
            seen.add("identifier")
    walk(case["e"])
    if any(t == ["sym", "("] for t in case["toks"]):
        seen.add("parens-in-text")
    return keys + sorted(seen)


def shrink(case):
    e = case["e"]

    def rebuilt(t, chan=None):
        par = parenthesize(t)
        toks = render(par)
        return dict(case, e=t, toks=toks, text=join_tokens(toks, [" "]), tail="", chan=chan or case["chan"])

    def subtrees(t):
        k = t[0]
        if k == "set":
            return list(t[1])
        if k == "un":
            return [t[2]]
        if k == "bin":
            return [t[2], t[3]]
        if k in ("attr", "par"):
            return [t[1]]
        return []

    for s in subtrees(e):
        yield rebuilt(s, ["print"])

    def variants(t):
        k = t[0]
        if k == "set":
            for i in range(len(t[1])):
                if len(t[1]) > 1:
                    yield ["set", t[1][:i] + t[1][i + 1:]]
                for v in variants(t[1][i]):
                    yield ["set", t[1][:i] + [v] + t[1][i + 1:]]
        elif k == "un":
            for v in variants(t[2]):
                yield ["un", t[1], v]
        elif k == "bin":
            for s in (t[2], t[3]):
                pass
            for v in subtrees(t[2]):
                yield ["bin", t[1], v, t[3]]
            for v in subtrees(t[3]):
                yield ["bin", t[1], t[2], v]
            for v in variants(t[2]):
                yield ["bin", t[1], v, t[3]]
            for v in variants(t[3]):
                yield ["bin", t[1], t[2], v]
        elif k == "attr":
            for v in variants(t[1]):
                yield ["attr", v, t[2]]
        elif k == "par":
            yield t[1]

    for v in variants(e):
        yield rebuilt(v)
    if case["env"]:
        yield dict(case, env=[])
