"""C03 - the model mirrors the source text, independent of formatting: generator, implementation runner, emitter.

A case is an *abstract* definition: a list of lines, each line = optional statement (tokens + glue rules + the payload
the Coq line machine needs) + blanks flag + optional comment.  The runner renders it in many formatting variants
(token spacing, trailing blanks, LF/CRLF/mixed, every way the text can end, extra blanks-only lines; extra comment and
empty lines for the comparison modulo docs), reads all of them with pydsdl.read_namespace and requires identical
observations; it then renders the returned composite back to canonical DSDL and reads that again.  The Coq side runs
Builder/Lines.v on the abstract lines and must predict the observation.

TRACE - how the visiting order modelled in coq/Builder/Lines.v was obtained: `trace(text)` below runs the real parser
with a logging StatementStreamProcessor.  For
  "# hdr\\nuint8 a # ca\\n# ca2\\n\\n# orphan\\nuint8[N] b\\nvoid3\\n   \\n# cv\\n@assert N == 4 # cd\\n---\\n# rh\\nuint8 C = N+1\\n@sealed"
it prints HDR 'hdr', ATC '', FIELD a, ATC 'ca\\nca2', ATC 'orphan', RESOLVE N, ATC '', ATC '', FIELD b, ATC '', PAD, ATC 'cv',
ATC '', RESOLVE N, ATC '', DIR 10 assert, ATC 'cd', MARK, HDR 'rh', ATC '', RESOLVE N, ATC '', CONST C 5, ATC '', ATC '',
DIR 14 sealed, ATC '' (the last one is parse()'s final flush).
"""
import fractions
import os
import gallina as G

ID = "C03"
PROPS_FILE = "Props/C03.v"
COQ_IMPORTS = "From PV Require Import Builder.Lines Builder.Syntax Check.C03."
CASE_TYPE = "C03.case"
CHECK_FN = "C03.check_case"
SHARD = 40
RULE = ("a case is one abstract definition (random list of lines over fields of every primitive spelling, arrays in the three "
        "bracket forms, versioned types of a fixed dependency set, paddings, constants with small expressions, all directives, "
        "the service marker, comments on statement lines and on own lines, empty and blanks-only lines) read in 12-14 formatting "
        "variants; non-trivial = at least two attribute statements and at least one comment; distinct = by hash of the case")
THEOREMS_NOTE = ("C03_mirror (+ C03_mirror_once) fixes the only admissible model for the abstract lines; C03_final_newline / C03_blank_lines / "
                 "C03_extra_comment_lines / C03_extra_empty_lines / C03_same_statements_partial say which formatting changes cannot change it "
                 "(docs only, for extra comment and empty lines); C03_render closes the loop")
TRUSTED = ["the vendored parsimonious PEG engine (tokenisation of a line into statement / blanks / comment) is exercised through "
           "the implementation only; the renderer of harness/props/c03.py decides what a formatting variant is",
           "expected str(value) of constants and expected array capacities are computed by the generator with Python int/Fraction "
           "arithmetic from expressions it built itself (expression semantics belong to C04)"]
ASSUMPTIONS = ["definitions are valid by construction (C05 decides validity); an implementation error on such a definition is reported as a violation",
               "files are read through open() in text mode, so CRLF reaches the parser as LF (universal newlines); the parser's own \\r?\\n rule is not exercised separately"]
EXPLANATION = ("theorems quantify over all line lists; the correspondence compares the model of the line machine with pydsdl on "
               "generated definitions and checks on the implementation alone that all formatting variants of one definition agree")

NS = "ns"

# the dependency set written into every scratch namespace: fixed names, versions, kinds and sizes (max serialized bit
# lengths are needed for the extent bound), but field names, constant values and comments depend on an "edition" number,
# so that two reads in one process see same-looking but differently defined composites (history: stale caches keyed by
# the approximate equality of types would serve the old definition)
def deps(ed):
    e = str(ed)
    return {
        "ns/Near.1.0.dsdl": "# Near edition %s\nuint8 v%s  # v of %s\nuint8 ED = %d\n@sealed\n" % (e, e, e, ed % 256),
        "ns/dep/Small.1.0.dsdl": "# Small edition %s\nuint16 a%s\nbool b # b of %s\nuint16 ED = %d\n@sealed\n" % (e, e, e, ed),
        "ns/dep/Uni.2.3.dsdl": "# Uni edition %s\n@union\nuint8 a%s\nfloat32 b%s  # b of %s\n@sealed\n" % (e, e, e, e),
        "ns/dep/Delim.1.0.dsdl": "# Delim edition %s\nuint8[<=4] d%s\nuint8 ED = %d # %s\n@extent 64 * 8\n" % (e, e, ed % 256, e),
        "ns/dep/sub/Deep.0.1.dsdl": "# Deep edition %s\nns.dep.Small.1.0 s%s\nns.Near.1.0[<=2] n%s # n of %s\n@sealed\n" % (e, e, e, e),
    }


DEPS = deps(0)


def editions(case):
    """(edition of the preliminary read, edition of the read that is observed) - derived from the case's seed"""
    ed = case["seed"] % 997
    prev = (case["seed"] // 997) % 997
    return (prev if prev != ed else (prev + 1) % 997), ed


# spelling, full name, major, minor, max bits, dependency number (only used as the payload of PRead)
REFS = [
    ("Near.1.0", "ns.Near", 1, 0, 8, 1),
    ("ns.Near.1.0", "ns.Near", 1, 0, 8, 1),
    ("ns.dep.Small.1.0", "ns.dep.Small", 1, 0, 24, 2),
    ("ns.dep.Uni.2.3", "ns.dep.Uni", 2, 3, 40, 3),
    ("ns.dep.Delim.1.0", "ns.dep.Delim", 1, 0, 32 + 512, 4),
    ("ns.dep.sub.Deep.0.1", "ns.dep.sub.Deep", 0, 1, 24 + 8 + 16, 5),
]


# ----------------------------------------------------------------------------------------------------------------
# tracing the real parser (documentation of the model's origin; also used by the self-test at the bottom)


def trace(text):
    from pydsdl import _parser, _serializable, _expression, _error
    import pathlib

    class Log(_parser.StatementStreamProcessor):
        def __init__(self):
            self.ev = []

        def on_header_comment(self, comment):
            self.ev.append(("HDR", comment))

        def on_attribute_comment(self, comment):
            self.ev.append(("ATC", comment))

        def on_constant(self, constant_type, name, value):
            self.ev.append(("CONST", str(constant_type), name, str(value)))

        def on_field(self, field_type, name):
            self.ev.append(("FIELD", str(field_type), name))

        def on_padding_field(self, padding_field_type):
            self.ev.append(("PAD", str(padding_field_type)))

        def on_directive(self, line_number, directive_name, associated_expression_value):
            self.ev.append(("DIR", line_number, directive_name))

        def on_service_response_marker(self):
            self.ev.append(("MARK",))

        def resolve_top_level_identifier(self, name):
            self.ev.append(("RESOLVE", name))
            return _expression.Rational(4)

        def resolve_versioned_data_type(self, name, version):
            self.ev.append(("READ", name, version.major, version.minor))
            return _serializable.StructureType(name=name, version=version, attributes=[], deprecated=False, fixed_port_id=None,
                                               source_file_path=pathlib.Path("/x"), has_parent_service=False)

    p = Log()
    try:
        _parser.parse(text, p, strict=False)
    except _error.Error as ex:
        p.ev.append(("ERR", type(ex).__name__, ex.line))
    return p.ev


# ----------------------------------------------------------------------------------------------------------------
# generator: tokens are [text, glue] with glue "m" (at least one blank), "o" (blanks optional), "n" (no blank allowed)

MAND = [" ", " ", "  ", "\t", " \t ", "    "]
OPT = ["", "", "", " ", "  ", "\t"]


def int_lit(rng, v):
    assert v >= 0
    r = rng.random()
    if r < 0.55:
        s = str(v)
        if len(s) >= 2 and rng.random() < 0.3:
            s = s[0] + "_" + s[1:]
        return s
    if r < 0.75:
        return "0x%X" % v if rng.random() < 0.5 else "0X%x" % v
    if r < 0.9:
        return "0b" + bin(v)[2:]
    return "0o" + oct(v)[2:]


def int_expr(rng, v, scope, prefer_name=False):
    """tokens and identifier events of an expression with integer value v >= 0; scope: constants visible here {name: int}"""
    cands = [n for n, x in scope.items() if type(x) is int and x == v]
    r = rng.random()
    if cands and (r < 0.35 or prefer_name):
        return [[rng.choice(cands), "o"]], ["i"]
    if r < 0.6 or v == 0:
        return [[int_lit(rng, v), "o"]], []
    if r < 0.8:
        a = rng.randrange(0, v + 1)
        small = [n for n, x in scope.items() if type(x) is int and 0 <= x <= v]
        if small and rng.random() < 0.4:
            n = rng.choice(small)
            return [[n, "o"], ["+", "o"], [int_lit(rng, v - scope[n]), "o"]], ["i"]
        return [[int_lit(rng, a), "o"], ["+", "o"], [int_lit(rng, v - a), "o"]], []
    if r < 0.9:
        for d in (2, 3, 5, 7):
            if v % d == 0 and v > 0:
                return [[int_lit(rng, v // d), "o"], ["*", "o"], [int_lit(rng, d), "o"]], []
        return [[int_lit(rng, v + 3), "o"], ["-", "o"], [int_lit(rng, 3), "o"]], []
    a = rng.randrange(0, v + 1)
    return [["(", "o"], [int_lit(rng, a), "o"], ["+", "o"], [int_lit(rng, v - a), "o"], [")", "o"]], []


def gen_scalar(rng, role):
    """role: field | efix | evar (array element) | const.  returns (tokens, payload, events, max bits)"""
    while True:
        k = rng.choice(["uint", "uint", "int", "float", "bool", "byte", "utf8", "ref", "ref"])
        if k in ("uint", "int", "float"):
            if k == "float":
                w = rng.choice([16, 32, 64])
            elif k == "int":
                w = rng.choice([2, 3, 7, 8, 16, 31, 32, 63, 64, rng.randrange(2, 65)])
            else:
                w = rng.choice([1, 2, 7, 8, 9, 16, 32, 63, 64, rng.randrange(1, 65)])
            cast = rng.choice(["d", "d", "s", "t"])
            if k == "int" and cast == "t":
                cast = "s"
            toks = []
            if cast == "s":
                toks.append(["saturated", "m"])
            elif cast == "t":
                toks.append(["truncated", "m"])
            toks.append(["%s%d" % (k, w), "o"])
            return toks, [k, w, cast], [], w
        if k == "bool":
            return [["bool", "o"]], ["bool"], [], 1
        if k == "byte" and role in ("efix", "evar"):
            return [["byte", "o"]], ["byte"], [], 8
        if k == "utf8" and role == "evar":
            return [["utf8", "o"]], ["utf8"], [], 8
        if k == "ref" and role != "const":
            sp, full, ma, mi, bits, num = rng.choice(REFS)
            ev = ["i"] * (sp.count(".") - 1) + ["d%d" % num]
            return [[sp, "o"]], ["ref", full, ma, mi], ev, bits + 8


def gen_type(rng, scope, budget):
    """a field type: (tokens, payload, events, max bits)"""
    form = rng.choice(["none", "none", "fix", "incl", "excl"])
    role = {"none": "field", "fix": "efix", "incl": "evar", "excl": "evar"}[form]
    toks, sc, ev, bits = gen_scalar(rng, role)
    if form == "none":
        return toks, {"sc": sc, "arr": None}, ev, bits
    cap = rng.choice([1, 1, 2, 3, 4, 5, 8, 16, 255, 256, rng.randrange(1, 300)])
    cap = max(1, min(cap, budget))
    written = cap + 1 if form == "excl" else cap
    named = [x for x in scope.values() if type(x) is int and (2 if form == "excl" else 1) <= x <= budget]
    by_name = bool(named) and rng.random() < 0.5      # the capacity is a constant of this section
    if by_name:
        written = rng.choice(named)
        cap = written - 1 if form == "excl" else written
    et, eev = int_expr(rng, written, scope, prefer_name=by_name)
    toks = toks + [["[", "o"]] + ([["<=", "o"]] if form == "incl" else [["<", "o"]] if form == "excl" else []) + et + [["]", "o"]]
    ebits = ((bits + 7) // 8 * 8 if sc[0] == "ref" else bits)
    return toks, {"sc": sc, "arr": [form, written]}, ev + eev, cap * ebits + 64 + 16


NAME_HEADS = ["a", "b", "value", "x", "Mode", "raw_data", "k9", "zz", "item", "theta", "n_", "q"]
CONST_HEADS = ["MAX", "MIN", "K", "LIMIT_A", "N", "Flag", "c"]


def fresh(rng, used, heads):
    while True:
        n = rng.choice(heads) + str(rng.randrange(0, 100))
        if n.lower() not in used:
            used.add(n.lower())
            return n


def gen_const(rng, scope, used, name=None, avoid=None):
    """name/avoid: reuse the name of a constant of the request section with a different value (response only)"""
    forced = name is not None
    if forced:
        used.add(name.lower())
    else:
        name = fresh(rng, used, CONST_HEADS)
    k = rng.choice(["uint", "uint", "int"]) if forced else rng.choice(["uint", "uint", "int", "float", "bool", "char"])
    if k == "char":
        ch = rng.choice("abcXYZ09 ~")
        q = rng.choice("'\"")
        toks, sc, ev = [["uint8", "m"]], ["uint", 8, "d"], []
        expr, eev, val, sv = [[q + ch + q, "o"]], [], ord(ch), str(ord(ch))
    elif k == "bool":
        toks, sc, ev = [["bool", "m"]], ["bool"], []
        v = rng.random() < 0.5
        forms = {True: [["true"], ["!", "false"], ["1", "==", "1"], ["true", "||", "false"]],
                 False: [["false"], ["!", "true"], ["1", "!=", "1"], ["true", "&&", "false"]]}[v]
        expr, eev, val, sv = [[t, "o"] for t in rng.choice(forms)], [], v, "true" if v else "false"
    elif k == "float":
        w = rng.choice([16, 32, 64])
        cast = rng.choice(["d", "s", "t"])
        toks = ([["saturated", "m"]] if cast == "s" else [["truncated", "m"]] if cast == "t" else []) + [["float%d" % w, "m"]]
        sc, ev = ["float", w, cast], []
        lit = rng.choice(["1.5", "0.25", "1e3", "3", "100.", ".5", "2.5e-1", "1_0.0_5", "12E2"])
        val = fractions.Fraction(lit.replace("_", ""))
        expr = [[lit, "o"]]
        if rng.random() < 0.3:
            expr = [["-", "o"]] + expr
            val = -val
        elif rng.random() < 0.3:
            d = rng.choice([3, 7, 8])
            expr = expr + [["/", "o"], [str(d), "o"]]
            val = val / d
        eev, sv = [], str(val)
    else:
        w = rng.choice([8, 16, 7, 64, 3, 32, rng.randrange(2, 65)])
        cast = rng.choice(["d", "s"]) if k == "int" else rng.choice(["d", "s", "t"])
        toks = ([["saturated", "m"]] if cast == "s" else [["truncated", "m"]] if cast == "t" else []) + [["%s%d" % (k, w), "m"]]
        sc, ev = [k, w, cast], []
        lo, hi = (0, 2 ** w - 1) if k == "uint" else (-(2 ** (w - 1)), 2 ** (w - 1) - 1)
        val = rng.choice([lo, hi, 0, 1, min(hi, 5), rng.randrange(lo, hi + 1), rng.randrange(max(lo, -50), min(hi, 50) + 1)])
        while forced and val == avoid:
            val = rng.randrange(max(lo, 0), min(hi, 300) + 1)
        ints = [n for n, x in scope.items() if type(x) is int and lo <= x <= hi]
        derived = None
        if ints and rng.random() < 0.4:
            # the initialiser is computed from an earlier constant of the same section
            n0 = rng.choice(ints)
            d = rng.randrange(0, 10)
            m = rng.choice([2, 3, 10, 1000])
            if rng.random() < 0.5 and lo <= scope[n0] * m <= hi:
                derived = (scope[n0] * m, [[n0, "o"], ["*", "o"], [int_lit(rng, m), "o"]])
            elif lo <= scope[n0] + d <= hi:
                derived = (scope[n0] + d, [[n0, "o"], ["+", "o"], [int_lit(rng, d), "o"]])
            if derived and forced and derived[0] == avoid:
                derived = None
        if derived:
            val = derived[0]
            expr, eev = derived[1], ["i"]
        elif val < 0:
            if val == lo and rng.random() < 0.5:
                expr, eev = [["-", "o"], ["(", "o"], ["2", "o"], ["**", "o"], [str(w - 1), "o"], [")", "o"]], []
            else:
                expr, eev = [["-", "o"], [int_lit(rng, -val), "o"]], []
        elif val == hi and val > 1 and rng.random() < 0.5:
            expr, eev = [["2", "o"], ["**", "o"], [str(w if k == "uint" else w - 1), "o"], ["-", "o"], ["1", "o"]], []
        else:
            expr, eev = int_expr(rng, val, scope)
        sv = str(val)
    toks = toks + [[name, "o"], ["=", "o"]] + expr
    st = {"toks": toks, "pre": ev + ["i"] + eev, "extra": 0,
          "act": {"k": "const", "ty": {"sc": sc, "arr": None}, "name": name, "val": sv}}
    return st, name, val


def gen_assert(rng, scope, allow_offset):
    r = rng.random()
    ints = [n for n, x in scope.items() if type(x) is int]
    if allow_offset and r < 0.2:
        toks = [["_offset_", "o"], [".", "o"], ["count", "o"], [">=", "o"], ["1", "o"]]
        pre = ["i", "o", "i"]
    elif ints and r < 0.5:
        n = rng.choice(ints)
        toks = [[n, "o"], ["==", "o"], [str(scope[n]) if scope[n] >= 0 else "-" + str(-scope[n]), "o"]]
        pre = ["i"]
    elif r < 0.7:
        toks, pre = [["true", "o"]], []
    elif r < 0.85:
        toks, pre = [["'x\ny'", "o"], ["!=", "o"], ['""', "o"]], []
    else:
        toks, pre = [["1", "o"], ["+", "o"], ["1", "o"], ["==", "o"], ["2", "o"]], []
    extra = sum(t.count("\n") for t, _ in toks)
    return {"toks": [["@", "n"], ["assert", "m"]] + toks, "pre": ["i"] + pre, "extra": extra,
            "act": {"k": "dir", "d": "assert", "g": ["b", True], "shown": "true"}}


def gen_print(rng, scope):
    r = rng.random()
    if r < 0.25:
        return {"toks": [["@", "n"], ["print", "o"]], "pre": ["i"], "extra": 0, "act": {"k": "dir", "d": "print", "g": None, "shown": ""}}
    if r < 0.5:
        s = rng.choice(["hello", "a\nb", "x y", "\n", "q\n\nr"])
        q = rng.choice("'\"")
        shown = repr(s)
        return {"toks": [["@", "n"], ["print", "m"], [q + s + q, "o"]], "pre": ["i"], "extra": s.count("\n"),
                "act": {"k": "dir", "d": "print", "g": "other", "shown": shown}}
    v = rng.randrange(0, 1000)
    et, eev = int_expr(rng, v, scope)
    return {"toks": [["@", "n"], ["print", "m"]] + et, "pre": ["i"] + eev, "extra": 0,
            "act": {"k": "dir", "d": "print", "g": ["i", v], "shown": str(v)}}


def directive(name, g=None, toks=None, pre=None):
    return {"toks": [["@", "n"], [name, "m" if toks else "o"]] + (toks or []), "pre": ["i"] + (pre or []), "extra": 0,
            "act": {"k": "dir", "d": name, "g": g, "shown": ""}}


COMMENTS = ["", " ", " doc", "doc", "  two blanks", " a # b", "#", " tail ", " x\ty", " é中", " @sealed", " uint8 z", " ---", "\t"]


def gen_comment(rng):
    r = rng.random()
    if r < 0.5:
        return rng.choice(COMMENTS)
    return rng.choice(["", " "]) + "".join(rng.choice("abc xyz_09#.") for _ in range(rng.randrange(0, 12)))


def gen_section(rng, response, tier, shadow=None, out_scope=None):
    """statements of one schema, in order.  shadow: integer constants of the request section {name: value}; the response
    re-declares some of them with other values (identifier lookup must not cross the service boundary)"""
    union = rng.random() < 0.3
    scope = {}
    used = set()
    shadow = dict(shadow or {})
    n = rng.choice([0, 1, 2, 2, 3, 4, 5, 6]) if tier == "quick" else rng.choice([0, 1, 2, 3, 4, 6, 9, 12])
    kinds = []
    for _ in range(n):
        kinds.append(rng.choice(["field", "field", "field", "const", "const", "pad"]))
    if union:
        kinds = [k for k in kinds if k != "pad"]
        while sum(1 for k in kinds if k == "field") < 2:
            kinds.insert(rng.randrange(0, len(kinds) + 1), "field")
    bound = 16
    varprod = 1
    nfields_left = sum(1 for k in kinds if k != "const")
    sts = []
    for k in kinds:
        if k == "field":
            toks, ty, ev, bits = gen_type(rng, scope, 300)
            name = fresh(rng, used, NAME_HEADS)
            sts.append({"toks": toks[:-1] + [[toks[-1][0], "m"]] + [[name, "o"]], "pre": ev + ["i"], "extra": 0,
                        "act": {"k": "field", "ty": ty, "name": name}})
            bound += bits + 8
            # cost guard for _offset_ (numerical expansion of the offset set): number of distinct lengths so far
            if ty["sc"][0] == "ref":
                varprod *= 70 if ty["arr"] is None else 10 ** 9
            elif ty["arr"] and ty["arr"][0] != "fix":
                varprod *= ty["arr"][1] + 1
            nfields_left -= 1
        elif k == "pad":
            w = rng.choice([1, 3, 7, 8, 16, 64, rng.randrange(1, 65)])
            sts.append({"toks": [["void%d" % w, "o"]], "pre": [], "extra": 0, "act": {"k": "pad", "ty": {"sc": ["void", w], "arr": None}}})
            bound += w
            nfields_left -= 1
        else:
            free = [n for n in shadow if n.lower() not in used]
            if free and rng.random() < 0.6:
                n0 = rng.choice(free)
                st, name, val = gen_const(rng, scope, used, name=n0, avoid=shadow[n0])
            else:
                st, name, val = gen_const(rng, scope, used)
            sts.append(st)
            scope[name] = val
        # asserts and prints in between
        while rng.random() < 0.2:
            ok_off = varprod <= 2000 and (not union or nfields_left == 0)
            sts.append(gen_assert(rng, dict(scope), ok_off) if rng.random() < 0.6 else gen_print(rng, dict(scope)))
    first_attr = next((i for i, s in enumerate(sts) if s["act"]["k"] in ("field", "pad", "const")), len(sts))
    last_attr = max([i for i, s in enumerate(sts) if s["act"]["k"] in ("field", "pad", "const")] + [-1])
    # serialization mode
    if rng.random() < 0.6:
        sts.insert(rng.randrange(0, len(sts) + 1), directive("sealed"))
    else:
        ext = (bound + 7) // 8 * 8 + 8 * rng.choice([0, 0, 1, 5, 100])
        mult = ext // 8
        r = rng.random()
        if r < 0.4:
            toks = [[str(ext), "o"]]
        elif r < 0.8:
            toks = [[str(mult), "o"], ["*", "o"], ["8", "o"]]
        else:
            toks = [["8", "o"], ["*", "o"], ["(", "o"], [str(mult - 1), "o"], ["+", "o"], ["1", "o"], [")", "o"]]
        d = directive("extent", ["i", ext], toks)
        sts.insert(rng.randrange(last_attr + 1, len(sts) + 1), d)
    first_attr = next((i for i, s in enumerate(sts) if s["act"]["k"] in ("field", "pad", "const")), len(sts))
    if union:
        sts.insert(rng.randrange(0, first_attr + 1), directive("union"))
        first_attr += 1
    if not response and rng.random() < 0.25:
        sts.insert(rng.randrange(0, first_attr + 1), directive("deprecated"))
    if out_scope is not None:
        out_scope.update({n: x for n, x in scope.items() if type(x) is int})
    return sts


def weave(rng, sts, lines):
    """put statements on lines, with filler lines around"""
    def filler():
        while rng.random() < 0.45:
            r = rng.random()
            if r < 0.4:
                lines.append({"s": None, "b": rng.random() < 0.3, "c": gen_comment(rng)})
            elif r < 0.7:
                lines.append({"s": None, "b": False, "c": None})
            else:
                lines.append({"s": None, "b": True, "c": None})
    filler()
    for st in sts:
        lines.append({"s": st, "b": rng.random() < 0.3, "c": gen_comment(rng) if rng.random() < 0.4 else None})
        filler()


def gen_case(rng, tier):
    lines = []
    req_scope = {}
    weave(rng, gen_section(rng, False, tier, out_scope=req_scope), lines)
    if rng.random() < 0.3:
        marker = {"toks": [[rng.choice(["---", "---", "----", "-" * 30]), "o"]], "pre": [], "extra": 0, "act": {"k": "marker"}}
        lines.append({"s": marker, "b": rng.random() < 0.3, "c": gen_comment(rng) if rng.random() < 0.4 else None})
        weave(rng, gen_section(rng, True, tier, shadow=req_scope), lines)
    if not lines:
        lines.append({"s": None, "b": False, "c": None})
    return {"lines": lines, "seed": rng.randrange(0, 2 ** 32)}


def L(stmt=None, c=None, b=False):
    return {"s": stmt, "b": b, "c": c}


def fld(name, ty="uint8"):
    return {"toks": [[ty, "m"], [name, "o"]], "pre": ["i"], "extra": 0,
            "act": {"k": "field", "ty": {"sc": ["uint", 8, "d"], "arr": None}, "name": name}}


def targeted():
    """the shapes named in the property: every way a text can end, comment/blank shapes around the queued attribute"""
    sealed = directive("sealed")
    out = []
    out.append([L(sealed), L(fld("a"))])                                  # F1: last line is an attribute, no final newline
    out.append([L(sealed), L(fld("a"), c=" doc")])
    out.append([L(sealed), L(fld("a")), L(c=" trailing doc")])            # ... followed only by a comment line
    out.append([L(sealed), L(fld("a")), L(b=True), L(c=" after blanks")])
    out.append([L(sealed), L(fld("a")), L(), L(c=" orphan")])
    out.append([L(c=" only a header"), L(sealed)])
    out.append([L(c=" header"), L(c=" more"), L(), L(c=" not header"), L(fld("a")), L(sealed)])
    out.append([L(), L(c=" not a header"), L(fld("a")), L(sealed)])
    out.append([L(b=True), L(c=" header after blanks-only line"), L(fld("a")), L(sealed)])
    out.append([L(fld("a"), c=""), L(c=""), L(c=" x"), L(fld("b")), L(c=""), L(c=""), L(sealed)])
    out.append([L(fld("a"), c=" a"), L(c=""), L(c=" c"), L(sealed, c=" lost"), L(c=" lost too")])
    marker = {"toks": [["---", "o"]], "pre": [], "extra": 0, "act": {"k": "marker"}}
    out.append([L(fld("a"), c=" a"), L(c=" a2"), L(sealed), L(marker, c=" rh1"), L(c=" rh2"), L(fld("a"), c=" ra"), L(sealed)])
    out.append([L(sealed), L(marker), L(sealed)])
    out.append([L(directive("deprecated"), c=" x"), L(directive("union")), L(fld("a")), L(fld("b")),
                L(directive("extent", ["i", 64], [["64", "o"]]))])
    out.append([L(sealed)])
    # seeded C03-r2-2: the response re-declares a constant of the request with another value and uses it in an initialiser,
    # an array capacity and an assertion - identifier lookup must not cross the service boundary
    def cst(ty, w, name, toks, val, pre):
        return {"toks": [[ty, "m"], [name, "o"], ["=", "o"]] + toks, "pre": ["i"] + pre, "extra": 0,
                "act": {"k": "const", "ty": {"sc": ["uint", w, "d"], "arr": None}, "name": name, "val": str(val)}}
    arr = {"toks": [["uint8", "o"], ["[", "o"], ["<=", "o"], ["TIMEOUT_SEC", "o"], ["]", "m"], ["data", "o"]], "pre": ["i", "i"], "extra": 0,
           "act": {"k": "field", "ty": {"sc": ["uint", 8, "d"], "arr": ["incl", 30]}, "name": "data"}}
    chk = {"toks": [["@", "n"], ["assert", "m"], ["TIMEOUT_SEC", "o"], ["==", "o"], ["30", "o"]], "pre": ["i", "i"], "extra": 0,
           "act": {"k": "dir", "d": "assert", "g": ["b", True], "shown": "true"}}
    out.append([L(cst("uint8", 8, "TIMEOUT_SEC", [["2", "o"]], 2, [])), L(sealed), L(marker),
                L(cst("uint8", 8, "TIMEOUT_SEC", [["30", "o"]], 30, [])),
                L(cst("uint16", 16, "TIMEOUT_MSEC", [["TIMEOUT_SEC", "o"], ["*", "o"], ["1000", "o"]], 30000, ["i"])),
                L(arr), L(chk), L(sealed)])
    # seeded C03-r3-1: arrays (and a plain field) of a composite that an earlier read of the same process saw in another edition
    def ref(spelling, arr_toks, arr, name):
        return {"toks": [[spelling, "o"]] + arr_toks + [[name, "o"]], "pre": ["i", "i", "d1", "i"], "extra": 0,
                "act": {"k": "field", "ty": {"sc": ["ref", "ns.Near", 1, 0], "arr": arr}, "name": name}}
    out.append([L(ref("ns.Near.1.0", [["[", "o"], ["<=", "o"], ["4", "o"], ["]", "m"]], ["incl", 4], "items")),
                L(ref("ns.Near.1.0", [["[", "o"], ["2", "o"], ["]", "m"]], ["fix", 2], "pair")),
                L(ref("ns.Near.1.0", [["[", "o"], ["<", "o"], ["4", "o"], ["]", "m"]], ["excl", 4], "few")),
                L({"toks": [["ns.Near.1.0", "m"], ["single", "o"]], "pre": ["i", "i", "d1", "i"], "extra": 0,
                   "act": {"k": "field", "ty": {"sc": ["ref", "ns.Near", 1, 0], "arr": None}, "name": "single"}}),
                L(sealed)])
    return [{"lines": ls, "seed": 7 + i} for i, ls in enumerate(out)]


def corpus():
    import glob
    import json
    d = os.path.join(os.path.dirname(os.path.dirname(os.path.dirname(os.path.abspath(__file__)))), "corpus", ID)
    out = []
    for p in sorted(glob.glob(os.path.join(d, "*.json"))):
        c = json.load(open(p))
        c.pop("why", None)
        out.append(c)
    return out


def generate(rng, tier):
    cases = corpus()
    streams = ["corpus"] * len(cases)
    t = targeted()
    cases += t
    streams += ["targeted"] * len(t)
    n = 1000 if tier == "quick" else 12000
    for _ in range(n):
        cases.append(gen_case(rng, tier))
        streams.append("random")
    return cases, streams


# ----------------------------------------------------------------------------------------------------------------
# rendering

ENDINGS = ["", "\n", "\r\n", "\n\n", "  ", "\n \t", "\n\n\n", " \n", "\t\r\n\r\n", "\n   \n"]


def render_stmt(st, rng, canonical):
    out = []
    toks = st["toks"]
    for i, (t, g) in enumerate(toks):
        out.append(t)
        if i + 1 < len(toks):
            if g == "m":
                out.append(" " if canonical else rng.choice(MAND))
            elif g == "o":
                out.append("" if canonical else rng.choice(OPT))
    return "".join(out)


def render_line(ln, rng, canonical):
    s = ""
    if ln["s"] is not None:
        s = render_stmt(ln["s"], rng, canonical)
        if ln["c"] is not None:
            s += (" " if canonical else rng.choice(["", " ", "  ", "\t", " \t"])) + "#" + ln["c"]
        elif not canonical:
            s += rng.choice(["", "", " ", "\t ", "   "])
    elif ln["c"] is not None:
        s = ("" if canonical or not ln["b"] else rng.choice([" ", "\t", "  "])) + "#" + ln["c"]
        if not canonical and not ln["b"] and rng.random() < 0.3:
            s = rng.choice([" ", "\t"]) + s
    elif ln["b"]:
        s = " " if canonical else rng.choice([" ", "\t", "   ", " \t "])
    return s


def render_text(lines, rng, canonical, eol, ending):
    parts = [render_line(ln, rng, canonical) for ln in lines]
    if eol == "mixed":
        text = ""
        for i, p in enumerate(parts):
            text += p + (rng.choice(["\n", "\r\n"]) if i + 1 < len(parts) else "")
    else:
        text = eol.join(parts)
    return text + ending


def variants(case):
    """[(text, docs_preserved)] - variant 0 is the canonical rendering of the abstract lines"""
    import random
    rng = random.Random(case["seed"])
    lines = case["lines"]
    out = [(render_text(lines, rng, True, "\n", ""), True)]

    def fit(ending, ls):
        # blanks directly after a comment would belong to the comment: not a formatting change
        return ending.lstrip(" \t") if ls[-1]["c"] is not None else ending

    for e in ENDINGS[1:]:
        e = fit(e, lines)
        out.append((render_text(lines, rng, rng.random() < 0.5, rng.choice(["\n", "\r\n", "mixed"]), e), True))
    # blanks-only lines inserted anywhere: full model unchanged
    ls = list(lines)
    for _ in range(rng.randrange(1, 4)):
        ls.insert(rng.randrange(0, len(ls) + 1), {"s": None, "b": True, "c": None})
    out.append((render_text(ls, rng, False, "\n", fit(rng.choice(ENDINGS), ls)), True))
    # extra comment lines and empty lines: model unchanged modulo docs
    for _ in range(2):
        ls = list(lines)
        for _ in range(rng.randrange(1, 4)):
            ins = {"s": None, "b": False, "c": None} if rng.random() < 0.5 else {"s": None, "b": rng.random() < 0.3, "c": gen_comment(rng)}
            ls.insert(rng.randrange(0, len(ls) + 1), ins)
        out.append((render_text(ls, rng, False, rng.choice(["\n", "\r\n"]), fit(rng.choice(ENDINGS), ls)), False))
    # comments appended to statement lines that had none: modulo docs
    ls = [dict(ln, c=gen_comment(rng)) if ln["s"] is not None and ln["c"] is None and rng.random() < 0.5 else ln for ln in lines]
    out.append((render_text(ls, rng, False, "\n", fit(rng.choice(ENDINGS), ls)), False))
    return out


# ----------------------------------------------------------------------------------------------------------------
# implementation side


def observe_sect(t):
    import pydsdl
    inner = t.inner_type
    return {
        "union": isinstance(inner, pydsdl.UnionType),
        "extent": t.extent if isinstance(t, pydsdl.DelimitedType) else None,
        "bits": t.extent,
        "doc": t.doc,
        "fields": [[str(f.data_type), f.name, f.doc] for f in t.fields],
        "consts": [[str(c.data_type), c.name, str(c.value), c.doc] for c in t.constants],
        "attrs": [a.name for a in t.attributes],
        "delimited": isinstance(t, pydsdl.DelimitedType),
        "structure": isinstance(inner, pydsdl.StructureType),
    }


def observe(t):
    import pydsdl
    if isinstance(t, pydsdl.ServiceType):
        return {"service": True, "deprecated": t.deprecated, "doc": t.doc, "req": observe_sect(t.request_type), "resp": observe_sect(t.response_type),
                "dep_consistent": t.request_type.deprecated == t.deprecated == t.response_type.deprecated}
    return {"service": False, "deprecated": t.deprecated, "doc": t.doc, "req": observe_sect(t), "resp": None, "dep_consistent": True}


def strip_docs(o):
    def s(x):
        if x is None:
            return None
        return dict(x, doc="", fields=[[a, b, ""] for a, b, _ in x["fields"]], consts=[[a, b, c, ""] for a, b, c, _ in x["consts"]])
    return dict(o, doc="", req=s(o["req"]), resp=s(o["resp"]))


def doc_lines(doc):
    return ["#" + (" " + d if d else "") for d in doc.split("\n")] if doc else []


def canonical_text(t):
    """render a composite back to canonical DSDL (fields, then constants, as CompositeType.attributes lists them)"""
    import pydsdl

    def sect(c, deprecated, first):
        out = list(doc_lines(c.doc))
        if deprecated and first:
            out.append("@deprecated")
        if isinstance(c.inner_type, pydsdl.UnionType):
            out.append("@union")
        for a in c.attributes:
            d = a.doc.split("\n") if a.doc else []
            out.append(str(a) + ((" #" + (" " + d[0] if d[0] else "")) if d else ""))
            out.extend("#" + (" " + x if x else "") for x in d[1:])
        out.append("@extent %d" % c.extent if isinstance(c, pydsdl.DelimitedType) else "@sealed")
        return out

    if isinstance(t, pydsdl.ServiceType):
        lines = sect(t.request_type, t.deprecated, True) + ["---"] + sect(t.response_type, t.deprecated, False)
    else:
        lines = sect(t, t.deprecated, True)
    return "\n".join(lines) + "\n"


def write_ns(root, files):
    for rel, text in files.items():
        p = os.path.join(root, rel)
        os.makedirs(os.path.dirname(p), exist_ok=True)
        with open(p, "wb") as f:
            f.write(text.encode("utf-8"))


def describe_deep(t, root):
    return [str(t), type(t).__name__, t.doc, [[str(f), f.doc] for f in t.fields], [[str(c), c.doc] for c in t.constants],
            os.path.relpath(str(t.source_file_path), root)]


def deep_check(types, root, ed):
    """implementation alone: every composite nested in a field (directly or as array element) of every returned type is the
    composite that THIS read produced for that name and version - same fields, constants, docs and source file - and the
    dependencies mirror the edition that is on disk now"""
    import pydsdl
    direct = {(t.full_name, t.version.major, t.version.minor): t for t in types}
    for t in types:
        for sec in ([t.request_type, t.response_type] if isinstance(t, pydsdl.ServiceType) else [t]):
            for f in sec.fields:
                ty = f.data_type
                where = "element type of the array field" if isinstance(ty, pydsdl.ArrayType) else "type of the field"
                el = ty.element_type if isinstance(ty, pydsdl.ArrayType) else ty
                if not isinstance(el, pydsdl.CompositeType):
                    continue
                d = direct.get((el.full_name, el.version.major, el.version.minor))
                if d is not None and describe_deep(el, root) != describe_deep(d, root):
                    return "the %s %r of %s is %r, but the definition read in this call is %r" % (
                        where, str(f), sec.full_name, describe_deep(el, root), describe_deep(d, root))
    for rel, text in deps(ed).items():
        name = rel[:-len(".dsdl")].replace("/", ".")
        d = [t for t in types if "%s.%d.%d" % (t.full_name, t.version.major, t.version.minor) == name]
        want = text.split("\n")[0][2:]
        if not d or d[0].doc != want:
            return "the dependency %s does not mirror its source: doc %r, expected %r" % (name, d[0].doc if d else None, want)
    return None


def run_impl(cases):
    import shutil
    import pydsdl

    scratch = os.environ["VERIF_SCRATCH"]
    out = []
    for ci, case in enumerate(cases):
        root = os.path.join(scratch, "c03_%d_%d" % (os.getpid(), ci))
        try:
            vs = variants(case)
            prev_ed, ed = editions(case)
            # history: the same definition is first read in another directory against another edition of the dependencies
            # (same names, versions, kinds and sizes; other field names, constant values, comments)
            if any(ln["s"] is not None and ln["s"]["act"].get("ty") and ln["s"]["act"]["ty"]["sc"][0] == "ref" for ln in case["lines"]):
                prev_root = root + "_prev"
                try:
                    files = deps(prev_ed)
                    files["ns/V00.1.0.dsdl"] = vs[0][0]
                    write_ns(prev_root, files)
                    pydsdl.read_namespace(os.path.join(prev_root, NS), [])
                finally:
                    shutil.rmtree(prev_root, ignore_errors=True)
            files = deps(ed)
            for k, (text, _) in enumerate(vs):
                files["ns/V%02d.1.0.dsdl" % k] = text
            write_ns(root, files)
            nsdir = os.path.join(root, NS)
            res = {}
            deep = None
            try:
                types = pydsdl.read_namespace(nsdir, [])
                for t in types:
                    if t.short_name.startswith("V") and len(t.short_name) == 3:
                        res[int(t.short_name[1:])] = observe(t)
                deep = deep_check(types, root, ed)
            except Exception:  # pylint: disable=broad-except
                res = {}
                for k in range(len(vs)):
                    try:
                        direct, _ = pydsdl.read_files([os.path.join(nsdir, "V%02d.1.0.dsdl" % k)], [nsdir], [])
                        res[k] = observe(direct[0])
                    except pydsdl.InvalidDefinitionError as ex:
                        res[k] = {"error": "CInvalidDefinition", "line": ex.line}
                    except Exception as ex:  # pylint: disable=broad-except
                        res[k] = {"error": "CInternal" if isinstance(ex, pydsdl.InternalError) else "COther", "text": type(ex).__name__}
            base = res.get(0)
            fail = None
            if base is None or "error" in base:
                out.append({"error": (base or {}).get("error", "COther"), "pred_fail": "the canonical rendering of a valid definition is rejected: %r" % (base,)})
                continue
            for k, (text, docs) in enumerate(vs):
                o = res.get(k)
                if o is None or "error" in o:
                    fail = "variant %d is rejected (%r) while the canonical rendering is accepted; text=%r" % (k, o, text)
                    break
                if (o != base) if docs else (strip_docs(o) != strip_docs(base)):
                    fail = "variant %d (%s) yields a different model; text=%r canonical=%r" % (k, "same docs expected" if docs else "modulo docs", text, vs[0][0])
                    break
            if fail is None and deep is not None:
                fail = deep
            # the grammar's own \r?\n rule (files are read with universal newlines, so it is reached only through the parser API):
            # the event stream of the parser, line numbers included, must not depend on the line terminator
            if fail is None:
                lf = vs[0][0]
                if trace(lf) != trace(lf.replace("\n", "\r\n")):
                    fail = "the parser's event stream differs between LF and CRLF for %r" % lf
            # implementation-side consistency of the accessors
            if fail is None:
                for sec in (base["req"], base["resp"]):
                    if sec is not None and sorted(sec["attrs"]) != sorted([f[1] for f in sec["fields"]] + [c[1] for c in sec["consts"]]):
                        fail = "attributes is not the union of fields and constants"
                if not base["dep_consistent"]:
                    fail = "deprecation flag of request/response differs from the service"
            # render the returned model back and read it again
            if fail is None:
                shutil.rmtree(root, ignore_errors=True)
                files = deps(ed)
                direct0 = None
                files["ns/V00.1.0.dsdl"] = vs[0][0]
                write_ns(root, files)
                direct0, _ = pydsdl.read_files([os.path.join(nsdir, "V00.1.0.dsdl")], [nsdir], [])
                back = canonical_text(direct0[0])
                write_ns(root, {"ns/V00.1.0.dsdl": back})
                try:
                    direct1, _ = pydsdl.read_files([os.path.join(nsdir, "V00.1.0.dsdl")], [nsdir], [])
                    again = observe(direct1[0])
                    if again != base or not (direct1[0] == direct0[0]):
                        fail = "reading the canonical rendering of the returned model yields a different model; rendering=%r" % back
                except pydsdl.FrontendError as ex:
                    fail = "the canonical rendering of the returned model is rejected (%s); rendering=%r" % (type(ex).__name__, back)
            o = {"obs": base}
            if fail:
                o["pred_fail"] = fail
            out.append(o)
        except Exception as ex:  # pylint: disable=broad-except
            out.append({"error": "COther", "pred_fail": "harness/implementation failure: %s: %s" % (type(ex).__name__, str(ex)[:300])})
        finally:
            shutil.rmtree(root, ignore_errors=True)
    return out


# ----------------------------------------------------------------------------------------------------------------
# emission

CAST = {"d": "CDefault", "s": "CSat", "t": "CTrunc"}


def emit_ty(ty):
    sc = ty["sc"]
    k = sc[0]
    if k == "uint":
        s = "(XUInt %s %s)" % (G.z(sc[1]), CAST[sc[2]])
    elif k == "int":
        s = "(XSInt %s %s)" % (G.z(sc[1]), CAST[sc[2]])
    elif k == "float":
        s = "(XFloat %s %s)" % (G.z(sc[1]), CAST[sc[2]])
    elif k == "void":
        s = "(XVoid %s)" % G.z(sc[1])
    elif k == "ref":
        s = "(XRef %s %s %s)" % (G.codepoints(sc[1]), G.z(sc[2]), G.z(sc[3]))
    else:
        s = {"bool": "XBool", "byte": "XByte", "utf8": "XUtf8"}[k]
    arr = ty["arr"]
    a = "RNone" if arr is None else "(%s %s)" % ({"fix": "RFix", "incl": "RIncl", "excl": "RExcl"}[arr[0]], G.z(arr[1]))
    return "(Tyx %s %s)" % (s, a)


def emit_pre(p):
    if p == "i":
        return "PIdent"
    if p == "o":
        return "POffset"
    if p == "x":
        return "PRaise"
    if p[0] == "d":
        return "(PRead %s)" % G.z(int(p[1:]))
    raise ValueError(p)


DK = {"print": "KPrint", "assert": "KAssert", "extent": "KExtent", "sealed": "KSealed", "union": "KUnion", "deprecated": "KDeprecated"}


def emit_darg(g):
    if g is None:
        return "GNone"
    if g == "other":
        return "GOther"
    if g[0] == "b":
        return "(GBool %s)" % G.b(g[1])
    return "(GInt %s)" % G.z(g[1])


def emit_act(a, ty_fn, val_fn):
    k = a["k"]
    if k == "field":
        return "(XAttr (AField %s %s) %s)" % (ty_fn(a["ty"]), G.codepoints(a["name"]), G.b(a.get("cf", False)))
    if k == "pad":
        return "(XAttr (APad %s) %s)" % (ty_fn(a["ty"]), G.b(a.get("cf", False)))
    if k == "const":
        return "(XAttr (AConst %s %s %s) %s)" % (ty_fn(a["ty"]), G.codepoints(a["name"]), val_fn(a["val"]), G.b(a.get("cf", False)))
    if k == "dir":
        return "(XDir %s %s %s)" % (DK.get(a["d"], "KUnknown"), emit_darg(a["g"]), G.codepoints(a["shown"]))
    return "XMarker"


def emit_line(ln, ty_fn=emit_ty, val_fn=G.codepoints):
    st = ln["s"]
    if st is None:
        s, extra = "None", 0
    else:
        s = "(Some (Stmt %s %s))" % (G.lst([emit_pre(p) for p in st["pre"]]), emit_act(st["act"], ty_fn, val_fn))
        extra = st["extra"]
    return "(Line %s %s %s %s)" % (s, G.b(ln["b"]), G.opt(None if ln["c"] is None else G.codepoints(ln["c"])), G.z(extra))


def emit_sect(s):
    return "(OSect %s %s %s %s %s %s)" % (
        G.b(s["union"]), G.opt(None if s["extent"] is None else G.z(s["extent"])), G.codepoints(s["doc"]),
        G.lst(["(%s, %s, %s)" % tuple(G.codepoints(x) for x in f) for f in s["fields"]]),
        G.lst(["(%s, %s, %s, %s)" % tuple(G.codepoints(x) for x in c) for c in s["consts"]]),
        G.lst([G.codepoints(x) for x in s["attrs"]]))


def emit(case, obs):
    lines = G.lst([emit_line(ln) for ln in case["lines"]])
    if "obs" not in obs:
        return "(%s, IErr)" % lines
    o = obs["obs"]
    return "(%s, IOk (OObs %s %s %s))" % (lines, G.b(o["deprecated"]), emit_sect(o["req"]), G.opt(None if o["resp"] is None else emit_sect(o["resp"])))


def model_eval(case, obs):
    return "Eval vm_compute in (map (fun c => C03.run_lines (fst c)) cases).\n"


def nontrivial(case, obs):
    attrs = sum(1 for ln in case["lines"] if ln["s"] is not None and ln["s"]["act"]["k"] in ("field", "pad", "const"))
    return attrs >= 2 and any(ln["c"] is not None for ln in case["lines"])


def describe(case, obs):
    keys = ["lines=%d" % min(len(case["lines"]) // 5 * 5, 40)]
    for ln in case["lines"]:
        st = ln["s"]
        if st is None:
            keys.append("line:" + ("comment" if ln["c"] is not None else "blanks" if ln["b"] else "empty"))
            continue
        a = st["act"]
        keys.append("stmt:" + (a["k"] if a["k"] != "dir" else "@" + a["d"]) + ("+comment" if ln["c"] is not None else ""))
        if a["k"] in ("field", "const", "pad"):
            ty = a["ty"]
            keys.append("type:" + ty["sc"][0] + ("" if len(ty["sc"]) < 3 or ty["sc"][0] == "ref" else ":" + ty["sc"][2]) + ("" if ty["arr"] is None else "[" + ty["arr"][0] + "]"))
        if st["extra"]:
            keys.append("multi-line-literal")
    last = case["lines"][-1]
    keys.append("last-line:" + ("statement" if last["s"] is not None else "comment" if last["c"] is not None else "blanks" if last["b"] else "empty"))
    if "obs" in obs:
        o = obs["obs"]
        keys.append("kind:" + ("service" if o["service"] else "message") + (":union" if o["req"]["union"] else ":structure") + (":delimited" if o["req"]["delimited"] else ":sealed"))
    if "pred_fail" in obs:
        keys.append("pred_fail")
    return keys


def shrink(case):
    """smaller VALID definitions only (a replay must fail for the defect, not because shrinking broke the definition):
    a constant that is referred to elsewhere stays, unions keep their variants"""
    lines = case["lines"]
    sect = []            # section number of every line
    k = 0
    for ln in lines:
        sect.append(k)
        if ln["s"] is not None and ln["s"]["act"]["k"] == "marker":
            k += 1
    unions = {sect[i] for i, ln in enumerate(lines) if ln["s"] is not None and ln["s"]["act"]["k"] == "dir" and ln["s"]["act"]["d"] == "union"}
    for i in range(len(lines)):
        st = lines[i]["s"]
        if st is None:
            continue
        a = st["act"]
        if a["k"] == "const":
            if any(t == a["name"] for j, ln in enumerate(lines) if j != i and ln["s"] is not None for t, _ in ln["s"]["toks"]):
                continue
        elif a["k"] == "field":
            if sect[i] in unions:
                continue
        elif not (a["k"] == "pad" or (a["k"] == "dir" and a["d"] in ("print", "assert"))):
            continue
        yield {"lines": lines[:i] + lines[i + 1:], "seed": case["seed"]}
    for i in range(len(lines)):
        if lines[i]["s"] is None and len(lines) > 1:
            yield {"lines": lines[:i] + lines[i + 1:], "seed": case["seed"]}
    for i in range(len(lines)):
        if lines[i]["c"] is not None:
            yield {"lines": lines[:i] + [dict(lines[i], c=None)] + lines[i + 1:], "seed": case["seed"]}


LEVEL_TEXT = ("Machine-checked theorems (Coq, closed under the global context) about the statement-stream machine modelled after "
              "_parser._ParseTreeProcessor and DataTypeBuilder: whenever it accepts, the model it returns is exactly the declaratively "
              "defined content of the text (attribute statements in order, once, with the docs that doc_of assigns; kind, flags and "
              "sections from the directives and the marker); a final line feed, blanks-only lines and blanks never change it; "
              "extra comment/empty lines change docs only; the canonical rendering of a model reads back as that model. The machine "
              "is tied to /repo by comparing, inside Coq, its prediction with pydsdl's result on generated definitions; that all "
              "formatting variants of one definition yield the same composite is checked on the implementation alone.")
LEVEL_NOTE = ("Trusted: Coq kernel + vm_compute; the PEG engine and the tokenisation of lines are exercised only through the implementation; "
              "payloads (types, values) are abstract in the theorems, their normal form is compared by the correspondence.")
TECHNIQUE = "Coq proof by simulation invariant over the line machine; vm_compute correspondence on generated definitions x formatting variants"
