"""C13 - bad input yields InvalidDefinitionError with a path, never a crash/InternalError.

Streams: (1) structured expression statements with planted failure modes (outcome class predicted by the Coq model),
(2) token-level mutations of a valid namespace, (3) character noise, (4) control characters / line endings,
(5) nesting and length, (6) arbitrary file and directory names.  (2)-(6) are implementation-only: the Coq case records
the outcome class, which must be 'models returned' or 'InvalidDefinitionError' (with .path inside the scratch namespace)."""
import os
import re
import gallina as G
from props import c12 as V
from props import c04 as E

ID = "C13"
PROPS_FILE = "Props/C13.v"
COQ_IMPORTS = ("From Coq Require Import QArith.\nFrom PV Require Import Expr.Values Expr.Syntax Expr.Sem Expr.Eval Expr.Grammar "
               "Const.Model Outcome.Model Check.C04 Check.C13.\nOpen Scope Z_scope.")
CASE_TYPE = "C13.case"
CHECK_FN = "C13.check_case"
SHARD = 150
RULE = ("a case is a scratch namespace directory (files and directories with given names and texts) read with read_namespace "
        "(a quarter of the mutated texts and half of the name cases with read_files on the listed files); "
        "observable: 'models returned' or the coarse exception class, plus whether .path of an InvalidDefinitionError is set, exists "
        "and lies inside the directories read by THIS call (every case gets a directory never used before in the process), and - "
        "where the case plants one defect in a known file (dependency-finalize stream) - whether it names exactly that file; a "
        "sample of the cases of each process is read a second time from another directory and must be judged the same way; structured cases (one expression statement with planted failure modes) are "
        "additionally compared with the outcome class the Coq model predicts; non-trivial = the text differs from the valid "
        "corpus / contains a planted failure mode; distinct = by hash of the canonical case")
THEOREMS_NOTE = ("C13_no_internal_partial/C13_arith_handlers/C13_literal_handlers/C13_funnel cover the modelled layers; arbitrary "
                 "text, recursion depth and file names are implementation-only search (C13_unmodelled_leaks_refuted states how "
                 "their failures surface)")
TRUSTED = ["for streams 2-6 there is no model: the verdict is the predicate 'model or InvalidDefinitionError with a path inside the namespace' evaluated on the implementation"]
ASSUMPTIONS = ["partial by nature: the PEG engine, CPython limits and the file system are not modelled",
               "cost guard: no '**' in mutated texts, per-case alarm of 5 s (a timed-out case is counted, never a violation)",
               "file names are limited to what the scratch file system accepts (no '/', no NUL, <= 255 bytes per component)"]
EXPLANATION = ("theorems: only InvalidDefinitionError leaves the modelled expression layers and the funnel attaches the path; "
               "implementation side: thousands of hostile texts and names must end as a model or InvalidDefinitionError with path")
LEVEL_TEXT = ("Machine-checked theorems (Coq, closed under the global context) about an explicit model of Python-level failure "
              "modes: whatever binary floating point does, only InvalidOperandError leaves Rational._generic_arithmetic; only "
              "DSDLSyntaxError leaves the string-literal decoder; the parse/read funnel maps exactly InvalidDefinitionError and "
              "ParseError to InvalidDefinitionError-with-path and everything else to InternalError. PARTIAL: arbitrary text, "
              "recursion limits and file names are covered by implementation-side search only.")
LEVEL_NOTE = "Proof for the modelled layers only; the hostile-input part is a search, not a proof."
TECHNIQUE = "Coq proof (case analysis over failure modes and funnel stages) + implementation-side hostile input search"
COQC_TIMEOUT = 1500

# ----------------------------------------------------------------------------------------------------------------
# the valid corpus (read OK on the unchanged tree; checked by the first targeted case)

NS = {
    "Base.1.0.dsdl": "# Header comment\n# second line\n\nuint8 VALUE = 3\nfloat32 RATIO = 1.5\nbool FLAG = true  # trailing\nuint8 CH = 'a'\n"
                     "int64 BIG = 0x7fff_ffff + 1\n\nuint8 a\nint16[3] b\ntruncated uint12[<=4] c\nbool[<8] d\nvoid3\nfloat64 e   # doc\n"
                     "@assert (_offset_ % 4).count == 4 && _offset_.min == 139\n@assert VALUE * 2 == 6 && FLAG || !FLAG\n"
                     "@print {VALUE, 1/2}.max + RATIO\n@assert \"a\\u0041\" + 'b' != ''\n@sealed\n",
    "U.1.0.dsdl": "@union\nuint8 a\nBase.1.0 b\nutf8[<=10] s\nbyte[4] raw\n@extent 64 * 8\n",
    "Svc.1.0.dsdl": "uint8 REQ_CONST = 1\nBase.1.0 x\n@extent 1024\n---\n# response\nU.1.0[<=2] ys\nbool ok\n@sealed\n",
    "sub/Deep.1.2.dsdl": "@deprecated\nns.Base.1.0[2] items\nns.U.1.0 u\nsaturated float16 h\n@assert ns.Base.1.0.VALUE == 3\n"
                         "@assert ns.U.1.0._extent_ >= 8\n@extent 8 * (32 + ns.Base.1.0._bit_length_.max)\n",
    "7000.Port.1.0.dsdl": "uint64 t\n@sealed\n",
    "sub/Deep.1.1.dsdl": "@deprecated\nuint8 x\n@extent 1856\n",
}
SEALED = "@sealed\n"

TOKEN_RE = re.compile(r"\r?\n|[ \t]+|#[^\n]*|'[^'\n]*'|\"[^\"\n]*\"|[A-Za-z_][A-Za-z0-9_]*|\d+(?:\.\d+)?|<=|>=|==|!=|\|\||&&|---+|.", re.S)

POOL = ["@", "@@", "union", "extent", "sealed", "deprecated", "print", "assert", "---", "--", "----", "[", "]", "[<=", "<", "<=", "(", ")", "{", "}",
        ",", ".", "..", "=", "==", "'", '"', "\\", "#", "0", "1", "-1", "2", "8", "256", "65", "1.0", "1e3", "0x", "0b2", "1_", "_1", "true", "false",
        "bool", "void0", "void8", "void65", "uint0", "uint8", "uint65", "int1", "int64", "float8", "float32", "utf8", "byte", "truncated", "saturated",
        "Base.1.0", "Base.1", "ns.Base.1.0", "ns.Base.9.9", "Svc.1.0", "ns.Svc.1.0", "U.1.0", "ns.sub.Deep.1.2", "sub.Deep.1.2", "Port.1.0", "_offset_",
        "_extent_", "_bit_length_", "min", "max", "count", "%", "/", "*", "+", "-", "!", "|", "^", "&", "||", "&&", "\t", " ", "\n", "\r\n", "\r",
        "void8[2]", "void4[<=3]", "void1[<2] v", "{uint8, uint16}.min", "{Base.1.0, U.1.0}.max", "{float32, float64}", ".min", ".max", ".count", "\xe9", "\x00", "\x0c", "\u2028", "'\\u12'", "'\\U00110000'", "'\\ud800'", "'a", "X", "x", "a", "VALUE", "value", "Request", "Response",
        "Svc.1.0._extent_", "Svc.1.0._bit_length_", "Svc.1.0.REQ_CONST", "Svc.1.0 == Svc.1.0", "Svc.1.0[2]", "Svc.1.0.Request", "1/0", "{}", "{1, true}",
        "{1}.min.min", "0.0", "1 % 0", "'' + 1", "uint8[1]", "uint8 == uint8", "bool.x", "1e-400", "1e400"]

NOISE_ALPHABETS = [
    "abcxyzABC_0189 \t\n",
    "@#[]<>=(){}.,'\"\\+-*/%!|^&~`$?:;",
    "".join(chr(c) for c in list(range(0, 32)) + [127]),
    "\xa0\xe9\xdf\u0130\u212a\u0660\u2028\u2029\ufeff\u200b\u202e\U0001f600\uffff\u0301",
]


def no_pow(s):
    """Cost guard: no exponentiation in mutated texts."""
    while "**" in s:
        s = s.replace("**", "* *")
    return s


def mutate_tokens(rng, text):
    toks = TOKEN_RE.findall(text)
    for _ in range(rng.choice([1, 1, 1, 2, 2, 3])):
        if not toks:
            break
        i = rng.randrange(len(toks))
        k = rng.random()
        if k < 0.25:
            del toks[i]
        elif k < 0.45:
            toks.insert(i, toks[i])
        elif k < 0.65:
            j = min(len(toks) - 1, i + rng.choice([1, 1, 2, rng.randrange(1, 9)]))
            toks[i], toks[j] = toks[j], toks[i]
        else:
            toks[i] = rng.choice(POOL) if rng.random() < 0.8 else rng.choice(toks)
    return no_pow("".join(toks))


def mutate_chars(rng, text):
    chars = list(text)
    for _ in range(rng.choice([1, 1, 2, 3, 5, 10])):
        alpha = rng.choice(NOISE_ALPHABETS)
        i = rng.randrange(len(chars) + 1)
        k = rng.random()
        if k < 0.4:
            chars.insert(i, rng.choice(alpha))
        elif k < 0.7 and chars:
            chars[min(i, len(chars) - 1)] = rng.choice(alpha)
        elif chars:
            del chars[min(i, len(chars) - 1)]
    return no_pow("".join(chars))


def ns_case(files, tag, dirs=(), ns="ns", note=None):
    c = {"k": "ns", "ns": ns, "files": files, "dirs": list(dirs), "tag": tag}
    if note:
        c["note"] = note
    return c


def with_file(name, text, tag, note=None):
    files = dict(NS)
    files[name] = text
    return ns_case(files, tag, note=note)


# ----------------------------------------------------------------------------------------------------------------
# structured stream: expression statements with planted failure modes

HOSTILE_LEAVES = [
    E.lit("str", "'\\U00110000'"), E.lit("str", "'\\UFFFFFFFF'"), E.lit("str", "'\\ud800'"), E.lit("str", "'\\x41'"), E.lit("str", "'\\u12'"), E.lit("str", "'\\'"),
    ["bin", "/", E.lit("int", "1"), E.lit("int", "0")], ["bin", "%", E.lit("real", "1.5"), E.lit("real", "0.0")], ["set", []],
    ["set", [E.lit("int", "1"), E.lit("bool", "true")]], ["bin", "**", E.lit("int", "0"), ["un", "-", E.lit("int", "1")]],
    ["bin", "**", ["un", "-", E.lit("int", "8")], ["bin", "/", E.lit("int", "1"), E.lit("int", "3")]],
    ["bin", "**", ["bin", "**", E.lit("int", "10"), E.lit("int", "400")], E.lit("real", "0.5")],
    ["bin", "**", E.lit("real", "0.0"), ["un", "-", E.lit("real", "0.5")]], ["bin", "**", E.lit("int", "2"), E.lit("real", "0.5")],
    ["bin", "**", E.lit("real", "1e300"), E.lit("real", "1.5")], ["bin", "**", ["bin", "**", E.lit("int", "10"), E.lit("int", "400")], ["un", "-", E.lit("real", "0.5")]],
    ["id", "undefined_name"], ["id", "_offset"], ["attr", E.lit("int", "1"), "min"], ["attr", ["set", [E.lit("str", "'a'"), E.lit("str", "'b'")]], "max"],
    ["attr", ["set", [["set", [E.lit("int", "1")]], ["set", [E.lit("int", "2")]]]], "min"], ["bin", "|", E.lit("real", "1.5"), E.lit("int", "1")],
    ["bin", "&", ["set", [E.lit("int", "1")]], ["set", [E.lit("int", "2")]]], ["bin", "^", ["set", [E.lit("int", "1")]], ["set", [E.lit("int", "1")]]],
    ["bin", "==", ["set", [E.lit("int", "1")]], ["set", [E.lit("str", "'a'")]]], ["un", "-", E.lit("str", "'a'")], ["un", "!", E.lit("int", "1")],
    ["bin", "+", E.lit("str", "'a'"), E.lit("int", "1")], ["bin", "<", E.lit("bool", "true"), E.lit("bool", "false")],
    E.lit("int", "9" * 400), E.lit("real", "1e-400"), E.lit("real", "1e400"), E.lit("real", "0." + "0" * 300 + "1"),
]


def plant(rng, tree, depth=0):
    """Replace a random subtree by a hostile leaf."""
    k = tree[0]
    if depth > 6 or k in ("lit", "id") or rng.random() < 0.25:
        return rng.choice(HOSTILE_LEAVES)
    if k == "set":
        if not tree[1]:
            return tree
        i = rng.randrange(len(tree[1]))
        return ["set", tree[1][:i] + [plant(rng, tree[1][i], depth + 1)] + tree[1][i + 1:]]
    if k == "un":
        return ["un", tree[1], plant(rng, tree[2], depth + 1)]
    if k == "bin":
        if tree[1] == "**":  # keep exponents bounded: only the base is replaced, by something that is not a big power
            return ["bin", "**", rng.choice(HOSTILE_LEAVES[:9]), tree[3]]
        if rng.random() < 0.5:
            return ["bin", tree[1], plant(rng, tree[2], depth + 1), tree[3]]
        return ["bin", tree[1], tree[2], plant(rng, tree[3], depth + 1)]
    if k == "attr":
        return ["attr", plant(rng, tree[1], depth + 1), tree[2]]
    return ["par", plant(rng, tree[1], depth + 1)]


ALL_CHANS = [["print"], ["assert"], ["cap", 0], ["cap", 1], ["cap", 2], ["extent"], ["const", ["float", 64, 0]], ["const", ["uint", 8, 0]],
             ["const", ["bool"]], ["const", ["int", 64, 0]]]


def structured(rng, tree, chan, env_idx):
    c = E.make_case(rng, tree, chan, env_idx, comment=True)
    c["k"] = "expr"
    return c


# ----------------------------------------------------------------------------------------------------------------
# generator


def nesting_cases():
    out = []

    def one(stmt, tag):
        out.append(ns_case({"A.1.0.dsdl": stmt + "\n@sealed\n"}, tag))

    for d in (5, 10, 20, 30):
        one("@print " + "(" * d + "1" + ")" * d, "nesting:parens")
        one("uint8[" + "(" * d + "1" + ")" * d + "] x", "nesting:parens")
    for d in (5, 10, 20, 25):
        one("@print " + "{" * d + "1" + "}" * d, "nesting:sets")
    for d in (10, 50, 100, 200):
        one("@print " + "!" * d + "true", "nesting:not")
    for d in (10, 50, 100):
        one("@print " + "1**" * d + "1", "nesting:pow")
        one("@print " + "-(" * (d // 4) + "1" + ")" * (d // 4), "nesting:neg")
    for d in (100, 2000):
        one("@print " + "1+" * d + "1", "length:chain")
        one("@print {1}" + ".min" * d, "length:attr")
        one("@print {" + "1," * d + "1}", "length:set")
        one("@assert true " + "|| false " * d, "length:chain")
    one("# " + "x" * 200000, "length:comment")
    one("@print '" + "a" * 100000 + "'", "length:string")
    out.append(ns_case({"A.1.0.dsdl": "uint8 a\n" + "\n" * 3000 + "@sealed\n"}, "length:lines"))
    out.append(ns_case({"A.1.0.dsdl": "".join("uint8 f%d\n" % i for i in range(400)) + "@sealed\n"}, "length:fields"))
    out.append(ns_case({"A.1.0.dsdl": "".join("# c%d\n" % i for i in range(3000)) + "@sealed\n"}, "length:comments"))
    # beyond the recursion limit of the PEG engine (F17, repaired: DSDLSyntaxError)
    for d in (43, 60, 100, 400):
        out.append(ns_case({"A.1.0.dsdl": "@print " + "(" * d + "1" + ")" * d + "\n@sealed\n"}, "probe:recursion-depth"))
    for d in (34, 100):
        out.append(ns_case({"A.1.0.dsdl": "@print " + "{" * d + "1" + "}" * d + "\n@sealed\n"}, "probe:recursion-depth"))
    out.append(ns_case({"A.1.0.dsdl": "@print " + "!" * 400 + "true\n@sealed\n"}, "probe:recursion-depth"))
    out.append(ns_case({"A.1.0.dsdl": "@print " + "1**" * 300 + "1\n@sealed\n"}, "probe:recursion-depth"))
    out.append(ns_case({"A.1.0.dsdl": "uint8[" + "(" * 50 + "1" + ")" * 50 + "] x\n@sealed\n"}, "probe:recursion-depth"))
    return out


def limit_cases():
    """Findings E (CPython's 4300-digit limit of int <-> str conversion) and F (numerical expansion behind _offset_)."""
    out = []
    for stmt in ("@print 10**4299", "@print 10**4300", "@print 1" + "0" * 4400, "@print 1e5000", "@print 1e-5000", "@print {10**5000}", "uint8 X = 10**5000",
                 "float16 X = 1e5000", "utf8[1e40010] s", "uint8[10**5000] x\n@extent 8", "uint8 x\n@extent 8*10**5000+1", "@assert 10**5000 > 1",
                 "@print 0x1" + "0" * 5000, "@print 1/10**5000"):
        tail = "" if "@extent" in stmt else "\n@sealed"
        out.append(ns_case({"A.1.0.dsdl": stmt + tail + "\n"}, "probe:int-str-limit"))
    for text in ("uint8[2**63] x\n@print _offset_\n@sealed\n", "uint8[2**40] x\n@print _offset_.count\n@sealed\n", "uint8[1e34] c\n@assert _offset_.min == 0\n@sealed\n",
                 "uint8[<=2**62] x\n@assert _offset_ % 8 == {0}\n@sealed\n", "uint8[2**20] x\n@print _offset_\n@sealed\n"):
        out.append(ns_case({"A.1.0.dsdl": text}, "probe:offset-expansion"))
    return out


def literal_cases(rng, n_random):
    """Malformed and borderline numeric literals in every channel (implementation only)."""
    out = []
    for k, t in enumerate(E.literal_shapes(rng, n_random)):
        stmts = ["@print %s", "@assert %s == 1", "float64 X = %s", "uint8[%s] x", "uint8[<=%s] x", "uint8[<%s] x", "@print {%s, 1}", "@print -%s", "@print (%s).count"]
        if k >= 60:
            stmts = [stmts[0], rng.choice(stmts[1:])]
        for st in stmts:
            out.append(ns_case({"A.1.0.dsdl": (st % t) + "\n@sealed\n"}, "malformed-literal"))
        out.append(ns_case({"A.1.0.dsdl": "uint8 x\n@extent %s\n" % t}, "malformed-literal"))
    return out


TYPE_EXPRS = ["uint8", "uint16", "int8", "float16", "float32", "float64", "bool", "truncated uint8", "saturated int64", "void8", "byte", "utf8", "uint8[2]",
              "uint8[<=2]", "bool[<3]", "Base.1.0", "ns.Base.1.0", "U.1.0", "Svc.1.0", "ns.sub.Deep.1.2", "Base.1.0[2]", "U.1.0[<=2]"]
BIN_OPS = ["||", "&&", "==", "!=", "<=", ">=", "<", ">", "|", "^", "&", "+", "-", "*", "/", "%"]


def type_operand_cases(rng, n_random, limit=None):
    """DSDL type values (primitive, void, array and composite types) as operands of every operator and attribute, alone
    and inside set literals, in every statement position (implementation only)."""
    stmts = []
    pairs = [("uint8", "uint16"), ("float16", "float32"), ("uint8", "int8"), ("Base.1.0", "U.1.0"), ("ns.Base.1.0", "ns.Base.1.0"), ("uint8[2]", "uint8[<=2]"),
             ("uint8", "Base.1.0"), ("void8", "void16"), ("Svc.1.0", "Base.1.0"), ("bool", "bool")]
    for a, b in pairs:
        for attr in ("min", "max", "count", "size", "_extent_", "_bit_length_"):
            stmts += ["@print {%s, %s}.%s" % (a, b, attr), "@print {%s}.%s" % (a, attr), "@print {%s, %s, %s}.%s" % (a, b, a, attr), "@print {{%s}, {%s}}.%s" % (a, b, attr)]
        stmts += ["@print {float16, float32, float64}.max", "uint8[<={%s, %s}.max] x" % (a, b), "uint8[{%s, %s}.count] x" % (a, b), "@assert {%s, %s}.min == %s" % (a, b, a),
                  "@extent {%s, %s}.max" % (a, b), "uint8 X = {%s, %s}.min" % (a, b), "@print {%s, %s}" % (a, b), "@print {%s, 1}" % a, "@print {1, %s}.max" % a,
                  "@print {%s, 'a'}.min" % a, "@print {%s, true}.count" % a]
        for op in BIN_OPS + ["**"]:
            small = " ** " in (" %s " % op)
            stmts += ["@print %s %s %s" % (a, op, b), "@print {%s} %s {%s}" % (a, op, b), "@print {%s, %s} %s {%s}" % (a, b, op, a)]
            if not small:
                stmts += ["@print %s %s 1" % (a, op), "@print 1 %s %s" % (op, a), "@print {%s, %s} %s 1" % (a, b, op), "@print 1 %s {%s, %s}" % (op, a, b),
                          "@print %s %s 'a'" % (a, op), "@print true %s %s" % (op, a), "@print {1, 2} %s %s" % (op, a), "@print %s %s {1, 2}" % (a, op)]
            else:
                stmts += ["@print %s ** 2" % a, "@print 2 ** %s" % a, "@print {%s, %s} ** 2" % (a, b), "@print 2 ** {%s, %s}" % (a, b)]
        for un in ("!", "-", "+"):
            stmts += ["@print %s%s" % (un, a), "@print %s{%s, %s}" % (un, a, b)]
    for t in TYPE_EXPRS:
        for attr in ("min", "max", "count", "_extent_", "_bit_length_", "VALUE", "x", "Request"):
            stmts.append("@print %s.%s" % (t, attr))
        stmts += ["@print %s" % t, "@assert %s" % t, "@assert %s == %s" % (t, t), "uint8 X = %s" % t, "bool X = %s" % t, "uint8[%s] x" % t, "uint8[<=%s] x" % t, "uint8[<%s] x" % t,
                  "@extent %s" % t, "@print {%s}" % t, "@print {%s}.min.max" % t, "@print {%s, %s}.min" % (t, t), "@print ({%s} | {%s}).max" % (t, t), "@print ({%s} & {%s}).min" % (t, t),
                  "@print {%s}.count + 1" % t, "@print %s._bit_length_.min" % t, "@print {%s._bit_length_, {1}}.max" % t]
    for _ in range(n_random):
        k = rng.choice([2, 2, 3, 4])
        items = [rng.choice(TYPE_EXPRS + ["1", "'a'", "true", "{1}", "{uint8}"]) for _ in range(k)]
        body = "{%s}" % ", ".join(items)
        e = rng.choice(["%s.min", "%s.max", "%s.count", "(%s | %s).max", "(%s & %s).min", "(%s ^ %s).count", "%s == %s", "%s < %s", "%s + 1", "1 - %s", "%s.min.max", "{%s}.min", "{%s, %s}.max"])
        e = e.replace("%s", body)
        stmts.append(rng.choice(["@print %s", "@assert %s == 1", "uint8[<=%s] x", "uint8 X = %s", "@extent %s", "float64[%s] y"]) % e)
    uniq = list(dict.fromkeys(stmts))
    if limit is not None and len(uniq) > limit:  # quick tier: everything with .min/.max, a random sample of the rest
        keep = [st for st in uniq if ".min" in st or ".max" in st]
        rest = [st for st in uniq if not (".min" in st or ".max" in st)]
        rng.shuffle(rest)
        uniq = keep[:limit] + rest[:max(0, limit - len(keep))]
    base_files = {k: v for k, v in NS.items() if k in ("Base.1.0.dsdl", "U.1.0.dsdl", "Svc.1.0.dsdl", "sub/Deep.1.2.dsdl")}
    out = []
    for st in uniq:
        files = dict(base_files)
        files["T.1.0.dsdl"] = st + ("\n@sealed\n" if not st.startswith("@extent") else "\n")
        out.append(ns_case(files, "type-operands"))
    return out


def void_array_cases():
    out = []
    for fld in ("void8[2] x", "void4[<=3] gap", "void1[<2] v", "void64[1] w", "void8[2]", "void3[<=1]"):
        for text in (fld + "\n@sealed\n", "uint8 a\n" + fld + "\n@extent 64\n", "@union\nuint8 a\n" + fld + "\n@sealed\n",
                     "uint8 a\n@sealed\n---\n" + fld + "\n@sealed\n", fld + "\n@sealed\n---\n@sealed\n", "@print " + fld.split(" ")[0] + "\n@sealed\n",
                     "uint8 a\n" + fld + "\n@print _offset_\n@sealed\n"):
            out.append(ns_case({"A.1.0.dsdl": text}, "void-arrays"))
    return out


FINALIZE_DEFECTS = [  # (file name, text): parses fine, fails when the composite is built
    ("Z.1.0.dsdl", "uint8 x\n"),                                  # neither @sealed nor @extent
    ("Z.1.0.dsdl", "@union\nuint8 x\n@sealed\n"),                # single-variant union
    ("Z.1.0.dsdl", "uint8 x\nuint16 x\n@sealed\n"),              # attribute name collision
    ("Z.1.0.dsdl", "uint64 x\n@extent 8\n"),                      # extent too small
    ("Z.1.0.dsdl", "uint8 x\n@extent 12\n"),                      # extent not a multiple of 8
    ("Z.1.0.dsdl", "byte x\n@sealed\n"),                          # aggregation
    ("Z.1.0.dsdl", "utf8[4] s\n@sealed\n"),                       # aggregation
    ("9999.Z.1.0.dsdl", "uint8 x\n@sealed\n"),                    # unregulated fixed port-ID
    ("Z.1.0.dsdl", "uint8 x\n@sealed\n---\nuint8 y\n"),          # response without mode
    ("Z.1.0.dsdl", "uint8 x\n@sealed\n---\n@union\nuint8 y\n@sealed\n"),
    ("Z_.1.0.dsdl", "uint8 x\n@sealed\n"),                        # bad short name
    ("Z.0.0.dsdl", "uint8 x\n@sealed\n"),                         # bad version
    ("Z.1.0.dsdl", "uint8 _x\n@sealed\n"),                        # bad attribute name (deferred attribute construction)
    ("Z.1.0.dsdl", "uint8 X = 256\n@sealed\n"),                   # bad constant (detected while parsing: control)
    ("Z.1.0.dsdl", "uint8 x\n@assert false\n@sealed\n"),         # control
    ("Z.1.0.dsdl", "uint8 x x\n@sealed\n"),                       # syntax error: control
]


def dependency_cases():
    """A definition that is invalid only when it is finalised, reached for the first time as a dependency: the error
    must name the file with the defect, not the referrer."""
    out = []
    for fname, text in FINALIZE_DEFECTS:
        stem = fname[:-5]
        parts = stem.split(".")
        short, ver = (parts[1], parts[2] + "." + parts[3]) if len(parts) == 4 else (parts[0], parts[1] + "." + parts[2])
        ref = "%s.%s" % (short, ver)
        for use in ("%s d", "%s[2] d", "%s[<=2] d"):
            # the referrer sorts before the defective definition
            files = {"A.1.0.dsdl": (use % ref) + "\n@sealed\n", fname: text}
            out.append(dict(ns_case(files, "dependency-finalize"), expect_path="ns/" + fname))
            out.append(dict(ns_case(files, "dependency-finalize"), expect_path="ns/" + fname, api="files"))
            # two levels
            files3 = {"A.1.0.dsdl": "M.1.0 m\n@sealed\n", "M.1.0.dsdl": (use % ref) + "\n@sealed\n", fname: text}
            out.append(dict(ns_case(files3, "dependency-finalize"), expect_path="ns/" + fname))
            # in a nested namespace, referred to by its full name
            filesn = {"A.1.0.dsdl": (use % ("ns.sub." + ref)) + "\n@sealed\n", "sub/" + fname: text}
            out.append(dict(ns_case(filesn, "dependency-finalize"), expect_path="ns/sub/" + fname))
            # the defective definition lives only in a lookup directory
            c = ns_case({"A.1.0.dsdl": (use % ("lk." + ref)) + "\n@sealed\n"}, "dependency-finalize")
            c["lookup"] = {"lk": {fname: text}}
            c["expect_path"] = "lk/" + fname
            out.append(c)
        # used in an expression only
        out.append(dict(ns_case({"A.1.0.dsdl": "@print %s._extent_\n@sealed\n" % ref, fname: text}, "dependency-finalize"), expect_path="ns/" + fname))
        # control: the defective definition sorts first
        out.append(dict(ns_case({"Zz.1.0.dsdl": "%s d\n@sealed\n" % ref, fname: text}, "dependency-finalize"), expect_path="ns/" + fname))
    return out


def control_cases():
    out = []
    ctrl = list(range(0, 32)) + [127, 0x85, 0xA0, 0x2028, 0x2029, 0xFEFF, 0x200B, 0xFFFF, 0x1F600, 0x0301]
    for c in ctrl:
        ch = chr(c)
        for text in (ch + "uint8 a\n@sealed\n", "uint8 a" + ch + "b\n@sealed\n", "uint8 a # c" + ch + "d\n@sealed\n", "@print 'x" + ch + "y'\n@sealed\n",
                     "uint8 a\n@sealed" + ch, "uint8" + ch + "a\n@sealed\n", "uint8 a\n" + ch + "\n@sealed\n"):
            out.append(ns_case({"A.1.0.dsdl": text}, "control"))
    for text in ("uint8 a\r\n@sealed\r\n", "uint8 a\r@sealed\r", "uint8 a\n\r@sealed\n", "uint8 a\r\r\n@sealed", "\r\n\r\n", "\n", "", " ", "\t\n",
                 "@sealed", "@sealed\n\n\n", "@print 'a\nb'\n@sealed\n", "@print 'a\r\nb'\n@assert false\n"):
        out.append(ns_case({"A.1.0.dsdl": text}, "control:line-endings"))
    return out


def service_cases():
    out = []
    for stmt in ("@print Svc.1.0._extent_", "@print Svc.1.0._bit_length_", "@print Svc.1.0.REQ_CONST", "@assert Svc.1.0 == Svc.1.0", "Svc.1.0 f", "Svc.1.0[2] f",
                 "Svc.1.0[<=2] f", "@print Svc.1.0", "ns.Svc.1.0 x\n@print _offset_", "Svc.1.0 x\nuint8 y\n@assert _offset_.count == 1", "Svc.1.0[2] x\n@print _offset_", "@print Svc.1.0.Request", "@print {Svc.1.0}", "@print Svc.1.0 + 1", "uint8 X = Svc.1.0", "@extent Svc.1.0",
                 "@print ns.Svc.1.0._extent_", "@print Base.1.0._extent_", "@print Base.1.0.nope", "@print U.1.0._bit_length_ | {1}", "@print {Base.1.0, U.1.0}",
                 "@print {Base.1.0, Base.1.0}.count", "@print Base.1.0 == Base.1.0", "@print uint8 == uint8", "@print {uint8, int8}", "@print uint8.x", "@print -uint8",
                 "@print Base.1.0.VALUE.VALUE", "@assert Base.1.0", "uint8[Base.1.0] x", "uint8[Base.1.0.VALUE] x", "Base.1.0[Base.1.0.VALUE] x", "@print X.1.0",
                 "X.1.0 f", "@print ns.sub.Deep.1.2._extent_", "@print sub.Deep.1.2._extent_", "@print Port.1.0._extent_", "@print T.1.0", "T.1.0 self", "@print T.1.0._extent_"):
        files = dict(NS)
        files["T.1.0.dsdl"] = stmt + "\n@sealed\n"
        out.append(ns_case(files, "service-and-type-operands"))
    # cycles through mutated references
    files = dict(NS)
    files["Base.1.0.dsdl"] = "U.1.0 u\n@sealed\n"
    out.append(ns_case(files, "reference-cycle"))
    files = dict(NS)
    files["Base.1.0.dsdl"] = "Base.1.0 u\n@sealed\n"
    out.append(ns_case(files, "reference-cycle"))
    files = dict(NS)
    files["Base.1.0.dsdl"] = "ns.sub.Deep.1.2 u\n@sealed\n"
    out.append(ns_case(files, "reference-cycle"))
    return out


def sibling_cases(rng, n_random):
    """Two or three well-formed definitions whose full names are equal or differ only in letter case (short name or a
    namespace directory), with related versions; no references between them (a reference would be C09's F7).
    Exercises the stages after per-file reading: port-ID collisions and minor-version compatibility."""
    out = []
    bodies = ["@sealed\n", "uint8 a\n@sealed\n", "@extent 64\n", "uint8 a\n@extent 64\n", "@extent 128\n", "uint8 a\n@sealed\n---\n@sealed\n", "@deprecated\n@sealed\n",
              "@union\nuint8 a\nuint16 b\n@sealed\n"]
    names = [("Foo", "foo"), ("Foo", "FOO"), ("Foo", "Foo"), ("Foo", "fOO"), ("A", "a"), ("Foo", "Fo0")]
    dirs = [("", ""), ("sub/", "Sub/"), ("sub/", "sub/"), ("sub/deep/", "sub/Deep/"), ("", "sub/"), ("Sub/x/", "sub/X/")]
    versions = [("1.0", "1.0"), ("1.0", "1.1"), ("1.1", "1.0"), ("1.0", "2.0"), ("0.1", "0.2"), ("1.0", "1.255"), ("255.0", "255.1"), ("0.1", "0.1")]
    ports = [("", ""), ("7000.", ""), ("", "7000."), ("7000.", "7000."), ("7000.", "7001.")]

    def mk(d1, d2, n1, n2, v1, v2, p1, p2, b1, b2, extra=None, api=None):
        f1 = "%s%s%s.%s.dsdl" % (d1, p1, n1, v1)
        f2 = "%s%s%s.%s.dsdl" % (d2, p2, n2, v2)
        if f1 == f2:
            return
        files = {f1: b1, f2: b2}
        if extra:
            files.update(extra)
        c = ns_case(files, "names:case-variant-siblings")
        if api:
            c["api"] = api
        out.append(c)

    for (n1, n2) in names:
        for (v1, v2) in versions:
            mk("", "", n1, n2, v1, v2, "", "", bodies[0], bodies[0])
            mk("", "", n1, n2, v1, v2, "", "", bodies[0], bodies[1], api="files")
    for (d1, d2) in dirs:
        for (v1, v2) in versions:
            mk(d1, d2, "Foo", "Foo", v1, v2, "", "", bodies[2], bodies[2])
            mk(d1, d2, "Foo", "foo", v1, v2, "", "", bodies[0], bodies[0], api="files")
    for (p1, p2) in ports:
        for (v1, v2) in versions[:5]:
            mk("", "", "Foo", "foo", v1, v2, p1, p2, bodies[0], bodies[0])
            mk("", "", "Foo", "Foo", v1, v2, p1, p2, bodies[0], bodies[0])
    for b1 in bodies:
        for b2 in bodies:
            mk("", "", "Foo", "foo", "1.0", "1.1", "", "", b1, b2)
    # three variants, an unrelated user of one variant (refers to exactly one spelling that exists once per version)
    mk("", "", "Foo", "foo", "1.0", "1.1", "", "", bodies[0], bodies[0], extra={"FOO.1.2.dsdl": bodies[0]})
    mk("", "", "Foo", "foo", "1.0", "1.1", "", "", bodies[0], bodies[0], extra={"Other.1.0.dsdl": "uint8 x\n@sealed\n"})
    mk("", "", "Foo", "foo", "1.0", "1.1", "", "", bodies[0], bodies[0], extra={"Foo.1.2.dsdl": bodies[1], "foo.2.0.dsdl": bodies[0]})
    mk("sub/", "Sub/", "Foo", "Foo", "1.0", "1.1", "", "", bodies[0], bodies[0], extra={"SUB/Foo.1.2.dsdl": bodies[0]})
    for _ in range(n_random):
        (n1, n2), (d1, d2), (v1, v2), (p1, p2) = rng.choice(names), rng.choice(dirs), rng.choice(versions), rng.choice(ports)
        mk(d1, d2, n1, n2, v1, v2, p1, p2, rng.choice(bodies), rng.choice(bodies), api=rng.choice([None, None, "files"]))
    return out


def name_cases(rng, n_random):
    out = []
    fixed = ["\xdcn\xef.1.0.dsdl", "A B.1.0.dsdl", "1A.1.0.dsdl", "A" * 240 + ".1.0.dsdl", "a.b/A.1.0.dsdl", "A.99999999999999999999999.0.dsdl", "A.0.0.dsdl", "A.256.0.dsdl",
             "A.1.256.dsdl", "99999999999.A.1.0.dsdl", ".1.0.dsdl", "1.A.1.0.0.dsdl", "A.1.dsdl", ".A.1.0.dsdl", "A.1.0.uavcan", "1x/A.1.0.dsdl", "bool.1.0.dsdl", ".dsdl", "..dsdl",
             "...dsdl", "....dsdl", "A.1.0.dsdl ", " A.1.0.dsdl", "A\n.1.0.dsdl", "A.1.0\n.dsdl", "A%.1.0.dsdl", "A*.1.0.dsdl", "A?.1.0.dsdl", "A\\.1.0.dsdl", "A'.1.0.dsdl", 'A".1.0.dsdl',
             "e\u0301.1.0.dsdl", "\U0001f600.1.0.dsdl", "\u202eA.1.0.dsdl", "A.1.0.DSDL", "A.1.0.dsdl~", "A.1.0.dsdl.bak", "-1.A.1.0.dsdl", "1e3.A.1.0.dsdl", "0x10.A.1.0.dsdl",
             " 1.A.1.0.dsdl", "\u0661.A.1.0.dsdl", "A.1.0x.dsdl", "A.1.-0.dsdl", "A.01.0.dsdl", "A.1_0.0.dsdl", "A.+1.0.dsdl", "A.\u0661.0.dsdl", "7_0.A.1.0.dsdl", "A.1.0.dsdl.dsdl",
             "a/b/c/d/e/f/g/A.1.0.dsdl", "A__B.1.0.dsdl", "_A.1.0.dsdl", "A_.1.0.dsdl", "truncated.1.0.dsdl", "uint8.1.0.dsdl", "Request.1.0.dsdl", "\u212a.1.0.dsdl", "CON.1.0.dsdl",
             "sub/\u212a.1.0.dsdl", "\u212a/A.1.0.dsdl", "\u0130/A.1.0.dsdl", "a b/A.1.0.dsdl", "a..b/A.1.0.dsdl", ".hidden/A.1.0.dsdl", "sub/.1.0.dsdl", "65536.A.1.0.dsdl", "8191.A.1.0.dsdl",
             "8192.A.1.0.dsdl", "0.A.1.0.dsdl", "511.A.1.0.dsdl", "A.255.255.dsdl", "A.1.0.dsdl\t", "\tA.1.0.dsdl", "A.1.0..dsdl", "A..1.0.dsdl", "A.1..0.dsdl", "\x7f.1.0.dsdl",
             "\x01A.1.0.dsdl", "A\x1b[0m.1.0.dsdl"]
    for name in fixed:
        out.append(ns_case({name: SEALED}, "names:fixed"))
        out.append(ns_case({name: SEALED, "Ok.1.0.dsdl": SEALED}, "names:fixed"))
    for ns in ("n.s", "n s", "1ns", "n\xdf", "N", "_", "ns_", "\u212a", "uint8", "ns\n", "a" * 200, ".ns", "ns.", "-", "@"):
        out.append(ns_case({"A.1.0.dsdl": SEALED}, "names:namespace", ns=ns))
    # two files / one name
    out.append(ns_case({"A.1.0.dsdl": SEALED, "a.1.0.dsdl": SEALED}, "names:case-variants"))
    out.append(ns_case({"A.1.0.dsdl": SEALED, "A.1.0.uavcan": "uint8 x\n@sealed\n"}, "names:duplicates"))
    out.append(ns_case({"sub/A.1.0.dsdl": SEALED, "SUB/A.1.0.dsdl": SEALED}, "names:case-variants"))
    out.append(ns_case({"sub/A.1.0.dsdl": SEALED, "sub.1.0.dsdl": SEALED}, "names:type-vs-namespace"))
    # a directory that looks like a definition (F18, repaired: ignored)
    out.append(ns_case({}, "probe:directory-named-as-definition", dirs=["X.1.0.dsdl"]))
    out.append(ns_case({"A.1.0.dsdl": SEALED}, "probe:directory-named-as-definition", dirs=["X.1.0.dsdl"]))
    out.append(ns_case({"X.1.0.dsdl/A.1.0.dsdl": SEALED}, "probe:directory-named-as-definition"))
    out.append(ns_case({"A.1.0.dsdl": SEALED}, "probe:directory-named-as-definition", dirs=["sub/Y.2.0.uavcan"]))
    alphabet = "AaZz09_.- \t\n%*?'\"\\\xe9\u0130\u212a\u0661\U0001f600\u0301#@~"
    for _ in range(n_random):
        ln = rng.choice([1, 2, 3, 5, 8, 20])
        stem = "".join(rng.choice(alphabet) for _ in range(ln))
        shape = rng.random()
        if shape < 0.4:
            name = stem + ".1.0.dsdl"
        elif shape < 0.6:
            name = "A." + stem + ".dsdl"
        elif shape < 0.75:
            name = stem + ".A.1.0.dsdl"
        elif shape < 0.9:
            name = stem + "/A.1.0.dsdl"
        else:
            name = stem + ".dsdl"
        if any(len(p.encode("utf8")) > 250 or p in ("", ".", "..") for p in name.split("/")):
            continue
        out.append(ns_case({name: SEALED, "Ok.1.0.dsdl": SEALED}, "names:random"))
    return out


def generate(rng, tier):
    cases, streams = [], []

    def add(c, s):
        cases.append(c)
        streams.append(s)

    add(ns_case(dict(NS), "baseline"), "corpus")
    for c in service_cases() + nesting_cases() + control_cases() + limit_cases() + void_array_cases() + dependency_cases() + type_operand_cases(rng, 150 if tier == "quick" else 3000, 700 if tier == "quick" else None) + literal_cases(rng, 100 if tier == "quick" else 2000):
        add(c, "targeted")
    for c in sibling_cases(rng, 80 if tier == "quick" else 2000):
        add(c, "targeted")
    for c in name_cases(rng, 150 if tier == "quick" else 3000):
        add(c, "targeted" if c["tag"] != "names:random" else "random")
        if c["files"] and c["ns"] == "ns" and rng.random() < 0.5:
            add(dict(c, api="files"), "targeted" if c["tag"] != "names:random" else "random")
    # not UTF-8 (F19, repaired: InvalidDefinitionError)
    add({"k": "ns", "ns": "ns", "files": {}, "dirs": [], "bytes": {"A.1.0.dsdl": [255, 254, 64, 115]}, "tag": "probe:invalid-utf8"}, "targeted")
    # structured
    all_env = list(range(len(E.ENV)))
    for leaf in HOSTILE_LEAVES:
        for ch in (["print"], ["const", ["uint", 8, 0]], ["cap", 1]):
            add(structured(rng, leaf, ch, []), "targeted")
    n_struct = 1200 if tier == "quick" else 20000
    for _ in range(n_struct):
        env_idx = sorted(rng.sample(all_env, rng.choice([0, 0, 2, 5])))
        names = {E.ENV[i][0]: E.ENV[i][3] for i in env_idx}
        kind = rng.choice(["rat", "int", "bool", "str", "set:int", "set:rat", "set:str", "set:set:int"])
        tree = E.Gen(rng, names).gen(kind, rng.choice([1, 2, 3, 3, 4]))
        if rng.random() < 0.8:
            tree = plant(rng, tree)
        add(structured(rng, tree, rng.choice(ALL_CHANS), env_idx), "random")
    # token mutations / character noise on one file of the valid namespace
    names = sorted(NS)
    n_mut = 2500 if tier == "quick" else 60000
    for i in range(n_mut):
        name = rng.choice(names)
        r = rng.random()
        if r < 0.7:
            text = mutate_tokens(rng, NS[name])
            tag = "token-mutation"
        elif r < 0.9:
            text = mutate_chars(rng, NS[name])
            tag = "char-noise"
        else:
            alpha = "".join(NOISE_ALPHABETS) if rng.random() < 0.5 else rng.choice(NOISE_ALPHABETS)
            text = "".join(rng.choice(alpha) for _ in range(rng.choice([1, 3, 10, 40, 200])))
            text = no_pow(text)
            tag = "pure-noise"
        if text == NS[name]:
            continue
        c = with_file(name, text, tag)
        if rng.random() < 0.25:
            c["api"] = "files"
        add(c, "random")
    return cases, streams


# ----------------------------------------------------------------------------------------------------------------
# implementation side


class _Alarm(BaseException):
    pass


def run_impl(cases):
    import shutil
    import signal
    import sys
    import pydsdl

    def on_alarm(_sig, _frm):
        raise _Alarm()

    signal.signal(signal.SIGALRM, on_alarm)
    signal.signal(signal.SIGPROF, on_alarm)

    def arm(sec):  # CPU time of this process (machine load cannot trip it) with a distant wall-clock backstop
        signal.setitimer(signal.ITIMER_PROF, float(sec))
        signal.alarm(sec * 40)

    def disarm():
        signal.setitimer(signal.ITIMER_PROF, 0)
        signal.alarm(0)

    base = os.path.join(os.environ["VERIF_SCRATCH"], "c13_%d" % os.getpid())
    shutil.rmtree(base, ignore_errors=True)

    def run_one(c, root):
        """Materialise the case under root (a directory never used before in this process) and read it."""
        os.makedirs(root)
        lookups = []
        try:
            if c["k"] == "expr":
                ns = os.path.join(root, "ns")
                os.makedirs(ns)
                with open(os.path.join(ns, "T.1.0.dsdl"), "w", encoding="utf8", newline="") as f:
                    f.write(E.definition_text(c))
            else:
                ns = os.path.join(root, c["ns"])
                os.makedirs(ns, exist_ok=True)
                for d in c.get("dirs", []):
                    os.makedirs(os.path.join(ns, d), exist_ok=True)
                for name, text in c["files"].items():
                    p = os.path.join(ns, name)
                    os.makedirs(os.path.dirname(p), exist_ok=True)
                    with open(p, "w", encoding="utf8", newline="") as f:
                        f.write(text)
                for name, bs in c.get("bytes", {}).items():
                    with open(os.path.join(ns, name), "wb") as f:
                        f.write(bytes(bs))
                for lkname, files in c.get("lookup", {}).items():
                    lk = os.path.join(root, lkname)
                    lookups.append(lk)
                    for name, text in files.items():
                        p = os.path.join(lk, name)
                        os.makedirs(os.path.dirname(p), exist_ok=True)
                        with open(p, "w", encoding="utf8", newline="") as f:
                            f.write(text)
        except (OSError, UnicodeEncodeError, ValueError) as ex:
            return {"skip": type(ex).__name__}
        real_root = os.path.realpath(root)
        arm(5)
        try:
            if c.get("api") == "files" and (c.get("files") or c.get("bytes")):
                paths = sorted(os.path.join(ns, name) for name in list(c.get("files", {})) + list(c.get("bytes", {})))
                pydsdl.read_files(paths, [ns], lookups, print_output_handler=lambda p, l, t: None)
            else:
                pydsdl.read_namespace(ns, lookups, print_output_handler=lambda p, l, t: None)
            disarm()
            return {"out": "model"}
        except _Alarm:
            return {"timeout": True}
        except pydsdl.InvalidDefinitionError as ex:
            disarm()
            o = {"out": "CInvalidDefinition"}
            p = ex.path
            if p is None:
                o["pred_fail"] = "%s without a path" % type(ex).__name__
            else:
                rp = os.path.realpath(str(p))
                if not (rp == real_root or rp.startswith(real_root + os.sep)):
                    o["pred_fail"] = "%s with a path outside the directories read by this call" % type(ex).__name__
                elif not os.path.lexists(rp):
                    o["pred_fail"] = "%s with a path that does not exist" % type(ex).__name__
                elif c.get("expect_path") and rp != os.path.realpath(os.path.join(root, c["expect_path"])):
                    o["pred_fail"] = "%s names %s, the offending file is %s" % (type(ex).__name__, os.path.relpath(rp, real_root), c["expect_path"])
            return o
        except BaseException as ex:  # pylint: disable=broad-except
            disarm()
            cls = V.classify(ex) if isinstance(ex, Exception) else "COther"
            culprit = "" if isinstance(ex, pydsdl.Error) else type(ex).__name__
            if isinstance(ex, pydsdl.InternalError):
                m = re.search(r"title=([A-Za-z]+)", str(ex)) or re.match(r"\s*([A-Za-z]+(?:Error|Exception))\b", ex.text or "")
                culprit = m.group(1) if m else (type(ex.__cause__).__name__ if ex.__cause__ is not None else "")
            o = {"out": cls, "pred_fail": "%s%s escaped" % (type(ex).__name__, ("(" + culprit + ")") if culprit else ""), "culprit": culprit}
            if isinstance(ex, (pydsdl.InternalError, ValueError)) and "integer string conversion" in str(ex):
                o["hint"] = "int-max-str-digits"  # only used to classify the open finding F21, never for a verdict
            return o

    out = []
    for idx, c in enumerate(cases):
        root = os.path.join(base, "r%d" % idx)
        out.append(run_one(c, root))
        disarm()
        shutil.rmtree(root, ignore_errors=True)
    # history: the same texts offered again from other directories must be judged the same way and every error must name
    # the directory read by THAT call (a sample of the cheap rejected/accepted cases of this process)
    again = [i for i, (c, o) in enumerate(zip(cases, out))
             if o.get("out") in ("CInvalidDefinition", "model") and not o.get("pred_fail")
             and (c["k"] == "expr" or sum(len(t) for t in c.get("files", {}).values()) < 6000)]
    step = max(1, len(again) // 150)
    for i in again[::step]:
        root = os.path.join(base, "again%d" % i)
        o2 = run_one(cases[i], root)
        disarm()
        shutil.rmtree(root, ignore_errors=True)
        if o2.get("timeout") or o2.get("skip"):
            continue
        if o2.get("pred_fail"):
            out[i]["pred_fail"] = "when the same texts are read again from another directory in the same process: " + o2["pred_fail"]
            out[i]["culprit"] = o2.get("culprit", "")
            out[i]["repeat_out"] = o2.get("out")
        elif o2.get("out") != out[i].get("out"):
            out[i]["pred_fail"] = "outcome depends on history: %s first, %s when read again from another directory" % (out[i].get("out"), o2.get("out"))
    disarm()
    shutil.rmtree(base, ignore_errors=True)
    return out


# ----------------------------------------------------------------------------------------------------------------
# emission


def emit_iout(obs):
    if obs.get("skip") or obs.get("timeout") or obs.get("out") == "model":
        return "C13.IModel"
    return "(C13.IErr %s)" % obs["out"]


def emit(case, obs):
    if case["k"] == "expr":
        return "(C13.Structured %s %s %s %s %s)" % (E.emit_env(case["env"]), E.emit_expr(case["e"]), E.emit_tokens(case["toks"]), E.emit_chan(case["chan"]),
                                                  emit_iout(obs))
    return "(C13.Hostile %s)" % emit_iout(obs)


def model_eval(case, obs):
    if case["k"] != "expr":
        return ""
    return ("Eval vm_compute in (map (fun c => match c with C13.Structured ds e toks ch o => Some (C04.model ds e, tokens_eqb (render_min e) toks) "
            "| _ => None end) cases).\n")


def nontrivial(case, obs):
    return case["k"] == "expr" or case.get("tag") != "baseline"


def describe(case, obs):
    keys = ["stream:" + (case.get("tag") or "structured"), "api:" + ("read_files" if case.get("api") == "files" else "read_namespace")]
    if obs.get("skip"):
        keys.append("impl:not-creatable")
    elif obs.get("timeout"):
        keys.append("impl:timeout")
    else:
        keys.append("impl:" + obs["out"])
        if obs.get("culprit"):
            keys.append("escaped:" + obs["culprit"])
    return keys


# open findings this module can recognise (narrow signatures; nothing else is suppressed)
FIELD_LINE = re.compile(r"^[ \t]*(?:void\d+|[A-Za-z_][\w.]*(?:[ \t]+[A-Za-z_]\w*)?(?:\[[^\]\n]*\])?[ \t]+[A-Za-z_]\w*)[ \t]*(?:#.*)?$")


def max_fields_per_section(text):
    best = 0
    for section in re.split(r"(?m)^---+[ \t]*$", text):
        n = sum(1 for line in section.split("\n") if FIELD_LINE.match(line) and "=" not in line)
        best = max(best, n)
    return best


HUGE_INT = re.compile(r"\d{4300,}|[eE][+-]?0*(?:[5-9]\d{3}|4[3-9]\d{2}|\d{5,})|\*\*")
BIG_CAPACITY = re.compile(r"\[[^\]\n]*(?:\*\*|[eE]\d|\d{7,}|[A-Za-z_])[^\]\n]*\]")


def known_finding(case, obs, known):
    if not isinstance(obs, dict) or case.get("k") != "ns":
        return None
    texts = list(case.get("files", {}).values())  # (the branches below never look at error message texts for a verdict)
    for k in known:
        sig = k.get("signature", {})
        if sig.get("kind") == "int-max-str-digits":
            # InternalError wrapping ValueError on a definition that contains an integer of 4300 or more decimal digits
            if obs.get("out") == "CInternal" and obs.get("culprit") in ("ValueError", "VisitationError") and \
                    (obs.get("hint") == "int-max-str-digits" or any(HUGE_INT.search(t) for t in texts)):
                return "%s %s" % (k.get("id", "?"), k.get("description", "")[:200])
            # the same conversion limit hit by an error-message formatter outside DSDLDefinition.read (e.g. the extents printed by the
            # minor-version check in _namespace.py): the ValueError reaches the caller unwrapped. Both the limit's own message and
            # a huge integer in the texts are required.
            if obs.get("culprit") == "ValueError" and obs.get("hint") == "int-max-str-digits" and any(HUGE_INT.search(t) for t in texts):
                return "%s %s" % (k.get("id", "?"), k.get("description", "")[:200])
        if sig.get("kind") == "offset-expansion":
            # InternalError wrapping OverflowError / MemoryError (or a raw MemoryError / a process that ran out of memory) on
            # a definition that uses _offset_ after a huge array
            shaped = obs.get("out") == "CInternal" and obs.get("culprit") in ("OverflowError", "MemoryError", "VisitationError")
            shaped = shaped or (obs.get("out") == "COther" and obs.get("culprit") == "MemoryError") or bool(obs.get("harness_fail"))
            if shaped and \
                    any(("_offset_" in t or "_bit_length_" in t) and BIG_CAPACITY.search(t) for t in texts):
                return "%s %s" % (k.get("id", "?"), k.get("description", "")[:200])
        if sig.get("kind") == "recursion-depth-fields":
            # a raw RecursionError or InternalError(RecursionError) on a definition with about 195 or more fields in one section
            if obs.get("culprit") == "RecursionError" and obs.get("out") in ("COther", "CInternal"):
                if any(max_fields_per_section(text) >= 190 for text in case.get("files", {}).values()):
                    return "%s %s" % (k.get("id", "?"), k.get("description", "")[:200])
    return None


def failure_signature(case, obs):
    """Why a case fails; a shrunk candidate must fail for the same reason (and, for the planted-defect stream, about the same file)."""
    if not isinstance(obs, dict):
        return ("disagree",)
    if obs.get("harness_fail"):
        return ("died",)
    pf = obs.get("pred_fail") or ""
    if not pf:
        return ("disagree", obs.get("out"))
    again = "again" if pf.startswith("when the same texts are read again") else "history" if pf.startswith("outcome depends on history") else "first"
    if "escaped" in pf:
        kind = "escaped"
    elif "without a path" in pf:
        kind = "no-path"
    elif "outside the directories" in pf:
        kind = "outside"
    elif "does not exist" in pf:
        kind = "nonexistent"
    elif "the offending file is" in pf:
        kind = "wrong-file"
    else:
        kind = "other"
    return ("pred", again, kind, obs.get("repeat_out") or obs.get("out"), obs.get("culprit", ""), case.get("expect_path"))


def shrink(case):
    if case["k"] == "expr":
        for c in E.shrink(case):
            c = dict(c)
            c["k"] = "expr"
            yield c
        return
    files = case["files"]
    if case.get("expect_path"):
        # The predicate "the error names exactly this file" presupposes ONE planted defect: a candidate is only faithful if the
        # defective file, every referrer on the way to it and every text stay as they are.  The only safe reduction is to drop a
        # file that is not the defective one and that no remaining file refers to (e.g. the top of a two-level chain).
        keep = os.path.basename(case["expect_path"])
        for name in sorted(files):
            if os.path.basename(name) == keep and case["expect_path"].endswith(name):
                continue
            stem = os.path.basename(name)[:-5].split(".")
            short = stem[1] if len(stem) == 4 else stem[0]
            others = [t for n, t in files.items() if n != name] + [t for fs in case.get("lookup", {}).values() for t in fs.values()]
            if any(re.search(r"(?<![A-Za-z0-9_])%s\.\d" % re.escape(short), t) for t in others):
                continue
            rest = dict(files)
            del rest[name]
            if rest:
                yield dict(case, files=rest)
        return
    # fewer files
    if len(files) > 1:
        for name in sorted(files):
            rest = dict(files)
            del rest[name]
            yield dict(case, files=rest)
    # fewer lines / halves of the mutated file
    for name in sorted(files):
        text = files[name]
        if text == NS.get(name) or len(text) < 2:
            continue
        lines = text.split("\n")
        if len(lines) > 1:
            for i in range(len(lines)):
                yield dict(case, files=dict(files, **{name: "\n".join(lines[:i] + lines[i + 1:])}))
        else:
            h = len(text) // 2
            yield dict(case, files=dict(files, **{name: text[:h]}))
            yield dict(case, files=dict(files, **{name: text[h:]}))
