"""C14 - delimited types evolve without breaking containers or the wire: generator, implementation runner, emitter.

A case is (container with a hole, old field list, number of fields the new revision appends, extent, direction, value):
the container is instantiated with the delimited structure D (old) and D' (new = old ++ appended); the value is written
with one instantiation and read with the other."""
import gallina as G
from props import c06 as S

ID = "C14"
PROPS_FILE = "Props/C14.v"
COQ_IMPORTS = "From PV Require Import BLS.Model Layout.Types Serdes.Model Check.C06 Check.C14."
CASE_TYPE = "C14.case"
CHECK_FN = "C14.check_case"
SHARD = 50
RULE = ("a case is (container type with a delimited structure D nested as field / array element / union variant / inside another delimited "
        "type, revision D' whose field list extends D's with the same extent, direction old->new or new->old, value); observed: bytes written "
        "with one revision, value decoded with the other, and min/max of bit_length_set + extent of both containers; implementation-alone "
        "predicates: bit length sets (min, max, residues mod 64), extents and all field offsets (min, max, residues mod 8) of the two "
        "containers are equal, everything outside D decodes as with the writer's revision, common leading fields of D keep their values, "
        "fields unknown to the writer are zero/empty/first variant; non-trivial = D' appends at least one field and the container has "
        "something after the hole or more than one hole instance; distinct = by hash of the canonical case")
THEOREMS_NOTE = ("C14_layout* (bit length set, alignment, extent, per-field layout inputs equal for both revisions), C14_cross_version(_nested) with "
                 "C14_old_to_new / C14_new_to_old / C14_conv_same fix the decoded value, C14_zero_decode / C14_zero_bytes")
TRUSTED = S.TRUSTED
ASSUMPTIONS = ["array capacities of random cases are <= 8"]
EXPLANATION = ("theorems quantify over all containers, all prefix/extension pairs and all values; the correspondence compares the "
               "implementation's cross-revision decoding and layout observables with the proven model on generated cases")

HOLE = ["hole"]


def subst(t, d):
    k = t[0]
    if k == "hole":
        return d
    if k in ("fix", "var"):
        return [k, subst(t[1], d), t[2]]
    if k in ("struct", "union"):
        return [k, t[1], [[n, subst(ft, d)] for n, ft in t[2]]] + t[3:]
    if k == "delim":
        inner = subst(t[1], d)
        return ["delim", inner, t[2]]
    return t


def has_hole(t):
    return any(x[0] == "hole" for x in S.walk_types(t))


def instantiate(case, new):
    fields = case["old"] + (case["app"] if new else [])
    d = ["delim", ["struct", 9000, fields] + case.get("dconsts", []), case["ext"]]
    t = subst(case["cont"], d)
    return fix_extents(t)


def fix_extents(t):
    """Extents of delimited types that enclose the hole were recorded as slack; make them absolute."""
    k = t[0]
    if k in ("fix", "var"):
        return [k, fix_extents(t[1]), t[2]]
    if k in ("struct", "union"):
        return [k, t[1], [[n, fix_extents(ft)] for n, ft in t[2]]] + t[3:]
    if k == "delim":
        inner = fix_extents(t[1])
        if isinstance(t[2], list):  # ["slack", n]: extent = max length of the inner type (which does not depend on the hole's fields) + n
            return ["delim", inner, S.max_len(inner) + t[2][1]]
        return ["delim", inner, t[2]]
    return t


def gen_container(ctx, depth, place_hole):
    """A composite; when place_hole, exactly one syntactic hole is put somewhere inside."""
    rng = ctx.rng
    kind = rng.random()

    def field_with_hole(d):
        r = rng.random()
        if d <= 0 or r < 0.4:
            return HOLE
        if r < 0.6:
            return [rng.choice(["fix", "var"]), HOLE if rng.random() < 0.7 else field_with_hole(d - 1), rng.choice([1, 2, 3])]
        return gen_container(ctx, d - 1, True)

    if kind < 0.55:
        n = rng.choice([1, 2, 3, 4])
        pos = rng.randrange(n) if place_hole else -1
        fs = []
        for i in range(n):
            if i == pos:
                fs.append(["f%d" % i, field_with_hole(depth)])
            elif rng.random() < 0.1:
                fs.append([None, ["void", rng.choice([1, 3, 8, 13])]])
            else:
                fs.append(["f%d" % i, S.gen_field_type(ctx, max(depth - 1, 0))])
        # something after the hole makes the case interesting
        if place_hole and pos == n - 1 and rng.random() < 0.8:
            fs.append(["f%d" % n, S.gen_prim(rng)])
        t = ["struct", ctx.fresh(), fs] + S.gen_consts(rng, len(fs))
    elif kind < 0.8:
        n = rng.choice([2, 3, 4])
        pos = rng.randrange(n) if place_hole else -1
        t = ["union", ctx.fresh(), [["v%d" % i, field_with_hole(depth) if i == pos else S.gen_field_type(ctx, max(depth - 1, 0))] for i in range(n)]] + S.gen_consts(rng, n)
    else:
        inner = gen_container(ctx, depth, place_hole)
        while inner[0] == "delim":
            inner = inner[1]
        return ["delim", inner, ["slack", 8 * rng.choice([0, 0, 1, 4])]]
    return t


def gen_case(rng, tier):
    ctx = S.Ctx(rng, max_cap=4 if tier == "quick" else 8, max_fields=4)
    depth = rng.choice([0, 1, 1, 2])
    cont = gen_container(ctx, depth, True)
    nf = rng.choice([0, 1, 1, 2, 2, 3, 4])
    na = rng.choice([0, 1, 1, 1, 2, 3])
    fields = []
    for i in range(nf + na):
        if rng.random() < 0.08:
            fields.append([None, ["void", rng.choice([1, 5, 8, 16])]])
        else:
            fields.append(["d%d" % i, S.gen_field_type(ctx, 1 if rng.random() < 0.3 else 0)])
    old, app = fields[:nf], fields[nf:]
    ext = S.max_len(["struct", 9000, fields]) + 8 * rng.choice([0, 0, 1, 3, 16])
    direction = rng.choice(["o2n", "n2o"])
    case = {"cont": cont, "old": old, "app": app, "ext": ext, "dir": direction, "dconsts": S.gen_consts(rng, nf)}
    tw = instantiate(case, new=(direction == "n2o"))
    case["val"] = S.gen_value(rng, tw, p_omit=rng.choice([0.0, 0.0, 0.15]))
    return case


def targeted():
    out = []
    nid = [3000]

    def St(fields):
        nid[0] += 1
        return ["struct", nid[0], [[("f%d" % i) if ft[0] != "void" else None, ft] for i, ft in enumerate(fields)]]

    def Un(fields):
        nid[0] += 1
        return ["union", nid[0], [["v%d" % i, ft] for i, ft in enumerate(fields)]]

    old = [["d0", ["u", 8, "s"]], ["d1", ["i", 5]]]
    app = [["d2", ["u", 16, "t"]], ["d3", ["var", ["utf8"], 4]], ["d4", ["union", 9100, [["v0", ["bool"]], ["v1", ["f", 32, "s"]]]]]]
    ext = S.max_len(["struct", 9000, old + app]) + 16
    conts = [
        St([HOLE, ["u", 8, "s"]]),
        St([["u", 3, "s"], HOLE, ["bool"], ["fix", HOLE, 2], ["u", 7, "t"]]),
        St([["var", HOLE, 3], ["u", 16, "s"]]),
        Un([["bool"], HOLE, ["fix", HOLE, 2]]),
        ["delim", St([["u", 8, "s"], HOLE, ["u", 8, "s"]]), ["slack", 8]],
        St([["delim", St([HOLE, ["i", 9]]), ["slack", 0]], ["u", 8, "s"]]),
    ]
    dvo = ["T", [["I", 0x11], ["I", -3]]]
    dvn = ["T", [["I", 0x11], ["I", -3], ["I", 0xBEEF], ["S", [0xE2, 0x82, 0xAC]], ["U", 1, ["F", S.f2b(1.5)]]]]
    for direction, dv in (("o2n", dvo), ("n2o", dvn)):
        vals = [
            ["T", [dv, ["I", 0x77]]],
            ["T", [["I", 5], dv, ["B", True], ["L", [dv, dv]], ["I", 0x55]]],
            ["T", [["L", [dv, dv, dv]], ["I", 0xABCD]]],
            ["U", 2, ["L", [dv, dv]]],
            ["T", [["I", 1], dv, ["I", 2]]],
            ["T", [["T", [dv, ["I", -200]]], ["I", 0x99]]],
        ]
        for c, v in zip(conts, vals):
            out.append({"cont": c, "old": old, "app": app, "ext": ext, "dir": direction, "val": v})
        # an empty old revision
        out.append({"cont": conts[0], "old": [], "app": old, "ext": 64, "dir": direction,
                    "val": ["T", [["T", []] if direction == "o2n" else dvo, ["I", 0x42]]]})
    return out


def targeted_length_boundary():
    """Arrays (fixed and variable) of delimited elements whose OLD revision has variable-length content.  Values of the NEW
    revision are chosen so that the serialized element is exactly as long as the old revision's longest representation (and one
    byte shorter / longer) while the part the old revision knows is NOT full; the element is followed by further elements and
    by a trailing field, and everything is read with the old revision (and, for symmetry, old data with the new one).
    All fields are byte aligned, so lengths are sums of bytes."""
    out = []
    nid = [3500]

    def St(fields):
        nid[0] += 1
        return ["struct", nid[0], [[("f%d" % i) if ft[0] != "void" else None, ft] for i, ft in enumerate(fields)]]

    def Un(fields):
        nid[0] += 1
        return ["union", nid[0], [["v%d" % i, ft] for i, ft in enumerate(fields)]]

    def nbytes(ft, v):
        k = ft[0]
        if k == "u":
            return ft[1] // 8
        if k == "var":
            es = 1 if ft[1][0] in ("byte", "utf8") else ft[1][1] // 8
            return 1 + es * len(v[1])
        raise ValueError(k)

    def val(ft, n, salt):
        if ft[0] == "u":
            return ["I", (0xA5A5A5A5 + salt * 0x1111) % 2 ** ft[1]]
        if ft[1][0] == "byte":
            return ["Y", [(salt + 3 * i + 1) % 256 for i in range(n)]]
        if ft[1][0] == "utf8":
            return ["S", [0x61 + (salt + i) % 26 for i in range(n)]]
        return ["L", [["I", (salt * 257 + 1000 * i + 1) % 2 ** ft[1][1]] for i in range(n)]]

    olds = [
        [["d0", ["var", ["u", 8, "s"], 3]]],                                   # the shape of the seeded example
        [["d0", ["u", 8, "s"]], ["d1", ["var", ["byte"], 4]]],
        [["d0", ["var", ["u", 16, "t"], 2]], ["d1", ["var", ["utf8"], 3]]],
    ]
    apps = [
        [["a0", ["u", 16, "s"]]],
        [["a0", ["u", 8, "t"]]],
        [["a0", ["var", ["byte"], 6]]],
        [["a0", ["u", 32, "s"]], ["a1", ["var", ["u", 8, "s"], 2]]],
    ]
    salt = [0]
    for old in olds:
        old_max = sum(nbytes(ft, ["L", [None] * ft[2]]) if ft[0] == "var" else ft[1] // 8 for _, ft in old)
        for app in apps:
            ext = S.max_len(["struct", 9000, old + app]) + 8
            # all fillings of the variable-length fields; keep the elements whose new-revision length is old_max-1, old_max, old_max+1
            var_fields = [(n, ft) for n, ft in old + app if ft[0] == "var"]
            fills = [[]]
            for _, ft in var_fields:
                fills = [f + [k] for f in fills for k in range(ft[2] + 1)]
            elems = {}
            for f in fills:
                it = iter(f)
                vs = []
                for n, ft in old + app:
                    salt[0] += 1
                    vs.append(val(ft, next(it) if ft[0] == "var" else 0, salt[0]))
                ln = sum(nbytes(ft, v) for (_, ft), v in zip(old + app, vs))
                old_full = all(len(v[1]) == ft[2] for (_, ft), v in zip(old, vs) if ft[0] == "var")
                d = ln - old_max
                if d in (-1, 0, 1) and not old_full:
                    elems.setdefault(d, []).append(["T", vs])
            plain_new = ["T", [val(ft, 1 if ft[0] == "var" else 0, 7) for _, ft in old + app]]
            plain_old = ["T", [val(ft, ft[2] if ft[0] == "var" else 0, 9) for _, ft in old]]          # old revision, full
            short_old = ["T", [val(ft, 0, 11) for _, ft in old]]
            for d in (-1, 0, 1):
                for special in elems.get(d, [])[:3]:
                    conts_vals = [
                        (St([["var", HOLE, 3], ["u", 16, "s"]]), ["T", [["L", [special, plain_new, special]], ["I", 0xBEEF]]]),
                        (St([["fix", HOLE, 2], ["u", 8, "s"]]), ["T", [["L", [special, plain_new]], ["I", 0x5A]]]),
                        (St([["u", 8, "s"], ["var", HOLE, 2], ["var", ["byte"], 2]]), ["T", [["I", 1], ["L", [special, special]], ["Y", [0xC3, 0x3C]]]]),
                        (Un([["bool"], ["fix", HOLE, 2]]), ["U", 1, ["L", [special, plain_new]]]),
                        (St([["delim", St([["fix", HOLE, 2], ["u", 8, "s"]]), ["slack", 8]], ["u", 8, "s"]]),
                         ["T", [["T", [["L", [plain_new, special]], ["I", 0x11]]], ["I", 0x22]]]),
                        (St([HOLE, HOLE, ["u", 8, "s"]]), ["T", [special, plain_new, ["I", 0x33]]]),
                    ]
                    for c, v in conts_vals:
                        out.append({"cont": c, "old": old, "app": app, "ext": ext, "dir": "n2o", "val": v})
            # old data (full / empty variable part) read with the new revision
            out.append({"cont": St([["var", HOLE, 3], ["u", 16, "s"]]), "old": old, "app": app, "ext": ext, "dir": "o2n",
                        "val": ["T", [["L", [plain_old, short_old, plain_old]], ["I", 0xBEEF]]]})
            out.append({"cont": St([["fix", HOLE, 2], ["u", 8, "s"]]), "old": old, "app": app, "ext": ext, "dir": "o2n",
                        "val": ["T", [["L", [short_old, plain_old]], ["I", 0x5A]]]})
    return out


def corpus():
    """Minimised cases that once witnessed a (seeded) defect: corpus/C14/*.json, always first."""
    import glob
    import json
    import os
    if os.environ.get("VERIF_NO_CORPUS"):
        return []
    d = os.path.join(os.path.dirname(os.path.dirname(os.path.dirname(os.path.abspath(__file__)))), "corpus", "C14")
    return [json.load(open(f)) for f in sorted(glob.glob(os.path.join(d, "*.json")))]


def generate(rng, tier):
    cases = corpus()
    streams = ["corpus"] * len(cases)
    tg = targeted() + targeted_length_boundary()
    cases += tg
    streams += ["targeted"] * len(tg)
    n = 3500 if tier == "quick" else 25000
    for _ in range(n):
        cases.append(gen_case(rng, tier))
        streams.append("random")
    return cases, streams


# ----------------------------------------------------------------------------------------------------------------


def layout_obs(schema):
    bls = schema.bit_length_set
    o = {"min": bls.min, "max": bls.max, "mod64": sorted(bls % 64), "extent": schema.extent, "offsets": []}
    for f, off in schema.iterate_fields_with_offsets():
        o["offsets"].append([f.name, off.min, off.max, sorted(off % 8)])
    return o


def zero_like(o):
    import math
    if isinstance(o, bool):
        return o is False
    if isinstance(o, int):
        return o == 0
    if isinstance(o, float):
        return o == 0.0 and math.copysign(1.0, o) == 1.0
    if isinstance(o, (str, bytes)):
        return len(o) == 0 or (isinstance(o, bytes) and all(b == 0 for b in o))
    if isinstance(o, (list, tuple)):
        return all(zero_like(x) for x in o)
    if isinstance(o, dict):
        return all(zero_like(x) for x in o.values())
    return False


def cross_pred(cont, ow, orr, common, extra_reader, first_variants):
    """ow: object decoded with the writer's revision; orr: with the reader's.  Everything outside holes must be equal; inside a
    hole the common leading fields must be equal and the reader-only fields zero-like."""
    fails = []

    def walk(t, a, b):
        k = t[0]
        if k == "hole":
            for n in common:
                if n not in a or n not in b or not S.py_equal(a[n], b[n]):
                    fails.append("common leading field %s of the nested delimited type changed" % n)
            for n in extra_reader:
                if n not in b or not zero_like_variant(b[n]):
                    fails.append("field %s unknown to the writer is not zero/empty/first variant" % n)
            return
        if k == "delim":
            walk(t[1], a, b)
        elif k in ("fix", "var"):
            if has_hole(t):
                if len(a) != len(b):
                    fails.append("array length differs")
                else:
                    for x, y in zip(a, b):
                        walk(t[1], x, y)
            elif not S.py_equal(a, b):
                fails.append("array outside the nested delimited type differs")
        elif k == "struct":
            for n, ft in S.named_fields(t):
                if has_hole(ft):
                    walk(ft, a[n], b[n])
                elif not S.py_equal(a[n], b[n]):
                    fails.append("field %s outside the nested delimited type differs" % n)
        elif k == "union":
            if list(a.keys()) != list(b.keys()):
                fails.append("union variant differs")
            else:
                key = next(iter(a))
                ft = dict((n, x) for n, x in t[2])[key]
                if has_hole(ft):
                    walk(ft, a[key], b[key])
                elif not S.py_equal(a[key], b[key]):
                    fails.append("union value outside the nested delimited type differs")

    def zero_like_variant(o):
        if isinstance(o, dict) and len(o) == 1 and next(iter(o)) in first_variants:
            return zero_like_variant(next(iter(o.values())))
        if isinstance(o, dict):
            return all(zero_like_variant(x) for x in o.values())
        if isinstance(o, (list, tuple)):
            return all(zero_like_variant(x) for x in o)
        return zero_like(o)

    try:
        walk(cont, ow, orr)
    except Exception as ex:  # pylint: disable=broad-except
        fails.append("decoded objects have different shapes (%s)" % type(ex).__name__)
    return fails


def run_impl(cases):
    import pydsdl as pydsdl_module
    B = S.Builder()
    out = []
    for case in cases:
        p = S.Api(pydsdl_module, case)  # omits keyword arguments that equal the documented defaults in half of the calls
        t_old, t_new = instantiate(case, False), instantiate(case, True)
        tw, tr = (t_old, t_new) if case["dir"] == "o2n" else (t_new, t_old)
        try:
            sw, sr = B.build(tw), B.build(tr)
        except Exception as ex:  # pylint: disable=broad-except
            out.append({"build_error": type(ex).__name__, "pred_fail": "type construction failed: %s" % type(ex).__name__})
            continue
        fails = []
        lw, lr = layout_obs(sw), layout_obs(sr)
        if lw != lr:
            for k in ("min", "max", "mod64", "extent"):
                if lw[k] != lr[k]:
                    fails.append("container %s differs between revisions" % k)
            if lw["offsets"] != lr["offsets"]:
                fails.append("field offsets of the container differ between revisions")
        obs = {"lw": [lw["min"], lw["max"], lw["extent"]], "lr": [lr["min"], lr["max"], lr["extent"]]}
        try:
            bs = p.serialize(sw, S.to_py(tw, case["val"]))
        except Exception as ex:  # pylint: disable=broad-except
            obs["ser"] = {"err": S.classify(ex)}
            out.append(obs)
            continue
        back, o = S.observe_deser(p, sr, tr, bs, False)
        obs["ser"] = {"bytes": list(bs), "back": back}
        if o is None:
            fails.append("data written with one revision is rejected by the other")
        else:
            try:
                ow = p.deserialize(sw, bs)
                names_old = [n for n, _ in case["old"] if n is not None]
                names_app = [n for n, _ in case["app"] if n is not None]
                first_variants = set()
                for x in S.walk_types(tr):
                    if x[0] == "union":
                        first_variants.add(x[2][0][0])
                fails += cross_pred(case["cont"], ow, o, names_old, names_app if case["dir"] == "o2n" else [], first_variants)
            except Exception as ex:  # pylint: disable=broad-except
                fails.append("writer's own revision cannot read the data (%s)" % type(ex).__name__)
        if o is not None:
            # the application mutates what it received; decoding the same bytes again must give the original value
            try:
                import copy
                import random as _random
                snap = copy.deepcopy(o)
                S.mutate_in_place(_random.Random(len(bs) * 7919 + 23), tr, o)
                if not S.py_equal(snap, p.deserialize(sr, bs)):
                    fails.append("decoding the same bytes again after the first result was mutated in place gives a different value")
                if p.serialize(sw, S.to_py(tw, case["val"])) != bs:
                    fails.append("serializing the same value again after a decoded object was mutated in place gives different bytes")
            except Exception as ex:  # pylint: disable=broad-except
                fails.append("repeating the step after mutating the decoded object raised %s" % type(ex).__name__)
        if fails:
            obs["pred_fail"] = "; ".join(sorted(set(fails)))
        out.append(obs)
    return out


def emit_lobs(l):
    return "(C14.LObs %s %s %s)" % (G.z(l[0]), G.z(l[1]), G.z(l[2]))


def emit(case, obs):
    if "build_error" in obs:
        return "(C14.Case (TVoid 0) (TVoid 0) VOmit (C14.LObs 0 0 0) (C14.LObs 0 0 0) (C06.SErr COther))"
    t_old, t_new = instantiate(case, False), instantiate(case, True)
    tw, tr = (t_old, t_new) if case["dir"] == "o2n" else (t_new, t_old)
    return "(C14.Case %s %s %s %s %s %s)" % (S.emit_ty(tw), S.emit_ty(tr), S.emit_val(case["val"]), emit_lobs(obs["lw"]), emit_lobs(obs["lr"]),
                                              S.emit_sobs(obs["ser"]))


def model_eval(case, obs):
    return ("Eval vm_compute in (map (fun c => match c with C14.Case tw tr v _ _ _ => (serialize tw v false, "
            "match serialize tw v false with Ok bs => Some (deserialize tr bs false) | _ => None end, omin (bls tw), omax (bls tw), extent tw) end) cases).\n")


def after_hole(t):
    """Is there anything serialized after a hole, or more than one hole instance?"""
    k = t[0]
    if k == "struct":
        seen = False
        for _, ft in t[2]:
            if seen:
                return True
            if has_hole(ft):
                if after_hole(ft):
                    return True
                seen = True
        return False
    if k in ("fix", "var"):
        return has_hole(t[1]) and (t[2] > 1 or after_hole(t[1]))
    if k == "union":
        return any(after_hole(ft) for _, ft in t[2])
    if k == "delim":
        return after_hole(t[1])
    return False


def nontrivial(case, obs):
    return bool(case["app"]) and after_hole(case["cont"]) and "ser" in obs and "bytes" in obs["ser"]


def describe(case, obs):
    keys = ["dir:" + case["dir"], "old_fields=%d" % len(case["old"]), "appended=%d" % len(case["app"]), "cont:" + case["cont"][0]]

    def where(t, ctx):
        k = t[0]
        if k == "hole":
            keys.append("hole-in:" + ctx)
        elif k in ("fix", "var"):
            where(t[1], "array")
        elif k in ("struct", "union"):
            for _, ft in t[2]:
                where(ft, k)
        elif k == "delim":
            keys.append("enclosing-delimited")
            where(t[1], ctx)

    where(case["cont"], "top")
    if case.get("dconsts") or any(S.consts_of(x) for x in S.walk_types(case["cont"]) if x[0] in ("struct", "union")):
        keys.append("has:constants")
    if after_hole(case["cont"]):
        keys.append("data-after-hole")
    ser = obs.get("ser", {})
    if "err" in ser:
        keys.append("serialize-error:" + ser["err"])
    elif "back" in ser:
        keys.append("read:" + ("value" if "val" in ser["back"] else ser["back"].get("err", "shape")))
    if obs.get("pred_fail"):
        keys.append("pred-fail")
    return keys


def shrink(case):
    # fewer appended / old fields (values are regenerated deterministically as defaults: all omitted)
    def blank(c):
        c = dict(c)
        tw = instantiate(c, new=(c["dir"] == "n2o"))
        c["val"] = S.default_json(tw)
        return c
    if len(case["app"]) > 1:
        yield blank(dict(case, app=case["app"][:-1]))
    if case["old"]:
        yield blank(dict(case, old=case["old"][:-1], app=[case["old"][-1]] + case["app"]))
    yield blank(case)


LEVEL_TEXT = ("Machine-checked theorems (Coq, closed under the global context): the bit length set, extent and alignment of a container do not "
              "depend on the field list of a nested delimited type (syntactic equality of operator trees), zero data decodes to the zero value, "
              "and data written with one revision decodes with the other to the extended / restricted value (model of _serdes.py shared with "
              "C06/C07). The model is tied to /repo by comparing, inside Coq, the implementation's cross-revision decoding and container layout "
              "with the model's on generated (container, D, D', value) cases.")
LEVEL_NOTE = S.LEVEL_NOTE
TECHNIQUE = S.TECHNIQUE
