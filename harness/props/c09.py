"""C09 - versioned references resolve to exactly the named definition or fail cleanly.

Also the shared library of the three namespace properties (C09, C10, C19): abstract namespaces (directories, files
whose names encode name/version/port, abstract bodies), their materialisation under VERIF_SCRATCH, the runner for
read_namespace / read_files and the Gallina emitters.
"""
import os
import shutil
import gallina as G

ID = "C09"
PROPS_FILE = "Props/C09.v"
COQ_IMPORTS = "From PV Require Import Namespace.Reader Namespace.Listing Check.C09."
CASE_TYPE = "C09.case"
CHECK_FN = "C09.check_case"
SHARD = 40
RULE = ("a case is a namespace tree on disk (3-12 definitions in 1-3 root directories; chains, diamonds, several versions of one "
        "name, relative and absolute references, references through arrays, cross-root references, optional cycles / self "
        "references / wrong-case spellings / case-variant sibling names / the same name and version in a second same-named "
        "root / missing versions / a namespace component that equals or starts with the short name of a definition inside it, with "
        "relative references at several depths and optionally a same-named definition in the namespace obtained by deleting "
        "that component / two names equal up to case in different versions referenced with all (spelling, version) combinations / a self "
        "reference or 2-/3-cycle through a definition that has a twin in a same-named second root directory / versions >= 10 and "
        "unreferenced versions whose decimal digits concatenate like a referenced one (11.0 / 1.10) / one definition referring to a "
        "type twice, exactly spelled and in another letter case, in both orders / a targeted stream of references to the version "
        "neighbours m.255 / (m+1).0 with one or both present / a relative reference whose only case-insensitive "
        "candidate lives in a namespace spelled in another letter case (last / middle component, root directory)) plus read_namespace and read_files calls for several target subsets, and one read_files "
        "call per definition on its own; non-trivial = at least one call returns a type with a nested composite or fails in "
        "resolution; distinct = by hash of the canonical case")
THEOREMS_NOTE = ("C09_resolve_exact / C09_resolve_never_other / C09_errors fix the outcome of a resolution, C09_terminates / C09_cycles / "
                 "C09_acyclic the outcome on self references and cycles, C09_standalone / C09_cache_order / C09_reported the independence "
                 "from referrer, order and cache under case_unique; C09_standalone_refuted is the F7 witness")
TRUSTED = ["parsimonious, pathlib and the file system are exercised through the implementation only",
           "names are ASCII in every generated case (str.lower() is modelled as ASCII lower-casing)"]
ASSUMPTIONS = ["bodies are sealed structures made of composite fields (optionally fixed arrays), uintN fields, @print and @assert false",
               "keyword arguments whose value equals the documented default are omitted in a pseudo-random half of the calls"]
EXPLANATION = ("theorems quantify over all lookup lists, bodies and read orders of the model; the correspondence compares, per call, the "
               "trees of (file, full name, version) of nested composite field types or the error class with the model's value")
LEVEL_TEXT = ("Machine-checked theorems (Coq, closed under the global context) about a Gallina model of resolve_versioned_data_type, "
              "DSDLDefinition.read (self removal, cache) and _read_definitions; the model is tied to /repo by reading generated "
              "namespaces with the implementation and comparing the nested type trees / error class with the model inside Coq.")
LEVEL_NOTE = ("Trusted: Coq kernel + vm_compute; the model corresponds to the code as far as the sampled correspondence shows; open finding F7 "
              "(case-variant siblings) is mirrored by the model, carved out by the hypothesis case_unique and witnessed by C09_standalone_refuted.")
TECHNIQUE = "Coq proof over a fuel-indexed reader model (shrinking lookup list) + vm_compute correspondence on materialised namespaces"

# ----------------------------------------------------------------------------------------------------------------
# abstract namespaces

ROOT_NAMES = ["ra", "rb", "Rc", "zed"]
SUBS = ["s", "t", "Uv", "uv"]
SHORTS = ["A", "B", "C", "D", "E", "F", "G", "H", "K", "M", "P", "Q", "Xy", "xY", "xy", "Za", "zA", "b", "k"]
BASES = ["a", "b", "c"]
BIG_VERSIONS = [0, 1, 2, 3, 9, 10, 11, 12, 23, 110, 255]
# versions whose decimal digits concatenate equally: (referenced, look-alike)
DIGIT_TWINS = [((11, 0), (1, 10)), ((1, 10), (11, 0)), ((12, 3), (1, 23)), ((1, 23), (12, 3)), ((1, 12), (11, 2)), ((25, 5), (2, 55)),
               ((1, 110), (11, 10)), ((10, 1), (1, 1)), ((2, 10), (21, 0)), ((110, 0), (11, 0))]


def basename(f):
    if f.get("base"):
        return f["base"]
    return ("%d." % f["port"] if f.get("port") is not None else "") + "%s.%d.%d.%s" % (f["short"], f["maj"], f["min"], f["ext"])


def rel_ns(root, f):
    """namespace of file f when listed from the directory `root` (list of components)"""
    return ".".join([root[-1]] + f["dir"][len(root):])


def full_name(root, f):
    return rel_ns(root, f) + "." + f["short"]


def is_under(root, f):
    return f["dir"][:len(root)] == root


def body_text(f):
    lines = []
    for i, it in enumerate(f["body"]):
        k = it[0]
        if k == "ref":
            lines.append("%s.%d.%d%s f%d" % (it[1], it[2], it[3], "[%d]" % it[4] if it[4] else "", i))
        elif k == "print":
            lines.append("@print %d" % f["id"])
        elif k == "fault":
            lines.append("@assert false")
        elif k == "plain":
            lines.append("uint%d f%d" % (it[1], i))
        else:
            raise ValueError(k)
    lines.append("@sealed")
    return "\n".join(lines) + "\n"


def materialise(base, case):
    """writes the files of the case under base; returns {resolved path: file id}"""
    idmap = {}
    for f in case["files"]:
        d = os.path.join(base, *f["dir"])
        os.makedirs(d, exist_ok=True)
        p = os.path.join(d, basename(f))
        with open(p, "w") as fh:
            fh.write(f.get("text") if f.get("text") is not None else body_text(f))
        idmap[os.path.realpath(p)] = f["id"]
    for d in case.get("dirs", []):
        os.makedirs(os.path.join(base, *d), exist_ok=True)
    return idmap


# ----------------------------------------------------------------------------------------------------------------
# implementation side

_STATE = {"n": 0, "opened": None, "patched": False}


def _patch_text():
    """DSDLDefinition.text reads the file on first use: record which files are opened."""
    if _STATE["patched"]:
        return
    import random
    from pathlib import Path
    from pydsdl import _dsdl_definition
    cls = _dsdl_definition.DSDLDefinition
    orig = cls.text

    def text(self):
        if self._text is None and _STATE["opened"] is not None:  # pylint: disable=protected-access
            _STATE["opened"].append(os.path.realpath(str(self.file_path)))
        return orig.fget(self)

    cls.text = property(text)
    seed = os.environ.get("VERIF_SHUFFLE")
    if seed is not None:
        rnd = random.Random(int(seed))
        orig_rglob = Path.rglob

        def rglob(self, *a, **kw):
            items = list(orig_rglob(self, *a, **kw))
            rnd.shuffle(items)
            return iter(items)

        Path.rglob = rglob
    _STATE["patched"] = True


def classify(ex):
    import pydsdl
    if isinstance(ex, pydsdl.InvalidDefinitionError):
        return "InvalidDefinition"
    if isinstance(ex, pydsdl.InternalError):
        return "Internal"
    if isinstance(ex, ValueError):
        return "ValueError"
    if isinstance(ex, TypeError):
        return "TypeError"
    return "Other"


def obs_tree(ct, idmap, depth=0):
    import pydsdl
    kids = []
    if depth < 40:
        for fld in ct.fields:
            t = fld.data_type
            while isinstance(t, pydsdl.ArrayType):
                t = t.element_type
            if isinstance(t, pydsdl.CompositeType):
                kids.append(obs_tree(t, idmap, depth + 1))
    return [idmap.get(os.path.realpath(str(ct.source_file_path)), -1), ct.full_name, ct.version.major, ct.version.minor, kids]


def spell(base, comps, how, links):
    """one of several equivalent spellings of the directory / file base/comps[0]/.../comps[-1]"""
    if how == "rel":
        return os.path.join(*comps)
    if how == "dotdot":
        return os.path.join(base, comps[0], "..", *comps)
    if how == "dot":
        return os.path.join(base, ".", *comps) + os.sep
    if how == "link":
        # a symbolic link to the first directory of the path, created next to it
        ln = os.path.join(base, "_ln_" + comps[0])
        if ln not in links:
            if not os.path.lexists(ln):
                os.symlink(os.path.join(base, comps[0]), ln)
            links.add(ln)
        return os.path.join(ln, *comps[1:])
    return os.path.join(base, *comps)


def run_query(base, case, q, idmap, variant=None, err_detail=False):
    """executes one call; returns the canonical observation"""
    import random
    from pathlib import Path
    import pydsdl
    files = {f["id"]: f for f in case["files"]}
    how = (variant or {}).get("how", "abs")
    links = set()

    how_t = (variant or {}).get("how_targets", how)      # the target files may be spelled differently from the directories

    bare = (variant or {}).get("bare")     # a root directory passed as a bare relative name, with its parent as working directory

    def sp(comps, h=None):
        if bare is not None and list(comps) == list(bare):
            s = comps[-1]
        else:
            s = spell(base, comps, h or how, links)
        return Path(s) if (variant or {}).get("as_path") else s

    def args(dirs):
        out = [sp(d) for d in dirs]
        if variant:
            rnd = random.Random(variant.get("perm", 0))
            if variant.get("dup") and out:
                out.append(rnd.choice(out))
            if not variant.get("noperm"):
                rnd.shuffle(out)
        return shaped(out)

    def shaped(lst):
        """the same paths in another legitimate argument shape (one-shot iterators included)"""
        shape = (variant or {}).get("shape", "list")
        if shape == "gen":
            return (x for x in lst)
        if shape == "iter":
            return iter(lst)
        if shape == "tuple":
            return tuple(lst)
        if shape == "map":
            return map(lambda x: x, lst)
        if shape == "single" and len(lst) == 1:
            return lst[0]
        if shape == "none" and not lst:
            return None
        return lst

    deliv = []
    _STATE["opened"] = []

    def handler(path, line, text):
        try:
            who = int(text)
        except ValueError:
            who = -2
        deliv.append([idmap.get(os.path.realpath(str(path)), -1), who, int(line)])

    cwd0 = os.getcwd()
    try:
        if bare is not None:
            os.chdir(os.path.join(base, *bare[:-1]))
        # Keyword arguments whose value equals the documented default are OMITTED for a pseudo-random half of the calls
        # (decided from the content of the call itself, so a replay repeats it): a changed default must not go unseen.
        import json
        import zlib
        bits = zlib.crc32(json.dumps([{k: v for k, v in q.items() if k not in ("variants", "mutations")}, variant or {},
                                      case.get("kwseed", 0)], sort_keys=True).encode())
        kw = {}
        if q["lookups"] or not bits & 1:
            kw["lookup_directories"] = args(q["lookups"])
        # (C19 - err_detail - compares the handler calls with the model: there the handler is only left out when there is
        # nothing to observe; C09 / C10 do not compare them and also run definitions with @print without a handler)
        if (err_detail and not (no_prints(case) and not q.get("mutations"))) or not bits & 2:
            kw["print_output_handler"] = handler
        au = allow_unregulated(case)
        if au or not bits & 4:
            kw["allow_unregulated_fixed_port_id"] = au
        if q["k"] == "ns":
            if not q["allow"] or not bits & 8:
                kw["allow_root_namespace_name_collision"] = bool(q["allow"])
            res = pydsdl.read_namespace(sp(q["root"]), **kw)
            direct, trans = list(res), []
        else:
            targets = []
            for i in q["targets"]:
                f = files[i]
                targets.append(sp(f["dir"] + [basename(f)], how_t))
            direct, trans = pydsdl.read_files(shaped(targets), args(q["roots"]), **kw)
        ob = {"ok": {"direct": [obs_tree(t, idmap) for t in direct], "trans": [obs_tree(t, idmap) for t in trans],
                     "deliv": deliv, "opened": sorted(set(idmap.get(p, -1) for p in _STATE["opened"]))}}
    except RecursionError:
        ob = {"err": "Other"}
    except Exception as ex:  # pylint: disable=broad-except
        ob = {"err": classify(ex)}
        if err_detail:
            # where the error is located, what the handler was told before, which files were opened (never the error text)
            pth = getattr(ex, "path", None)
            ob["path"] = idmap.get(os.path.realpath(str(pth)), -1) if pth is not None else None
            ob["deliv"] = deliv
            ob["opened"] = sorted(set(idmap.get(p, -1) for p in _STATE["opened"]))
    finally:
        os.chdir(cwd0)
        _STATE["opened"] = None
        for ln in links:
            try:
                os.unlink(ln)
            except OSError:
                pass
    return ob


def no_prints(case):
    return not any(it[0] == "print" for f in case["files"] for it in f["body"]) and not any(f.get("text") for f in case["files"])


def allow_unregulated(case):
    """value of allow_unregulated_fixed_port_id for all calls of the case: the case says so, else True when any file name
    carries a port-ID (the generator's port-IDs then need not be regulated) and False (= the default) when none does"""
    if case.get("allow_unreg") is not None:
        return bool(case["allow_unreg"])
    return any(f.get("port") is not None for f in case["files"])


def regulated(f):
    """vendor range of subject-IDs (no generated root namespace is called uavcan / cyphal; all generated types are messages)"""
    return f.get("port") is None or 6144 <= f["port"] <= 7167


def case_dir():
    _STATE["n"] += 1
    base = os.path.join(os.environ["VERIF_SCRATCH"], "ns_%d_%d" % (os.getpid(), _STATE["n"]))
    os.makedirs(base)
    return base


def subtrees(t):
    yield t
    for k in t[4]:
        yield from subtrees(k)


def run_case(case):
    """materialise, run every query; returns (list of observations, base directory is removed)"""
    _patch_text()
    import logging
    logging.disable(logging.CRITICAL)
    base = case_dir()
    cwd = os.getcwd()
    try:
        idmap = materialise(base, case)
        os.chdir(base)
        return [run_query(base, case, q, idmap) for q in case["queries"]]
    finally:
        os.chdir(cwd)
        shutil.rmtree(base, ignore_errors=True)


def standalone_pred(case, obs):
    """C09 on the implementation alone: every composite returned anywhere (top level or nested) for file f equals what
    the read_files call for f alone returned (queries tagged 'solo' use the same set of lookup directories)."""
    solo = {}
    for q, o in zip(case["queries"], obs):
        if q.get("solo") is not None:
            solo[q["solo"]] = o
    for qi, (q, o) in enumerate(zip(case["queries"], obs)):
        if "ok" not in o or not q.get("same_dirs"):
            continue
        for top in o["ok"]["direct"] + o["ok"]["trans"]:
            for t in subtrees(top):
                s = solo.get(t[0])
                if s is None:
                    continue
                if "ok" not in s:
                    return "query %d returns a composite for file %d whose own read fails" % (qi, t[0])
                if s["ok"]["direct"] != [t]:
                    return "query %d: composite of file %d differs from the one its own read yields" % (qi, t[0])
    return None


def run_impl(cases):
    out = []
    for case in cases:
        obs = run_case(case)
        r = {"q": obs}
        p = standalone_pred(case, obs)
        if p:
            r["pred_fail"] = "standalone: " + p
        out.append(r)
    return out


# ----------------------------------------------------------------------------------------------------------------
# generator


def pick_dirs(rng):
    """root directories of a case: list of component lists"""
    names = rng.sample(ROOT_NAMES, 3)
    roots = [[BASES[0], names[0]]]
    r = rng.random()
    if r < 0.55:
        roots.append([BASES[1], names[1]])
    if r < 0.15:
        roots.append([BASES[2], names[2]])
    return roots


def gen_defs(rng, roots, n, opts):
    """n definitions with distinct (directory, short, version)"""
    defs = []
    used = set()
    tries = 0
    while len(defs) < n and tries < 200:
        tries += 1
        root = rng.choice(roots)
        depth = rng.choice([0, 0, 1, 1, 2])
        subs = [rng.choice(SUBS[:2] if not opts.get("case_dirs") else SUBS) for _ in range(depth)]
        if defs and rng.random() < 0.35:
            # another version of an existing name
            o = rng.choice(defs)
            d, short = list(o["dir"]), o["short"]
        else:
            d, short = root + subs, rng.choice(SHORTS if opts.get("case_names") else SHORTS[:12])
        maj = rng.choice([0, 1, 1, 2])
        mnr = rng.choice([0, 0, 1, 2])
        if rng.random() < opts.get("bigver_p", 0.08):
            maj = rng.choice(BIG_VERSIONS)
            mnr = rng.choice(BIG_VERSIONS)
        if maj == 0 and mnr == 0:
            mnr = 1                                                 # version 0.0 is not a valid version
        key = (tuple(d), short, maj, mnr)
        if key in used:
            continue
        if not opts.get("case_names") and any((tuple(x["dir"]), x["short"].lower()) == (tuple(d), short.lower()) and x["short"] != short for x in defs):
            continue
        used.add(key)
        defs.append({"id": len(defs), "dir": d, "short": short, "maj": maj, "min": mnr, "port": None, "ext": "dsdl" if rng.random() < 0.85 else "uavcan",
                     "bad": False, "body": []})
    return defs


def natural_root(roots, f):
    for r in roots:
        if is_under(r, f):
            return r
    return roots[0]


def gen_bodies(rng, roots, defs, opts):
    order = list(range(len(defs)))
    rng.shuffle(order)
    pos = {i: k for k, i in enumerate(order)}
    for f in defs:
        my_root = natural_root(roots, f)
        items = []
        nref = rng.choice([0, 1, 1, 2, 2, 3])
        for _ in range(nref):
            back = rng.random() < opts.get("cycle_p", 0.0)
            cands = [g for g in defs if (back or pos[g["id"]] > pos[f["id"]])]
            if opts.get("self_p", 0) > rng.random():
                cands = [f]
            if not cands:
                continue
            g = rng.choice(cands)
            g_root = natural_root(roots, g)
            name = full_name(g_root, g)
            maj, mnr = g["maj"], g["min"]
            if rel_ns(g_root, g) == rel_ns(my_root, f) and rng.random() < 0.6:
                name = g["short"]                                   # relative reference
            elif rng.random() < opts.get("badrel_p", 0.03):
                name = g["short"]                                   # relative spelling of something in another namespace
            if rng.random() < opts.get("wrongcase_p", 0.0):
                name = name.swapcase() if rng.random() < 0.5 else name[:-1] + name[-1].swapcase()
            if rng.random() < opts.get("missing_p", 0.03):
                if rng.random() < 0.5:
                    mnr += 3                                        # a version that does not exist
                else:
                    maj += 3
            arr = rng.choice([0, 0, 0, 1, 2, 3])
            items.append(["ref", name, maj, mnr, arr])
        for _ in range(rng.choice([0, 1, 1, 2])):
            items.append(["plain", rng.choice([8, 8, 16, 32])])
        if rng.random() < opts.get("print_p", 0.15):
            items.append(["print"])
        if rng.random() < opts.get("fault_p", 0.02):
            items.append(["fault"])
        rng.shuffle(items)
        f["body"] = items


def all_dirs_queries(rng, roots, defs, extra_lookups=None):
    """queries that all use the same set of lookup directories (the given roots), plus one solo read per definition"""
    qs = []
    extra = extra_lookups or []
    for r in roots:
        if rng.random() < 0.8:
            qs.append({"k": "ns", "root": r, "lookups": [x for x in roots if x != r] + extra, "allow": True, "same_dirs": True})
    ids = [f["id"] for f in defs if not f["bad"] and f["ext"] != "txt" and any(is_under(r, f) for r in roots)]
    for _ in range(rng.choice([1, 2, 2, 3])):
        if ids:
            k = rng.choice([1, 2, 2, 3, 4])
            ts = [rng.choice(ids) for _ in range(k)]
            qs.append({"k": "files", "targets": ts, "roots": list(roots), "lookups": list(extra), "same_dirs": True})
    for i in ids:
        qs.append({"k": "files", "targets": [i], "roots": list(roots), "lookups": list(extra), "solo": i, "same_dirs": True})
    return qs


def gen_case(rng, tier, flavor=None):
    flavor = flavor or rng.choice(["plain", "plain", "plain", "plain", "cycle", "case", "dup_root", "wrongcase", "self", "twins", "f7", "nsprefix", "nsprefix", "casever", "casever", "dupcycle", "dupcycle", "digits", "caserepeat", "nscase", "nscase"])
    opts = {"print_p": 0.15, "missing_p": 0.015, "badrel_p": 0.015, "fault_p": 0.01}
    if flavor == "cycle":
        opts["cycle_p"] = 0.25
    if flavor == "self":
        opts["self_p"] = 0.12
    if flavor == "case":
        opts["case_names"] = True
        opts["case_dirs"] = rng.random() < 0.4
    if flavor == "wrongcase":
        opts["wrongcase_p"] = 0.2
    roots = pick_dirs(rng)
    n = rng.randrange(3, 13 if tier == "quick" else 17)
    defs = gen_defs(rng, roots, n, opts)
    gen_bodies(rng, roots, defs, opts)
    if flavor == "dup_root":
        # a second directory with the same root name holding a definition with the name and version of an existing one
        r0 = roots[0]
        r2 = ["d", r0[-1]]
        roots.append(r2)
        for o in rng.sample(defs, min(len(defs), rng.choice([1, 2]))):
            if is_under(r0, o):
                c = dict(o, id=len(defs), dir=r2 + o["dir"][len(r0):], body=list(o["body"]) if rng.random() < 0.5 else [["plain", 8]])
                defs.append(c)
        g = {"id": len(defs), "dir": r2 + ["s"], "short": "Own", "maj": 1, "min": 0, "port": None, "ext": "dsdl", "bad": False, "body": [["plain", 8]]}
        defs.append(g)
    if flavor == "twins":
        defs.append(make_twin(rng, defs, rng.choice(defs), rng.random() < 0.6))
    if flavor == "f7":
        # case-variant siblings with one version; Y refers to one of them; the other one refers to Y (open finding F7)
        d = roots[0] + [rng.choice(SUBS[:2]) for _ in range(rng.choice([0, 1]))]
        up, lo = rng.choice([("Wx", "wx"), ("Wx", "wX"), ("WX", "Wx")])
        ver = rng.choice([(1, 0), (0, 1), (2, 3)])
        ns_name = rel_ns(roots[0], {"dir": d})
        target, other = (lo, up) if rng.random() < 0.7 else (up, lo)
        i = len(defs)
        ref_t = [target, ns_name + "." + target][rng.randrange(2)]
        defs.append(mkfile(i, d, other, ver[0], ver[1], [["ref", "Yq", 1, 0, 0]] + ([["plain", 8]] if rng.random() < 0.5 else [])))
        defs.append(mkfile(i + 1, d, target, ver[0], ver[1], [["plain", 16]]))
        defs.append(mkfile(i + 2, d, "Yq", 1, 0, [["ref", ref_t, ver[0], ver[1], rng.choice([0, 0, 2])]]))
        if defs and rng.random() < 0.5:
            defs.append(mkfile(i + 3, d, "Zq", 1, 0, [["ref", "Yq", 1, 0, 0], ["ref", other, ver[0], ver[1], 0]]))
    if flavor == "nsprefix":
        add_nsprefix(rng, roots[0], defs)
    if flavor == "casever":
        add_casever(rng, roots[0], defs)
    if flavor == "dupcycle":
        add_dupcycle(rng, roots, defs)
    if flavor == "digits":
        add_digits(rng, roots, defs)
    if flavor == "caserepeat":
        add_caserepeat(rng, roots[0], defs)
    if flavor == "nscase":
        add_nscase(rng, roots, defs)
    qs = all_dirs_queries(rng, roots, defs)
    return {"files": defs, "queries": qs, "flavor": flavor, "dirs": roots}


def make_twin(rng, defs, o, same):
    """a second file with the directory, short name and version of o (other suffix, or a port-ID prefix when no other
    minor version of that name exists: which of two twins with different port-IDs survives is the iteration order of
    a set and would make the minor-version port rule flip)"""
    c = dict(o, id=len(defs), body=[list(x) for x in o["body"]] if same else [list(x) for x in o["body"]] + [["plain", 8]])
    alone = not any(x is not o and (x["dir"], x["short"], x["maj"]) == (o["dir"], o["short"], o["maj"]) for x in defs)
    if alone and o.get("port") is None and rng.random() < 0.5:
        c["port"] = 7000 + rng.randrange(0, 100)
    else:
        c["ext"] = "uavcan" if o["ext"] == "dsdl" else "dsdl"
    return c


def add_dupcycle(rng, roots, defs, kind=None, sub=None, twin_body=None, link_in_both=None):
    """One root namespace provided by TWO directories that both hold Node.1.0; the Node of the first directory refers to
    itself or lies on a 2-/3-cycle.  The self / cyclic reference must stay undefined: the twin of the other directory is
    removed from the lookup list together with the definition being read.  (Appends the second directory to roots.)"""
    r0 = roots[0]
    r2 = ["d", r0[-1]]
    if r2 not in roots:
        roots.append(r2)
    kind = kind or rng.choice(["self", "self", "cycle2", "cycle2", "cycle3"])
    sub = sub if sub is not None else [rng.choice(SUBS[:2]) for _ in range(rng.choice([0, 0, 1]))]
    ns_name = ".".join([r0[-1]] + sub)
    rel = lambda nm: nm if rng.random() < 0.5 else ns_name + "." + nm  # noqa: E731
    i = len(defs)
    arr = rng.choice([0, 0, 2])
    if kind == "self":
        defs.append(mkfile(i, r0 + sub, "Node", 1, 0, [["plain", 8], ["ref", rel("Node"), 1, 0, arr]]))
        n = i + 1
    elif kind == "cycle2":
        defs.append(mkfile(i, r0 + sub, "Node", 1, 0, [["ref", rel("Link"), 1, 0, arr]]))
        defs.append(mkfile(i + 1, r0 + sub, "Link", 1, 0, [["ref", rel("Node"), 1, 0, 0], ["plain", 8]]))
        n = i + 2
    else:
        defs.append(mkfile(i, r0 + sub, "Node", 1, 0, [["ref", rel("Link"), 1, 0, 0]]))
        defs.append(mkfile(i + 1, r0 + sub, "Link", 1, 0, [["ref", rel("Hop"), 1, 0, arr]]))
        defs.append(mkfile(i + 2, r0 + sub, "Hop", 1, 0, [["ref", rel("Node"), 1, 0, 0]]))
        n = i + 3
    # the twin in the other directory: harmless on its own, or with the same body
    tb = twin_body if twin_body is not None else rng.choice(["plain", "plain", "same"])
    defs.append(mkfile(n, r2 + sub, "Node", 1, 0, [["plain", 16]] if tb == "plain" else [list(x) for x in defs[i]["body"]]))
    n += 1
    if kind != "self" and (link_in_both if link_in_both is not None else rng.random() < 0.3):
        defs.append(mkfile(n, r2 + sub, "Link", 1, 0, [["plain", 8]]))
        n += 1
    if rng.random() < 0.5:
        # somebody who merely uses Node: ambiguous while both directories are looked up
        defs.append(mkfile(n, r0 + sub, "User", 1, 0, [["ref", rel("Node"), 1, 0, 0]]))


def add_nscase(rng, roots, defs, where=None, pre=None, post=None, control=None):
    """A relative (dot-less) reference from a nested namespace whose ONLY case-insensitive candidate lives in a namespace that
    is spelled like the referrer's up to letter case (mis-cased last / middle component, or a root directory of another
    letter case): it must be reported (letter case), never resolved into the other namespace.  No two definitions are equal
    up to case with one version, so this is not the F7 situation.  (May append a root directory to roots.)"""
    where = where or rng.choice(["last", "last", "middle", "root"])
    pre = pre if pre is not None else rng.choice([[], [], ["s"]])
    post = post if post is not None else rng.choice([[], [], ["t"]])
    r0 = roots[0]
    if where == "root":
        r2 = ["e", r0[-1].swapcase() if r0[-1].swapcase() != r0[-1] else r0[-1].upper()]
        if r2 not in roots:
            roots.append(r2)
        sub = pre + ["cage"] + post
        d_ref, d_def = r0 + sub, r2 + sub
    elif where == "middle":
        d_ref, d_def = r0 + pre + ["cage", "in"] + post, r0 + pre + ["Cage", "in"] + post
    else:
        d_ref, d_def = r0 + pre + post + ["cage"], r0 + pre + post + [rng.choice(["Cage", "CAGE", "cagE"])]
    i = len(defs)
    arr = rng.choice([0, 0, 2])
    defs.append(mkfile(i, d_ref, "Keeper", 1, 0, [["plain", 8], ["ref", "Animal", 1, 0, arr]]))
    defs.append(mkfile(i + 1, d_def, "Animal", 1, 0, [["plain", 16]]))
    n = i + 2
    if (rng.random() < 0.6) if control is None else control:
        # control: the same relative reference from the namespace where Animal really lives
        defs.append(mkfile(n, d_def, "Vet", 1, 0, [["ref", "Animal", 1, 0, 0]]))
        n += 1
    if rng.random() < 0.3:
        # another VERSION of Animal next to the referrer (still no candidate for 1.0 there)
        defs.append(mkfile(n, d_ref, "Animal", 2, 0, [["plain", 8]]))
        n += 1
    if rng.random() < 0.4:
        # somebody who uses Keeper: the error must surface through the referrer as well
        defs.append(mkfile(n, d_ref, "Zoo", 1, 0, [["ref", "Keeper", 1, 0, 0]]))


def add_caserepeat(rng, root, defs, order=None, rel=None):
    """one definition refers to the same type several times: with the exact spelling and with a spelling that differs by
    letter case, in both orders (the verdict on a reference must not depend on what was resolved before)"""
    d = root + [rng.choice(SUBS[:2]) for _ in range(rng.choice([0, 0, 1]))]
    ns_name = ".".join([root[-1]] + d[len(root):])
    i = len(defs)
    defs.append(mkfile(i, d, "Item", 1, 0, [["plain", 8]]))
    rel = (rng.random() < 0.5) if rel is None else rel
    good = "Item" if rel else ns_name + ".Item"
    bad = rng.choice(["item", "ITEM", "iTem"]) if rel else rng.choice([ns_name + ".item", ns_name.swapcase() + ".Item", ns_name + ".ITEM"])
    order = order or rng.choice(["good-bad", "good-bad", "bad-good", "good-good-bad", "bad"])
    seq = {"good-bad": [good, bad], "bad-good": [bad, good], "good-good-bad": [good, good, bad], "bad": [bad]}[order]
    body = []
    for nm in seq:
        body.append(["ref", nm, 1, 0, rng.choice([0, 0, 2])])
        if rng.random() < 0.3:
            body.append(["plain", 8])
    defs.append(mkfile(i + 1, d, "Twice", 1, 0, body))
    if rng.random() < 0.5:
        # the same through a dependency that has been read before with the right spelling
        defs.append(mkfile(i + 2, d, "First", 1, 0, [["ref", good, 1, 0, 0], ["ref", "Twice", 1, 0, 0]]))


def add_digits(rng, roots, defs, pair=None, both=None, where=None):
    """A referenced version T.M.m and another version of the same type whose decimal digits alias (11.0 / 1.10, 12.3 / 1.23):
    the look-alike is referenced by nobody (outside every closure that does not contain it) and must never be a candidate."""
    want, alias = pair or rng.choice(DIGIT_TWINS)
    r = where or rng.choice(roots)
    d = r + [rng.choice(SUBS[:2]) for _ in range(rng.choice([0, 0, 1]))]
    ns_name = ".".join([r[-1]] + d[len(r):])
    i = len(defs)
    both = (rng.random() < 0.7) if both is None else both
    n = i
    if both:
        defs.append(mkfile(n, d, "Foo", want[0], want[1], [["plain", 8]]))
        n += 1
    defs.append(mkfile(n, d, "Foo", alias[0], alias[1], [["plain", 16]]))
    n += 1
    name = "Foo" if rng.random() < 0.4 else ns_name + "." + "Foo"
    ud = d if name == "Foo" else rng.choice(roots) + [rng.choice(SUBS[:2]) for _ in range(rng.choice([0, 1]))]
    defs.append(mkfile(n, ud, "UsesFoo", 1, 0, [["ref", name, want[0], want[1], rng.choice([0, 0, 2])], ["plain", 8]]))


def add_casever(rng, root, defs, names=None, vers=None):
    """two definitions whose names differ only by letter case and that exist in DIFFERENT versions; references with every
    combination of (spelling of one, version of one), relative and absolute, each from a referrer of its own"""
    up, lo = names or rng.choice([("Item", "item"), ("Item", "iTem"), ("ITEM", "Item"), ("Wx", "wx")])
    (va, vb) = vers or rng.choice([((1, 0), (2, 0)), ((2, 0), (1, 0)), ((1, 0), (1, 1)), ((0, 1), (1, 0))])
    d = root + [rng.choice(SUBS[:2]) for _ in range(rng.choice([0, 0, 1]))]
    ns_name = ".".join([root[-1]] + d[len(root):])
    i = len(defs)
    defs.append(mkfile(i, d, up, va[0], va[1], [["plain", 8]]))
    defs.append(mkfile(i + 1, d, lo, vb[0], vb[1], [["plain", 16]]))
    n = i + 2
    combos = [(up, va), (lo, vb), (up, vb), (lo, va)]
    rng.shuffle(combos)
    for k, (nm, v) in enumerate(combos[:rng.choice([2, 3, 4, 4])]):
        name = nm if rng.random() < 0.5 else ns_name + "." + nm
        defs.append(mkfile(n, d, "R%d" % k, 1, 0, [["ref", name, v[0], v[1], rng.choice([0, 0, 2])], ["plain", 8]]))
        n += 1


def add_nsprefix(rng, root, defs, short=None, comp=None, pre=None, post=None, wrong=None):
    """A namespace component that equals / starts with the short name of a definition inside it, and relative references
    from that definition (and from a sibling, as control) at several depths.  `wrong`: a definition with the referenced
    short name also exists in the namespace one gets by deleting every ".<Short>" from the full name."""
    short = short or rng.choice(["Sta", "Node", "thing", "Kq", "B"])
    comp = comp or rng.choice([short, short, short + "Ext", short + "es", short + "_1"])
    pre = pre if pre is not None else rng.choice([[], [], ["s"], ["s", "t"]])
    post = post if post is not None else rng.choice([[], [], [], ["t"], [short]])
    wrong = (rng.random() < 0.5) if wrong is None else wrong
    d = root + pre + [comp] + post
    i = len(defs)
    arr = rng.choice([0, 0, 2])
    defs.append(mkfile(i, d, short, 1, 0, [["ref", "Code", 1, 0, arr], ["plain", 8]]))
    defs.append(mkfile(i + 1, d, "Code", 1, 0, [["plain", 8]]))
    defs.append(mkfile(i + 2, d, "Other", 1, 0, [["ref", "Code", 1, 0, 0]]))
    n = i + 3
    if rng.random() < 0.5:
        # one level further down: a definition of the same short name below, referring relatively to its own sibling
        d2 = d + ["u"]
        defs.append(mkfile(n, d2, short, 1, 0, [["ref", "Leaf", 1, 0, 0], ["ref", ".".join([root[-1]] + d[len(root):] + ["Code"]), 1, 0, 0]]))
        defs.append(mkfile(n + 1, d2, "Leaf", 1, 0, [["plain", 16]]))
        n += 2
    if wrong:
        for dd, nm in [(d, "Code")] + ([(d + ["u"], "Leaf")] if n > i + 3 else []):
            full = ".".join([root[-1]] + dd[len(root):] + [short])
            bad_ns = full.replace("." + short, "").split(".")
            if bad_ns and bad_ns[0] == root[-1]:
                wd = root + bad_ns[1:]
                if not any(x["dir"] == wd and x["short"] == nm and (x["maj"], x["min"]) == (1, 0) for x in defs):
                    defs.append(mkfile(n, wd, nm, 1, 0, [["plain", 16]]))
                    n += 1


def mkfile(i, d, short, maj, mnr, body, ext="dsdl", port=None):
    return {"id": i, "dir": d, "short": short, "maj": maj, "min": mnr, "port": port, "ext": ext, "bad": False, "body": body}


def corpus():
    out = []
    ns = ["a", "ns"]
    roots = [ns]

    def mk(files, extra=None):
        qs = [{"k": "ns", "root": ns, "lookups": [], "allow": True, "same_dirs": True}]
        ids = [f["id"] for f in files]
        qs.append({"k": "files", "targets": ids, "roots": roots, "lookups": [], "same_dirs": True})
        for i in ids:
            qs.append({"k": "files", "targets": [i], "roots": roots, "lookups": [], "solo": i, "same_dirs": True})
        return {"files": files, "queries": qs + (extra or []), "flavor": "corpus"}

    # F7: case-variant siblings, X refers to ns.a.1.0, A refers to X
    out.append(mk([mkfile(0, ns, "A", 1, 0, [["ref", "X", 1, 0, 0]]), mkfile(1, ns, "a", 1, 0, [["plain", 8]]),
                   mkfile(2, ns, "X", 1, 0, [["ref", "ns.a", 1, 0, 0]])]))
    # chain, diamond, versions
    out.append(mk([mkfile(0, ns, "A", 1, 0, [["ref", "B", 1, 0, 0], ["ref", "ns.C", 1, 0, 2]]), mkfile(1, ns, "B", 1, 0, [["ref", "D", 1, 0, 0]]),
                   mkfile(2, ns, "C", 1, 0, [["ref", "D", 1, 0, 0], ["print"]]), mkfile(3, ns, "D", 1, 0, [["plain", 16]]),
                   mkfile(4, ns, "D", 1, 1, [["plain", 16], ["ref", "ns.s.E", 0, 1, 0]]), mkfile(5, ns + ["s"], "E", 0, 1, [["ref", "D", 1, 0, 0]])]))
    # another version / namespace must not be picked
    out.append(mk([mkfile(0, ns, "A", 1, 0, [["ref", "B", 1, 1, 0]]), mkfile(1, ns, "B", 1, 0, []), mkfile(2, ns, "B", 1, 2, []), mkfile(3, ns, "B", 2, 1, []),
                   mkfile(4, ns + ["s"], "B", 1, 1, [])]))
    # self reference, two-cycle, three-cycle entered from outside
    out.append(mk([mkfile(0, ns, "A", 1, 0, [["ref", "A", 1, 0, 0]])]))
    out.append(mk([mkfile(0, ns, "A", 1, 0, [["ref", "B", 1, 0, 0]]), mkfile(1, ns, "B", 1, 0, [["ref", "ns.A", 1, 0, 0]])]))
    out.append(mk([mkfile(0, ns, "Z", 1, 0, [["ref", "A", 1, 0, 0]]), mkfile(1, ns, "A", 1, 0, [["ref", "B", 1, 0, 0]]),
                   mkfile(2, ns, "B", 1, 0, [["ref", "C", 1, 0, 0]]), mkfile(3, ns, "C", 1, 0, [["ref", "A", 1, 0, 0]]), mkfile(4, ns, "Q", 1, 0, [])]))
    # wrong case spelling of an existing name; self reference in the wrong case
    out.append(mk([mkfile(0, ns, "A", 1, 0, [["ref", "ns.b", 1, 0, 0]]), mkfile(1, ns, "B", 1, 0, [])]))
    out.append(mk([mkfile(0, ns, "A", 1, 0, [["ref", "a", 1, 0, 0]])]))
    # same name and version in a second same-named root
    r2 = ["d", "ns"]
    fs = [mkfile(0, ns, "A", 1, 0, [["ref", "B", 1, 0, 0]]), mkfile(1, ns, "B", 1, 0, []), mkfile(2, r2, "B", 1, 0, []), mkfile(3, ns, "C", 1, 0, [])]
    out.append({"files": fs, "flavor": "corpus", "queries": [
        {"k": "ns", "root": ns, "lookups": [r2], "allow": True}, {"k": "ns", "root": ns, "lookups": [r2], "allow": False},
        {"k": "ns", "root": ns, "lookups": [], "allow": True}, {"k": "files", "targets": [0], "roots": [ns, r2], "lookups": []},
        {"k": "files", "targets": [1, 2], "roots": [ns, r2], "lookups": []}, {"k": "files", "targets": [3, 1], "roots": [ns], "lookups": [r2]}]})
    # relative references from a definition whose short name is (the beginning of) one of its namespace components
    for comp, pre, post, wrong in [("Sta", [], [], True), ("Sta", [], [], False), ("StaExt", ["s"], [], True), ("Sta", ["s"], ["t"], True),
                                   ("thing", ["thing"], [], True), ("Sta", [], ["Sta"], False)]:
        fs = []
        add_nsprefix(__import__("random").Random(7), ns, fs, short=comp if comp in ("Sta", "thing") else "Sta", comp=comp, pre=pre, post=post, wrong=wrong)
        out.append(mk(fs))
    # case variants in different versions, all four (spelling, version) references
    for names, vers in [(("Item", "item"), ((1, 0), (2, 0))), (("Item", "item"), ((2, 0), (1, 0)))]:
        fs = [mkfile(0, ns, names[0], vers[0][0], vers[0][1], [["plain", 8]]), mkfile(1, ns, names[1], vers[1][0], vers[1][1], [["plain", 16]])]
        k = 2
        for nm in names:
            for v in vers:
                fs.append(mkfile(k, ns, "R%d" % k, 1, 0, [["ref", nm if k % 2 else "ns." + nm, v[0], v[1], 0]]))
                k += 1
        out.append(mk(fs))
    # relative reference whose only candidate lives in a namespace spelled in another letter case
    import random as _random4
    for where, pre, post in [("last", [], []), ("last", ["s"], []), ("middle", [], []), ("root", [], [])]:
        fs, rts = [], [ns]
        add_nscase(_random4.Random(2), rts, fs, where=where, pre=pre, post=post, control=True)
        ids = [f["id"] for f in fs]
        qs = [{"k": "ns", "root": ns, "lookups": rts[1:], "allow": True, "same_dirs": True},
              {"k": "files", "targets": ids, "roots": rts, "lookups": [], "same_dirs": True},
              {"k": "files", "targets": [0], "roots": [ns], "lookups": rts[1:], "same_dirs": True}]
        qs += [{"k": "files", "targets": [i], "roots": rts, "lookups": [], "solo": i, "same_dirs": True} for i in ids]
        out.append({"files": fs, "queries": qs, "flavor": "corpus", "dirs": rts})
    # the same type referenced twice by one definition, exact spelling first and another letter case afterwards
    import random as _random3
    for order, rel in [("good-bad", True), ("good-bad", False), ("bad-good", True), ("good-good-bad", False)]:
        fs = []
        add_caserepeat(_random3.Random(3), ns, fs, order=order, rel=rel)
        out.append(mk(fs))
    # versions whose digits concatenate equally: 11.0 is referenced, 1.10 merely exists (and the other way round; alone)
    import random as _random2
    for pair, both in [(((11, 0), (1, 10)), True), (((1, 10), (11, 0)), True), (((12, 3), (1, 23)), True), (((11, 0), (1, 10)), False)]:
        fs = []
        add_digits(_random2.Random(5), [ns], fs, pair=pair, both=both, where=ns)
        out.append(mk(fs))
    # self reference / cycles through a definition that has a twin in a same-named second root directory
    import random as _random
    for kind, tb, lb in [("self", "plain", False), ("self", "same", False), ("cycle2", "plain", False), ("cycle2", "plain", True), ("cycle3", "plain", False)]:
        fs, rts = [], [ns]
        add_dupcycle(_random.Random(11), rts, fs, kind=kind, sub=[], twin_body=tb, link_in_both=lb)
        r2 = rts[1]
        ids0 = [f["id"] for f in fs if is_under(ns, f)]
        qs = [{"k": "ns", "root": ns, "lookups": [r2], "allow": True}, {"k": "ns", "root": ns, "lookups": [], "allow": True},
              {"k": "ns", "root": r2, "lookups": [ns], "allow": True},
              {"k": "files", "targets": ids0, "roots": [ns, r2], "lookups": []}, {"k": "files", "targets": [0], "roots": [ns], "lookups": [r2]},
              {"k": "files", "targets": [0], "roots": [ns, r2], "lookups": []}, {"k": "files", "targets": [f["id"] for f in fs], "roots": [ns, r2], "lookups": []}]
        out.append({"files": fs, "queries": qs, "flavor": "corpus", "dirs": [ns, r2]})
    # a target that is later reached as a dependency and the other way round (promotion)
    out.append(mk([mkfile(0, ns, "A", 1, 0, [["ref", "Z", 1, 0, 0], ["print"]]), mkfile(1, ns, "Z", 1, 0, [["print"], ["plain", 8]]),
                   mkfile(2, ns, "M", 1, 0, [["ref", "A", 1, 0, 1]])]))
    return out


def gen_vneighbours(rng):
    """Targeted: references to the version neighbours m.255 / (m+1).0 (versions that collide under any folding of (major,
    minor) into one number with a radix <= 255): only the other neighbour present (the reference must be undefined), both
    present (each reference must get exactly its own version), and 0.254 / 1.1 as control; relative and absolute, as field
    and as array element, one referrer per reference."""
    roots = [["a", rng.choice(ROOT_NAMES)]]
    if rng.random() < 0.5:
        roots.append(["b", "lib"])
    defs = []
    names = rng.sample(["Foo", "Bar", "Baz", "Qux", "Nee", "Zap", "Hop", "Lim"], rng.choice([5, 6, 7]))
    for k, nm in enumerate(names):
        r = rng.choice(roots)
        d = r + ([rng.choice(SUBS[:2])] if rng.random() < 0.4 else [])
        ns_name = ".".join([r[-1]] + d[len(r):])
        lo, hi = rng.choice([((0, 255), (1, 0)), ((1, 255), (2, 0)), ((254, 255), (255, 0)), ((2, 255), (3, 0)), ((0, 254), (1, 1))])
        mode = ["only-hi", "only-lo", "both", "both"][k % 4]
        present = {"only-hi": [hi], "only-lo": [lo], "both": [lo, hi]}[mode]
        for v in present:
            defs.append(mkfile(len(defs), d, nm, v[0], v[1], [["plain", 8 if v == lo else 16]]))
        for j, v in enumerate((lo, hi)):
            rel = rng.random() < 0.5
            name = nm if rel else ns_name + "." + nm
            ud = d if rel else rng.choice(roots) + ([rng.choice(SUBS[:2])] if rng.random() < 0.3 else [])
            defs.append(mkfile(len(defs), ud, "Use%s%d" % (nm, j), 1, 0, [["ref", name, v[0], v[1], rng.choice([0, 0, 2])], ["plain", 8]]))
    qs = all_dirs_queries(rng, roots, defs)
    return {"files": defs, "queries": qs, "flavor": "version-neighbours", "dirs": roots}


def generate(rng, tier):
    cases = corpus()
    streams = ["corpus"] * len(cases)
    for _ in range(10 if tier == "quick" else 50):
        cases.append(gen_vneighbours(rng))
        streams.append("targeted")
    n = 420 if tier == "quick" else 4000
    for _ in range(n):
        cases.append(gen_case(rng, tier))
        streams.append("random")
    return cases, streams


# ----------------------------------------------------------------------------------------------------------------
# emission


def emit_dir(d):
    return G.lst([G.codepoints(c) for c in d])


def emit_item(it):
    k = it[0]
    if k == "ref":
        return "Ref %s %s %s %s" % (G.codepoints(it[1]), G.z(it[2]), G.z(it[3]), G.z(it[4]))
    if k == "print":
        return "Print"
    if k == "fault":
        return "Fault"
    return "Plain %s" % G.z(it[1])


def emit_file(f):
    ext = {"dsdl": "XDsdl", "uavcan": "XUavcan"}.get(f["ext"], "XOther")
    return "mkF %s %s %s %s %s %s %s %s" % (emit_dir(f["dir"]), G.codepoints(f["short"]), G.z(f["maj"]), G.z(f["min"]),
                                           G.opt(G.z(f["port"]) if f.get("port") is not None else None), ext, G.b(f.get("bad")), G.z(f["id"]))


def emit_query(q):
    if q["k"] == "ns":
        return "QNamespace %s %s %s" % (emit_dir(q["root"]), G.lst([emit_dir(d) for d in q["lookups"]]), G.b(q["allow"]))
    return "QFiles %s %s %s" % (G.zlist(q["targets"]), G.lst([emit_dir(d) for d in q["roots"]]), G.lst([emit_dir(d) for d in q["lookups"]]))


def emit_tree(t):
    return "C09.ONode %s %s %s %s %s" % (G.z(t[0]), G.codepoints(t[1]), G.z(t[2]), G.z(t[3]), G.lst([emit_tree(k) for k in t[4]]))


ECLS = {"InvalidDefinition": "CInvalidDefinition", "Internal": "CInternal", "ValueError": "CValueError", "TypeError": "CTypeError", "Other": "COther"}


def emit_obs(o):
    if "ok" in o:
        k = o["ok"]
        return "C09.OOk %s %s %s %s" % (G.lst([emit_tree(t) for t in k["direct"]]), G.lst([emit_tree(t) for t in k["trans"]]),
                                        G.lst(["(%s, %s, %s)" % (G.z(a), G.z(b), G.z(c)) for a, b, c in k["deliv"]]), G.zlist(k["opened"]))
    return "C09.OErr %s" % ECLS.get(o["err"], "COther")


def emit_texts(case):
    return G.lst(["(%s, %s)" % (G.z(f["id"]), G.lst([emit_item(it) for it in model_body(f, case)])) for f in case["files"]])


def model_body(f, case=None):
    """the abstract text; a file whose text was overridden by arbitrary content is modelled as an invalid definition; with
    allow_unregulated_fixed_port_id=False a definition with an unregulated port-ID is rejected when it has been
    processed completely, i.e. like a failing last line"""
    if f.get("text") is not None:
        return [["fault"]]
    if case is not None and not allow_unregulated(case) and not regulated(f):
        return list(f["body"]) + [["fault"]]
    return f["body"]


def emit_case_with(ctor, case, obs, queries=None):
    qs = queries if queries is not None else case["queries"]
    return "%s %s %s %s" % (ctor, G.lst([emit_file(f) for f in case["files"]]), emit_texts(case),
                            G.lst(["(%s, %s)" % (emit_query(q), emit_obs(o)) for q, o in zip(qs, obs["q"])]))


def emit(case, obs):
    return emit_case_with("C09.mkCase", case, obs)


def model_eval(case, obs):
    return "Eval vm_compute in (map (fun c => map (fun qo => C09.model c (fst qo)) (C09.cqueries c)) cases).\n"


# ----------------------------------------------------------------------------------------------------------------
# bookkeeping


def has_case_variants(case):
    """two definition files whose names are equal up to letter case and whose versions are equal (signature of F7)"""
    seen = {}
    for f in case["files"]:
        if f["ext"] == "txt" or f.get("bad"):
            continue
        # the directory components below the base directory take part in the name; compare them case-insensitively
        k = (tuple(c.lower() for c in f["dir"][1:]), f["short"].lower(), f["maj"], f["min"])
        e = (tuple(f["dir"][1:]), f["short"])
        if k in seen and seen[k] != e:
            return True
        seen.setdefault(k, e)
    return False


def known_finding(case, obs, known):
    pf = obs.get("pred_fail") if isinstance(obs, dict) else None
    if pf and pf.startswith("standalone:") and has_case_variants(case):
        for k in known:
            if k["id"] == "F7":
                return "F7 the nested/ordered result for a definition differs from its own read when case-variant siblings with one version exist"
    return None


def nontrivial(case, obs):
    for o in obs.get("q", []):
        if "ok" in o and any(t[4] for t in o["ok"]["direct"]):
            return True
    return any(it[0] == "ref" for f in case["files"] for it in f["body"])


def describe(case, obs):
    keys = ["flavor:" + case.get("flavor", "?"), "files=%d" % len(case["files"])]
    for q, o in zip(case["queries"], obs.get("q", [])):
        kind = q["k"] + (":solo" if q.get("solo") is not None else "")
        if "ok" in o:
            depth = 0

            def dep(t):
                return 1 + max([dep(k) for k in t[4]] or [0])

            for t in o["ok"]["direct"]:
                depth = max(depth, dep(t))
            keys.append("%s:ok:depth%d" % (kind, min(depth, 5)))
        else:
            keys.append("%s:err:%s" % (kind, o["err"]))
    if obs.get("pred_fail"):
        keys.append("pred_fail")
    return keys


def shrink(case):
    files = case["files"]
    qs = case["queries"]
    # fewer queries (keep the solo reads the predicate needs only when a predicate failed - cheap to try both)
    if len(qs) > 1:
        for i in range(len(qs)):
            yield dict(case, queries=qs[:i] + qs[i + 1:])
    # drop a file that no query targets
    targeted = set()
    for q in qs:
        if q["k"] == "files":
            targeted.update(q["targets"])
    for i, f in enumerate(files):
        if f["id"] not in targeted:
            yield dict(case, files=files[:i] + files[i + 1:])
    # drop body items
    for i, f in enumerate(files):
        for j in range(len(f["body"])):
            g = dict(f, body=f["body"][:j] + f["body"][j + 1:])
            yield dict(case, files=files[:i] + [g] + files[i + 1:])
