"""C15 - name, version and port-ID are those encoded in the file path: generator, implementation runner, emitter.

A case is a directory tree of minimal definitions (created under VERIF_SCRATCH) and a list of calls of read_files /
read_namespace that designate targets and root namespace directories in different ways (absolute, relative to a
working directory that is changed inside the runner only, bare root names, no roots, shuffled lists).  Observation of
a call: the identities (full name, version, port-ID, source_file_path, source_file_path_to_root relative to the tree)
of the returned types, or the class of the exception.  Every call is compared with the model inside Coq; in addition
the calls marked "group" designate the same files under the same roots and must all give the same answer
(implementation-alone predicate).
"""
import os
import gallina as G

ID = "C15"
PROPS_FILE = "Props/C15.v"
COQ_IMPORTS = "From PV Require Import Util.ListSet Namespace.Paths Check.C15."
CASE_TYPE = "C15.case"
CHECK_FN = "C15.check_case"
SHARD = 60
RULE = ("a case is one directory tree (1-3 root namespace directories at depth 1-3, files 0-4 directories below their root, one or more "
        "malformed names in ~45% of the trees) with 4-14 calls of read_files/read_namespace; non-trivial = at least two calls designate "
        "the same file in different ways or a call is rejected; distinct = by hash of the case")
THEOREMS_NOTE = ("C15_roundtrip / C15_shape fix the identity of a well-formed path and the rejection of every other one; "
                 "C15_strategies_* fix the root that the inference returns")
TRUSTED = ["pathlib.Path on a POSIX file system without symbolic links inside the generated trees; the scratch directory prefix is "
           "resolved with os.path.realpath and stripped from the observed paths"]
ASSUMPTIONS = ["Path.resolve is modelled as 'make absolute': no symbolic links, no '..' components, case-sensitive file system; "
               "designations spelled through a symbolic link to a directory followed by '..' (with a decoy file at the lexically "
               "collapsed place) are therefore not evaluated by the model: they are run on the implementation, put into the strict "
               "group of the canonical designations of the same files (which ARE compared with the model) and must give the same answer",
               "every generated file declares one field whose name identifies the file; the runner checks that the fields of a "
               "returned type are those of the file its source_file_path names",
               "file contents are fixed valid texts ('@sealed', or a sealed request and response); short names and port-IDs are unique "
               "per tree so that the cross-definition rules of C11 and the collapse of equal composites (open finding F5b) do not interfere"]
EXPLANATION = ("the theorems cover every path / designation; the correspondence compares identities or rejection classes of read_files "
               "and read_namespace with the model on generated trees x designations")
LEVEL_TEXT = ("Machine-checked theorems (Coq, closed under the global context): the model of DSDLDefinition.__init__ maps a path of the shape "
              "<root>/<ns>/.../[<port>.]<Short>.<major>.<minor>.<suffix> to exactly the encoded name, version and port-ID and rejects every "
              "other path; the composite-level checks return the root directory the path was parsed against; the root inference returns the "
              "designated root for absolute, relative, bare-name and inferred designations under explicit side conditions. The model is tied to "
              "/repo by comparing read_files/read_namespace on generated trees and designations inside Coq.")
LEVEL_NOTE = ("Partial: Path.resolve (symbolic links, '..'), case-insensitive file systems and the >4300-digit limit of int() are not modelled; "
              "the file system and the working directory are explicit arguments of the model.")
TECHNIQUE = "Coq proof over an executable path model + vm_compute correspondence on on-disk trees"
COQC_TIMEOUT = 1200

def file_text(idx, svc):
    """every file declares one field whose name identifies the file: the content that was parsed is observable"""
    return "uint8 m%d\n@sealed\n" % idx + ("---\n@sealed\n" if svc else "")


# ----------------------------------------------------------------------------------------------------------------
# tree utilities


def all_dirs(case):
    ds = {()}
    for f in case["files"]:
        p = f["p"]
        for k in range(1, len(p)):
            ds.add(tuple(p[:k]))
    for d in case.get("dirs", []):
        for k in range(1, len(d) + 1):
            ds.add(tuple(d[:k]))
    for link, _ in case.get("links", []):      # a symbolic link to a directory exists and is a directory
        for k in range(1, len(link) + 1):
            ds.add(tuple(link[:k]))
    return sorted(ds)


def pstr(p):
    """designation -> the string handed to pydsdl"""
    a, cs = p
    s = "/".join(cs)
    if a:
        return "/" + s
    return s if cs else "."


# ----------------------------------------------------------------------------------------------------------------
# generator

CONTAINERS = ["w", "ws", "proj", "types", "third_party", "x"]
ROOT_NAMES = ["ns", "reg", "zubax", "vnd", "Sirius", "a_b"]
SUB_NAMES = ["sub", "node", "x1", "ns", "reg", "deep", "Inner", "q", "zubax"]
SHORT_NAMES = ["Tabby", "Boxer", "Heartbeat", "A", "b", "_x", "Get_Info2", "Z9", "Type", "Node_", "Qq", "ExecuteCommand", "Fir", "uint_x"]

BAD_NUMBERS = ["1_0", "+1", " 1", "1 ", "-1", "١", "１", "", "0x1", "1e0", "²", "1,0", "१", "1٠"]
BAD_SHORT = ["", "Foo ", " Foo", "Foo\t", "Foo ", "Foo ", "1abc", "truncated", "uint8", "COM1", "_x_", "a-b", "Kelvin", "Ünit", "Auto",
             "float", "void12", "uq8_8", "q1_2", "lpt9", "saturated", "bool", "Int", "nul"]
BAD_DIRS = ["a.b", " ns", "ns ", "int", "void1", "1st", "se-p", ".hidden", "trailing.", "K", "self"]


def gen_version(rng):
    r = rng.random()
    if r < 0.6:
        return rng.choice([0, 1, 1, 2, 3]), rng.choice([0, 1, 2, 9])
    if r < 0.85:
        return rng.choice([0, 1, 10, 99, 200, 254, 255]), rng.choice([0, 1, 10, 100, 255])
    return rng.randrange(0, 256), rng.randrange(0, 256)


def num_text(rng, n):
    """decimal text of n, sometimes with leading zeros (still a valid decimal)"""
    s = str(n)
    if rng.random() < 0.12:
        s = "0" * rng.choice([1, 2, 5]) + s
    return s


class Tree:
    def __init__(self, rng):
        self.rng = rng
        self.files = []
        self.used_short = set()
        self.used_ports = set()
        self.roots = []
        self.extra_dirs = []
        self.short_pool = list(SHORT_NAMES)
        rng.shuffle(self.short_pool)

    def fresh_short(self):
        rng = self.rng
        while True:
            if self.short_pool:
                s = self.short_pool.pop()
            else:
                s = "T" + "".join(rng.choice("abcXYZ019_") for _ in range(rng.randrange(1, 8))) + "k"
            if s.lower() not in self.used_short:
                self.used_short.add(s.lower())
                return s

    def fresh_port(self, svc):
        rng = self.rng
        while True:
            p = rng.choice([0, 1, 7, 100, 384, 511]) if rng.random() < 0.5 else rng.randrange(0, 512 if svc else 8192)
            if not svc and rng.random() < 0.3:
                p = rng.choice([512, 6144, 7168, 8191, 8000])
            if p not in self.used_ports:
                self.used_ports.add(p)
                return p

    def basename(self, bad=None):
        """returns (name, svc, is_malformed)"""
        rng = self.rng
        svc = rng.random() < 0.2
        short = self.fresh_short()
        mj, mn = gen_version(rng)
        if mj == 0 and mn == 0:
            mn = 1
        smj, smn = num_text(rng, mj), num_text(rng, mn)
        port = None
        if rng.random() < 0.45:
            port = num_text(rng, self.fresh_port(svc))
        suffix = "dsdl" if rng.random() < 0.8 else "uavcan"
        if bad == "number":
            which = rng.choice(["mj", "mn", "port"])
            t = rng.choice(BAD_NUMBERS)
            if which == "mj":
                smj = t
            elif which == "mn":
                smn = t
            else:
                port = t
        elif bad == "short":
            short = rng.choice(BAD_SHORT)
            if short.strip().lower() in self.used_short:
                short = "1" + short
            self.used_short.add(short.strip().lower())
        elif bad == "range":
            r = rng.random()
            if r < 0.3:
                smj, smn = "0", "0"
            elif r < 0.5:
                smj = rng.choice(["256", "1000", "99999999999999999999"])
            elif r < 0.7:
                smn = rng.choice(["256", "300"])
            else:
                port = rng.choice(["512", "8191", "600"] if svc else ["8192", "99999", "123456789012345678901234567890"])
        elif bad == "dots":
            r = rng.random()
            if r < 0.45:
                # five, six or seven dot-components; the fourth from the end numeric (looks like a port-ID) or not
                lead = [rng.choice(["node", "vendor", "Copy", "of", "7", "6201", "x1", ""]) for _ in range(rng.choice([1, 1, 2, 3]))]
                fourth = rng.choice([port or "6200", "6200", "0", "Status", "ns"])
                return ".".join(lead + [fourth, short, smj, smn, suffix]), svc
            r = rng.random()
            if r < 0.2:
                return "%s.%s.%s" % (short, smj, suffix), svc          # two parts
            if r < 0.4:
                return "%s.%s.%s.%s.%s.%s" % (port or "7", "9", short, smj, smn, suffix), svc       # five parts
            if r < 0.55:
                return "%s.%s.%s.%s.%s" % ("nsx", short, smj, smn, suffix), svc                    # namespace in the file name
            if r < 0.7:
                return "%s..%s.%s.%s" % (short, smj, smn, suffix), svc                             # empty part
            if r < 0.8:
                return "%s.%s" % (short, suffix), svc
            if r < 0.9:
                return ".%s" % suffix, svc
            return "%s.%s.%s..%s" % (short, smj, smn, suffix), svc
        elif bad == "suffix":
            suffix = rng.choice(["DSDL", "txt", "", "dsdl~", "Dsdl", "uavcan2"])
        parts = ([port] if port is not None else []) + [short, smj, smn, suffix]
        return ".".join(parts), svc

    def add_root(self, nested_in=None, bad_name=None):
        rng = self.rng
        for _ in range(50):
            if nested_in is not None:
                prefix = list(nested_in) + [rng.choice(SUB_NAMES)]
            else:
                prefix = [rng.choice(CONTAINERS) for _ in range(rng.choice([0, 1, 1, 2]))]
            name = bad_name if bad_name is not None else rng.choice(ROOT_NAMES)
            r = prefix + [name]
            # not nested in / around an existing root unless asked for
            ok = True
            for o in self.roots:
                if nested_in is None and (o[:len(r)] == r or r[:len(o)] == o):
                    ok = False
            if ok and r not in self.roots:
                self.roots.append(r)
                return r
        return None

    def add_file(self, root, bad=None, bad_dir=None, depth=None):
        rng = self.rng
        depth = rng.choice([0, 0, 1, 1, 2, 3, 4]) if depth is None else depth
        dirs = [rng.choice(SUB_NAMES) for _ in range(depth)]
        if bad_dir is not None:
            if not dirs:
                dirs = [bad_dir]
            else:
                dirs[rng.randrange(len(dirs))] = bad_dir
        name, svc = self.basename(bad)
        p = root + dirs + [name]
        if len(name.encode("utf-8", "surrogatepass")) > 250 or any(f["p"] == p for f in self.files):
            return None
        # a path may not be both a file and a directory
        for f in self.files:
            if f["p"][:len(p)] == p or p[:len(f["p"])] == f["p"]:
                return None
        f = {"p": p, "svc": svc}
        self.files.append(f)
        return f


def numeric_port(basename):
    """the port-ID a file name encodes, as a number (leading zeros!), or None"""
    parts = basename.split(".")[:-1]
    if len(parts) == 4 and parts[0].isascii() and parts[0].isdigit():
        return int(parts[0])
    return None


def cross_definition_conflict(case):
    """C15 must not depend on the cross-definition rules of C11 (port-ID collisions, two definitions of one name): True
    if two files of the tree (the decoys of the symbolic-link spellings aside, they are never read together with their
    originals) encode the same numeric port-ID, or the same directory and short name up to letter case."""
    ports, names = [], []
    for f in case["files"]:
        if f["p"][0].startswith("lnk"):
            continue
        parts = f["p"][-1].split(".")[:-1]
        n = numeric_port(f["p"][-1])
        if n is not None:
            ports.append(n)
        if len(parts) in (3, 4):
            names.append(("/".join(f["p"][:-1]), parts[-3].strip().lower()))
    return len(ports) != len(set(ports)) or len(names) != len(set(names))


def rel_to(cwd, p):
    return p[len(cwd):] if p[:len(cwd)] == cwd else None


def f16_shape(cwd, tlist, rlist, intended_roots, files):
    """The shape of the open finding F16 (strategy3-ancestor-capture): a relative target that exists relative to the
    working directory, whose own root is given as a bare name only (no designation of it that strategy 2 matches), while
    another root is given as a path one of whose ancestors lies directly in the working directory and carries the target's
    first component: strategy 3 returns that ancestor before strategy 4 looks for the bare name.  Returns the targets of
    that shape.  Used to keep such calls out of the strict groups of the random stream and to recognise the known finding;
    never used for a verdict of the comparison with the model."""
    cwd = list(cwd)
    fset = {tuple(f["p"]) for f in files}
    hits = []
    for a, tg in tlist:
        full = cwd + tg
        if a or tuple(full) not in fset:
            continue
        own = [r for r in intended_roots if full[:len(r)] == r]
        if not own:
            continue
        found_by_strategy2 = any((rc if ra else cwd + rc) in own and (ra or tg[:len(rc)] == rc) for ra, rc in rlist)
        bare = any(not ra and len(rc) == 1 and rc[0] == o[-1] for ra, rc in rlist for o in own)
        if found_by_strategy2 or not bare:
            continue
        for ra, rc in rlist:
            base = [] if ra else cwd
            for k in range(len(rc), 0, -1):
                pth = base + rc[:k]
                if len(rc) > 1 and rc[k - 1] == tg[0] and pth[:-1] == cwd and pth not in intended_roots and tg not in hits:
                    hits.append(tg)
    return hits


def bare_name_above_root(rlist, intended_roots):
    """(3) a bare root name of the call is also the name of a directory ABOVE one of the intended roots: the first directory
    of a path that carries one of the names wins (strategy 4), so the files of that root get another root"""
    bare = [rc[0] for ra, rc in rlist if not ra and len(rc) == 1]
    return any(n in r[:-1] for n in bare for r in intended_roots)


def walk_up_hazard(cwd, tlist, rlist, intended_roots, files):
    """Designations that are ambiguous by construction and therefore not part of a strict group (they are still compared
    with the model): (1) the F16 shape; (2) a relative target that begins with the name of its root (relative to the
    directory that contains the root, not to the working directory) while a relative root of the call is, as a pure path,
    a prefix of it ('.' or a bare name that is also the name of another root)."""
    if f16_shape(cwd, tlist, rlist, intended_roots, files):
        return True
    if bare_name_above_root(rlist, intended_roots):
        return True
    fset = {tuple(f["p"]) for f in files}
    for a, tg in tlist:
        if a:
            continue
        if tuple(list(cwd) + tg) not in fset:
            for ra, rc in rlist:
                if not ra and tg[:len(rc)] == rc:
                    return True
    return False


def add_link_calls(rng, case, gkey, pairs, roots_inv, dirs, k=0):
    """Spellings through a symbolic link to a directory followed by '..' (for the operating system: the parent of the
    link's TARGET, not of the link).  link = lnk<k>/out -> A/bld<k> where A is an ancestor of the root, so that
    lnk<k>/out/../<rest> is A/<rest>; a decoy with the same name stands at the lexically collapsed place lnk<k>/<rest>.
    These calls are outside the model (no symbolic links, no '..' there): they join the strict group of the canonical
    designations of the same files and must give the same answer."""
    fp, r = pairs[0]
    j = rng.randrange(0, len(r))
    anc = r[:j]
    lnk = ["lnk%d" % k]
    bld = anc + ["bld%d" % k]
    svc = [f["svc"] for f in case["files"] if f["p"] == fp][0]
    decoy = lnk + fp[j:]
    if any(f["p"] == decoy for f in case["files"]):
        return
    case["files"].append({"p": decoy, "svc": svc})
    case.setdefault("dirs", []).append(bld)
    case.setdefault("links", []).append([lnk + ["out"], bld])

    def via(path):
        return lnk + ["out", ".."] + path[j:]

    others_t = [[True, p] for p, _ in pairs[1:]]
    canon_roots = [[True, x] for x in roots_inv]
    mine = [p for p, rr in pairs if rr == r]
    nm = r[-1]
    calls = []
    calls.append(("target", rng.choice([[], lnk]), [[True, via(fp)]] + others_t, canon_roots))
    calls.append(("root", rng.choice([[], lnk]), [[True, fp]] + others_t, [[True, via(r)]] + [[True, x] for x in roots_inv if x != r]))
    calls.append(("both", [], [[True, via(fp)]] + others_t, [[True, via(r)]] + [[True, x] for x in roots_inv if x != r]))
    calls.append(("relative", lnk, [[False, via(fp)[1:]]] + others_t, canon_roots))
    if all(p[:-1].count(nm) == 1 for p in mine) and ([nm] == r or [nm] not in dirs) and nm not in ("out", lnk[0]):
        calls.append(("bare", [], [[True, via(fp)]] + others_t, [[False, [nm]]] + [[True, x] for x in roots_inv if x != r]))
    rng.shuffle(calls)
    for kind, cwd, tl, rl in calls[:rng.choice([2, 3, 4])]:
        if bare_name_above_root(rl, roots_inv):
            continue
        tl, rl = list(tl), list(rl)
        rng.shuffle(tl)
        rng.shuffle(rl)
        case["calls"].append({"api": "files", "cwd": cwd, "targets": tl, "roots": rl, "lookups": [], "gkey": gkey,
                              "iroots": roots_inv, "nocoq": True, "link": kind})


def gen_case(rng, tier):
    t = Tree(rng)
    nroots = rng.choice([1, 1, 2, 2, 3])
    for _ in range(nroots):
        t.add_root()
    malformed = rng.random() < 0.45
    kind = None
    for r in list(t.roots):
        for _ in range(rng.choice([1, 2, 2, 3, 4])):
            t.add_file(r)
    bad_files = []
    if malformed:
        kind = rng.choice(["number", "number", "short", "range", "dots", "suffix", "dir", "rootname", "nested", "hostile", "hostile"])
        if kind in ("number", "short", "range", "dots", "suffix"):
            host = rng.choice(t.roots) if rng.random() < 0.5 else (t.add_root() or t.roots[0])
            bf = t.add_file(host, bad=kind)
            if bf:
                bad_files.append(bf)
        elif kind == "dir":
            host = rng.choice(t.roots) if rng.random() < 0.5 else (t.add_root() or t.roots[0])
            bf = t.add_file(host, bad_dir=rng.choice(BAD_DIRS), depth=rng.choice([1, 2, 3]))
            if bf:
                bad_files.append(bf)
        elif kind == "rootname":
            r = t.add_root(bad_name=rng.choice(["ns.v1", " ns", "ns ", "int8", "a.b.c", "1ns", "K_ns", "_r_"]))
            if r:
                bf = t.add_file(r)
                if bf:
                    bad_files.append(bf)
        elif kind == "hostile":
            # a random basename over the characters that matter, in a directory of its own (no name can collide)
            host = rng.choice(t.roots) + ["hz%d" % rng.randrange(10)]
            alphabet = "AbZ_019..  +-" + "\u0661\uff11\u00b2\u212a\u00c4\t"
            nm = "".join(rng.choice(alphabet) for _ in range(rng.randrange(1, 10)))
            if rng.random() < 0.8:
                nm += rng.choice([".1.0.dsdl", ".dsdl", ".0.1.uavcan", "1.0.dsdl", ".7.dsdl"])
            np_ = numeric_port(nm)
            if np_ is not None and np_ in t.used_ports:
                nm = "x" + nm          # never a second definition with the same numeric port-ID ("00" is 0): that is C11's rule
                np_ = numeric_port(nm)
            if np_ is not None:
                t.used_ports.add(np_)
            if nm not in (".", "..") and not any(f["p"][:len(host)] == host for f in t.files):
                bf = {"p": host + [nm], "svc": rng.random() < 0.2}
                t.files.append(bf)
                bad_files.append(bf)
        else:
            r = t.add_root(nested_in=rng.choice(t.roots))
            if r:
                t.add_file(r)
    if rng.random() < 0.1:   # a very long name (the 255 character limit)
        host = rng.choice(t.roots)
        long_dirs = ["d" + "x" * rng.choice([58, 60, 61, 62]) for _ in range(4)]
        name, svc = t.basename()
        t.files.append({"p": host + long_dirs + [name], "svc": svc})
    if rng.random() < 0.2:
        t.extra_dirs.append(rng.choice(t.roots) + ["empty_dir"])
    case = {"files": t.files, "dirs": t.extra_dirs, "calls": [], "meta": {"planted": kind if malformed else "none"}}
    dirs = [list(d) for d in all_dirs(case)]

    def distractors():
        """roots that do not exist / names that occur nowhere: they must not change anything"""
        out = []
        for _ in range(rng.choice([0, 0, 1, 2])):
            k = rng.random()
            if k < 0.4:
                out.append([False, [rng.choice(["nope", "zzz", "missing_ns"])]])
            elif k < 0.7:
                out.append([True, [rng.choice(CONTAINERS), "absent", rng.choice(ROOT_NAMES)]])
            else:
                out.append([False, ["absent_dir", rng.choice(ROOT_NAMES) + "_q"]])
        return out

    # ---- groups: the same files under the same roots, designated in every consistent way
    group_infos = []
    ngroups = rng.choice([1, 1, 2])
    for gi in range(ngroups):
        nf = rng.choice([1, 1, 1, 2, 3])
        chosen = rng.sample(t.files, min(nf, len(t.files)))
        if bad_files and gi == 0 and rng.random() < 0.7:
            chosen = [bad_files[0]] + [f for f in chosen if f is not bad_files[0]][:nf - 1]
        pairs = []      # (file path, its root = the innermost known root around it)
        for f in chosen:
            rs = [r for r in t.roots if f["p"][:len(r)] == r and len(f["p"]) > len(r)]
            if rs:
                pairs.append((f["p"], max(rs, key=len)))
        if not pairs:
            continue
        roots_inv = []
        for _, r in pairs:
            if r not in roots_inv:
                roots_inv.append(r)
        gkey = "g%d:" % gi + ",".join("/".join(fp) for fp, _ in pairs)
        if any(a != b and a[:len(b)] == b for a in roots_inv for b in roots_inv):
            gkey = None     # nested roots: which one is found depends on the order and the spelling; model comparison only
        # candidate working directories: the tree root, common ancestors of the roots, a root itself, somewhere else
        common = roots_inv[0][:-1]
        for r in roots_inv[1:]:
            k = 0
            while k < len(common) and k < len(r) - 1 and common[k] == r[k]:
                k += 1
            common = common[:k]
        cwds = [common[:k] for k in range(len(common) + 1)]
        if len(roots_inv) == 1:
            cwds.append(roots_inv[0])
        other = [d for d in dirs if d not in cwds]
        if other:
            cwds.append(rng.choice(other))
        for _ in range(rng.choice([3, 4, 5, 6])):
            cwd = rng.choice(cwds)
            tlist, rlist = [], []
            for r in roots_inv:
                mine = [fp for fp, rr in pairs if rr == r]
                name_relative = False
                for fp in mine:
                    forms = [[True, fp]]
                    if rel_to(cwd, fp):
                        forms.append([False, rel_to(cwd, fp)])
                    nr = [False, r[-1:] + fp[len(r):]]           # begins with the root's name
                    if nr not in forms:
                        forms.append(nr)
                    tg = rng.choice(forms)
                    if tg == nr and cwd != r[:-1]:
                        name_relative = True
                    tlist.append(tg)
                rforms = [[True, r]]
                rc = rel_to(cwd, r)
                if rc is not None and (rc or not name_relative):
                    rforms.append([False, rc])
                nm = r[-1]
                any_relative = any(not tg[0] for tg in tlist[-len(mine):])
                if (not name_relative and all(fp[:-1].count(nm) == 1 for fp in mine)
                        and (cwd + [nm] == r or cwd + [nm] not in dirs)
                        and (not any_relative or cwd == r[:len(cwd)] and len(cwd) < len(r))):
                    # a bare name is looked for in the components of the target as it was given
                    rforms.append([False, [nm]])
                rlist.append(rng.choice(rforms))
            rlist += distractors()
            rng.shuffle(rlist)
            rng.shuffle(tlist)
            if rng.random() < 0.1:
                tlist.append(list(rng.choice(tlist)))   # the same target twice
            gk = gkey
            if gk is not None and walk_up_hazard(cwd, tlist, rlist, roots_inv, t.files):
                gk = None      # compared with the model only
            case["calls"].append({"api": "files", "cwd": cwd, "targets": tlist, "roots": rlist, "lookups": [], "gkey": gk,
                                  "iroots": roots_inv})
        if gkey is not None:
            group_infos.append((gkey, pairs, roots_inv))
        # strategy 1: no roots at all, cwd = the directory that contains the roots, targets begin with the root's name
        if len({tuple(r[:-1]) for r in roots_inv}) == 1 and rng.random() < 0.7:
            cwd = roots_inv[0][:-1]
            tl = [[False, fp[len(cwd):]] for fp, _ in pairs]
            rng.shuffle(tl)
            case["calls"].append({"api": "files", "cwd": cwd, "targets": tl, "roots": [], "lookups": [], "gkey": gkey, "iroots": roots_inv})
        # read_namespace on the roots involved (not part of the strict group: it reads every file of the root)
        for r in roots_inv:
            cwd = rng.choice(cwds)
            forms = [[True, r]]
            if rel_to(cwd, r) is not None:
                forms.append([False, rel_to(cwd, r)])
            lk = []
            if rng.random() < 0.3:
                lk = [[True, o] for o in t.roots if o != r and rng.random() < 0.6]
            case["calls"].append({"api": "ns", "cwd": cwd, "root": rng.choice(forms), "lookups": lk, "gkey": None})

    # ---- free calls: arbitrary designations, compared with the model only
    for _ in range(rng.choice([1, 2, 3, 4])):
        cwd = rng.choice(dirs)
        nt = rng.choice([1, 1, 2, 3])
        tl = []
        for f in rng.sample(t.files, min(nt, len(t.files))):
            p = f["p"]
            k = rng.random()
            if k < 0.35:
                tl.append([True, p])
            elif k < 0.6 and rel_to(cwd, p):
                tl.append([False, rel_to(cwd, p)])
            elif k < 0.9:
                i = rng.randrange(0, len(p))
                tl.append([False, p[i:]])          # some tail of the path
            else:
                tl.append([rng.random() < 0.5, p[:-1] + ["Missing.1.0.dsdl"]])
        rl = []
        for _ in range(rng.choice([0, 1, 1, 2, 3])):
            k = rng.random()
            base = rng.choice(t.roots) if rng.random() < 0.7 else rng.choice([d for d in dirs if d] or [["w"]])
            if k < 0.3:
                rl.append([True, base])
            elif k < 0.5 and rel_to(cwd, base) is not None:
                rl.append([False, rel_to(cwd, base)])
            elif k < 0.8:
                rl.append([False, [base[-1]]])
            elif k < 0.9:
                rl.append([True, base + [rng.choice(SUB_NAMES)]])
            else:
                rl.append([False, base[-2:]])
        lk = []
        if rng.random() < 0.25:
            o = rng.choice(t.roots)
            lk.append([True, o] if rng.random() < 0.7 or rel_to(cwd, o) is None else [False, rel_to(cwd, o)])
        case["calls"].append({"api": "files", "cwd": cwd, "targets": tl, "roots": rl, "lookups": lk, "gkey": None})
    if rng.random() < 0.3:
        d = rng.choice([x for x in dirs if x] or [["w"]])
        case["calls"].append({"api": "ns", "cwd": rng.choice(dirs), "root": [True, d], "lookups": [], "gkey": None})
    # ---- spellings through a symbolic link followed by '..' (added last: the decoy never becomes a random target)
    if group_infos and rng.random() < 0.35:
        gkey, pairs, roots_inv = rng.choice(group_infos)
        if any(c.get("gkey") == gkey for c in case["calls"]):
            add_link_calls(rng, case, gkey, pairs, roots_inv, dirs)
    return case


def gen_shadow_case(rng):
    """Two or three roots with different names below container directories; sub-namespace directories that are spelled like
    the other roots; absolute (or cwd-relative) targets and BARE root names in every order: strategy 4 must take the first
    directory of the path that carries one of the names, whatever the order of the list."""
    import itertools
    t = Tree(rng)
    names = rng.sample(ROOT_NAMES, rng.choice([2, 2, 3]))
    roots = []
    for i, nm in enumerate(names):
        roots.append([rng.choice(CONTAINERS) + str(i)] + [rng.choice(CONTAINERS) for _ in range(rng.choice([0, 1]))] + [nm])
    t.roots = roots
    files = []
    for r in roots:
        others = [n for n in names if n != r[-1]]
        for _ in range(rng.choice([1, 2])):
            depth = rng.choice([1, 1, 2, 3])
            dirs_ = [rng.choice(SUB_NAMES) for _ in range(depth)]
            dirs_[rng.randrange(depth)] = rng.choice(others)          # the shadowing sub-namespace
            dirs_ = [d for d in dirs_ if d != r[-1]] or [rng.choice(others)]
            name, svc = t.basename()
            f = {"p": r + dirs_ + [name], "svc": svc}
            if not any(g["p"][:len(f["p"])] == f["p"] or f["p"][:len(g["p"])] == g["p"] for g in t.files):
                t.files.append(f)
                files.append((f["p"], r))
    case = {"files": t.files, "dirs": [], "calls": [], "meta": {"planted": "shadow"}}
    if not files:
        return gen_shadow_case(rng)
    for gi in range(2):
        pairs = rng.sample(files, min(len(files), rng.choice([1, 1, 2])))
        gkey = "s%d:" % gi + ",".join("/".join(fp) for fp, _ in pairs)
        iroots = []
        for _, r in pairs:
            if r not in iroots:
                iroots.append(r)
        orders = list(itertools.permutations(names))
        rng.shuffle(orders)
        for order in orders[:4]:
            cwd = rng.choice([[], roots[0][:1], rng.choice(roots)[:-1]])
            tl = []
            for fp, r in pairs:
                rel = rel_to(cwd, fp)
                tl.append([False, rel] if rel and rng.random() < 0.4 else [True, fp])
            rl = [[False, [n]] for n in order]
            if rng.random() < 0.3:
                rl = [x for x in rl if x[1][0] in {r[-1] for _, r in pairs}] or rl
            rng.shuffle(tl)
            gk = gkey
            if any(list(cwd) + [n] in [list(d) for d in all_dirs(case)] and list(cwd) + [n] not in roots for n in names) \
                    or walk_up_hazard(cwd, tl, rl, iroots, t.files):
                gk = None
            case["calls"].append({"api": "files", "cwd": cwd, "targets": tl, "roots": rl, "lookups": [], "gkey": gk, "iroots": iroots})
        # the same files with their roots given as paths
        case["calls"].append({"api": "files", "cwd": [], "targets": [[True, fp] for fp, _ in pairs], "roots": [[True, r] for r in iroots],
                              "lookups": [], "gkey": gkey, "iroots": iroots})
    return case


def simple_case(files, calls, dirs=None):
    return {"files": [{"p": p, "svc": s} for p, s in files], "dirs": dirs or [], "calls": calls}


def fcall(cwd, targets, roots, lookups=None, gkey=None, iroots=None):
    return {"api": "files", "cwd": cwd, "targets": targets, "roots": roots, "lookups": lookups or [], "gkey": gkey, "iroots": iroots or []}


def ncall(cwd, root, lookups=None):
    return {"api": "ns", "cwd": cwd, "root": root, "lookups": lookups or [], "gkey": None}


def corpus():
    out = []
    # F13 (fixed): relative target whose root is not its first component; every designation must agree
    X = ["w", "a", "ns", "X.1.0.dsdl"]
    g = "F13"
    out.append(simple_case([(X, False)], [
        fcall(["w"], [[False, ["a", "ns", "X.1.0.dsdl"]]], [[False, ["a", "ns"]]], gkey=g),
        fcall(["w"], [[False, ["a", "ns", "X.1.0.dsdl"]]], [[False, ["ns"]]], gkey=g),
        fcall(["w"], [[False, ["a", "ns", "X.1.0.dsdl"]]], [[True, ["w", "a", "ns"]]], gkey=g),
        fcall(["w"], [[True, X]], [[False, ["a", "ns"]]], gkey=g),
        fcall(["w"], [[True, X]], [[True, ["w", "a", "ns"]]], gkey=g),
        fcall(["w"], [[True, X]], [[False, ["ns"]]], gkey=g),
        fcall(["w", "a"], [[False, ["ns", "X.1.0.dsdl"]]], [], gkey=g),
        fcall([], [[False, ["ns", "X.1.0.dsdl"]]], [[True, ["w", "a", "ns"]]], gkey=g),
        ncall([], [True, ["w", "a", "ns"]]), ncall(["w"], [False, ["a", "ns"]])]))
    # the docstring example of read_files; its third spelling is the open finding F16 (strategy3-ancestor-capture)
    T = ["workspace", "project", "types", "animals", "felines", "Tabby.1.0.dsdl"]
    D = ["workspace", "project", "types", "plants", "trees", "DouglasFir.1.0.dsdl"]
    A, Pl = T[:4], D[:4]
    g = "doc"
    ir = [A, Pl]
    out.append(simple_case([(T, False), (D, False)], [
        fcall([], [[False, T], [False, D]], [[False, ["animals"]], [False, ["plants"]]], gkey=g, iroots=ir),
        fcall([], [[False, T], [False, D]], [[False, A], [False, Pl]], gkey=g, iroots=ir),
        fcall([], [[False, T], [False, D]], [[False, ["animals"]], [False, Pl]], gkey=g, iroots=ir),
        fcall([], [[False, T[3:]], [False, D[3:]]], [[False, A], [False, Pl]], gkey=g, iroots=ir),
        fcall(["workspace"], [[False, T[3:]], [False, D[3:]]], [[True, A], [True, Pl]], gkey=g, iroots=ir),
        fcall(["workspace"], [[True, T], [True, D]], [[True, Pl], [True, A]], gkey=g, iroots=ir)]))
    out.append(simple_case([(T, False), (D, False)], [
        fcall([], [[False, T], [True, D]], [[False, ["animals"]], [True, Pl]], gkey=g, iroots=ir),
        fcall([], [[True, T], [True, D]], [[False, ["animals"]], [True, Pl]], gkey=g, iroots=ir)]))
    X2, Y2 = ["w", "a", "ns", "X.1.0.dsdl"], ["w", "a", "other", "Y.1.0.dsdl"]
    ir = [X2[:3], Y2[:3]]
    out.append(simple_case([(X2, False), (Y2, False)], [
        fcall(["w"], [[False, X2[1:]]], [[False, ["ns"]], [False, ["a", "other"]]], gkey="f16", iroots=ir),
        fcall(["w"], [[False, X2[1:]]], [[False, ["ns"]]], gkey="f16", iroots=ir),
        fcall(["w"], [[False, X2[1:]]], [[False, ["a", "other"]], [False, ["a", "ns"]]], gkey="f16", iroots=ir)]))
    # F15 (fixed): white space at the end of the short name / around directory names
    for nm in ["Foo .1.0.dsdl", "Foo\t.1.0.dsdl", "Foo .1.0.dsdl", " Foo.1.0.dsdl", "Foo　.1.0.dsdl"]:
        out.append(simple_case([(["ns", nm], False), (["ns", "Ok.1.0.dsdl"], False)], [
            fcall([], [[False, ["ns", nm]]], [[False, ["ns"]]]), ncall([], [False, ["ns"]]), fcall([], [[True, ["ns", nm]]], [[True, ["ns"]]])]))
    out.append(simple_case([([" ns", "Foo.1.0.dsdl"], False)], [fcall([], [[False, [" ns", "Foo.1.0.dsdl"]]], []), ncall([], [True, [" ns"]])]))
    # F6 (fixed): numbers of the file name
    for nm in ["A.1_0.0.dsdl", "A.+1.0.dsdl", "A. 1.0.dsdl", "A.١.0.dsdl", "7_0_0_0.A.1.0.dsdl", "A.1.-0.dsdl", "A.1.².dsdl", "007.A.01.000.dsdl",
               "A.1.0.", "A.1.0.txt", "A.1.0", "A.1.dsdl", "x.A.1.0.dsdl", "1.2.A.1.0.dsdl", ".1.0.dsdl", "A..1.0.dsdl", "A.0.0.dsdl", "A.256.0.dsdl",
               "8192.A.1.0.dsdl", "8191.A.1.0.dsdl", "K.1.0.dsdl"]:
        out.append(simple_case([(["r", "ns", "sub", nm], False)], [
            fcall([], [[True, ["r", "ns", "sub", nm]]], [[True, ["r", "ns"]]]),
            fcall(["r"], [[False, ["ns", "sub", nm]]], []),
            ncall(["r"], [False, ["ns"]])]))
    # a relative target below a relative root that does not exist there but exists one level up under the root's parent:
    # the file that is found is not below the root; Path.relative_to raises ValueError and nothing catches it
    out.append(simple_case([(["a", "a", "ns", "X.1.0.dsdl"], False)], [
        fcall([], [[False, ["a", "ns", "X.1.0.dsdl"]]], [[False, ["a", "ns"]]]),
        fcall(["a"], [[False, ["a", "ns", "X.1.0.dsdl"]]], [[False, ["a", "ns"]]])]))
    # five and more dot-components are not a file name of the shape, whatever stands at the port-ID position (seeded C15-3)
    for nm in ["node.6200.Status.1.0.dsdl", "vendor.node.6200.Status.1.0.dsdl", "6201.6200.Status.1.0.dsdl", "Copy.of.6200.Status.1.0.dsdl",
               "a.b.Status.1.0.dsdl", "0.0.Status.1.0.dsdl", ".6200.Status.1.0.dsdl"]:
        out.append(simple_case([(["r", "ns", nm], False), (["r", "ns", "Fine.1.0.dsdl"], False)], [
            fcall([], [[True, ["r", "ns", nm]]], [[True, ["r", "ns"]]]),
            fcall(["r"], [[False, ["ns", nm]]], [[False, ["ns"]]]),
            fcall(["r"], [[False, ["ns", "Fine.1.0.dsdl"]]], []),
            ncall([], [True, ["r", "ns"]])]))
    # a sub-namespace spelled like another root: bare names are looked for along the PATH, not along the list (seeded C15-2)
    Br, Nd = ["ws", "acme", "uavcan", "Bridge.1.0.dsdl"], ["vendor", "uavcan", "Node.1.0.dsdl"]
    ir = [Br[:2], Nd[:2]]
    out.append(simple_case([(Br, False), (Nd, False)], [
        fcall([], [[True, Br]], [[False, ["uavcan"]], [False, ["acme"]]], gkey="shadow", iroots=ir),
        fcall([], [[True, Br]], [[False, ["acme"]], [False, ["uavcan"]]], gkey="shadow", iroots=ir),
        fcall([], [[True, Br]], [[False, ["acme"]]], gkey="shadow", iroots=ir),
        fcall([], [[True, Br]], [[True, Br[:2]]], gkey="shadow", iroots=ir),
        fcall(["vendor"], [[True, Br]], [[False, ["uavcan"]], [False, ["acme"]]], gkey="shadow", iroots=ir),
        fcall([], [[False, Br]], [[False, ["uavcan"]], [False, ["acme"]]], gkey="shadow", iroots=ir),
        fcall([], [[True, Br], [True, Nd]], [[False, ["uavcan"]], [False, ["acme"]]], gkey="shadow2", iroots=ir),
        fcall([], [[True, Nd], [True, Br]], [[False, ["acme"]], [False, ["uavcan"]]], gkey="shadow2", iroots=ir)]))
    # a symbolic link to a directory followed by '..': the operating system goes to the parent of the link's TARGET
    # (seeded C15-r3-3: lexical normalisation reads the stale copy at the collapsed place)
    real = ["store", "proj", "types", "ns", "sub", "7100.Thing.1.0.dsdl"]
    stale = ["work", "types", "ns", "sub", "7100.Thing.1.0.dsdl"]
    via = ["work", "out", "..", "types", "ns", "sub", "7100.Thing.1.0.dsdl"]
    ir = [real[:4]]
    lc = simple_case([(real, False), (stale, False)], [
        fcall([], [[True, real]], [[False, ["ns"]]], gkey="link", iroots=ir),
        fcall([], [[True, real]], [[True, real[:4]]], gkey="link", iroots=ir),
        fcall(["store", "proj"], [[False, real[2:]]], [[False, ["types", "ns"]]], gkey="link", iroots=ir),
        dict(fcall([], [[True, via]], [[False, ["ns"]]], gkey="link", iroots=ir), nocoq=True, link="bare"),
        dict(fcall([], [[True, via]], [[True, real[:4]]], gkey="link", iroots=ir), nocoq=True, link="target"),
        dict(fcall([], [[True, real]], [[True, via[:5]]], gkey="link", iroots=ir), nocoq=True, link="root"),
        dict(fcall([], [[True, via]], [[True, via[:5]]], gkey="link", iroots=ir), nocoq=True, link="both"),
        dict(fcall(["work"], [[False, via[1:]]], [[True, real[:4]]], gkey="link", iroots=ir), nocoq=True, link="relative"),
        dict(fcall(["work"], [[False, via[1:]]], [[False, via[1:5]]], gkey="link", iroots=ir), nocoq=True, link="relative"),
        ncall([], [True, real[:4]])], dirs=[["store", "proj", "build"]])
    lc["links"] = [[["work", "out"], ["store", "proj", "build"]]]
    out.append(lc)
    # services: the port range and the name length are those of services
    out.append(simple_case([(["ns", "511.S.1.0.dsdl"], True), (["ns", "512.Q.1.0.dsdl"], True)], [
        fcall([], [[False, ["ns", "511.S.1.0.dsdl"]]], []), fcall([], [[False, ["ns", "512.Q.1.0.dsdl"]]], []), ncall([], [False, ["ns"]])]))
    # strategy 4 takes the first occurrence of a bare name; nested roots are rejected
    F = ["w", "ns", "x", "ns", "Y.1.0.dsdl"]
    out.append(simple_case([(F, False)], [
        fcall([], [[True, F]], [[False, ["ns"]]]), fcall([], [[True, F]], [[True, ["w", "ns", "x", "ns"]]]),
        fcall([], [[True, F]], [[True, ["w", "ns", "x", "ns"]], [True, ["w", "ns"]]]), fcall([], [[True, F]], [[False, ["x"]], [False, ["ns"]]])]))
    # name length limit
    L = ["ns"] + ["d" + "x" * 61] * 4
    out.append(simple_case([(L + ["A.1.0.dsdl"], False), (L + ["Abcdef.1.0.dsdl"], False), (L + ["B.1.0.dsdl"], True)], [
        fcall([], [[False, L + ["A.1.0.dsdl"]]], []), fcall([], [[False, L + ["Abcdef.1.0.dsdl"]]], []), fcall([], [[False, L + ["B.1.0.dsdl"]]], [])]))
    return out


def generate(rng, tier):
    cases = corpus()
    streams = ["corpus"] * len(cases)
    n = 900 if tier == "quick" else 12000
    for k in range(n):
        c = gen_shadow_case(rng) if k % 10 == 9 else gen_case(rng, tier)
        while cross_definition_conflict(c):      # defensive: regenerate (deterministically) instead of relying on C11's rules
            c = gen_case(rng, tier)
        cases.append(c)
        streams.append("random")
    return cases, streams


# ----------------------------------------------------------------------------------------------------------------
# implementation side


def classify(ex):
    import pydsdl
    if isinstance(ex, pydsdl.InvalidDefinitionError):
        return "CInvalidDefinition"
    if isinstance(ex, pydsdl.InternalError):
        return "CInternal"
    if isinstance(ex, ValueError):
        return "CValueError"
    if isinstance(ex, TypeError):
        return "CTypeError"
    return "COther"


def predicate(case, obs, skip):
    """implementation-alone predicate: (1) all designations of one group give the same answer; (2) one file under one root
    has one identity in every call that returns it.  Returns a text when it fails."""
    groups = {}
    for c, ob in zip(case["calls"], obs):
        if c.get("gkey") and not skip(c) and not (c["api"] == "files" and bare_name_above_root(c["roots"], c.get("iroots") or [])):
            groups.setdefault(c["gkey"], []).append(ob)
    for gk, obl in groups.items():
        for ob in obl[1:]:
            if ob != obl[0]:
                return "designations of the same files under the same roots disagree (%s): %r vs %r" % (gk, obl[0], ob)
    seen = {}
    for ob in obs:
        for i in ob.get("ids", []):
            k = ("/".join(i[4]), "/".join(i[5]))
            if k in seen and seen[k] != i:
                return "one file under one root with two identities: %r vs %r" % (seen[k], i)
            seen[k] = i
    return None


def is_f16_call(case, c):
    return c["api"] == "files" and bool(c.get("gkey")) and bool(f16_shape(c["cwd"], c["targets"], c["roots"], c.get("iroots") or [], case["files"]))


def known_finding(case, obs, known):
    """F16: the strict predicate fails only because of calls of the strategy3-ancestor-capture shape, and those calls are
    rejected while another designation of the same files is accepted."""
    if not any(k.get("signature", {}).get("kind") == "strategy3-ancestor-capture" for k in known):
        return None
    if not isinstance(obs, dict) or not obs.get("pred_fail"):
        return None
    shaped = [(c, ob) for c, ob in zip(case["calls"], obs["calls"]) if is_f16_call(case, c)]
    if not shaped or any(ob["r"] != "CInvalidDefinition" for _, ob in shaped):
        return None
    if predicate(case, obs["calls"], skip=lambda c: is_f16_call(case, c)):
        return None       # something else disagrees as well
    return ("F16 read_files: a relative target whose root is given as a bare name is captured by an ancestor of another root path "
            "(inference strategy 3 before strategy 4) and the call is rejected as nested root namespaces, e.g. the third spelling of "
            "the read_files docstring example")


def run_impl(cases):
    import shutil
    import tempfile
    import pydsdl

    scratch = os.path.realpath(os.environ["VERIF_SCRATCH"])
    home = os.getcwd()
    out = []

    def rel(p, base):
        p = str(p)
        if p == base:
            return []
        if p.startswith(base + "/"):
            return p[len(base) + 1:].split("/")
        return ["<outside>", p]

    for case in cases:
        base = tempfile.mkdtemp(prefix="c15_", dir=scratch)
        try:
            links = {tuple(l) for l, _ in case.get("links", [])}
            for d in all_dirs(case):
                if d not in links:
                    os.makedirs(os.path.join(base, *d), exist_ok=True)
            for l, tgt in case.get("links", []):
                os.symlink(os.path.join(base, *tgt), os.path.join(base, *l), target_is_directory=True)
            for idx, f in enumerate(case["files"]):
                with open(os.path.join(base, *f["p"]), "w") as fh:
                    fh.write(file_text(idx, f["svc"]))
            mark = {"/".join(f["p"]): ["m%d" % idx] for idx, f in enumerate(case["files"])}
            obs = []
            for c in case["calls"]:
                def d2s(p):
                    return (base + pstr(p)) if p[0] else pstr(p)
                try:
                    os.chdir(os.path.join(base, *c["cwd"]))
                    if c["api"] == "files":
                        direct, _ = pydsdl.read_files([d2s(p) for p in c["targets"]], [d2s(p) for p in c["roots"]],
                                                      [d2s(p) for p in c["lookups"]] or None, allow_unregulated_fixed_port_id=True)
                    else:
                        direct = pydsdl.read_namespace(d2s(c["root"]), [d2s(p) for p in c["lookups"]] or None,
                                                       allow_unregulated_fixed_port_id=True)
                    ids = sorted([[t.full_name, int(t.version.major), int(t.version.minor), t.fixed_port_id,
                                   rel(t.source_file_path, base), rel(t.source_file_path_to_root, base),
                                   [f.name for f in (t.request_type if isinstance(t, pydsdl.ServiceType) else t).fields]]
                                  for t in direct], key=lambda x: (x[4], x[0]))
                    secs = sorted([[x.full_name, int(x.version.major), int(x.version.minor), x.fixed_port_id,
                                    rel(x.source_file_path, base), rel(x.source_file_path_to_root, base)]
                                   for t in direct if isinstance(t, pydsdl.ServiceType) for x in (t.request_type, t.response_type)],
                                  key=lambda x: (x[4], x[0]))
                    for t in direct:   # has_fixed_port_id must agree with fixed_port_id, also on the sections
                        for x in ([t, t.request_type, t.response_type] if isinstance(t, pydsdl.ServiceType) else [t]):
                            assert bool(x.has_fixed_port_id) == (x.fixed_port_id is not None)
                    obs.append({"r": "ok", "ids": ids, "secs": secs})
                except Exception as ex:  # pylint: disable=broad-except
                    obs.append({"r": classify(ex)})
                finally:
                    os.chdir(home)
            o = {"calls": obs}
            if outside_contract(case):
                out.append(o)
                continue
            pf = predicate(case, obs, skip=lambda c: False)
            for ob in obs:       # the content that was parsed is the content of the file that source_file_path names
                for i in ob.get("ids", []):
                    if mark.get("/".join(i[4])) != i[6]:
                        pf = pf or "source_file_path %r does not name the file whose text was parsed (fields %r)" % (i[4], i[6])
            if pf:
                o["pred_fail"] = pf
            out.append(o)
        finally:
            os.chdir(home)
            shutil.rmtree(base, ignore_errors=True)
    return out


# ----------------------------------------------------------------------------------------------------------------
# emission


def e_comps(cs):
    return G.lst([G.codepoints(c) for c in cs])


def e_path(p):
    return "(P %s %s)" % (G.b(p[0]), e_comps(p[1]))


def e_paths(ps):
    return G.lst([e_path(p) for p in ps])


def e_ident(i):
    port = "None" if i[3] is None else "(Some %s)" % G.z(i[3])
    return "(C15.I %s %s %s %s %s %s)" % (G.codepoints(i[0]), G.z(i[1]), G.z(i[2]), port, e_comps(i[4]), e_comps(i[5]))


def outside_contract(case):
    """a random-stream case (e.g. an old replay) whose tree violates the generator's contract: two definitions with one
    numeric port-ID or one name - what happens then is C11's subject, not C15's"""
    return "meta" in case and cross_definition_conflict(case)


def emit(case, obs):
    if outside_contract(case):
        return "(C15.mkCase (mkFs [] []) [])"
    files = G.lst(["(%s, %s)" % (e_comps(f["p"]), G.b(f["svc"])) for f in case["files"]])
    dirs = G.lst([e_comps(list(d)) for d in all_dirs(case)])
    calls = []
    for c, ob in zip(case["calls"], obs["calls"]):
        if c.get("nocoq"):
            continue     # spelled through a symbolic link and '..': outside the model, tied to it by the strict group
        if c["api"] == "files":
            ce = "(C15.CFiles %s %s %s %s)" % (e_comps(c["cwd"]), e_paths(c["targets"]), e_paths(c["roots"]), e_paths(c["lookups"]))
        else:
            ce = "(C15.CNamespace %s %s %s)" % (e_comps(c["cwd"]), e_path(c["root"]), e_paths(c["lookups"]))
        if ob["r"] == "ok":
            oe = "(C15.OOk %s %s)" % (G.lst([e_ident(i) for i in ob["ids"]]), G.lst([e_ident(i) for i in ob.get("secs", [])]))
        else:
            oe = "(C15.OErr %s)" % ob["r"]
        calls.append("(%s, %s)" % (ce, oe))
    return "(C15.mkCase (mkFs %s %s) %s)" % (files, dirs, G.lst(calls))


def model_eval(case, obs):
    return "Eval vm_compute in (map (fun c => map (fun co => (C15.run_call (C15.tree c) (fst co), C15.check_call (C15.tree c) co)) (C15.calls c)) cases).\n"


def nontrivial(case, obs):
    targets = {}
    for c in case["calls"]:
        if c["api"] == "files":
            for t in c["targets"]:
                targets.setdefault(t[1][-1], set()).add((t[0], tuple(t[1]), tuple(c["cwd"])))
    return any(len(v) > 1 for v in targets.values()) or any(o["r"] != "ok" for o in obs["calls"])


def describe(case, obs):
    keys = ["planted:" + case.get("meta", {}).get("planted", "corpus"), "files=%d" % min(len(case["files"]), 12), "calls=%d" % min(len(case["calls"]), 16),
            "deepest-path-components=%d" % min(max(len(f["p"]) for f in case["files"]), 8)]
    for c, ob in zip(case["calls"], obs["calls"]):
        keys.append("call:%s:%s" % (c["api"], ob["r"]))
        if c["api"] == "files":
            if not c["roots"]:
                keys.append("roots:none")
            for r in c["roots"]:
                keys.append("root:" + ("absolute" if r[0] else "bare-name" if len(r[1]) == 1 else "relative-path"))
            for t in c["targets"]:
                keys.append("target:" + ("absolute" if t[0] else "relative"))
            if c["cwd"]:
                keys.append("cwd:changed")
            if c.get("gkey"):
                keys.append("group-call")
            if c.get("link"):
                keys.append("symlink-dotdot-spelling:" + c["link"])
    if "pred_fail" in obs:
        keys.append("pred-fail")
    return keys


def shrink(case):
    calls = case["calls"]
    if len(calls) > 1:
        for i in range(len(calls)):
            yield dict(case, calls=[calls[i]])
        for i in range(len(calls)):
            yield dict(case, calls=calls[:i] + calls[i + 1:])
        return
    if not calls:
        return
    c = calls[0]
    used = set()
    if c["api"] == "files":
        for k in ("targets", "roots", "lookups"):
            if len(c[k]) > (1 if k == "targets" else 0):
                for i in range(len(c[k])):
                    yield dict(case, calls=[dict(c, **{k: c[k][:i] + c[k][i + 1:]})])
    elif c["lookups"]:
        yield dict(case, calls=[dict(c, lookups=[])])
    for i in range(len(case["files"])):
        if len(case["files"]) > 1:
            yield dict(case, files=case["files"][:i] + case["files"][i + 1:])
    if case.get("dirs"):
        yield dict(case, dirs=[])
