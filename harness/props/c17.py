"""C17 - errors and @print output are attributed to the right file and line: generator, implementation runner, emitter.

A case is a small namespace: a chain of definitions M -> D1 -> D2 -> D3 (depth 0-3; every dependency is named so that it
sorts before or after its referrer, or lives in a lookup-only root), optional extra targets that share a dependency, random
formatting (comments, blank lines, CRLF, multi-line string literals), @print directives with unique texts, and at most ONE
faulty statement of a chosen category at a random position of one file of the chain.

Compared inside Coq (Builder/Reader.v + Builder/Lines.v): the exception (class, path relative to the scratch root, line)
and the ordered list of (path, line, text) the print handler received.
Property predicates on the implementation alone: the error is attributed to the file and physical line of the planted
fault (None for faults that have no statement: missing @sealed/@extent, malformed union); every delivery names an existing
@print directive with its own path and line, at most once, and after a successful read every directive was delivered.
The second predicate fails in exactly the way recorded as open finding F3 (see known_findings.json) when a dependency
contains a @print: such cases are KNOWN-FINDINGs iff the observation equals the F3 behaviour predicted by `simulate`.

Syntax errors: the line comes from parsimonious (not modelled); the Coq file record carries the physical line of the
injected fault (f_syntax), so the comparison is "reported line = physical line of the injected text", for a grid of positions.
"""
import os
import gallina as G
from props import c03

ID = "C17"
PROPS_FILE = "Props/C17.v"
COQ_IMPORTS = "From PV Require Import Builder.Lines Builder.Reader Check.C17."
CASE_TYPE = "C17.case"
CHECK_FN = "C17.check_case"
SHARD = 60
RULE = ("a case is a namespace with a dependency chain of depth 0-3 (dependencies sorted before / after the referrer or lookup-only), "
        "random formatting, unique @print directives and at most one planted fault (syntax, pre-flush raise, raise after an identifier, "
        "undefined identifier/type, directive misuse incl. state-dependent ones, failed/ill-typed @assert, attribute after @extent, "
        "duplicate marker, construction faults of fields/constants, field after _offset_ in a union, missing serialization mode, "
        "malformed union) at a random position of a random file of the chain; non-trivial = a fault or a print in a file with at "
        "least one preceding comment/blank/multi-line line, or below depth 0; distinct = by hash of the case")
THEOREMS_NOTE = ("C17_line_counter/C17_line_immediate/C17_line_commit/C17_line_finish fix the reported line of every fault, C17_path_innermost "
                 "(with C17_finalize_line) the path and the absence of a line, C17_print_once_here_stmt/_partial the deliveries outside the F3 "
                 "pattern; C17_print_refuted / C17_print_twice_refuted are the F3 witnesses")
TRUSTED = ["the line reported for a syntax error is computed by parsimonious (ParseError.line()); it is compared with the physical "
           "line of the injected text, not derived from a model of the PEG engine",
           "the order in which _read_definitions visits the targets (sorted by full name, newest version first) is computed by the "
           "harness with Python's sorted(); C10 is the property that pins this order down"]
ASSUMPTIONS = ["one planted fault per namespace (the first fault in evaluation order decides the error when there are several; the model "
               "covers that, the generator does not exercise it beyond targeted cases)",
               "open finding F3: deliveries for @print directives inside dependencies are compared with the ACTUAL behaviour (referrer's path, "
               "re-delivery through the lookup twin) and reported as KNOWN-FINDING"]
EXPLANATION = ("theorems quantify over all line lists, positions and namespaces; the correspondence compares error location and print "
               "deliveries predicted by the reader model with pydsdl on generated namespaces")

F3_TEXT = "F3 kind=print-path directive_in=dependency delivered_path=referrer (@print inside a dependency is delivered with the path of the target being read / re-delivered through the lookup twin)"


# ----------------------------------------------------------------------------------------------------------------
# statements

def st(toks, pre, act, extra=0):
    return {"toks": toks, "pre": pre, "act": act, "extra": extra}


def T(*ts):
    """tokens with optional blanks in between"""
    return [[t, "o"] for t in ts]


def field(name, ty="uint8", cf=False, pre=None):
    return st([[ty, "m"], [name, "o"]], ["i"] if pre is None else pre, {"k": "field", "name": name, "ty": None, "cf": cf})


def const(ty_toks, name, expr_toks, cf=False, pre=None):
    return st(ty_toks + [[name, "o"], ["=", "o"]] + expr_toks, ["i"] if pre is None else pre, {"k": "const", "name": name, "ty": None, "val": "", "cf": cf})


def dirv(name, g=None, toks=None, pre=None, extra=0, shown=""):
    return st([["@", "n"], [name, "m" if toks else "o"]] + (toks or []), ["i"] + (pre or []), {"k": "dir", "d": name, "g": g, "shown": shown}, extra)


def ref_field(spelling, num, name, arr=None):
    """a field of a versioned type; num = number of the file it resolves to (0: no such definition)"""
    toks = [[spelling, "o"]] + (T("[", "<=", arr, "]") if arr else [])
    toks[-1][1] = "m"
    return st(toks + [[name, "o"]], ["i"] * (spelling.count(".") - 1) + ["d%d" % num, "i"], {"k": "field", "name": name, "ty": None, "cf": False})


MARKER = st([["---", "o"]], [], {"k": "marker"})


def faults(rng):
    """fault categories that can stand at any position: name -> statement"""
    n = "f%d" % rng.randrange(1000)
    return {
        # raised while the type / expression is evaluated, before any identifier of the statement has been visited
        "pre:capacity0": st(T("uint8", "[", "0", "]") [:-1] + [["]", "m"], [n, "o"]], ["x"], {"k": "field", "name": n, "ty": None, "cf": False}),
        "pre:width65": field(n, "uint65", pre=["x"]),
        "pre:trunc-signed": st([["truncated", "m"], ["int8", "m"], [n, "o"]], ["x"], {"k": "field", "name": n, "ty": None, "cf": False}),
        "pre:excl1": st(T("bool", "[", "<", "1") + [["]", "m"], [n, "o"]], ["x"], {"k": "field", "name": n, "ty": None, "cf": False}),
        # raised after an identifier (hence after a flush)
        "expr:div0": dirv("assert", ["b", True], T("1", "/", "0", "==", "1"), ["x"]),
        "expr:undefined-identifier": dirv("print", None, T("NOPE"), ["i", "x"]),
        "expr:capacity-identifier": st(T("uint8", "[", "NOPE") + [["]", "m"], [n, "o"]], ["i", "x"], {"k": "field", "name": n, "ty": None, "cf": False}),
        "expr:bad-escape": dirv("print", None, T("'\\z'"), ["x"]),
        "expr:type-mismatch": const([["uint8", "m"]], "X" + n, T("1", "+", "true"), pre=["i", "x"]),
        "expr:multi-line-operand": dirv("assert", ["b", True], T("'a\nb\nc'", "==", "1", "/", "0"), ["x"], extra=2),
        "type:undefined": ref_field(rng.choice(["Nope.1.0", "ns.Nope.1.0", "ns.sub.Nope.7.3", "zz.Q.1.0"]), 0, n),
        # raised by the directive handlers
        "dir:assert-false": dirv("assert", ["b", False], rng.choice([T("false"), T("1", "==", "2"), T("'x\ny'", "==", "''")])),
        "dir:assert-int": dirv("assert", ["i", 1], T("1")),
        "dir:assert-none": dirv("assert", None),
        "dir:unknown": dirv(rng.choice(["foo", "seal", "Sealed", "prin"])),
        "dir:sealed-arg": dirv("sealed", ["i", 1], T("1")),
        "dir:union-arg": dirv("union", ["b", True], T("true")),
        "dir:deprecated-arg": dirv("deprecated", ["i", 0], T("0")),
        # raised when the queued attribute is constructed (deferred)
        "commit:name-reserved": field(rng.choice(["truncated", "saturated", "bool", "uint8", "float", "_x_", "optional", "void3", "com1"]), cf=True),
        "commit:void-named": field(n, "void8", cf=True),
        "commit:const-range": const([["uint8", "m"]], "X" + n, T(rng.choice(["256", "-1", "2**8"])), cf=True),
        "commit:const-kind": const([[rng.choice(["int8", "uint16"]), "m"]], "X" + n, T(rng.choice(["1.5", "true", "'ab'", "{1}"])), cf=True),
        "commit:const-bool": const([["bool", "m"]], "X" + n, T("1"), cf=True),
        "commit:const-name": const([["uint8", "m"]], rng.choice(["truncated", "int", "_q_"]), T("1"), cf=True),
    }


ANYWHERE = sorted(faults(__import__("random").Random(0)).keys())
STATEFUL = ["dir:sealed-twice", "dir:extent-after-sealed", "dir:extent-none", "dir:extent-bool", "dir:extent-fraction", "dir:union-late", "dir:union-twice",
            "dir:deprecated-late", "dir:deprecated-twice", "dir:deprecated-response", "attr:after-extent", "marker:twice", "commit:union-offset",
            "final:no-mode", "final:union-arity", "syntax", "syntax:deep"]
SYNTAX = ["uint8", "uint8 a b", "@", "= 5", "uint8 a = ", "@print abc def", " uint8 x", "uint8 a; uint8 b", "uint8[ a", "@assert (1", "---x", "void", "@print 1 2"]


# ----------------------------------------------------------------------------------------------------------------
# files

# characters str.splitlines() treats as line boundaries; only LF - and CR / CRLF, which open() in text mode turns into LF -
# end a line of the file.  The others may stand raw inside a string literal and must not move any line number.
LINE_BREAKS = ["\n", "\n", "\r\n", "\r"]
NOT_BREAKS = ["\x0b", "\x0c", "\x1c", "\x1d", "\x1e", "\x85", "\u2028", "\u2029"]


# escape sequences of string literals: source text -> decoded text.  The ones that decode to a line feed do not break a
# line of the file and must not move any line number (only RAW line feeds inside a literal do)
ESCAPES = [("\\n", "\n"), ("\\N", "\n"), ("\\u000a", "\n"), ("\\u000A", "\n"), ("\\U0000000a", "\n"), ("\\U0000000A", "\n"),
           ("\\r\\n", "\r\n"), ("\\r", "\r"), ("\\t", "\t"), ("\\\\n", "\\n"), ("\\u2028", "\u2028"), ("\\u0041", "A")]


def raw_literal(rng, head=""):
    """a quoted string literal with raw separators and escape sequences:
    (token, value as the parser decodes it, physical lines - 1 = RAW line breaks only)"""
    n = rng.choice([0, 1, 1, 2, 3])
    src, val, extra = head, head, 0
    for _ in range(n):
        r = rng.random()
        if r < 0.4:
            e = rng.choice(ESCAPES)
            src, val = src + e[0], val + e[1]
        else:
            c = rng.choice(LINE_BREAKS + NOT_BREAKS + NOT_BREAKS[:4])
            src += c
            if c in ("\n", "\r\n", "\r"):        # universal newlines of DSDLDefinition.text
                val, extra = val + "\n", extra + 1
            else:
                val += c
        t = rng.choice(["q", "x y", "z"])        # never empty: a raw CR must not meet a following raw LF
        src, val = src + t, val + t
    q = rng.choice("'\"")
    return q + src + q, val, extra


def filler_stmt(rng, ctr, kind):
    r = rng.random()
    ctr[0] += 1
    i = ctr[0]
    if r < 0.35:
        return field("a%d" % i, rng.choice(["uint8", "bool", "float32", "int16"]))
    if r < 0.45:
        return st(T("uint8", "[", "<=", str(rng.randrange(1, 9))) + [["]", "m"], ["b%d" % i, "o"]], ["i"], {"k": "field", "name": "b%d" % i, "ty": None, "cf": False})
    if r < 0.55:
        return const([["uint8", "m"]], "C%d" % i, T(str(rng.randrange(0, 200))))
    if r < 0.6:
        return const([["uint8", "m"]], "LF%d" % i, T(rng.choice(["'\\n'", '"\\n"', "'\\u000a'", "'\\U0000000A'", "'\\t'"])))
    if r < 0.7 and kind != "union":
        return st([["void%d" % rng.randrange(1, 9), "o"]], [], {"k": "pad", "ty": None, "cf": False})
    if r < 0.78:
        s = rng.choice(["x\ny", "\n", "a\n\nb", "p"])
        return dirv("assert", ["b", True], T(repr(s).replace("\\n", "\n"), "!=", "''"), extra=s.count("\n"))
    if r < 0.9:
        tok, _, extra = raw_literal(rng, "k")
        return dirv("assert", ["b", True], T(tok, "!=", "''"), extra=extra)
    return dirv("assert", ["b", True], T("true"))


def print_stmt(rng, uid):
    r = rng.random()
    if r < 0.35:
        return dirv("print", ["i", uid], T(str(uid)), shown=str(uid))
    if r < 0.5:
        s = "p%d\nq" % uid
        return dirv("print", "other", T("'" + s + "'"), extra=1, shown=repr(s))
    if r < 0.65:
        tok, seen, extra = raw_literal(rng, "r%d" % uid)
        return dirv("print", "other", T(tok), extra=extra, shown=repr(seen))
    if r < 0.8:
        return dirv("print", None, shown="")        # a bare @print: delivered once with the empty text
    return dirv("print", ["i", uid], T(str(uid - 1), "+", "1"), shown=str(uid))


def deep_statement(rng):
    """a statement nested far too deeply for the recursive-descent PEG engine (RecursionError inside the grammar parse)"""
    n = rng.choice([120, 300, 1000])
    o, c, core = rng.choice([("(", ")", "1"), ("{", "}", "1"), ("(", ")", "true"), ("-(", ")", "2")])
    e = o * n + core + c * n
    return rng.choice(["@assert %s == 1", "@print %s", "uint8[%s] deep", "uint8 DEEP = %s", "@extent %s"]) % e


def is_attr(s):
    return s["act"]["k"] in ("field", "pad", "const")


def is_dir(s, *names):
    return s["act"]["k"] == "dir" and s["act"]["d"] in names


def idx(sts, pred, default):
    return next((i for i, s in enumerate(sts) if pred(s)), default)


def build_file(rng, fid, rel, target, refs, fault, uid, tier, referenced=False, ext=8000, sealed_only=False):
    """refs: reference statements to place; fault: category name or None.  Returns the file dict."""
    ctr = [fid * 100]
    kind = rng.choice(["struct", "struct", "union"] + ([] if referenced else ["service"]))      # a service type cannot be a field type
    mode = rng.choice(["sealed", "sealed", "extent"])
    if fault in ("dir:union-twice", "commit:union-offset", "final:union-arity"):
        kind = "union"
    if fault == "dir:union-late":
        kind = "struct"
    if fault in ("marker:twice", "dir:deprecated-response"):
        kind = "service"
    if fault == "attr:after-extent":
        mode = "extent"
    if fault in ("dir:extent-after-sealed", "dir:sealed-twice") or sealed_only:
        mode = "sealed"      # sealed_only: _offset_ is expanded numerically, keep the sets small (cost guard)
    if fault == "final:union-arity":
        refs = refs[:1]
    ukind = "union" if kind == "union" else "struct"

    def fresh_field(prefix):
        ctr[0] += 1
        return field("%s%d" % (prefix, ctr[0]))

    # 1. fillers
    sts = [filler_stmt(rng, ctr, ukind) for _ in range(rng.randrange(0, 5 if tier == "quick" else 9))]
    if fault == "final:union-arity":
        sts = [s for s in sts if s["act"]["k"] != "field"]
        if not refs:
            sts.insert(rng.randrange(0, len(sts) + 1), fresh_field("u"))
    elif kind == "union":
        while sum(1 for s in sts if s["act"]["k"] == "field") + len(refs) < 2:
            sts.insert(rng.randrange(0, len(sts) + 1), fresh_field("u"))
    if fault in ("dir:union-late", "dir:deprecated-late") and not any(is_attr(s) for s in sts):
        sts.insert(rng.randrange(0, len(sts) + 1), fresh_field("w"))
    # 2. references (attribute statements)
    for r in refs:
        sts.insert(rng.randrange(0, len(sts) + 1), r)
    # 3. @union before the first attribute
    if kind == "union":
        sts.insert(rng.randrange(0, idx(sts, is_attr, len(sts)) + 1), dirv("union"))
    # 4. serialization mode
    if fault != "final:no-mode":
        if mode == "sealed":
            sts.insert(rng.randrange(0, len(sts) + 1), dirv("sealed"))
        else:
            last_attr = max([i for i, x in enumerate(sts) if is_attr(x)] + [-1])
            sts.insert(rng.randrange(last_attr + 1, len(sts) + 1), dirv("extent", ["i", ext], T(str(ext))))
    # 5. prints
    for _ in range(rng.randrange(0, 3)):
        uid[0] += 1
        sts.insert(rng.randrange(0, len(sts) + 1), print_stmt(rng, uid[0]))

    def mode_pos():
        return idx(sts, lambda x: is_dir(x, "sealed", "extent"), len(sts))

    def attr_hi():      # an attribute may not follow @extent
        return mode_pos() if mode == "extent" else len(sts)

    def attr_lo():      # ... and in a union it follows @union
        return idx(sts, lambda x: is_dir(x, "union"), -1) + 1

    # 6. the planted fault
    planted = None
    if fault in ANYWHERE:
        planted = faults(rng)[fault]
        planted["extra"] = sum(t.count("\n") for t, _ in planted["toks"])
        if is_attr(planted):
            sts.insert(rng.randrange(attr_lo(), attr_hi() + 1), planted)
        else:
            sts.insert(rng.randrange(0, len(sts) + 1), planted)
    elif fault in ("dir:sealed-twice", "dir:extent-after-sealed"):
        planted = dirv("sealed") if fault == "dir:sealed-twice" else dirv("extent", ["i", 64], T("64"))
        sts.insert(rng.randrange(mode_pos() + 1, len(sts) + 1), planted)
    elif fault in ("dir:extent-none", "dir:extent-bool", "dir:extent-fraction"):
        planted = {"dir:extent-none": dirv("extent", None), "dir:extent-bool": dirv("extent", ["b", True], T("true")),
                   "dir:extent-fraction": dirv("extent", "other", T("1.5"))}[fault]
        sts.insert(rng.randrange(0, mode_pos() + 1), planted)          # the mode is still unset here
    elif fault == "dir:union-late":
        planted = dirv("union")
        sts.insert(rng.randrange(idx(sts, is_attr, 0) + 1, len(sts) + 1), planted)
    elif fault == "dir:union-twice":
        planted = dirv("union")
        sts.insert(rng.randrange(attr_lo(), len(sts) + 1), planted)
    elif fault == "dir:deprecated-late":
        planted = dirv("deprecated")
        sts.insert(rng.randrange(idx(sts, is_attr, 0) + 1, len(sts) + 1), planted)
    elif fault == "dir:deprecated-twice":
        d0 = rng.randrange(0, idx(sts, is_attr, len(sts)) + 1)
        sts.insert(d0, dirv("deprecated"))
        planted = dirv("deprecated")
        sts.insert(rng.randrange(d0 + 1, len(sts) + 1), planted)
    elif fault == "attr:after-extent":
        ctr[0] += 1
        planted = rng.choice([field("late%d" % ctr[0]), const([["uint8", "m"]], "LATE%d" % ctr[0], T("1"))] +
                             ([] if kind == "union" else [st([["void8", "o"]], [], {"k": "pad", "ty": None, "cf": False})]))
        sts.insert(rng.randrange(mode_pos() + 1, len(sts) + 1), planted)
    elif fault == "commit:union-offset":
        fields = [i for i, x in enumerate(sts) if x["act"]["k"] == "field"]
        qpos = rng.randrange(fields[1] + 1, attr_hi() + 1)       # after two variants, before @extent
        sts.insert(qpos, dirv("assert", ["b", True], T("_offset_", ".", "count", ">=", "1"), ["i", "o", "i"]))
        nxt = idx(sts[qpos + 1:], lambda x: x["act"]["k"] == "field", None)
        hi = min(attr_hi(), len(sts) if nxt is None else qpos + 1 + nxt)      # the first field after the query is the planted one
        planted = fresh_field("late")
        sts.insert(rng.randrange(qpos + 1, hi + 1), planted)
    lines = []
    c03.weave(rng, sts, lines)
    if kind == "service":
        sts2 = [filler_stmt(rng, ctr, "struct") for _ in range(rng.randrange(0, 3))]
        for _ in range(rng.randrange(0, 2)):
            uid[0] += 1
            sts2.insert(rng.randrange(0, len(sts2) + 1), print_stmt(rng, uid[0]))
        sts2.insert(rng.randrange(0, len(sts2) + 1), dirv("sealed"))
        if fault == "marker:twice":
            planted = dict(MARKER)
            sts2.insert(rng.randrange(0, len(sts2) + 1), planted)
        if fault == "dir:deprecated-response":
            planted = dirv("deprecated")
            sts2.insert(rng.randrange(0, len(sts2) + 1), planted)
        lines.append({"s": dict(MARKER), "b": False, "c": c03.gen_comment(rng) if rng.random() < 0.3 else None})
        c03.weave(rng, sts2, lines)
    if fault in ("syntax", "syntax:deep"):
        planted = {"toks": [[rng.choice(SYNTAX) if fault == "syntax" else deep_statement(rng), "o"]], "pre": [], "act": {"k": "syntax"}, "extra": 0, "raw": True}
        lines.insert(rng.randrange(0, len(lines) + 1), {"s": planted, "b": False, "c": None})
    if not lines:
        lines.append({"s": None, "b": False, "c": None})
    f = {"id": fid, "rel": rel, "target": target, "lines": lines, "fseed": rng.randrange(2, 2 ** 32), "fault_line": None, "syntax": None,
         "fault": fault}
    if planted is not None:
        n = 1
        for ln in lines:
            if ln["s"] is planted:
                f["fault_line"] = n
                break
            n += 1 + (ln["s"]["extra"] if ln["s"] else 0)
        assert f["fault_line"] is not None
    if fault == "syntax":
        f["syntax"] = f["fault_line"]
    if fault == "syntax:deep":
        # the PEG engine exhausts the interpreter stack before anything is visited: an error with the path and NO line
        f["syntax"], f["deep_line"], f["fault_line"] = "deep", f["fault_line"], None
    return f


def gen_case(rng, tier, category=None, depth=None, where=None):
    depth = rng.choice([0, 0, 1, 1, 2, 3]) if depth is None else depth
    if category is None:
        category = rng.choice(["print"] * 14 + ANYWHERE + STATEFUL + ["syntax"] * 3 + ["syntax:deep"] * 2)
    where = rng.randrange(0, depth + 1) if where is None else where        # which file of the chain holds the fault
    # names: the main target is ns/M; dependencies sort before (A..), after (Z.. / sub/..) or live in the lookup-only root lk
    files = []
    uid = [1000]
    chain = []
    for lvl in range(depth + 1):
        if lvl == 0:
            rel, full, target = "ns/M.1.0.dsdl", "ns.M", True
        else:
            place = rng.choice(["before", "after", "after-sub", "lookup"])
            nm = "%s%d" % ({"before": "A", "after": "Z", "after-sub": "D", "lookup": "L"}[place], lvl)
            if place == "before":
                rel, full, target = "ns/%s.1.0.dsdl" % nm, "ns.%s" % nm, True
            elif place == "after":
                rel, full, target = "ns/%s.1.0.dsdl" % nm, "ns.%s" % nm, True
            elif place == "after-sub":
                rel, full, target = "ns/sub/%s.1.0.dsdl" % nm, "ns.sub.%s" % nm, True
            else:
                rel, full, target = "lk/%s.1.0.dsdl" % nm, "lk.%s" % nm, False
        chain.append({"id": lvl + 1, "rel": rel, "full": full, "target": target})
    extra_targets = []
    if depth >= 1 and rng.random() < 0.5:
        # a second target that refers to one dependency of the chain (cache hits, F3 re-delivery shapes)
        k = rng.randrange(1, depth + 1)
        nm = rng.choice(["B9", "Y9"])
        extra_targets.append({"id": depth + 2, "rel": "ns/%s.1.0.dsdl" % nm, "full": "ns.%s" % nm, "target": True, "refs": [k + 1]})
    if rng.random() < 0.3:
        nm = rng.choice(["C8", "X8"])
        extra_targets.append({"id": depth + 3, "rel": "ns/%s.1.0.dsdl" % nm, "full": "ns.%s" % nm, "target": True, "refs": []})
    for lvl, c in enumerate(chain):
        refs = []
        if lvl < depth:
            nxt = chain[lvl + 1]
            # relative spelling only inside the same namespace
            ns_self = c["full"].rsplit(".", 1)[0]
            ns_next, short = nxt["full"].rsplit(".", 1)
            sp = (short if ns_self == ns_next and rng.random() < 0.5 else nxt["full"]) + ".1.0"
            refs.append(ref_field(sp, nxt["id"], "r%d" % lvl, rng.choice([None, None, "2"])))
            if rng.random() < 0.25:
                refs.append(ref_field(nxt["full"] + ".1.0", nxt["id"], "rr%d" % lvl))    # a second reference: cache hit
        fault_here = category != "print" and lvl == where
        files.append(build_file(rng, c["id"], c["rel"], c["target"], refs, category if fault_here else None, uid, tier, referenced=lvl > 0, ext=8000 * 4 ** (3 - lvl), sealed_only=category == "commit:union-offset"))
    for e in extra_targets:
        refs = [ref_field(chain[r - 1]["full"] + ".1.0", r, "e%d" % r) for r in e["refs"]]
        files.append(build_file(rng, e["id"], e["rel"], True, refs, None, uid, tier, ext=8000 * 4 ** 4, sealed_only=category == "commit:union-offset"))
    return {"files": files, "category": category, "depth": depth, "where": where,
            "fault_file": (where + 1) if category != "print" else None}


def targeted():
    import random
    out = []
    rng = random.Random(1717)
    # the F3 example of known_findings.json and the repaired findings F1/F2/F8/F12 as regression shapes
    def mk(files, category="print", fault_file=None, depth=1, where=0):
        fs = []
        for i, (rel, target, lines, fl) in enumerate(files):
            fs.append({"id": i + 1, "rel": rel, "target": target, "lines": lines, "fseed": 1, "fault_line": fl, "syntax": None,
                       "fault": category if fault_file == i + 1 else None})
        return {"files": fs, "category": category, "depth": depth, "where": where, "fault_file": fault_file}
    L = c03.L
    sealed = dirv("sealed")
    p222 = dirv("print", ["i", 222], T("222"), shown="222")
    out.append(mk([("ns/A.1.0.dsdl", True, [L(ref_field("Z.1.0", 2, "z")), L(sealed)], None),
                   ("ns/Z.1.0.dsdl", True, [L(field("a")), L(sealed), L(p222)], None)]))
    out.append(mk([("ns/Z.1.0.dsdl", True, [L(ref_field("A.1.0", 2, "z")), L(sealed)], None),
                   ("ns/A.1.0.dsdl", True, [L(field("a")), L(sealed), L(p222)], None)]))
    # F2: deferred construction error followed by comment lines
    out.append(mk([("ns/M.1.0.dsdl", True, [L(field("truncated", cf=True)), L(c=" c"), L(c=" d"), L(field("b")), L(sealed)], 1)], "commit:name-reserved", 1, 0))
    # F1: ... on the last line without a line feed
    out.append(mk([("ns/M.1.0.dsdl", True, [L(sealed), L(const([["uint8", "m"]], "X", T("256"), cf=True))], 2)], "commit:const-range", 1, 0))
    # F8: line counter after a multi-line literal
    out.append(mk([("ns/M.1.0.dsdl", True, [L(dirv("print", "other", T("'a\nb'"), extra=1, shown=repr("a\nb"))), L(dirv("assert", ["b", False], T("false")))], 3)], "dir:assert-false", 1, 0))
    # F12: an error of finalize() in a dependency keeps line None
    out.append(mk([("ns/A.1.0.dsdl", True, [L(), L(), L(ref_field("Z.1.0", 2, "z")), L(sealed)], None),
                   ("ns/Z.1.0.dsdl", True, [L(field("a")), L()], None)], "final:no-mode", 2, 1, 1))
    # a dependency cycle and a self-reference: the referrer has been removed from the lookup list, so the reference is undefined
    out.append(mk([("ns/M.1.0.dsdl", True, [L(ref_field("Z1.1.0", 2, "z")), L(sealed)], None),
                   ("ns/Z1.1.0.dsdl", True, [L(), L(ref_field("ns.M.1.0", 1, "m")), L(sealed)], 2)], "type:cycle", 2, 1, 1))
    out.append(mk([("ns/M.1.0.dsdl", True, [L(c=" x"), L(p222), L(ref_field("M.1.0", 1, "m")), L(sealed)], 3)], "type:self", 1, 0, 0))
    # seeded C17-2: characters that str.splitlines() breaks on but that do not end a line of the file, raw inside a literal
    odd = "a\x0bb\x0cc\x1cd\x1de\x1ef\x85g\u2028h\u2029i"
    out.append(mk([("ns/M.1.0.dsdl", True, [L(dirv("assert", ["b", True], T("'" + odd + "'", "!=", "''"))), L(sealed), L(p222),
                                            L(dirv("print", "other", T('"' + odd + '"'), shown=repr(odd))), L(dirv("assert", ["b", False], T("false")))], 5)],
                  "dir:assert-false", 1, 0, 0))
    # ... while a lone CR and CRLF inside a literal do (universal newlines): the assertion stands on physical line 5
    out.append(mk([("ns/M.1.0.dsdl", True, [L(dirv("print", "other", T("'a\rb\r\nc'"), extra=2, shown=repr("a\nb\nc"))), L(sealed),
                                            L(dirv("assert", ["b", False], T("false")))], 5)], "dir:assert-false", 1, 0, 0))
    # seeded C17-3: a bare @print is delivered once with the empty text - in a message, in both sections of a service, in a dependency
    bare = lambda: dirv("print", None, shown="")
    out.append(mk([("ns/M.1.0.dsdl", True, [L(bare()), L(sealed)], None)]))
    out.append(mk([("ns/M.1.0.dsdl", True, [L(c=" h"), L(bare()), L(sealed), L(dict(MARKER)), L(), L(bare()), L(sealed)], None)]))
    out.append(mk([("ns/M.1.0.dsdl", True, [L(ref_field("lk.L1.1.0", 2, "z")), L(bare()), L(sealed)], None),
                   ("lk/L1.1.0.dsdl", False, [L(field("a")), L(), L(bare()), L(sealed)], None)]))
    # seeded C17-r4-3: ESCAPED line feeds inside literals (constant, @print, @assert) do not move the line counter
    esc = '"Hello\\r\\nworld!\\n\\u000a\\U0000000A"'
    esc_val = "Hello\r\nworld!\n\n\n"
    out.append(mk([("ns/M.1.0.dsdl", True, [L(const([["uint8", "m"]], "LF", T("'\\n'"))), L(dirv("print", "other", T(esc), shown=repr(esc_val))),
                                            L(dirv("assert", ["b", True], T("'a\\nb'", "!=", "''"))), L(sealed), L(p222),
                                            L(dirv("assert", ["b", False], T("false")))], 6)], "dir:assert-false", 1, 0, 0))
    out.append(mk([("ns/M.1.0.dsdl", True, [L(ref_field("Z.1.0", 2, "z")), L(sealed)], None),
                   ("ns/Z.1.0.dsdl", True, [L(dirv("print", "other", T(esc), shown=repr(esc_val))), L(field("truncated", cf=True)), L(c=" c"), L(sealed)], 2)],
                  "commit:name-reserved", 2, 1, 1))
    # seeded C17-r3-3: a statement nested too deeply for the PEG engine, NOT on the first line: path, no line
    deep = lambda: {"toks": [["@assert " + "(" * 300 + "1" + ")" * 300 + " == 1", "o"]], "pre": [], "act": {"k": "syntax"}, "extra": 0, "raw": True}
    c = mk([("ns/M.1.0.dsdl", True, [L(field("a")), L(), L(c=" x"), L(deep()), L(sealed)], None)], "syntax:deep", 1, 0, 0)
    c["files"][0]["syntax"] = "deep"
    out.append(c)
    c = mk([("ns/M.1.0.dsdl", True, [L(p222), L(ref_field("Z.1.0", 2, "z")), L(sealed)], None),
            ("ns/Z.1.0.dsdl", True, [L(field("a")), L(field("b")), L(deep()), L(sealed)], None)], "syntax:deep", 2, 1, 1)
    c["files"][1]["syntax"] = "deep"
    out.append(c)
    for cat in ANYWHERE + STATEFUL:
        for depth, where in ((0, 0), (2, 2), (2, 1)):
            out.append(gen_case(rng, "quick", cat, depth, where))
    return out


def corpus():
    import glob
    import json
    d = os.path.join(os.path.dirname(os.path.dirname(os.path.dirname(os.path.abspath(__file__)))), "corpus", ID)
    out = []
    for p in sorted(glob.glob(os.path.join(d, "*.json"))):
        c = json.load(open(p))
        c.pop("why", None)
        out.append(c)
    return out


def generate(rng, tier):
    cases = corpus()
    streams = ["corpus"] * len(cases)
    t = targeted()
    cases += t
    streams += ["targeted"] * len(t)
    n = 700 if tier == "quick" else 12000
    for _ in range(n):
        cases.append(gen_case(rng, tier))
        streams.append("random")
    return cases, streams


# ----------------------------------------------------------------------------------------------------------------
# what the namespace contains (shared by runner, simulator and emitter)

def file_text(f):
    import random
    rng = random.Random(f["fseed"])
    canonical = f["fseed"] == 1
    eol = "\n" if canonical else rng.choice(["\n", "\n", "\r\n", "mixed"])
    ending = "" if canonical else rng.choice(["", "\n", "\r\n", "\n\n", "\n \n"])
    if f["lines"][-1]["c"] is not None:
        ending = ending.lstrip(" \t")
    return c03.render_text(f["lines"], rng, canonical, eol, ending)


def rank(f):
    name = f["rel"][:-len(".1.0.dsdl")].replace("/", ".")
    return (name, -1, 0)


def target_order(case):
    return [f["id"] for f in sorted((f for f in case["files"] if f["target"]), key=rank)]


def events(f):
    """evaluation-relevant events of a file in order: (kind, line, payload)"""
    out = []
    n = 1
    for ln in f["lines"]:
        s = ln["s"]
        if s is not None:
            a = s["act"]
            for p in s["pre"]:
                if p[0] == "d":
                    out.append(("dep", n, int(p[1:])))
            if a["k"] == "dir" and a["d"] == "print":
                out.append(("print", n, a["shown"]))
            n += s["extra"]
        n += 1
    return out


class _Fault(Exception):
    pass


def simulate(case):
    """the ACTUAL behaviour incl. F3: (deliveries, error) with error = None | [rel, line].  Mirrors Builder/Reader.v on the
    event level (a planted fault surfaces before every later event of its file and after every earlier one)."""
    files = {f["id"]: f for f in case["files"]}
    cached, pool, deliveries = set(), set(), []

    def read(bound, lk, i, wanted):
        f = files[i]
        lk = lk - {i}
        fl = f["fault_line"]
        if f.get("fault") in ("syntax", "syntax:deep"):
            raise _Fault([f["rel"], fl])
        for kind, line, payload in events(f):
            if fl is not None and line >= fl and not (kind == "dep" and payload not in lk and line == fl):
                raise _Fault([f["rel"], fl])
            if kind == "print":
                deliveries.append([bound, line, payload])
            elif kind == "dep":
                if payload not in lk:
                    raise _Fault([f["rel"], line])
                if payload not in pool:
                    wanted.add(payload)
                if payload not in cached:
                    read(bound, lk, payload, wanted)
                    cached.add(payload)
        if f.get("fault"):
            raise _Fault([f["rel"], fl])

    try:
        for t in target_order(case):
            if t in pool:
                continue
            wanted = set()
            read(files[t]["rel"], set(files), t, wanted)
            pool.add(t)
            pool |= wanted
    except _Fault as ex:
        return deliveries, ex.args[0]
    return deliveries, None


# ----------------------------------------------------------------------------------------------------------------
# implementation side

def run_impl(cases):
    import shutil
    import pydsdl

    scratch = os.environ["VERIF_SCRATCH"]
    out = []
    for ci, case in enumerate(cases):
        root = os.path.realpath(os.path.join(scratch, "c17_%d_%d" % (os.getpid(), ci)))
        try:
            c03.write_ns(root, {f["rel"]: file_text(f) for f in case["files"]})
            os.makedirs(os.path.join(root, "lk"), exist_ok=True)
            got = []

            def handler(path, line, text):
                got.append([os.path.relpath(str(path), root), int(line), str(text)])

            res = {"ok": True}
            try:
                pydsdl.read_namespace(os.path.join(root, "ns"), [os.path.join(root, "lk")], handler)
            except pydsdl.InvalidDefinitionError as ex:
                res = {"ok": False, "cls": "CInvalidDefinition", "path": None if ex.path is None else os.path.relpath(str(ex.path), root), "line": ex.line}
            except pydsdl.InternalError as ex:
                res = {"ok": False, "cls": "CInternal", "path": None if ex.path is None else os.path.relpath(str(ex.path), root), "line": ex.line}
            except Exception as ex:  # pylint: disable=broad-except
                res = {"ok": False, "cls": "COther", "path": None, "line": None, "text": type(ex).__name__}
            o = {"res": res, "prints": got}
            fails = predicates(case, o)
            if fails:
                o["pred_fail"] = "; ".join(fails)
            out.append(o)
        except Exception as ex:  # pylint: disable=broad-except
            out.append({"res": {"ok": False, "cls": "COther", "path": None, "line": None}, "prints": [],
                        "pred_fail": "harness/implementation failure: %s: %s" % (type(ex).__name__, str(ex)[:300])})
        finally:
            shutil.rmtree(root, ignore_errors=True)
    return out


def predicates(case, o):
    """property-level predicates on the implementation alone; every failure text starts with its kind"""
    fails = []
    files = {f["id"]: f for f in case["files"]}
    res = o["res"]
    # 1. the error is attributed to the file and line of the planted fault
    if case["category"] == "print":
        if not res["ok"]:
            fails.append("error: a valid namespace is rejected at %s:%s" % (res["path"], res["line"]))
    else:
        f = files[case["fault_file"]]
        if res["ok"]:
            fails.append("error: the planted fault %s in %s:%s is not reported" % (case["category"], f["rel"], f["fault_line"]))
        elif res["cls"] != "CInvalidDefinition":
            fails.append("error: exception class %s for the planted fault %s" % (res["cls"], case["category"]))
        elif res["path"] != f["rel"] or res["line"] != f["fault_line"]:
            fails.append("error: the fault %s planted at %s:%s is reported at %s:%s" % (case["category"], f["rel"], f["fault_line"], res["path"], res["line"]))
    # 2. deliveries: own path, own line, once (texts need not be unique: a bare @print delivers "")
    directives = []
    for f in case["files"]:
        for kind, line, payload in events(f):
            if kind == "print":
                directives.append((f["rel"], line, payload))
    count = {d: 0 for d in directives}
    f3 = 0
    f3_for = set()       # directives explained by a delivery under a referrer's path
    other = []
    for p, l, t in o["prints"]:
        cands = [d for d in directives if d[1] == l and d[2] == t and d[0] != p and reaches(case, p, d[0])]
        if (p, l, t) in count and (count[(p, l, t)] == 0 or not cands):
            count[(p, l, t)] += 1
            if count[(p, l, t)] > 1:
                other.append("print: directive at %s:%s delivered again" % (p, l))
        elif cands:
            # right line and text, path of a target that (transitively) refers to the directive's file.  (A bare @print has
            # no distinguishing text: a second delivery with the path and line of an own directive counts as F3 when such a
            # directive exists in a referenced file at the same line.)
            f3 += 1
            f3_for.update(cands)
        else:
            other.append("print: delivery (%s, %s, %r) matches no directive with its own path and line" % (p, l, t))
    if res["ok"]:
        for d, n in count.items():
            if n == 0 and d not in f3_for:
                other.append("print: directive at %s:%s was never delivered" % (d[0], d[1]))
    fails.extend(other)
    if f3:
        fails.append("F3: %d deliveries carry the path of the referring target instead of the directive's own file" % f3)
    return fails


def reaches(case, from_rel, to_rel):
    ids = {f["rel"]: f["id"] for f in case["files"]}
    files = {f["id"]: f for f in case["files"]}
    if from_rel not in ids or to_rel not in ids:
        return False
    todo, seen = [ids[from_rel]], set()
    while todo:
        i = todo.pop()
        if i in seen:
            continue
        seen.add(i)
        for kind, _, payload in events(files[i]):
            if kind == "dep" and payload in files:
                todo.append(payload)
    return ids[to_rel] in seen and ids[to_rel] != ids[from_rel]


def known_finding(case, obs, known):
    """KNOWN-FINDING only for the exact F3 signature: a fault-free or faulty namespace whose ONLY failing predicate is the
    F3 kind, and (for fault-free namespaces) whose deliveries are exactly the ones the F3 mechanism produces."""
    pf = obs.get("pred_fail")
    if not pf:
        return None        # a disagreement with the model is never suppressed
    kinds = [x.split(":")[0] for x in pf.split("; ")]
    if any(k != "F3" for k in kinds):
        return None
    entry = [k for k in known if k.get("id") == "F3" and k.get("status") == "open"
             and k.get("signature") == {"kind": "print-path", "directive_in": "dependency", "delivered_path": "referrer"}]
    if not entry:
        return None
    deliveries, err = simulate(case)
    res = obs["res"]
    if obs["prints"] != deliveries or (err is None) != res["ok"] or (err is not None and [res["path"], res["line"]] != err):
        return None        # not exactly the behaviour of the F3 mechanism
    return F3_TEXT


# ----------------------------------------------------------------------------------------------------------------
# emission

def emit_file(f):
    lines = G.lst([c03.emit_line(ln, lambda _t: "tt", lambda _v: "tt") for ln in f["lines"] if not (ln["s"] is not None and ln["s"].get("raw"))])
    return "(File %s %s %s %s)" % (G.z(f["id"]), G.codepoints(f["rel"]), "None" if f["syntax"] is None else "(Some None)" if f["syntax"] == "deep" else "(Some (Some %s))" % G.z(f["syntax"]), lines)


def emit(case, obs):
    files = G.lst([emit_file(f) for f in case["files"]])
    lookups = G.zlist([f["id"] for f in case["files"]])
    targets = G.zlist(target_order(case))
    r = obs["res"]
    if r["ok"]:
        out = "ROk"
    else:
        out = "(RErr %s %s %s)" % (r["cls"], G.opt(None if r["path"] is None else G.codepoints(r["path"])), G.opt(None if r["line"] is None else G.z(r["line"])))
    dl = G.lst(["(%s, %s, %s)" % (G.codepoints(p), G.z(l), G.codepoints(t)) for p, l, t in obs["prints"]])
    return "(C17.Case %s %s %s %s %s)" % (files, lookups, targets, out, dl)


def model_eval(case, obs):
    return "Eval vm_compute in (map (fun c => Reader.read_ns unit unit (C17.files c) (C17.lookups c) (C17.targets c)) cases).\n"


def nontrivial(case, obs):
    if case["category"] != "print" and case["where"] > 0:
        return True
    for f in case["files"]:
        seen_noise = False
        for ln in f["lines"]:
            s = ln["s"]
            if s is None or s["extra"]:
                seen_noise = True
            if s is not None and seen_noise and (s["act"].get("d") == "print" or f.get("fault_line")):
                return True
    return False


def describe(case, obs):
    keys = ["category:" + case["category"], "depth=%d" % case["depth"]]
    if case["category"] != "print":
        keys.append("fault-at-depth=%d" % case["where"])
        f = [x for x in case["files"] if x["id"] == case["fault_file"]][0]
        keys.append("fault-line:" + ("none" if f["fault_line"] is None else "1" if f["fault_line"] == 1 else "2-5" if f["fault_line"] <= 5 else ">5"))
        keys.append("fault-file:" + ("target" if f["target"] else "lookup-only"))
    for f in case["files"][1:case["depth"] + 1]:
        keys.append("dependency:" + ("lookup-only" if not f["target"] else "sorted-before" if rank(f) < rank(case["files"][0]) else "sorted-after"))
    np = sum(1 for f in case["files"] for e in events(f) if e[0] == "print")
    keys.append("prints=%d" % min(np, 6))
    if any(ln["s"] is not None and ln["s"]["extra"] for f in case["files"] for ln in f["lines"]):
        keys.append("multi-line-literal")
    keys.append("outcome:" + ("ok" if obs["res"]["ok"] else obs["res"]["cls"]))
    if obs.get("pred_fail"):
        keys.append("pred_fail:" + ",".join(sorted(set(x.split(":")[0] for x in obs["pred_fail"].split("; ")))))
    return keys


def shrink(case):
    # drop filler lines of any file (keeps references, the planted fault and the prints)
    for fi, f in enumerate(case["files"]):
        for i, ln in enumerate(f["lines"]):
            s = ln["s"]
            is_union = any(x["s"] is not None and x["s"]["act"].get("d") == "union" for x in f["lines"])
            keep = s is not None and (any(p[0] == "d" or p == "o" for p in s["pre"]) or s["act"].get("d") in ("print", "sealed", "extent", "union", "deprecated")
                                      or s["act"]["k"] in ("marker", "syntax") or (is_union and s["act"]["k"] == "field"))
            if f["fault_line"] is not None:
                n = 1
                for ln2 in f["lines"][:i]:
                    n += 1 + (ln2["s"]["extra"] if ln2["s"] else 0)
                if n == f["fault_line"]:
                    keep = True
            if f.get("syntax") == "deep":
                # the too-deep statement must not become the first line (there a claimed line 1 would happen to be right)
                raw = next(j for j, x in enumerate(f["lines"]) if x["s"] is not None and x["s"].get("raw"))
                if raw == 1 and i == 0:
                    keep = True
            if keep:
                continue
            g = dict(f)
            g["lines"] = f["lines"][:i] + f["lines"][i + 1:]
            if f["fault_line"] is not None:
                n = 1
                for ln2 in f["lines"][:i]:
                    n += 1 + (ln2["s"]["extra"] if ln2["s"] else 0)
                if n < f["fault_line"]:
                    g["fault_line"] = f["fault_line"] - 1 - (s["extra"] if s else 0)
                    if g["syntax"] is not None and g["syntax"] != "deep":
                        g["syntax"] = g["fault_line"]
            if not g["lines"]:
                continue
            yield dict(case, files=case["files"][:fi] + [g] + case["files"][fi + 1:])


LEVEL_TEXT = ("Machine-checked theorems (Coq, closed under the global context) about the line machine and the reader model: the line counter "
              "equals the physical line of the visited statement whatever precedes it (comments, blank lines, multi-line string literals); "
              "an error raised while a statement is visited carries that line, an error raised when a queued attribute is constructed carries "
              "the line of the attribute's statement and can never be lost; an error of a dependency keeps its own path and line through "
              "every referrer; prints of a file read as a target are delivered with its own path and line. The models are tied to /repo by "
              "comparing, inside Coq, predicted error location and deliveries with pydsdl on generated namespaces.")
LEVEL_NOTE = ("Trusted: Coq kernel + vm_compute; line numbers of syntax errors are parsimonious' (compared with the physical line of the "
              "injected text); open finding F3 (print path in dependencies) is mirrored by the model and reported as KNOWN-FINDING.")
TECHNIQUE = "Coq proof over the line machine (counter invariant, error-location case analysis) and the reader model; vm_compute correspondence"
