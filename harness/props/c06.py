"""C06 - serialize/deserialize round trip and wire format: generator, implementation runner, emitter.

Also the shared tool box of C07 and C14 (type/value generators, pydsdl type builder, value converters)."""
import struct
import math
import random as _random
import gallina as G

ID = "C06"
PROPS_FILE = "Props/C06.v"
COQ_IMPORTS = "From PV Require Import BLS.Model Layout.Types Serdes.Model Check.C06."
CASE_TYPE = "C06.case"
CHECK_FN = "C06.check_case"
SHARD = 60
RULE = ("a case is (composite type built through the pydsdl constructors, value, with/without delimiter header); observed: bytes of "
        "serialize, value returned by deserialize on those bytes (type-directed positional form, floats as binary64 patterns, every NaN "
        "one token), or the coarse exception class; implementation-alone predicates: decoded == value for exact values, re-encoding the "
        "decoded value reproduces the bytes, 8*len within min/max and residues mod 64 of the (inner) bit length set, relaxed form gives the "
        "same bytes, keyword arguments equal to the documented defaults omitted in a random half of the calls, histories on one type object (decode, mutate the returned object in place, serialize values that omit fields / decode again; every step compared with the pure model; no aliasing inside or between returned objects), int<->integral-float / 0-1-for-bool input coercions (implementation alone, not modelled) give the same bytes; non-trivial = the type has >= 2 value-carrying leaves or a nested composite/array and serialization succeeded; "
        "distinct = by hash of the canonical case")
THEOREMS_NOTE = ("C06_wire_spec + C06_wire_unique fix the bytes (the Specification's bit-list encoding spec_enc, packed LSB first); C06_roundtrip / "
                 "C06_roundtrip_exact fix the decoded value (canon t v; v itself for exact values); C06_length_in_bls, C06_cast_*, C06_defaults_*; "
                 "C06_writer_refines / C06_reader_refines tie the byte-buffer writer/reader (fast + slow path) to bit lists")
TRUSTED = ["CPython struct.pack/unpack ('<e', '<f', '<d') and the UTF-8 codec are exercised through the implementation only; the model's "
           "float narrowing (round to nearest even) and UTF-8 validity predicate are compared with them bit-exactly on every case",
           "Python-side input coercions (float for an integer field, int for a float field, str for byte arrays other than via bytes) are not modelled"]
ASSUMPTIONS = ["array capacities of random cases are <= 24 (targeted prefix boundary cases use byte arrays up to 300) so that neither side loops for long"]
EXPLANATION = ("theorems quantify over all well-formed serializable types and all valid values; the correspondence compares the "
               "implementation's bytes and decoded values with the proven model on generated (type, value) pairs")

NAN64 = 0x7FF8000000000000

# ----------------------------------------------------------------------------------------------------------------
# type descriptions (JSON):  ["bool"] ["u",w,"s"|"t"] ["i",w] ["f",w,"s"|"t"] ["byte"] ["utf8"] ["void",w]
#                            ["fix",e,n] ["var",e,n] ["struct",id,[[name|None,ty],...]] ["union",id,[[name,ty],...]] ["delim",inner,ext]
# structures and unions may carry a 4th element: constants [[position, kind], ...] declared before field number `position`
# (constants are attributes but never fields / variants; they exist on the implementation side only - the model has none)


def align(t):
    k = t[0]
    if k in ("fix", "var"):
        return align(t[1])
    return 8 if k in ("struct", "union", "delim") else 1


def pad(a, x):
    return (x + a - 1) // a * a


def pow2_width(bits):
    for w in (8, 16, 32, 64):
        if bits <= w:
            return w
    raise ValueError(bits)


def prefix_width(t):
    return max(pow2_width(int(t[2]).bit_length()), align(t[1]))


def tag_width(t):
    return max([pow2_width((len(t[2]) - 1).bit_length())] + [align(f[1]) for f in t[2]])


def prim_width(t):
    k = t[0]
    return 1 if k == "bool" else 8 if k in ("byte", "utf8") else t[1]


def max_len(t):
    """Largest serialized length in bits (only used to choose valid extents)."""
    k = t[0]
    if k in ("bool", "u", "i", "f", "byte", "utf8", "void"):
        return prim_width(t)
    if k == "fix":
        return t[2] * max_len(t[1])
    if k == "var":
        return prefix_width(t) + t[2] * max_len(t[1])
    if k == "struct":
        off = 0
        for _, ft in t[2]:
            off = pad(align(ft), off) + max_len(ft)
        return pad(8, off)
    if k == "union":
        return pad(8, tag_width(t) + max(max_len(ft) for _, ft in t[2]))
    if k == "delim":
        return 32 + t[2]
    raise ValueError(k)


def named_fields(t):
    return [(n, ft) for n, ft in t[2] if n is not None]


def type_depth(t):
    k = t[0]
    if k in ("fix", "var"):
        return type_depth(t[1])
    if k in ("struct", "union"):
        return 1 + max([0] + [type_depth(ft) for _, ft in t[2]])
    if k == "delim":
        return type_depth(t[1])
    return 0


def walk_types(t):
    yield t
    k = t[0]
    if k in ("fix", "var", "delim"):
        yield from walk_types(t[1])
    elif k in ("struct", "union"):
        for _, ft in t[2]:
            yield from walk_types(ft)


# ----------------------------------------------------------------------------------------------------------------
# Gallina emission


def emit_prim(t):
    k = t[0]
    if k == "bool":
        return "PBool"
    if k == "u":
        return "(PUInt %d %s)" % (t[1], "Sat" if t[2] == "s" else "Trunc")
    if k == "i":
        return "(PSInt %d)" % t[1]
    if k == "f":
        return "(PFloat %d %s)" % (t[1], "Sat" if t[2] == "s" else "Trunc")
    if k == "byte":
        return "PByte"
    if k == "utf8":
        return "PUtf8"
    raise ValueError(k)


def type_name(t):
    return "ns.T%d" % t[1]


def emit_ty(t):
    k = t[0]
    if k in ("bool", "u", "i", "f", "byte", "utf8"):
        return "(TPrim %s)" % emit_prim(t)
    if k == "void":
        return "(TVoid %d)" % t[1]
    if k == "fix":
        return "(TFix %s %s)" % (emit_ty(t[1]), G.z(t[2]))
    if k == "var":
        return "(TVar %s %s)" % (emit_ty(t[1]), G.z(t[2]))
    if k in ("struct", "union"):
        fs = ["(%s, %s)" % (G.opt(None if n is None else G.codepoints(n)), emit_ty(ft)) for n, ft in t[2]]
        return "(%s %s %s)" % ("TStruct" if k == "struct" else "TUnion", G.codepoints(type_name(t) + ".1.0"), G.lst(fs))
    if k == "delim":
        return "(TDelim %s %s)" % (emit_ty(t[1]), G.z(t[2]))
    raise ValueError(k)


# values (JSON): ["B",bool] ["I",int] ["F",bits64] ["L",[v..]] ["Y",[byte..]] (bytes) ["S",[byte..]] (str, UTF-8 bytes)
#                ["T",[v|None..]] (dict of a structure, None = key absent) ["U",k,v] (one-key dict of a union; k == -1: unknown key)


def emit_val(v):
    if v is None:
        return "VOmit"
    k = v[0]
    if k == "B":
        return "(VBool %s)" % G.b(v[1])
    if k == "I":
        return "(VInt %s)" % G.z(v[1])
    if k == "F":
        return "(VFlt %s)" % G.z(v[1])
    if k == "L":
        return "(VList %s)" % G.lst([emit_val(x) for x in v[1]])
    if k in ("Y", "S"):
        return "(VList %s)" % G.lst(["(VInt %d)" % x for x in v[1]])
    if k == "T":
        return "(VStruct %s)" % G.lst([emit_val(x) for x in v[1]])
    if k == "U":
        return "(VUnion %s %s)" % (G.z(v[1]), emit_val(v[2]))
    raise ValueError(k)


ECLS = {"SerDes": "CSerDes", "ValueError": "CValueError", "TypeError": "CTypeError", "InvalidDefinition": "CInvalidDefinition",
        "Internal": "CInternal", "Other": "COther"}


def emit_dobs(o):
    if "err" in o:
        return "(C06.DErr %s)" % ECLS[o["err"]]
    if "shape" in o:
        # the decoded object does not have the shape the type prescribes: a value that equals nothing the model yields
        return "(C06.DVal (VUnion (-1) VOmit))"
    return "(C06.DVal %s)" % emit_val(o["val"])


def emit_sobs(o):
    if "err" in o:
        return "(C06.SErr %s)" % ECLS[o["err"]]
    return "(C06.SBytes %s %s)" % (G.zlist(o["bytes"]), emit_dobs(o["back"]))


def emit_step(step, so):
    if step[0] == "ser":
        return "(C06.SSer %s %s %s)" % (emit_val(step[1]), G.b(step[2]), emit_sobs(so))
    return "(C06.SDes %s %s %s)" % (G.zlist(so["data"]), G.b(step[2]), emit_dobs(so["res"]))


def emit(case, obs):
    if "build_error" in obs:
        return "(C06.Case (TVoid 0) VOmit false (C06.SErr COther))"
    if "hist" in case:
        return "(C06.Hist %s %s)" % (emit_ty(case["ty"]), G.lst([emit_step(st, so) for st, so in zip(case["hist"], obs["steps"])]))
    return "(C06.Case %s %s %s %s)" % (emit_ty(case["ty"]), emit_val(case["val"]), G.b(case["hdr"]), emit_sobs(obs))


def model_eval(case, obs):
    if "hist" in case:
        return ("Eval vm_compute in (map (fun c => match c with C06.Hist t ss => map (fun s => match s with "
                "C06.SSer v h _ => (Some (serialize t v h), None) | C06.SDes d h _ => (None, Some (deserialize t d h)) end) ss "
                "| _ => [] end) cases).\n")
    return ("Eval vm_compute in (map (fun c => match c with C06.Case t v h _ => (serialize t v h, "
            "match serialize t v h with Ok bs => Some (deserialize t bs h) | _ => None end) end) cases).\n")


# ----------------------------------------------------------------------------------------------------------------
# generator: types

WIDTHS_U = list(range(1, 65))
WIDTHS_I = list(range(2, 65))


def gen_prim(rng):
    r = rng.random()
    if r < 0.1:
        return ["bool"]
    if r < 0.5:
        w = rng.choice(WIDTHS_U) if rng.random() < 0.7 else rng.choice([1, 7, 8, 9, 15, 16, 17, 31, 32, 33, 63, 64])
        return ["u", w, rng.choice("st")]
    if r < 0.75:
        w = rng.choice(WIDTHS_I) if rng.random() < 0.7 else rng.choice([2, 7, 8, 9, 15, 16, 17, 31, 32, 33, 63, 64])
        return ["i", w]
    return ["f", rng.choice([16, 32, 64]), rng.choice("st")]


class Ctx:
    def __init__(self, rng, max_cap=8, max_fields=5):
        self.rng = rng
        self.n = 0
        self.max_cap = max_cap
        self.max_fields = max_fields

    def fresh(self):
        self.n += 1
        return self.n


def gen_capacity(ctx, small=False):
    rng = ctx.rng
    r = rng.random()
    if r < 0.6 or small:
        return rng.choice([1, 2, 2, 3, 3, 4, 5])
    return rng.randrange(1, ctx.max_cap + 1)


def gen_array(ctx, depth, nest=0):
    rng = ctx.rng
    var = rng.random() < 0.6
    r = rng.random()
    if r < 0.18:
        e = ["byte"]
        cap = rng.choice([1, 2, 3, 5, 8, 12, 24])
    elif r < 0.36 and var:
        e = ["utf8"]
        cap = rng.choice([1, 2, 3, 4, 6, 9, 16, 24])
    elif r < 0.75 or (depth <= 0 and nest >= 1):
        e = gen_prim(rng)
        cap = gen_capacity(ctx)
    elif r < 0.85 and nest < 2:
        e = gen_array(ctx, depth, nest + 1)
        cap = gen_capacity(ctx, small=True)
    elif depth > 0:
        e = gen_composite(ctx, depth - 1)
        cap = gen_capacity(ctx, small=True)
    else:
        e = gen_prim(rng)
        cap = gen_capacity(ctx)
    return ["var" if var else "fix", e, cap]


def gen_field_type(ctx, depth):
    rng = ctx.rng
    r = rng.random()
    if r < 0.45:
        return gen_prim(rng)
    if r < 0.75:
        return gen_array(ctx, depth)
    if depth > 0:
        return gen_composite(ctx, depth - 1)
    return gen_prim(rng)


def gen_consts(rng, nfields, p=0.3):
    """[] or [[[position, kind], ...]]: constants interleaved among the fields (DSDL allows them anywhere)."""
    if rng.random() >= p:
        return []
    return [[[rng.randrange(0, nfields + 1), rng.choice(["u8", "u16", "bool"])] for _ in range(rng.choice([1, 1, 2, 3]))]]


def consts_of(t):
    return t[3] if len(t) > 3 else []


def gen_struct(ctx, depth, min_fields=0):
    rng = ctx.rng
    n = rng.choice([0, 1, 1, 2, 2, 3, 3, 4, ctx.max_fields]) if min_fields == 0 else rng.randrange(min_fields, ctx.max_fields + 1)
    fs = []
    for i in range(n):
        if rng.random() < 0.12:
            fs.append([None, ["void", rng.choice([1, 2, 3, 5, 7, 8, 13, 32, 64, rng.randrange(1, 65)])]])
        else:
            fs.append(["f%d" % i, gen_field_type(ctx, depth)])
    return ["struct", ctx.fresh(), fs] + gen_consts(rng, len(fs))


def gen_union(ctx, depth):
    rng = ctx.rng
    n = rng.choice([2, 2, 3, 3, 4, 5])
    return ["union", ctx.fresh(), [["v%d" % i, gen_field_type(ctx, depth)] for i in range(n)]] + gen_consts(rng, n)


def gen_extent(rng, inner):
    m = max_len(inner)
    return m + 8 * rng.choice([0, 0, 0, 1, 2, 8, 100])


def gen_composite(ctx, depth):
    rng = ctx.rng
    r = rng.random()
    if r < 0.5:
        return gen_struct(ctx, depth)
    if r < 0.72:
        return gen_union(ctx, depth)
    inner = gen_struct(ctx, depth) if rng.random() < 0.7 else gen_union(ctx, depth)
    return ["delim", inner, gen_extent(rng, inner)]


# ----------------------------------------------------------------------------------------------------------------
# generator: values

FLOAT_SPECIALS = [0.0, -0.0, 1.0, -1.0, 0.1, 1 / 3, 65504.0, 65519.99, 65520.0, 65536.0, -65520.0, 1e-8, 5.96e-8, 2.98e-8, 6.1e-5,
                  6.097555160522461e-05, 6.103515625e-05, 3.4028234663852886e38, 3.4028235677973366e+38, 3.402823567797337e+38,
                  -3.4028235677973366e+38, 1e39, 1e-45, 7e-46, 7.006492321624085e-46, 1.401298464324817e-45, 1e-50, 1e308,
                  1.7976931348623157e308, 5e-324, 2.2250738585072014e-308, math.inf, -math.inf, math.nan, 2049.0, 2051.0,
                  1.00048828125, 16777217.0, 16777219.0, 3.14159, -2.5e-5, 1e10]


def f2b(x):
    if math.isnan(x):
        return NAN64
    return struct.unpack("<Q", struct.pack("<d", x))[0]


def b2f(b):
    return struct.unpack("<d", struct.pack("<Q", b))[0]


def gen_float_bits(rng, w):
    r = rng.random()
    if r < 0.45:
        return f2b(rng.choice(FLOAT_SPECIALS))
    if r < 0.6:
        b = rng.getrandbits(64)
        return NAN64 if math.isnan(b2f(b)) else b
    if r < 0.8:
        # a value of the narrow format, exactly
        if w == 16:
            x = struct.unpack("<e", struct.pack("<H", rng.getrandbits(16)))[0]
        elif w == 32:
            x = struct.unpack("<f", struct.pack("<I", rng.getrandbits(32)))[0]
        else:
            x = b2f(rng.getrandbits(64))
        return f2b(x)
    return f2b(rng.uniform(-70000.0, 70000.0) if rng.random() < 0.7 else rng.uniform(-1e-4, 1e-4))


def gen_int(rng, lo, hi):
    r = rng.random()
    if r < 0.4:
        return rng.randrange(lo, hi + 1)
    if r < 0.7:
        return rng.choice([lo, hi, 0, 1, lo + 1, hi - 1, -1 if lo < 0 else 0])
    if r < 0.9:
        span = hi - lo + 1
        return rng.choice([lo - 1, hi + 1, hi + 2, lo - 2, hi + span, lo - span, 2 * hi + 1, hi + rng.randrange(1, span + 1), lo - rng.randrange(1, span + 1)])
    return rng.choice([-1, 1]) * rng.getrandbits(rng.choice([8, 32, 64, 65, 70, 128]))


UTF8_ALPHABET = ["a", "Z", "0", " ", "\x00", "\x7f", "\u00e9", "\u00df", "\u0080", "\u07ff", "\u0800", "\u20ac", "\ud7ff", "\ue000",
                 "\uffff", "\U00010000", "\U0001f600", "\U0010ffff"]


def gen_utf8_bytes(rng, cap, full):
    out = b""
    target = cap if full else rng.randrange(0, cap + 1)
    for _ in range(60):
        ch = rng.choice(UTF8_ALPHABET).encode("utf-8")
        if len(out) + len(ch) <= target:
            out += ch
        if len(out) == target:
            break
    while full and len(out) < target:
        out += b"x"
    return list(out)


def gen_value(rng, t, p_omit=0.12):
    k = t[0]
    if k == "bool":
        return ["B", rng.random() < 0.5] if rng.random() < 0.9 else ["I", rng.choice([0, 1, 2, -1])]
    if k == "u":
        if rng.random() < 0.03:
            return ["B", rng.random() < 0.5]
        return ["I", gen_int(rng, 0, 2 ** t[1] - 1)]
    if k == "i":
        return ["I", gen_int(rng, -2 ** (t[1] - 1), 2 ** (t[1] - 1) - 1)]
    if k == "f":
        return ["F", gen_float_bits(rng, t[1])]
    if k in ("byte", "utf8"):
        return ["I", rng.randrange(0, 256)]
    if k in ("fix", "var"):
        e, cap = t[1], t[2]
        if k == "fix":
            n = cap
        else:
            r = rng.random()
            n = 0 if r < 0.2 else cap if r < 0.45 else rng.randrange(0, cap + 1)
        if e[0] == "utf8":
            return ["S", gen_utf8_bytes(rng, cap, n == cap)]
        if e[0] == "byte":
            if rng.random() < 0.7:
                return ["Y", [rng.randrange(0, 256) for _ in range(n)]]
            return ["L", [["I", rng.choice([0, 255, 256, -1, rng.randrange(-300, 600)])] for _ in range(n)]]
        return ["L", [gen_value(rng, e, p_omit) for _ in range(n)]]
    if k == "struct":
        return ["T", [None if rng.random() < p_omit else gen_value(rng, ft, p_omit) for _, ft in named_fields(t)]]
    if k == "union":
        i = rng.randrange(len(t[2]))
        return ["U", i, gen_value(rng, t[2][i][1], p_omit)]
    if k == "delim":
        return gen_value(rng, t[1], p_omit)
    raise ValueError(k)


def break_value(rng, t, v):
    """Returns a copy of v with one violation planted (array length, unknown variant, invalid UTF-8) or None."""
    spots = []

    def visit(t, v, path):
        if v is None:
            return
        k = t[0]
        if k == "delim":
            visit(t[1], v, path)
        elif k in ("fix", "var"):
            spots.append((path, t, "len"))
            if t[1][0] == "utf8":
                spots.append((path, t, "utf8"))
            if v[0] == "L":
                for i, x in enumerate(v[1]):
                    visit(t[1], x, path + [("L", i)])
        elif k == "struct":
            for i, (_, ft) in enumerate(named_fields(t)):
                visit(ft, v[1][i], path + [("T", i)])
        elif k == "union":
            spots.append((path, t, "variant"))
            visit(t[2][v[1]][1], v[2], path + [("U",)])

    visit(t, v, [])
    if not spots:
        return None
    path, st, what = rng.choice(spots)

    def rebuild(v, path):
        if not path:
            if what == "variant":
                return ["U", -1, v[2]]
            if what == "utf8":
                bads = [[0x80], [0xFF], [0xC3], [0xC0, 0x80], [0xC1, 0xBF], [0xE0, 0x80, 0x80], [0xE0, 0x9F, 0xBF], [0xED, 0xA0, 0x80],
                        [0xED, 0xBF, 0xBF], [0xE2, 0x82], [0xF4, 0x90, 0x80, 0x80], [0xF0, 0x8F, 0xBF, 0xBF], [0xF8, 0x88, 0x80, 0x80],
                        [0xF0, 0x9F, 0x98], [0x61, 0x80], [0xC3, 0x28]]
                fit = [x for x in bads if len(x) <= st[2]]
                bad = rng.choice(fit)
                pre = [0x61] * rng.randrange(0, st[2] - len(bad) + 1)
                return ["S", pre + bad]
            # array length
            e, cap = st[1], st[2]
            n = cap + rng.choice([1, 1, 2]) if (st[0] == "var" or rng.random() < 0.5) else cap - 1
            if e[0] == "utf8":
                return ["S", [0x61] * n]
            if e[0] == "byte":
                return ["Y", [7] * n]
            cur = v[1] if v[0] == "L" else []
            filler = cur[0] if cur else gen_value(rng, e, 0.0)
            return ["L", (cur + [filler] * n)[:n]]
        step = path[0]
        if step[0] == "L":
            return ["L", [rebuild(x, path[1:]) if i == step[1] else x for i, x in enumerate(v[1])]]
        if step[0] == "T":
            return ["T", [rebuild(x, path[1:]) if i == step[1] else x for i, x in enumerate(v[1])]]
        return ["U", v[1], rebuild(v[2], path[1:])]

    return rebuild(v, path)


# ----------------------------------------------------------------------------------------------------------------
# cases


def mk_case(t, v, hdr, relax_seed=0, stream="random"):
    return {"ty": t, "val": v, "hdr": bool(hdr), "relax": relax_seed}


def targeted():
    out = []
    rng = _random.Random(606)
    nid = [1000]

    def S(fields):
        nid[0] += 1
        return ["struct", nid[0], [[("f%d" % i) if ft[0] != "void" else None, ft] for i, ft in enumerate(fields)]]

    def U(fields):
        nid[0] += 1
        return ["union", nid[0], [["v%d" % i, ft] for i, ft in enumerate(fields)]]

    def D(inner, extra=0):
        return ["delim", inner, max_len(inner) + extra]

    # every unsigned/signed width, both cast modes, boundary and out-of-range values, preceded by 0..7 pad bits
    for w in range(1, 65):
        for cm in "st":
            pre = rng.randrange(0, 8)
            t = S(([["void", pre]] if pre else []) + [["u", w, cm]])
            for z in (0, 2 ** w - 1, 2 ** w, 2 ** w + 1, -1, -(2 ** w), rng.getrandbits(w), rng.getrandbits(w + 3) - 2 ** (w + 1)):
                out.append(mk_case(t, ["T", [["I", z]]], False))
        if w >= 2:
            pre = rng.randrange(0, 8)
            t = S(([["void", pre]] if pre else []) + [["i", w]])
            lo, hi = -2 ** (w - 1), 2 ** (w - 1) - 1
            for z in (0, -1, lo, hi, lo - 1, hi + 1, rng.randrange(lo, hi + 1), 2 ** w, -(2 ** w) - 1):
                out.append(mk_case(t, ["T", [["I", z]]], False))
    # floats: every special at every width and cast mode, at bit offsets 0 and 3
    for w in (16, 32, 64):
        for cm in "st":
            t0 = S([["f", w, cm]])
            t3 = S([["u", 3, "s"], ["f", w, cm], ["bool"]])
            for x in FLOAT_SPECIALS:
                out.append(mk_case(t0, ["T", [["F", f2b(x)]]], False))
                out.append(mk_case(t3, ["T", [["I", 5], ["F", f2b(-x) if not math.isnan(x) else NAN64], ["B", True]]], False))
    # array length prefix boundaries (8 -> 16 bits), empty / full / one above
    for cap in (1, 255, 256, 300):
        t = S([["var", ["byte"], cap], ["u", 8, "s"]])
        for n in (0, 1, cap - 1, cap, cap + 1):
            if n >= 0:
                out.append(mk_case(t, ["T", [["Y", [(i * 7 + 1) % 256 for i in range(n)]], ["I", 0xA5]]], False))
    # multi-byte UTF-8 at the capacity boundary
    for s in ("€", "a€", "\U0001f600", "éé", "ab\U0010ffff"):
        bs = list(s.encode("utf-8"))
        for cap in (len(bs), len(bs) + 1, len(bs) - 1):
            if cap >= 1:
                out.append(mk_case(S([["var", ["utf8"], cap]]), ["T", [["S", bs]]], False))
    # sub-byte fields before composites / arrays of composites (alignment), nested delimited, union of delimited
    inner = S([["u", 3, "t"], ["bool"]])
    for pre in (1, 3, 7, 8, 9):
        t = S([["u", pre, "s"], inner, ["bool"], ["fix", inner, 2], ["u", 5, "t"], ["var", D(inner, 16), 2]])
        v = ["T", [["I", 1], ["T", [["I", 5], ["B", True]]], ["B", True], ["L", [["T", [["I", 7], None]], ["T", [None, ["B", True]]]]], ["I", 31],
                   ["L", [["T", [["I", 2], ["B", False]]]]]]]
        out.append(mk_case(t, v, False))
        out.append(mk_case(D(t, 64), v, True))
        out.append(mk_case(D(t, 64), v, False))
        out.append(mk_case(t, ["T", [None] * 6], False))
    u = U([["u", 7, "s"], D(S([["i", 9], ["var", ["bool"], 5]])), ["fix", ["f", 16, "s"], 2], U([["bool"], ["i", 64]])])
    out.append(mk_case(u, ["U", 0, ["I", 200]], False))
    out.append(mk_case(u, ["U", 1, ["T", [["I", -300], ["L", [["B", True], ["B", False], ["B", True]]]]]], False))
    out.append(mk_case(u, ["U", 1, ["T", [None, None]]], False))
    out.append(mk_case(u, ["U", 2, ["L", [["F", f2b(1e6)], ["F", f2b(-1e-9)]]]], False))
    out.append(mk_case(u, ["U", 3, ["U", 1, ["I", -2 ** 63]]], False))
    out.append(mk_case(u, ["U", -1, ["I", 0]], False))
    out.append(mk_case(D(u, 8), ["U", 3, ["U", 0, ["B", True]]], True))
    # a union with 257 variants: 16-bit tag
    big = U([["bool"]] * 256 + [["u", 8, "s"]])
    out.append(mk_case(big, ["U", 256, ["I", 77]], False))
    out.append(mk_case(big, ["U", 255, ["B", True]], False))
    # constants interleaved among the fields / variants (attributes that are never serialized)
    uc = U([["u", 8, "s"], ["u", 16, "s"]]) + [[[0, "u8"], [1, "u16"], [2, "bool"]]]
    out.append(mk_case(uc, ["U", 0, ["I", 5]], False))
    out.append(mk_case(uc, ["U", 1, ["I", 515]], False))
    sc = S([["u", 8, "s"], ["bool"], ["i", 16]]) + [[[0, "u8"], [1, "bool"], [1, "u16"], [3, "u8"]]]
    out.append(mk_case(sc, ["T", [["I", 1], ["B", True], ["I", -2]]], False))
    out.append(mk_case(sc, ["T", [None, None, None]], False))
    # header flag on a sealed type: ValueError
    out.append(mk_case(S([["bool"]]), ["T", [["B", True]]], True))
    # empty structure, structure of padding only
    out.append(mk_case(S([]), ["T", []], False))
    out.append(mk_case(S([["void", 13]]), ["T", []], False))
    out.append(mk_case(D(S([]), 0), ["T", []], True))
    return out


def gen_random_case(rng, tier):
    ctx = Ctx(rng, max_cap=8 if tier == "quick" else 16)
    depth = rng.choice([0, 1, 1, 2, 2, 3] if tier == "quick" else [1, 2, 2, 3, 3, 4])
    t = gen_composite(ctx, depth)
    if t[0] == "struct" and not t[2]:
        t = gen_struct(ctx, depth, min_fields=1)
    v = gen_value(rng, t, p_omit=rng.choice([0.0, 0.0, 0.1, 0.3]))
    if rng.random() < 0.08:
        b = break_value(rng, t, v)
        if b is not None:
            v = b
    hdr = t[0] == "delim" and rng.random() < 0.5
    if t[0] != "delim" and rng.random() < 0.01:
        hdr = True
    return mk_case(t, v, hdr, relax_seed=rng.getrandbits(30))


# ----------------------------------------------------------------------------------------------------------------
# histories on ONE type object: decode -> the application mutates the returned object in place -> serialize values that omit
# fields / decode again.  The model is pure, so the expected result of every step is that of the untouched model.


def omit_value(rng, t):
    """A value that omits every structure field it can."""
    return gen_value(rng, t, p_omit=1.0)


def has_nested_delim(t):
    inner = list(walk_types(t))[1:]
    if t[0] == "delim":
        inner = inner[1:]
    return any(x[0] == "delim" for x in inner)


def gen_history(rng, tier):
    ctx = Ctx(rng, max_cap=4)
    for _ in range(40):
        t = gen_composite(ctx, rng.choice([1, 2, 2, 3]))
        if has_nested_delim(t) and not (t[0] == "struct" and not t[2]):
            break
    top_delim = t[0] == "delim"
    maxb = min(max_len(t) // 8 + 4, 40)

    def hdr():
        return top_delim and rng.random() < 0.3

    def des_empty():
        r = rng.random()
        if r < 0.6:
            return ["des", ["zeros", rng.randrange(0, maxb + 1)], hdr()]
        if r < 0.8:
            return ["des", ["prefix", gen_value(rng, t, 0.2), rng.randrange(0, maxb + 1)], hdr()]
        return ["des", ["raw", [rng.choice([0, 0, 0, 1, 2, 255]) for _ in range(rng.randrange(0, maxb + 1))]], hdr()]

    steps = [["ser", omit_value(rng, t), hdr()], des_empty(), ["ser", omit_value(rng, t), hdr()], des_empty()]
    for _ in range(rng.randrange(1, 5)):
        r = rng.random()
        if r < 0.35:
            steps.append(["ser", omit_value(rng, t), hdr()])
        elif r < 0.55:
            steps.append(["ser", gen_value(rng, t, rng.choice([0.0, 0.5])), hdr()])
        elif r < 0.7:
            steps.append(["des", ["valid", gen_value(rng, t, 0.3)], hdr()])
        else:
            steps.append(des_empty())
    steps.append(["ser", omit_value(rng, t), hdr()])
    return {"ty": t, "hist": steps, "mseed": rng.getrandbits(30)}


def mutate_in_place(rng, t, o):
    """What an application may do with an object it received: change it in place, deeply (type-directed, so that the
    object stays a value of the type)."""
    k = t[0]
    if k == "delim":
        return mutate_in_place(rng, t[1], o)

    def fresh(ft):
        return to_py(ft, gen_value(rng, ft, 0.0))

    def is_container(ft, x):
        return isinstance(x, (dict, list))

    if k == "struct" and isinstance(o, dict):
        for n, ft in named_fields(t):
            if n in o and is_container(ft, o[n]) and rng.random() < 0.8:
                mutate_in_place(rng, ft, o[n])
            else:
                o[n] = fresh(ft)
    elif k == "union" and isinstance(o, dict) and len(o) == 1:
        key = next(iter(o))
        ft = dict((n, x) for n, x in t[2]).get(key)
        if ft is not None and is_container(ft, o[key]) and rng.random() < 0.7:
            mutate_in_place(rng, ft, o[key])
        else:
            n2, ft2 = rng.choice(t[2])
            o.clear()
            o[n2] = fresh(ft2)
    elif k in ("fix", "var") and isinstance(o, list):
        e = t[1]
        for i in range(len(o)):
            if is_container(e, o[i]) and rng.random() < 0.7:
                mutate_in_place(rng, e, o[i])
            else:
                o[i] = fresh(e)
        if k == "var":
            if len(o) < t[2]:
                o.append(fresh(e))
            elif o and rng.random() < 0.5:
                o.pop()


def mutable_parts(o, out):
    """All mutable containers inside o (the objects themselves, so that the caller can keep them alive)."""
    if isinstance(o, dict):
        out.append(o)
        for x in o.values():
            mutable_parts(x, out)
    elif isinstance(o, (list, bytearray)):
        out.append(o)
        if isinstance(o, list):
            for x in o:
                mutable_parts(x, out)
    return out


def run_history(p, B, case):
    t = case["ty"]
    try:
        schema = B.build(t)
    except Exception as ex:  # pylint: disable=broad-except
        return {"build_error": type(ex).__name__, "pred_fail": "type construction failed: %s" % type(ex).__name__}
    rng = _random.Random(case.get("mseed", 0))
    p = Api(p, case)
    steps_obs, fails = [], []
    keep, seen_ids = [], set()

    def received(o, what):
        """The application got o from deserialize: check aliasing, then mutate it in place."""
        parts = mutable_parts(o, [])
        keep.extend(parts)  # kept alive (before the mutation below can drop them) so that ids are never re-used
        ids = [id(x) for x in parts]
        if len(ids) != len(set(ids)):
            fails.append("%s: the returned object contains the same mutable object at two places" % what)
        if seen_ids & set(ids):
            fails.append("%s: the returned object shares mutable objects with an object returned earlier" % what)
        seen_ids.update(ids)
        mutate_in_place(rng, t, o)

    for i, st in enumerate(case["hist"]):
        hdr = st[2]
        if st[0] == "ser":
            obj = to_py(t, st[1])
            try:
                bs = p.serialize(schema, obj, with_delimiter_header=hdr)
            except Exception as ex:  # pylint: disable=broad-except
                steps_obs.append({"err": classify(ex)})
                continue
            back, o = observe_deser(p, schema, t, bs, hdr)
            steps_obs.append({"bytes": list(bs), "back": back})
            if o is not None:
                received(o, "step %d" % i)
            mutate_in_place(rng, t, obj)  # the application re-uses the object it passed in
        else:
            rec = st[1]
            if rec[0] == "zeros":
                data = bytes(rec[1])
            elif rec[0] == "raw":
                data = bytes(rec[1])
            else:
                try:
                    data = p.serialize(schema, to_py(t, rec[1]), with_delimiter_header=hdr)
                except Exception:  # pylint: disable=broad-except
                    data = b""
                if rec[0] == "prefix":
                    data = data[:rec[2]]
            res, o = observe_deser(p, schema, t, data, hdr)
            steps_obs.append({"data": list(data), "res": res})
            if o is not None:
                received(o, "step %d" % i)
    obs = {"steps": steps_obs}
    if fails:
        obs["pred_fail"] = "; ".join(sorted(set(fails)))
    return obs


def generate(rng, tier):
    cases = targeted()
    streams = ["targeted"] * len(cases)
    n = 4500 if tier == "quick" else 40000
    for _ in range(n):
        cases.append(gen_random_case(rng, tier))
        streams.append("random")
    for _ in range(500 if tier == "quick" else 4000):
        cases.append(gen_history(rng, tier))
        streams.append("history")
    return cases, streams


# ----------------------------------------------------------------------------------------------------------------
# implementation side


class Builder:
    """Builds pydsdl types from descriptions through the public constructors."""

    def __init__(self):
        import pydsdl
        from pydsdl._serializable._composite import Version
        from pathlib import Path
        self.p = pydsdl
        self.Version = Version
        self.Path = Path

    def prim(self, t):
        p = self.p
        k = t[0]
        CM = p.PrimitiveType.CastMode
        cm = lambda c: CM.SATURATED if c == "s" else CM.TRUNCATED
        if k == "bool":
            return p.BooleanType()
        if k == "u":
            return p.UnsignedIntegerType(t[1], cm(t[2]))
        if k == "i":
            return p.SignedIntegerType(t[1], CM.SATURATED)
        if k == "f":
            return p.FloatType(t[1], cm(t[2]))
        if k == "byte":
            return p.ByteType()
        if k == "utf8":
            return p.UTF8Type()
        if k == "void":
            return p.VoidType(t[1])
        raise ValueError(k)

    def constant(self, ci, kind):
        p = self.p
        from pydsdl import _expression
        CM = p.PrimitiveType.CastMode
        if kind == "bool":
            return p.Constant(p.BooleanType(), "K%d" % ci, _expression.Boolean(ci % 2 == 0))
        if kind == "u16":
            return p.Constant(p.UnsignedIntegerType(16, CM.SATURATED), "K%d" % ci, _expression.Rational(1000 + ci))
        return p.Constant(p.UnsignedIntegerType(8, CM.SATURATED), "K%d" % ci, _expression.Rational(7 + ci))

    def build(self, t):
        p = self.p
        k = t[0]
        if k == "fix":
            return p.FixedLengthArrayType(self.build(t[1]), t[2])
        if k == "var":
            return p.VariableLengthArrayType(self.build(t[1]), t[2])
        if k in ("struct", "union"):
            attrs = []
            per_pos = {}
            for ci, (pos, kind) in enumerate(consts_of(t)):
                per_pos.setdefault(min(pos, len(t[2])), []).append(self.constant(ci, kind))
            for i, (n, ft) in enumerate(t[2]):
                attrs.extend(per_pos.get(i, []))
                attrs.append(p.PaddingField(self.build(ft)) if n is None else p.Field(self.build(ft), n))
            attrs.extend(per_pos.get(len(t[2]), []))
            cls = p.StructureType if k == "struct" else p.UnionType
            return cls(name=type_name(t), version=self.Version(1, 0), attributes=attrs, deprecated=False, fixed_port_id=None,
                       source_file_path=self.Path("ns/T%d.1.0.dsdl" % t[1]), has_parent_service=False)
        if k == "delim":
            return p.DelimitedType(self.build(t[1]), t[2])
        return self.prim(t)


def to_py(t, v):
    """Python object for the implementation from the positional value."""
    k = v[0]
    if k == "B":
        return bool(v[1])
    if k == "I":
        return int(v[1])
    if k == "F":
        return b2f(v[1])
    if k == "Y":
        return bytes(v[1])
    if k == "S":
        bs = bytes(v[1])
        try:
            return bs.decode("utf-8")
        except UnicodeDecodeError:
            return bs
    while t[0] == "delim":
        t = t[1]
    if k == "L":
        return [to_py(t[1], x) for x in v[1]]
    if k == "T":
        return {n: to_py(ft, x) for (n, ft), x in zip(named_fields(t), v[1]) if x is not None}
    if k == "U":
        if v[1] < 0:
            return {"nonexistent_variant": to_py(t[2][0][1], v[2]) if v[2][0] in "BIF" else 0}
        return {t[2][v[1]][0]: to_py(t[2][v[1]][1], v[2])}
    raise ValueError(k)


class Shape(Exception):
    pass


def from_py(t, o):
    """Positional form of an object returned by deserialize; raises Shape when it is not what the type prescribes."""
    k = t[0]
    if k == "delim":
        return from_py(t[1], o)
    if k == "bool":
        if isinstance(o, bool) or (isinstance(o, int) and o in (0, 1)):
            return ["B", bool(o)]
        raise Shape("bool")
    if k in ("u", "i", "byte", "utf8"):
        if isinstance(o, int):
            return ["I", int(o)]
        raise Shape("int")
    if k == "f":
        if isinstance(o, float):
            return ["F", f2b(o)]
        raise Shape("float")
    if k in ("fix", "var"):
        e = t[1]
        if e[0] == "utf8":
            if not isinstance(o, str):
                raise Shape("str")
            return ["L", [["I", b] for b in o.encode("utf-8", "surrogatepass")]]
        if e[0] == "byte":
            if not isinstance(o, (bytes, bytearray)):
                raise Shape("bytes")
            return ["L", [["I", b] for b in o]]
        if not isinstance(o, (list, tuple)):
            raise Shape("list")
        return ["L", [from_py(e, x) for x in o]]
    if k == "struct":
        nf = named_fields(t)
        if not isinstance(o, dict) or set(o.keys()) != {n for n, _ in nf} or len(o) != len(nf):
            raise Shape("struct keys")
        return ["T", [from_py(ft, o[n]) for n, ft in nf]]
    if k == "union":
        if not isinstance(o, dict) or len(o) != 1:
            raise Shape("union dict")
        key = next(iter(o))
        for i, (n, ft) in enumerate(t[2]):
            if n == key:
                return ["U", i, from_py(ft, o[key])]
        raise Shape("union key")
    raise ValueError(k)


def py_equal(a, b):
    """== with NaN equal to NaN and -0.0 distinguished from 0.0."""
    if isinstance(a, float) and isinstance(b, float):
        if math.isnan(a) or math.isnan(b):
            return math.isnan(a) and math.isnan(b)
        return a == b and math.copysign(1.0, a) == math.copysign(1.0, b)
    if isinstance(a, dict) and isinstance(b, dict):
        return a.keys() == b.keys() and all(py_equal(a[k], b[k]) for k in a)
    if isinstance(a, (list, tuple)) and isinstance(b, (list, tuple)):
        return len(a) == len(b) and all(py_equal(x, y) for x, y in zip(a, b))
    if isinstance(a, float) != isinstance(b, float):
        return False
    return a == b


def classify(ex):
    import pydsdl
    from pydsdl._serdes import SerDesError
    if isinstance(ex, SerDesError):
        return "SerDes"
    if isinstance(ex, ValueError):
        return "ValueError"
    if isinstance(ex, TypeError):
        return "TypeError"
    if isinstance(ex, pydsdl.InvalidDefinitionError):
        return "InvalidDefinition"
    if isinstance(ex, pydsdl.InternalError):
        return "Internal"
    return "Other"


def is_exact(t, v):
    """The value is encoded without clamping/wrapping/rounding/defaults, i.e. deserialize must return it unchanged."""
    if v is None:
        return False
    k = t[0]
    if k == "delim":
        return is_exact(t[1], v)
    if k == "bool":
        return v[0] == "B"
    if k == "u":
        return v[0] == "I" and 0 <= v[1] < 2 ** t[1]
    if k == "i":
        return v[0] == "I" and -2 ** (t[1] - 1) <= v[1] < 2 ** (t[1] - 1)
    if k in ("byte", "utf8"):
        return v[0] == "I" and 0 <= v[1] < 256
    if k == "f":
        x = b2f(v[1])
        if math.isnan(x) or math.isinf(x) or t[1] == 64:
            return True
        try:
            fmt = "<e" if t[1] == 16 else "<f"
            return struct.unpack(fmt, struct.pack(fmt, x))[0] == x
        except OverflowError:
            return False
    if k in ("fix", "var"):
        if v[0] in ("Y", "S"):
            return True
        return all(is_exact(t[1], x) for x in v[1])
    if k == "struct":
        return all(is_exact(ft, x) for (_, ft), x in zip(named_fields(t), v[1]))
    if k == "union":
        return v[1] >= 0 and is_exact(t[2][v[1]][1], v[2])
    raise ValueError(k)


def expected_py(t, v):
    """What deserialize returns for an exact value: bytes for byte arrays, str for utf8 arrays."""
    k = t[0]
    if k == "delim":
        return expected_py(t[1], v)
    if k in ("fix", "var"):
        if t[1][0] == "byte":
            return bytes(v[1]) if v[0] == "Y" else bytes(x[1] for x in v[1])
        if t[1][0] == "utf8":
            return bytes(v[1]).decode("utf-8")
        return [expected_py(t[1], x) for x in v[1]]
    if k == "struct":
        return {n: expected_py(ft, x) for (n, ft), x in zip(named_fields(t), v[1])}
    if k == "union":
        return {t[2][v[1]][0]: expected_py(t[2][v[1]][1], v[2])}
    return to_py(t, v)


def relax(rng, t, v, used=None):
    """A relaxed spelling of the explicit object (positional structures, bare value for single-field structures).
    `used` (a list) receives a mark whenever a spelling is chosen that the strict mode must reject."""
    if used is None:
        used = []
    if v is None:
        raise ValueError
    k = t[0]
    if k == "delim":
        return relax(rng, t[1], v, used)
    if k in ("fix", "var"):
        if v[0] != "L":
            return to_py(t, v)
        items = [relax(rng, t[1], x, used) for x in v[1]]
        return tuple(items) if rng.random() < 0.3 else items
    if k == "union":
        if v[1] < 0:
            return to_py(t, v)
        return {t[2][v[1]][0]: relax(rng, t[2][v[1]][1], v[2], used)}
    if k == "struct":
        nf = named_fields(t)
        vals = v[1]
        r = rng.random()
        if len(nf) == 1 and vals[0] is not None and r < 0.6:
            inner = relax(rng, nf[0][1], vals[0], used)
            if not isinstance(inner, dict) or (inner and nf[0][0] not in inner):
                used.append("bare")
                return inner
            return {nf[0][0]: inner}
        if len(nf) >= 2 and r < 0.6:
            last = max([i for i, x in enumerate(vals) if x is not None], default=-1)
            if all(x is not None for x in vals[:last + 1]):
                items = [relax(rng, ft, x, used) for (_, ft), x in zip(nf[:last + 1], vals)]
                used.append("positional")
                return tuple(items) if rng.random() < 0.3 else items
        return {n: relax(rng, ft, x, used) for (n, ft), x in zip(nf, vals) if x is not None}
    return to_py(t, v)


def coerce_variant(t, v):
    """Python-side input coercions (not modelled): integral float for an integer field, int for a float field, 0/1 for bool.
    Returns the coerced Python object, or None when nothing was coerced."""
    changed = [False]

    def go(t, v):
        if v is None:
            raise ValueError
        k = t[0]
        if k == "delim":
            return go(t[1], v)
        if k in ("u", "i") and v[0] == "I" and abs(v[1]) < 2 ** 52:
            changed[0] = True
            return float(v[1])
        if k == "f" and v[0] == "F":
            x = b2f(v[1])
            if not math.isnan(x) and not math.isinf(x) and x == int(x) and abs(x) < 2 ** 52 and not (x == 0 and math.copysign(1.0, x) < 0):
                changed[0] = True
                return int(x)
            return x
        if k == "bool" and v[0] == "B":
            changed[0] = True
            return 1 if v[1] else 0
        if k in ("fix", "var") and v[0] == "L":
            return [go(t[1], x) for x in v[1]]
        if k == "struct":
            return {n: go(ft, x) for (n, ft), x in zip(named_fields(t), v[1]) if x is not None}
        if k == "union" and v[1] >= 0:
            return {t[2][v[1]][0]: go(t[2][v[1]][1], v[2])}
        return to_py(t, v)

    o = go(t, v)
    return o if changed[0] else None


class Api:
    """pydsdl.serialize / pydsdl.deserialize as an application calls them: keyword arguments that equal the documented default
    (with_delimiter_header=False, relaxed=False) are OMITTED for a random half of the calls, so that a change of a default is
    observable.  The choice derives from the case itself (replays are exact)."""

    def __init__(self, p, case):
        import json
        import zlib
        self.p = p
        self.r = _random.Random(zlib.crc32(json.dumps(case, sort_keys=True).encode()))

    def serialize(self, schema, obj, with_delimiter_header=False, relaxed=False):
        kw = {}
        if with_delimiter_header or self.r.random() < 0.5:
            kw["with_delimiter_header"] = with_delimiter_header
        if relaxed or self.r.random() < 0.5:
            kw["relaxed"] = relaxed
        return self.p.serialize(schema, obj, **kw)

    def deserialize(self, schema, data, with_delimiter_header=False):
        if with_delimiter_header or self.r.random() < 0.5:
            return self.p.deserialize(schema, data, with_delimiter_header=with_delimiter_header)
        return self.p.deserialize(schema, data)


def observe_deser(p, schema, t, data, hdr):
    try:
        o = p.deserialize(schema, data, with_delimiter_header=hdr)
    except Exception as ex:  # pylint: disable=broad-except
        return {"err": classify(ex)}, None
    try:
        return {"val": from_py(t, o)}, o
    except Shape as s:
        return {"shape": str(s)}, o


def length_pred(schema, t, hdr, nbytes):
    lt = schema.inner_type if (t[0] == "delim" and not hdr) else schema
    bls = lt.bit_length_set
    n = 8 * nbytes
    if not (bls.min <= n <= bls.max):
        return "8*len(bytes)=%d outside [%d, %d] of the bit length set" % (n, bls.min, bls.max)
    if (n % 64) not in set(bls % 64):
        return "8*len(bytes)=%d has a residue mod 64 that the bit length set does not have" % n
    return None


def run_impl(cases):
    import pydsdl as pydsdl_module
    p = pydsdl_module
    B = Builder()
    out = []
    for case in cases:
        if "hist" in case:
            out.append(run_history(pydsdl_module, B, case))
            continue
        t, v, hdr = case["ty"], case["val"], case["hdr"]
        try:
            schema = B.build(t)
        except Exception as ex:  # pylint: disable=broad-except
            out.append({"build_error": type(ex).__name__, "pred_fail": "type construction failed: %s" % type(ex).__name__})
            continue
        p = Api(pydsdl_module, case)
        obj = to_py(t, v)
        try:
            bs = p.serialize(schema, obj, with_delimiter_header=hdr)
        except Exception as ex:  # pylint: disable=broad-except
            out.append({"err": classify(ex)})
            continue
        back, o = observe_deser(p, schema, t, bs, hdr)
        obs = {"bytes": list(bs), "back": back}
        fails = []
        if o is not None:
            if is_exact(t, v) and not py_equal(o, expected_py(t, v)):
                fails.append("round trip: deserialize(serialize(v)) != v for an exact value")
            try:
                if p.serialize(schema, o, with_delimiter_header=hdr) != bs:
                    fails.append("re-encoding the decoded value gives different bytes")
            except Exception as ex:  # pylint: disable=broad-except
                fails.append("decoded value cannot be serialized: %s" % type(ex).__name__)
        elif "err" in back:
            fails.append("bytes produced by serialize are rejected by deserialize")
        lp = length_pred(schema, t, hdr, len(bs))
        if lp:
            fails.append(lp)
        try:
            used = []
            rel = relax(_random.Random(case.get("relax", 0)), t, v, used)
            if p.serialize(schema, rel, with_delimiter_header=hdr, relaxed=True) != bs:
                fails.append("relaxed input form encodes differently")
            if used:
                # the relaxed spellings are accepted only on request: by default (relaxed omitted or False) they are rejected
                try:
                    p.serialize(schema, rel, with_delimiter_header=hdr)
                    fails.append("a positional / bare structure value is accepted although relaxed=True was not given")
                except (ValueError, TypeError):
                    pass
            if p.serialize(schema, obj, with_delimiter_header=hdr, relaxed=True) != bs:
                fails.append("relaxed=True changes the encoding of the explicit form")
        except Exception as ex:  # pylint: disable=broad-except
            fails.append("relaxed input form raises %s" % type(ex).__name__)
        try:
            co = coerce_variant(t, v)
            if co is not None and p.serialize(schema, co, with_delimiter_header=hdr) != bs:
                fails.append("numeric input coercion (int<->integral float, 0/1 for bool) changes the encoding")
        except Exception as ex:  # pylint: disable=broad-except
            fails.append("numeric input coercion raises %s" % type(ex).__name__)
        if fails:
            obs["pred_fail"] = "; ".join(fails)
        out.append(obs)
    return out


# ----------------------------------------------------------------------------------------------------------------
# statistics / shrinking


def leaves(t):
    return sum(1 for x in walk_types(t) if x[0] in ("bool", "u", "i", "f", "byte", "utf8"))


def nontrivial(case, obs):
    t = case["ty"]
    if "hist" in case:
        return "steps" in obs and any("res" in so and "val" in so["res"] for so in obs["steps"])
    return "bytes" in obs and (leaves(t) >= 2 or type_depth(t) >= 2)


def describe(case, obs):
    t = case["ty"]
    if "hist" in case:
        keys = ["history", "history:steps=%d" % len(case["hist"]), "history:top:" + t[0]]
        for st, so in zip(case["hist"], obs.get("steps", [])):
            if st[0] == "ser":
                keys.append("history:ser:" + ("error" if "err" in so else "ok"))
            else:
                keys.append("history:des:%s:%s" % (st[1][0], "value" if "val" in so.get("res", {}) else so.get("res", {}).get("err", "shape")))
        if obs.get("pred_fail"):
            keys.append("pred-fail")
        return keys
    keys = ["depth=%d" % type_depth(t), "top:" + t[0], "hdr" if case["hdr"] else "nohdr"]
    kinds = set()
    for x in walk_types(t):
        k = x[0]
        if k in ("u", "f"):
            kinds.add("%s:%s" % (k, "sat" if x[2] == "s" else "trunc"))
        elif k in ("fix", "var"):
            kinds.add("%s[%s]" % (k, x[1][0] if x[1][0] in ("byte", "utf8", "struct", "union", "delim", "fix", "var") else "prim"))
        else:
            kinds.add(k)
    keys += sorted("has:" + k for k in kinds)
    if any(consts_of(x) for x in walk_types(t) if x[0] in ("struct", "union")):
        keys.append("has:constants")
    if "err" in obs:
        keys.append("serialize-error:" + obs["err"])
    elif "bytes" in obs:
        n = len(obs["bytes"])
        keys.append("bytes:" + ("0" if n == 0 else "1-8" if n <= 8 else "9-32" if n <= 32 else "33-128" if n <= 128 else ">128"))
        keys.append("exact" if is_exact(t, case["val"]) else "inexact(clamp/wrap/round/default)")
    if obs.get("pred_fail"):
        keys.append("pred-fail")
    return keys


def shrink_value(t, v):
    if v is None:
        return
    k = t[0]
    if k == "delim":
        yield from shrink_value(t[1], v)
        return
    if k == "struct":
        for i, ((_, ft), x) in enumerate(zip(named_fields(t), v[1])):
            if x is not None:
                yield ["T", v[1][:i] + [None] + v[1][i + 1:]]
                for y in shrink_value(ft, x):
                    yield ["T", v[1][:i] + [y] + v[1][i + 1:]]
    elif k == "union":
        if v[1] > 0:
            yield ["U", 0, default_json(t[2][0][1])]
        if v[1] >= 0:
            for y in shrink_value(t[2][v[1]][1], v[2]):
                yield ["U", v[1], y]
    elif k == "var" and v[0] in ("L", "Y", "S") and v[1]:
        yield [v[0], v[1][:-1]]
        yield [v[0], v[1][1:]]
        if v[0] == "L":
            for i, x in enumerate(v[1]):
                for y in shrink_value(t[1], x):
                    yield ["L", v[1][:i] + [y] + v[1][i + 1:]]
    elif k == "fix" and v[0] == "L":
        for i, x in enumerate(v[1]):
            for y in shrink_value(t[1], x):
                yield ["L", v[1][:i] + [y] + v[1][i + 1:]]
    elif v[0] == "I" and v[1] not in (0,):
        yield ["I", 0]
        yield ["I", v[1] // 2]
    elif v[0] == "F" and v[1] != 0:
        yield ["F", 0]


def default_json(t):
    k = t[0]
    if k == "bool":
        return ["B", False]
    if k == "f":
        return ["F", 0]
    if k in ("u", "i", "byte", "utf8"):
        return ["I", 0]
    if k == "fix":
        return ["L", [default_json(t[1]) for _ in range(t[2])]]
    if k == "var":
        return ["L", []]
    if k == "struct":
        return ["T", [default_json(ft) for _, ft in named_fields(t)]]
    if k == "union":
        return ["U", 0, default_json(t[2][0][1])]
    if k == "delim":
        return default_json(t[1])
    raise ValueError(k)


def shrink(case):
    if "hist" in case:
        h = case["hist"]
        for i in range(len(h)):
            if len(h) > 1:
                yield dict(case, hist=h[:i] + h[i + 1:])
        return
    t, v, hdr = case["ty"], case["val"], case["hdr"]
    # 1. a nested composite on its own with the corresponding part of the value
    def subs(t, v):
        if v is None:
            return
        k = t[0]
        if k == "delim":
            yield from subs(t[1], v)
        elif k == "struct":
            for (_, ft), x in zip(named_fields(t), v[1]):
                if x is not None:
                    if ft[0] in ("struct", "union", "delim"):
                        yield ft, x
                    yield from subs(ft, x)
        elif k == "union" and v[1] >= 0:
            ft = t[2][v[1]][1]
            if ft[0] in ("struct", "union", "delim"):
                yield ft, v[2]
            yield from subs(ft, v[2])
        elif k in ("fix", "var") and v[0] == "L":
            for x in v[1]:
                if t[1][0] in ("struct", "union", "delim"):
                    yield t[1], x
                yield from subs(t[1], x)
    for ft, x in subs(t, v):
        yield mk_case(ft, x, False)
    if t[0] == "delim":
        yield mk_case(t[1], v, False)
    # 2. drop a field of the top-level structure
    top = t[1] if t[0] == "delim" else t
    if top[0] == "struct" and v is not None:
        nf_index = [i for i, (n, _) in enumerate(top[2]) if n is not None]
        for i in range(len(top[2])):
            fs = top[2][:i] + top[2][i + 1:]
            vals = list(v[1])
            if top[2][i][0] is not None:
                vals.pop(nf_index.index(i))
            nt = ["struct", top[1], fs]
            if t[0] == "delim":
                nt = ["delim", nt, t[2]]
            yield mk_case(nt, ["T", vals], hdr)
    # 3. smaller values
    for y in shrink_value(t, v):
        yield mk_case(t, y, hdr)


LEVEL_TEXT = ("Machine-checked theorems (Coq, closed under the global context) about an executable model of _serdes.py (byte-buffer writer with "
              "aligned fast path and bit-wise slow path, offset/limit reader with zero extension, primitive/array/composite codecs): the model "
              "refines a bit-list specification of the wire format, round-trips, produces lengths in the bit length set, clamps/wraps as the "
              "cast mode says and fills defaults. The model is tied to /repo by comparing, inside Coq, the implementation's bytes and decoded "
              "values on generated (type, value) pairs with the model's.")
LEVEL_NOTE = ("Trusted: Coq kernel + vm_compute; the hand-written model corresponds to _serdes.py only as far as the sampled correspondence shows; "
              "float rounding of struct.pack and the UTF-8 codec are modelled and compared bit-exactly, not verified against IEEE 754 / Unicode texts.")
TECHNIQUE = "Coq proof by structural induction over the type AST + refinement of byte-buffer writer/reader to bit lists; vm_compute correspondence"
