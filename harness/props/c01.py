"""C01 - bit length set algebra: generator, implementation runner, emitter."""
import math
import gallina as G

ID = "C01"
PROPS_FILE = "Props/C01.v"
COQ_IMPORTS = "From PV Require Import Util.ListSet BLS.Model Check.C01."
CASE_TYPE = "C01.case"
CHECK_FN = "C01.check_case"
SHARD = 150
RULE = ("a case is a history over one random operator tree built through the public BitLengthSet API (+, radd, |, ror, concatenate, "
        "unite, repeat, repeat_range, pad_to_alignment; raw ints/sets as operands): every node is a live object that is queried "
        "(min, max, fixed_length, % d, is_aligned_at, is_aligned_at_byte, iteration, len) before and after its parents are built "
        "and queried; non-trivial = the tree has >= 2 operators and at least one query is a residue/alignment/expansion query "
        "with d >= 2; distinct = by hash of the canonical case")
THEOREMS_NOTE = "C01_min/C01_max/C01_fixed/C01_mod/C01_aligned/C01_expand fix the only admissible value; C01_fast_* tie the evaluators to the model"
TRUSTED = ["CPython int arithmetic, set, itertools and math.lcm are exercised through the implementation only"]
ASSUMPTIONS = ["queries whose predicted enumeration cost in the implementation exceeds the tier budget are not generated (cost guard)"]
EXPLANATION = ("theorems quantify over all trees/counts/divisors; the correspondence compares the implementation's analytic answers "
               "with the proven model on generated histories including counts up to 2**63")

# ----------------------------------------------------------------------------------------------------------------
# tree utilities (shared by generator, runner and emitter)


def children(n):
    o = n["o"]
    if o == "leaf":
        return []
    if o in ("pad", "rep", "rrep"):
        return [n["c"]]
    return n["cs"]


def postorder(n, out=None):
    if out is None:
        out = []
    for c in children(n):
        postorder(c, out)
    out.append(n)
    return out


def emit_op(n):
    o = n["o"]
    if o == "leaf":
        return "(Leaf %s)" % G.zlist(n["v"])
    if o == "pad":
        return "(Pad %s %s)" % (emit_op(n["c"]), G.z(n["a"]))
    if o == "rep":
        return "(Rep %s %s)" % (emit_op(n["c"]), G.z(n["k"]))
    if o == "rrep":
        return "(RRep %s %s)" % (emit_op(n["c"]), G.z(n["k"]))
    if o == "cat":
        return "(Cat %s)" % G.lst([emit_op(c) for c in n["cs"]])
    if o == "uni":
        return "(Uni %s)" % G.lst([emit_op(c) for c in n["cs"]])
    raise ValueError(o)


# ----------------------------------------------------------------------------------------------------------------
# cost prediction (only decides which queries are generated; never part of a verdict)


def _comb(n, k):
    return math.comb(n, k) if n >= k >= 0 else 0


def ref_mod(n, d, cost):
    """Reference residues with iterated sumsets; accumulates the implementation's enumeration count in cost[0]
    and the model's evaluation cost in cost[1]."""
    o = n["o"]
    if o == "leaf":
        cost[0] += len(n["v"])
        return {x % d for x in n["v"]}
    if o == "pad":
        a = n["a"]
        L = a * d // math.gcd(a, d)
        s = ref_mod(n["c"], L, cost)
        cost[0] += len(s)
        cost[1] += len(s) * d
        return {(((x + a - 1) // a) * a) % d for x in s}
    if o == "cat":
        acc = {0}
        prod = 1
        for c in n["cs"]:
            s = ref_mod(c, d, cost)
            prod *= len(s)
            cost[1] += len(acc) * len(s) * d
            if cost[0] + prod > 10 ** 9:
                cost[0] = 10 ** 12
                return {0}
            acc = {(x + y) % d for x in acc for y in s}
        cost[0] += prod
        return acc
    if o in ("rep", "rrep"):
        s = ref_mod(n["c"], d, cost)
        k = n["k"]
        ke = min(k, d + k % d)
        if o == "rrep":
            cost[0] += _comb(len(s) + ke, ke)
            s = s | {0}
        else:
            cost[0] += _comb(len(s) + ke - 1, ke)
        cost[1] += ke * d * len(s) * d // 2
        if cost[0] > 10 ** 9 or cost[1] > 10 ** 10:
            cost[0] = 10 ** 12
            return {0}
        acc = {0}
        for _ in range(ke):
            acc = {(x + y) % d for x in acc for y in s}
        return acc
    if o == "uni":
        acc = set()
        for c in n["cs"]:
            acc |= ref_mod(c, d, cost)
        return acc
    raise ValueError(o)


def ref_expand(n, cap, cost):
    """Reference expansion; returns None when any intermediate set exceeds cap."""
    o = n["o"]
    if o == "leaf":
        return set(n["v"])
    if o == "pad":
        s = ref_expand(n["c"], cap, cost)
        a = n["a"]
        return None if s is None else {((x + a - 1) // a) * a for x in s}
    if o == "cat":
        acc = {0}
        prod = 1
        for c in n["cs"]:
            s = ref_expand(c, cap, cost)
            if s is None:
                return None
            prod *= len(s)
            acc = {x + y for x in acc for y in s}
            if len(acc) > cap or prod > 50 * cap:
                return None
        cost[0] += prod
        return acc
    if o in ("rep", "rrep"):
        s = ref_expand(n["c"], cap, cost)
        if s is None:
            return None
        k = n["k"]
        if k > 64:
            return None
        if o == "rrep":
            cost[0] += _comb(len(s) + k, k)
            s = s | {0}
        else:
            cost[0] += _comb(len(s) + k - 1, k)
        if cost[0] > 50 * cap:
            return None
        acc = {0}
        for _ in range(k):
            acc = {x + y for x in acc for y in s}
            if len(acc) > cap:
                return None
        return acc
    if o == "uni":
        acc = set()
        for c in n["cs"]:
            s = ref_expand(c, cap, cost)
            if s is None:
                return None
            acc |= s
        return acc
    raise ValueError(o)


# ----------------------------------------------------------------------------------------------------------------
# generator

ALIGNS = [1, 2, 3, 4, 5, 7, 8, 16, 32, 64]
DIVS = list(range(1, 65)) + [96, 12, 24, 40, 6, 8, 8, 16, 32, 64, 32]


def gen_leaf(rng, raw_ok):
    kind = rng.random()
    n = rng.choice([1, 1, 2, 3, 4])
    if kind < 0.5:
        vs = [rng.randrange(0, 70) for _ in range(n)]
    elif kind < 0.8:
        vs = [rng.choice([0, 8, 16, 24, 32, 64, 1, 7, 9, 2 ** 16, 2 ** 16 - 1, 255, 256]) for _ in range(n)]
    else:
        vs = [rng.randrange(0, 2 ** 16 + 1) for _ in range(n)]
    vs = sorted(set(vs))
    how = "set"
    if len(vs) == 1 and rng.random() < 0.5:
        how = "int"
    elif rng.random() < 0.3:
        how = "list"
    return {"o": "leaf", "v": vs, "how": how, "raw": bool(raw_ok and rng.random() < 0.3)}


def gen_count(rng, d0):
    c = rng.random()
    if c < 0.45:
        return rng.choice([0, 1, 2, 3, max(d0 - 1, 0), d0, d0 + 1, 2 * d0 - 1, 2 * d0, 2 * d0 + 1, 3 * d0])
    if c < 0.7:
        return rng.choice([255, 256, 257, 65535, 65536, 2 ** 32 - 1, 2 ** 32, 2 ** 63, 2 ** 63 - 1, 2 ** 64])
    if c < 0.9:
        return rng.randrange(0, 200)
    return rng.randrange(0, 2 ** 63)


def gen_tree(rng, depth, d0, raw_ok=False):
    if depth <= 0 or rng.random() < 0.18:
        return gen_leaf(rng, raw_ok)
    o = rng.choice(["pad", "cat", "cat", "rep", "rrep", "rrep", "uni"])
    if o == "pad":
        return {"o": "pad", "c": gen_tree(rng, depth - 1, d0), "a": rng.choice(ALIGNS)}
    if o in ("rep", "rrep"):
        return {"o": o, "c": gen_tree(rng, depth - 1, d0), "k": gen_count(rng, d0)}
    n = rng.choice([2, 2, 2, 3, 1, 4])
    how = rng.choice(["static", "op", "rop", "iop", "gen", "iter"]) if n == 2 else rng.choice(["static", "static", "gen", "iter", "map"])
    cs = []
    for i in range(n):
        # with the operator forms one side may be a raw int / set; with the static forms any element may be raw
        raw = (how in ("static", "gen", "iter", "map")) or (how in ("op", "iop") and i == 1) or (how == "rop" and i == 0)
        cs.append(gen_tree(rng, depth - 1, d0, raw_ok=raw))
    if how == "rop" and not cs[0].get("raw"):
        how = "op"
    if n >= 2 and rng.random() < 0.25:
        # a sibling that is indistinguishable from its neighbour for the approximate BitLengthSet equality
        # (same min, max, residues modulo 32) but denotes a different set
        tw = approx_twin(rng, cs[0])
        if tw is not None:
            cs[1] = tw
    return {"o": o, "cs": cs, "how": how}


def approx_twin(rng, n):
    import copy

    t = copy.deepcopy(n)
    leaves = [x for x in postorder(t) if x["o"] == "leaf" and len(x["v"]) >= 3]
    if leaves:
        lf = rng.choice(leaves)
        j = rng.randrange(1, len(lf["v"]) - 1)
        for delta in (32, 64, -32, 96):
            nv = lf["v"][j] + delta
            if lf["v"][0] < nv < lf["v"][-1] and nv not in lf["v"]:
                lf["v"] = sorted(lf["v"][:j] + [nv] + lf["v"][j + 1:])
                t["raw"] = False
                return t
    if n["o"] == "leaf" and len(n["v"]) >= 2 and n["v"][-1] - n["v"][0] > 64:
        mid = n["v"][0] + 32 * rng.randrange(1, (n["v"][-1] - n["v"][0]) // 32 + 1)
        if n["v"][0] < mid < n["v"][-1] and mid not in n["v"]:
            t["v"] = sorted(n["v"] + [mid])
            base = dict(n, v=sorted(n["v"] + [mid + 32 if mid + 32 < n["v"][-1] else mid - 32]))
            if len(set(base["v"])) == len(t["v"]) and base["v"][0] == t["v"][0] and base["v"][-1] == t["v"][-1]:
                t["raw"] = False
                return t
    return None


def gen_case(rng, tier):
    depth = rng.choice([1, 2, 2, 3, 3, 4] if tier == "quick" else [2, 3, 3, 4, 4, 5, 6])
    d0 = rng.choice(DIVS)
    tree = gen_tree(rng, depth, d0)
    tree["raw"] = False
    nodes = postorder(tree)
    budget = 1.5e5 if tier == "quick" else 6e5
    mbudget = 1.5e7 if tier == "quick" else 6e7
    queries = []
    spent = [0, 0]
    live = [i for i, n in enumerate(nodes) if not n.get("raw")]
    divs = [d0] + [rng.choice(DIVS) for _ in range(2)]
    nq = rng.randrange(3, 9)
    for _ in range(nq):
        i = rng.choice(live) if rng.random() < 0.5 else len(nodes) - 1
        r = rng.random()
        early = rng.random() < 0.3
        if r < 0.12:
            q = ["min"]
        elif r < 0.24:
            q = ["max"]
        elif r < 0.3:
            q = ["fixed"]
        elif r < 0.36:
            q = ["aligned_byte"]
        elif r < 0.92:
            d = rng.choice(divs)
            q = ["mod", d] if rng.random() < 0.75 else ["aligned", d]
        else:
            q = [rng.choice(["exp", "len"])]
        # cost guard
        if q[0] in ("mod", "aligned", "aligned_byte"):
            d = 8 if q[0] == "aligned_byte" else q[1]
            c = [0, 0]
            ref_mod(nodes[i], d, c)
            if spent[0] + c[0] > budget or spent[1] + c[1] > mbudget:
                continue
            spent[0] += c[0]
            spent[1] += c[1]
        elif q[0] in ("exp", "len"):
            c = [0, 0]
            s = ref_expand(nodes[i], 1500, c)
            if s is None:
                continue
            # expansion triggers validate_numerically: residues for every divisor 1..64 on every node of the subtree
            tot = [c[0], 0]
            for sub in postorder(nodes[i]):
                for d in range(1, 65):
                    ref_mod(sub, d, tot)
                    if tot[0] > budget or tot[1] > mbudget:
                        break
            if spent[0] + tot[0] > budget or spent[1] + tot[1] > mbudget:
                continue
            spent[0] += tot[0]
            spent[1] += tot[1]
        queries.append([i, q, early])
    # finally re-query the operands (they must be unchanged by building and querying the composites)
    for i in live[:-1]:
        if rng.random() < 0.35:
            queries.append([i, ["min"] if rng.random() < 0.5 else ["max"], False])
    case = {"tree": tree, "queries": queries}
    # several composites derived from ONE live operand object (a type object is shared by all its users): fixed and range
    # repetition with the same count, two paddings, self-concatenation; afterwards the operand is queried again
    if rng.random() < 0.35:
        i = rng.choice(live)
        n = rng.choice([0, 1, 2, 3, d0, 2 ** 40])
        pool = [{"base": i, "o": "rep", "k": n}, {"base": i, "o": "rrep", "k": n}, {"base": i, "o": "pad", "a": rng.choice(ALIGNS)},
                {"base": i, "o": "pad", "a": rng.choice(ALIGNS)}, {"base": i, "o": "cat"}, {"base": i, "o": "uni", "v": rng.randrange(0, 70)}]
        rng.shuffle(pool)
        extras = []
        for ex in pool[:rng.choice([2, 3, 4])]:
            qs = []
            for q in (["min"], ["max"], ["mod", rng.choice(divs)], ["fixed"]):
                if q[0] == "mod":
                    c = [0, 0]
                    ref_mod(extra_op(nodes, ex), q[1], c)
                    if spent[0] + c[0] > budget or spent[1] + c[1] > mbudget:
                        continue
                    spent[0] += c[0]
                    spent[1] += c[1]
                qs.append(q)
            ex["queries"] = qs
            extras.append(ex)
        case["extras"] = extras
        case["requery"] = [[i, ["min"]], [i, ["max"]]]
    return case


def corpus():
    """Hand-written boundary cases: always first."""
    out = []
    leaf13 = {"o": "leaf", "v": [1, 3], "how": "set", "raw": False}
    for k in [0, 1, 2, 3, 4, 5, 7, 8, 2 ** 63, 2 ** 63 + 1]:
        for o in ("rep", "rrep"):
            t = {"o": o, "c": dict(leaf13), "k": k, "raw": False}
            out.append({"tree": t, "queries": [[1, ["mod", d], False] for d in (1, 2, 3, 4, 8)] + [[1, ["min"], False], [1, ["max"], False]]})
    # the docstring example of BitLengthSet
    inner = {"o": "cat", "how": "op", "cs": [{"o": "leaf", "v": [16], "how": "int", "raw": False},
                                              {"o": "rrep", "k": 256, "c": {"o": "leaf", "v": [8], "how": "int", "raw": False}}]}
    outer = {"o": "cat", "how": "op", "raw": False, "cs": [{"o": "leaf", "v": [32], "how": "int", "raw": False}, {"o": "rrep", "k": 65536, "c": inner}]}
    n = len(postorder(outer)) - 1
    out.append({"tree": outer, "queries": [[n, ["min"], False], [n, ["max"], False], [n, ["mod", 16], False], [n, ["mod", 32], False], [n, ["aligned_byte"], False]]})
    # padding with co-prime alignment and divisor
    for a, d in [(3, 8), (8, 3), (7, 5), (64, 96), (5, 64)]:
        t = {"o": "pad", "a": a, "raw": False, "c": {"o": "rrep", "k": 2 ** 32, "c": {"o": "leaf", "v": [1, 6], "how": "set", "raw": False}}}
        out.append({"tree": t, "queries": [[2, ["mod", d], False], [2, ["aligned", a], False], [1, ["mod", d], False]]})
    # operands that collide under the approximate BitLengthSet equality (min, max, residues modulo 32) but differ as sets
    def lf(vs):
        return {"o": "leaf", "v": vs, "how": "set", "raw": False}
    for a, b in [([0, 8, 64], [0, 40, 64]), ([0, 32, 128], [0, 64, 128]), ([1, 2, 70], [1, 34, 70])]:
        for how in ("static", "op", "rop"):
            for o in ("uni", "cat"):
                t = {"o": o, "cs": [lf(a), lf(b)], "how": how, "raw": False}
                out.append({"tree": t, "queries": [[2, ["mod", 64], False], [2, ["exp"], False], [2, ["len"], False], [2, ["mod", 96], False], [0, ["exp"], False], [1, ["exp"], False]]})
    # one operand object, fixed and range repetition with the same count (both orders)
    for first, second in (("rep", "rrep"), ("rrep", "rep")):
        out.append({"tree": lf([8]), "queries": [], "extras": [{"base": 0, "o": first, "k": 3, "queries": [["min"], ["max"], ["mod", 16], ["fixed"]]},
                                                                  {"base": 0, "o": second, "k": 3, "queries": [["min"], ["max"], ["mod", 16], ["fixed"]]}], "requery": [[0, ["max"]]]})
    for how in ("gen", "iter", "map"):
        t = {"o": "cat", "how": how, "raw": False, "cs": [dict(lf([8]), how="int", raw=True), dict(lf([0, 8]), raw=True), dict(lf([16]), how="int", raw=True), lf([0, 8, 16, 24])]}
        out.append({"tree": t, "queries": [[4, ["min"], False], [4, ["max"], False], [4, ["exp"], False], [4, ["mod", 8], False]]})
    # augmented assignment must not change the aliased left operand
    for o in ("cat", "uni"):
        t = {"o": o, "how": "iop", "raw": False, "cs": [lf([8, 16, 24]), lf([32])]}
        out.append({"tree": t, "queries": [[2, ["min"], False], [2, ["exp"], False], [0, ["min"], False], [0, ["max"], False], [0, ["exp"], False], [0, ["mod", 8], False]]})
    # many distinct residues that lie in one coset of a subgroup (all odd, or all = 4 mod 8) and a multiset count in the
    # millions: every further copy shifts the coset, so a shortcut that stops when the cardinality stops growing is wrong
    # (cost: about 3 s each on the implementation side, deliberately above the random cases' budget)
    for vs, k, d in [(list(range(1, 32, 2)), 10, 32), (list(range(4, 64, 8)), 22, 64), (list(range(1, 16, 2)), 2 ** 63 + 6, 16)]:
        t = {"o": "rep", "c": lf(vs), "k": k, "raw": False}
        out.append({"tree": t, "queries": [[1, ["mod", d], False], [1, ["mod", 2], False], [1, ["aligned", 2], False]]})
    big = {"o": "uni", "how": "op", "raw": False, "cs": [{"o": "rrep", "k": 2 ** 62, "c": lf([64])}, {"o": "rrep", "k": 2 ** 63, "c": lf([32])}]}
    out.append({"tree": big, "queries": [[4, ["aligned", 64], False], [4, ["mod", 64], False], [4, ["max"], False], [1, ["aligned", 64], False], [3, ["aligned", 64], False]]})
    return out


def generate(rng, tier):
    cases = corpus()
    streams = ["corpus"] * len(cases)
    n = 1200 if tier == "quick" else 20000
    for _ in range(n):
        cases.append(gen_case(rng, tier))
        streams.append("random")
    return cases, streams


# ----------------------------------------------------------------------------------------------------------------
# implementation side


def run_impl(cases):
    from pydsdl import BitLengthSet

    def raw_value(n):
        if n["how"] == "int":
            return n["v"][0]
        if n["how"] == "list":
            return list(n["v"])
        return set(n["v"])

    def answer(b, q):
        k = q[0]
        if k == "min":
            return b.min
        if k == "max":
            return b.max
        if k == "fixed":
            return bool(b.fixed_length)
        if k == "mod":
            return sorted(b % q[1])
        if k == "aligned":
            return bool(b.is_aligned_at(q[1]))
        if k == "aligned_byte":
            return bool(b.is_aligned_at_byte())
        if k == "exp":
            return sorted(b)
        if k == "len":
            return len(b)
        raise ValueError(k)

    import rt

    def one(case):
        return _one_case(case, BitLengthSet, raw_value, answer)

    out = []
    for case in cases:
        try:
            out.append(rt.with_alarm(30, one, case))
        except rt.CaseTimeout:
            out.append({"error": "Timeout", "text": "the case did not finish within 30 s (predicted cost is below a second)"})
    return out


def _one_case(case, BitLengthSet, raw_value, answer):
    out = []
    if True:
        nodes = postorder(case["tree"])
        ids = {id(n): i for i, n in enumerate(nodes)}
        early = {}
        for (i, q, e) in case["queries"]:
            if e:
                early.setdefault(i, []).append(q)
        objs = {}
        answers = {}  # node index -> list of [query, answer] in execution order
        try:
            for i, n in enumerate(nodes):
                o = n["o"]
                if o == "leaf":
                    v = raw_value(n) if n.get("raw") else BitLengthSet(raw_value(n))
                elif o == "pad":
                    v = objs[ids[id(n["c"])]].pad_to_alignment(n["a"])
                elif o == "rep":
                    v = objs[ids[id(n["c"])]].repeat(n["k"])
                elif o == "rrep":
                    v = objs[ids[id(n["c"])]].repeat_range(n["k"])
                else:
                    ops = [objs[ids[id(c)]] for c in n["cs"]]
                    how = n.get("how", "static")
                    if how in ("gen", "iter", "map"):
                        # the argument is documented as any Iterable: one-shot iterators included
                        arg = (x for x in ops) if how == "gen" else iter(list(ops)) if how == "iter" else map(lambda x: x, ops)
                        v = BitLengthSet.concatenate(arg) if o == "cat" else BitLengthSet.unite(arg)
                    elif how == "static" or len(ops) != 2:
                        v = BitLengthSet.concatenate(ops) if o == "cat" else BitLengthSet.unite(ops)
                    elif how == "iop" and isinstance(ops[0], BitLengthSet):
                        # augmented assignment on an alias of the left operand: the operand itself must stay what it was
                        v = ops[0]
                        if o == "cat":
                            v += ops[1]
                        else:
                            v |= ops[1]
                    else:  # "op": BitLengthSet on the left; "rop": raw on the left, BitLengthSet on the right
                        if not isinstance(ops[0], BitLengthSet) and not isinstance(ops[1], BitLengthSet):
                            ops[1] = BitLengthSet(ops[1])
                        v = (ops[0] + ops[1]) if o == "cat" else (ops[0] | ops[1])
                objs[i] = v
                for q in early.get(i, []):
                    answers.setdefault(i, []).append([q, answer(v, q)])
            for (i, q, e) in case["queries"]:
                if not e:
                    answers.setdefault(i, []).append([q, answer(objs[i], q)])
            extras = []
            for ex in case.get("extras", []):
                base = objs[ex["base"]]
                if ex["o"] == "rep":
                    v = base.repeat(ex["k"])
                elif ex["o"] == "rrep":
                    v = base.repeat_range(ex["k"])
                elif ex["o"] == "pad":
                    v = base.pad_to_alignment(ex["a"])
                elif ex["o"] == "cat":
                    v = base + base
                else:
                    v = base | ex["v"]
                extras.append([[q, answer(v, q)] for q in ex["queries"]])
            for (i, q) in case.get("requery", []):
                answers.setdefault(i, []).append([q, answer(objs[i], q)])
            out.append({"answers": {str(k): v for k, v in answers.items()}, "extras": extras})
        except Exception as ex:  # pylint: disable=broad-except
            out.append({"error": type(ex).__name__, "text": str(ex)[:200]})
    return out[0]


# ----------------------------------------------------------------------------------------------------------------
# emission


def emit_q(q, a):
    k = q[0]
    if k == "min":
        return "(YMin, BInt %s)" % G.z(a)
    if k == "max":
        return "(YMax, BInt %s)" % G.z(a)
    if k == "fixed":
        return "(YFixed, BBool %s)" % G.b(a)
    if k == "mod":
        return "(YMod %s, BSet %s)" % (G.z(q[1]), G.zlist(a))
    if k == "aligned":
        return "(YAligned %s, BBool %s)" % (G.z(q[1]), G.b(a))
    if k == "aligned_byte":
        return "(YAligned 8, BBool %s)" % G.b(a)
    if k == "exp":
        return "(YExp, BSet %s)" % G.zlist(a)
    if k == "len":
        return "(YLen, BInt %s)" % G.z(a)
    raise ValueError(k)


def emit(case, obs):
    nodes = postorder(case["tree"])
    if "error" in obs:
        # the implementation raised on a well-formed history: emit a node check that cannot succeed
        return "[(%s, [(YMin, BBool false)])]" % emit_op(case["tree"])
    parts = []
    for k, qa in sorted(obs["answers"].items(), key=lambda kv: int(kv[0])):
        parts.append("(%s, %s)" % (emit_op(nodes[int(k)]), G.lst([emit_q(q, a) for q, a in qa])))
    for ex, qa in zip(case.get("extras", []), obs.get("extras", [])):
        parts.append("(%s, %s)" % (emit_op(extra_op(nodes, ex)), G.lst([emit_q(q, a) for q, a in qa])))
    return G.lst(parts)


def extra_op(nodes, ex):
    b = nodes[ex["base"]]
    if ex["o"] in ("rep", "rrep"):
        return {"o": ex["o"], "c": b, "k": ex["k"]}
    if ex["o"] == "pad":
        return {"o": "pad", "c": b, "a": ex["a"]}
    if ex["o"] == "cat":
        return {"o": "cat", "cs": [b, b]}
    return {"o": "uni", "cs": [b, {"o": "leaf", "v": [ex["v"]], "how": "int", "raw": False}]}


def model_eval(case, obs):
    return ("Eval vm_compute in (map (fun n => (omin (fst n), omax (fst n), map (fun qo => match fst qo with C01.YMod d | C01.YAligned d => omodf (fst n) d "
            "| C01.YExp | C01.YLen => oexpandf (fst n) | _ => [] end) (snd n))) (List.concat cases)).\n")


def nontrivial(case, obs):
    nodes = postorder(case["tree"])
    ops = sum(1 for n in nodes if n["o"] != "leaf")
    deep = any(q[0] in ("exp", "len") or (q[0] in ("mod", "aligned") and q[1] >= 2) or q[0] == "aligned_byte" for _, q, _ in case["queries"])
    return ops >= 2 and deep


def describe(case, obs):
    nodes = postorder(case["tree"])
    keys = ["nodes=%d" % min(len(nodes), 12)]
    for n in nodes:
        if n["o"] in ("rep", "rrep"):
            k = n["k"]
            keys.append("count:" + ("0-3" if k <= 3 else "<=200" if k <= 200 else "<=2^32" if k <= 2 ** 32 else ">2^32"))
    for _, q, e in case["queries"]:
        keys.append("q:" + q[0] + (":early" if e else ""))
    if "error" in obs:
        keys.append("impl-error:" + obs["error"])
    return keys


def shrink(case):
    nodes = postorder(case["tree"])
    # 1. one query on its own subtree
    if len(case["queries"]) > 1 or case["queries"] and case["queries"][0][0] != len(nodes) - 1:
        for (i, q, e) in case["queries"]:
            sub = dict(nodes[i])
            sub["raw"] = False
            yield {"tree": sub, "queries": [[len(postorder(sub)) - 1, q, False]]}
        return
    if not case["queries"]:
        return
    q = case["queries"][0][1]

    def rebuilt(t):
        t = dict(t)
        t["raw"] = False
        return {"tree": t, "queries": [[len(postorder(t)) - 1, q, False]]}

    def variants(n):
        """smaller versions of node n"""
        o = n["o"]
        if o == "leaf":
            if len(n["v"]) > 1:
                for j in range(len(n["v"])):
                    yield dict(n, v=n["v"][:j] + n["v"][j + 1:], how="set" if n["how"] == "int" else n["how"])
            for j, v in enumerate(n["v"]):
                if v > 1:
                    yield dict(n, v=sorted(set(n["v"][:j] + [v // 2] + n["v"][j + 1:])))
            return
        for c in children(n):
            yield dict(c, raw=False) if True else c
        if o in ("rep", "rrep"):
            k = n["k"]
            for k2 in (k // 2, k - 1):
                if 0 <= k2 < k:
                    yield dict(n, k=k2)
            for c2 in variants(n["c"]):
                yield dict(n, c=c2)
        elif o == "pad":
            if n["a"] > 1:
                yield dict(n, a=n["a"] // 2)
            for c2 in variants(n["c"]):
                yield dict(n, c=c2)
        else:
            cs = n["cs"]
            if len(cs) > 1:
                for j in range(len(cs)):
                    yield dict(n, cs=cs[:j] + cs[j + 1:], how="static")
            for j, c in enumerate(cs):
                for c2 in variants(c):
                    yield dict(n, cs=cs[:j] + [c2] + cs[j + 1:])

    for v in variants(case["tree"]):
        yield rebuilt(v)

LEVEL_TEXT = ("Machine-checked theorems (Coq, closed under the global context) state that the model's min/max/fixed/residues/alignment/expansion "
              "are exactly those of the mathematically defined set for every operator tree, every count k >= 0 and every divisor d >= 1 "
              "(the k -> min(k, d + k mod d) reduction is proved by a chain-stabilisation argument in Z/d, the lcm step of padding by "
              "arithmetic), and that memoisation is transparent for every query history. The model is tied to /repo by comparing, inside Coq, "
              "the implementation's answers on generated API histories (counts up to 2**64) with the model's values.")
LEVEL_NOTE = ("Trusted: Coq kernel + vm_compute; the hand-written model corresponds to _symbolic.py/_bit_length_set.py only as far as the sampled "
              "correspondence shows; object sharing between Python sets is exercised by history-shaped cases, not modelled.")
TECHNIQUE = "Coq proof by structural induction over operator trees + sumset chain stabilisation; vm_compute correspondence"
